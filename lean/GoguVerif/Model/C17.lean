/-!
# Model of `Memoizer.Memoize` (`memoize.go`) over the cache cell of `cache/cache.go`

```go
func (m Memoizer[T, V]) Memoize(key T, fn func() (*cache.Item[V], error)) (*cache.Item[V], error) {
	item, _ := m.Cache.Get(key)                       // cacheCheck
	if item != nil { return item, nil }               //   hit ⇒ return
	data, err, _ := m.group.Do(string(key), func() (any, error) {   // doEnter: join the in-flight call or lead
		if item, _ := m.Cache.Get(key); item != nil { return item, nil }   // the leader's re-check: leadHit (live value ⇒
		                                              //   no execution, straight to doFinish) / otherwise:
		item, err := fn()                             // fnStart … fnEnd (value or error from the environment)
		if err == nil { m.Cache.SetDefault(key, item.Val()) }       // cacheSet (only on success)
		return item, err
	})                                                // doFinish (leader publishes, leaves the group) / wake (joiner)
	return data.(*cache.Item[V]), err
}
```

The leader's re-check (`Cache.Get` inside the `Do` closure) and the start of the supplied function are ONE
step of the LTS: a caller at `pc = leader` reads the cache cell of its key at the current instant; on a
live value `v` only `leadHit` is enabled (no execution: the caller goes straight to `setDone (.ok v)`, from
where `doFinish` publishes `.ok v`), on a miss only `fnStart` is enabled (the function starts).  This
atomicity loses nothing: between the re-check and the call of `fn` no time passes, and the only caller
that can write the cell of the key meanwhile is the leader of the key's flight — the caller itself.

Two layers:
* `memoizeSeq` — one call with nobody else around (what the sequential part of the correspondence
  compares exactly with the implementation);
* the protocol LTS `step` — any number of callers (= call instances, numbered by `Nat`), any number of
  keys, interleaved at the granularity of the statements above; `singleflight.Group.Do`'s contract
  (atomic join-or-lead under the group mutex; the leader publishes its result and leaves the group in
  one critical section) is the assumed semantics of `doEnter` / `doFinish` / `wake`.

A nil item returned without error is the value `0` (`(*Item)(nil).Val()` is the zero value, which is
what gets cached).  Core Lean only.
-/
namespace GoguVerif.Model.C17

/-- what the supplied function returns -/
inductive Res where
  | ok  : Int → Res
  | err : Res
deriving DecidableEq, Repr, Inhabited

/-! ## the cache cell of one key (as in `cache/cache.go`) -/

abbrev Cell := Option (Int × Int)          -- (object, expiration)

/-- `Cache.Get(key)`: `none` = error (absent or expired; expired iff `exp > 0 ∧ now > exp`) -/
def cellGet (now : Int) (c : Cell) : Option Int :=
  match c with
  | none => none
  | some (v, exp) => if exp > 0 then (if now > exp then none else some v) else some v

/-- expiration computed by `store` for `d = DefaultExpiration` -/
def defaultExp (expTime now : Int) : Int :=
  if expTime > 0 then now + expTime else if expTime < 0 then -1 else 0

/-- `Cache.SetDefault(key, v)` = `Set(key, v, DefaultExpiration)`: refused while a live entry exists -/
def cellSet (expTime now : Int) (c : Cell) (v : Int) : Cell :=
  match c with
  | some (_, exp) => if exp ≤ 0 || now ≤ exp then c else some (v, defaultExp expTime now)
  | none => some (v, defaultExp expTime now)

/-! ## one call with nobody else around -/

structure SeqOut where
  cell : Cell
  res  : Res
  ran  : Bool      -- the supplied function was invoked
  now  : Int       -- the instant at which the call returns
deriving DecidableEq, Repr

/-- `Memoize(key, fn)` at instant `now`, where `fn` takes `lat` and returns `r`.

The leader's re-check of the cache inside the `Do` closure does not show here: with nobody else around it
happens at the same instant and on the same cell as the first lookup, so it misses exactly when the first
lookup missed (`Theorems/C17.lean: lts_seq_miss` runs `seqScript`, whose `fnStart` step IS that re-check
missing). -/
def memoizeSeq (expTime now lat : Int) (cell : Cell) (r : Res) : SeqOut :=
  match cellGet now cell with
  | some v => { cell := cell, res := .ok v, ran := false, now := now }      -- item != nil ⇒ return item
  | none =>
    let now' := now + lat                                                     -- fn() runs
    match r with
    | .ok v => { cell := cellSet expTime now' cell v, res := .ok v, ran := true, now := now' }
    | .err  => { cell := cell, res := .err, ran := true, now := now' }

/-! ## the protocol LTS -/

/-- where a caller is inside `Memoize` -/
inductive PC where
  | idle                    -- not yet invoked
  | start                   -- invoked, before `Cache.Get`
  | missed                  -- `Cache.Get` found nothing live, before `group.Do`
  | waiting (l : Nat)       -- inside `Do`, joined the call led by `l` (`c.wg.Wait()`)
  | leader                  -- inside `Do`, registered as the call of its key, before `fn()`
  | running                 -- inside `fn()`
  | ran (r : Res)           -- `fn()` returned `r`, before `SetDefault`
  | setDone (r : Res)       -- after the (conditional) `SetDefault`, before `doCall`'s deferred publish
  | done (r : Res)          -- returned `r`
deriving DecidableEq, Repr, Inhabited

/-- where a caller's result comes from (ghost) -/
inductive Src where
  | hit (v : Int)           -- the value read from the cache by `cacheCheck`
  | exec (l : Nat)          -- the execution led by caller `l` (possibly the caller itself)
  | lhit (l : Nat) (v : Int) -- the value read from the cache by the leader `l` of the caller's flight at its
                            -- re-check inside `Do` (`leadHit`; `l` is possibly the caller itself): no execution
deriving DecidableEq, Repr

structure Cfg where
  expTime : Int             -- the Memoizer's default expiration
  key : Nat → Nat           -- the key each caller passes

structure State where
  now    : Int
  pc     : Nat → PC
  cache  : Nat → Cell                 -- per key
  flight : Nat → Option Nat           -- singleflight's map: key ↦ leader of the call in flight
  result : Nat → Option Res           -- `c.val, c.err` published by the leader (indexed by leader)
  -- ghost components: written, never read by a guard (`wake` copies the leader's `src` into the joiner's `src`:
  -- ghost to ghost, see `wakeSrc`)
  inflight : Nat → Nat                -- per key: executions of the supplied function in progress
  started  : Nat → Bool               -- the caller's own function was invoked
  execRes  : Nat → Option Res         -- what the caller's own function returned
  src      : Nat → Option Src

def upd {α : Type} (f : Nat → α) (a : Nat) (b : α) : Nat → α := fun x => if x = a then b else f x

@[simp] theorem upd_same {α : Type} (f : Nat → α) (a : Nat) (b : α) : upd f a b a = b := by simp [upd]
theorem upd_other {α : Type} (f : Nat → α) (a x : Nat) (b : α) (h : x ≠ a) : upd f a b x = f x := by
  simp [upd, h]

def init (cache : Nat → Cell) (now : Int) : State where
  now := now
  pc := fun _ => .idle
  cache := cache
  flight := fun _ => none
  result := fun _ => none
  inflight := fun _ => 0
  started := fun _ => false
  execRes := fun _ => none
  src := fun _ => none

inductive Label where
  | invoke (c : Nat)
  | cacheCheck (c : Nat)
  | doEnter (c : Nat)
  | leadHit (c : Nat)               -- the leader's re-check finds a live value: no execution
  | fnStart (c : Nat)               -- the leader's re-check finds nothing live: the function starts
  | fnEnd (c : Nat) (r : Res)       -- the result is chosen by the environment
  | cacheSet (c : Nat)
  | doFinish (c : Nat)
  | wake (c : Nat)
  | tick (d : Nat)                  -- time passes
deriving DecidableEq, Repr

/-- the caller a label belongs to (`tick` belongs to nobody) -/
def Label.caller : Label → Option Nat
  | .invoke c | .cacheCheck c | .doEnter c | .leadHit c | .fnStart c | .fnEnd c _ | .cacheSet c | .doFinish c | .wake c => some c
  | .tick _ => none

/-- the ghost source of a joiner that is woken up by leader `l`: if `l`'s re-check hit the cache, the value
`l` read there; otherwise what was recorded when the caller joined (the execution led by `l`) -/
def wakeSrc (s : State) (c l : Nat) : Option Src :=
  match s.src l with
  | some (.lhit _ v) => some (.lhit l v)
  | _ => s.src c

/-- one step; `none` = the label is not enabled -/
def step (cfg : Cfg) (s : State) : Label → Option State
  | .invoke c =>
    match s.pc c with
    | .idle => some { s with pc := upd s.pc c .start }
    | _ => none
  | .cacheCheck c =>
    match s.pc c with
    | .start =>
      match cellGet s.now (s.cache (cfg.key c)) with
      | some v => some { s with pc := upd s.pc c (.done (.ok v)), src := upd s.src c (some (.hit v)) }
      | none => some { s with pc := upd s.pc c .missed }
    | _ => none
  | .doEnter c =>
    match s.pc c with
    | .missed =>
      match s.flight (cfg.key c) with
      | some l => some { s with pc := upd s.pc c (.waiting l), src := upd s.src c (some (.exec l)) }
      | none => some { s with pc := upd s.pc c .leader, flight := upd s.flight (cfg.key c) (some c),
                              src := upd s.src c (some (.exec c)) }
    | _ => none
  -- the leader's step: it first re-reads the cache cell of its key at the current instant …
  | .leadHit c =>
    match s.pc c with
    | .leader =>
      match cellGet s.now (s.cache (cfg.key c)) with
      -- … a live value: the function is NOT started; `doFinish` will publish `.ok v`
      | some v => some { s with pc := upd s.pc c (.setDone (.ok v)), src := upd s.src c (some (.lhit c v)) }
      | none => none
    | _ => none
  | .fnStart c =>
    match s.pc c with
    | .leader =>
      match cellGet s.now (s.cache (cfg.key c)) with
      -- … nothing live: the function starts
      | none => some { s with pc := upd s.pc c .running, started := upd s.started c true,
                              inflight := upd s.inflight (cfg.key c) (s.inflight (cfg.key c) + 1) }
      | some _ => none
    | _ => none
  | .fnEnd c r =>
    match s.pc c with
    | .running => some { s with pc := upd s.pc c (.ran r), execRes := upd s.execRes c (some r),
                                inflight := upd s.inflight (cfg.key c) (s.inflight (cfg.key c) - 1) }
    | _ => none
  | .cacheSet c =>
    match s.pc c with
    | .ran (.ok v) => some { s with pc := upd s.pc c (.setDone (.ok v)),
                                    cache := upd s.cache (cfg.key c) (cellSet cfg.expTime s.now (s.cache (cfg.key c)) v) }
    | .ran .err => some { s with pc := upd s.pc c (.setDone .err) }
    | _ => none
  | .doFinish c =>
    match s.pc c with
    | .setDone r => some { s with pc := upd s.pc c (.done r), result := upd s.result c (some r),
                                  flight := upd s.flight (cfg.key c) none }
    | _ => none
  | .wake c =>
    match s.pc c with
    | .waiting l =>
      match s.result l with
      | some r => some { s with pc := upd s.pc c (.done r), src := upd s.src c (wakeSrc s c l) }
      | none => none
    | _ => none
  | .tick d => some { s with now := s.now + d }

/-- run a script of labels -/
def run (cfg : Cfg) (s : State) : List Label → Option State
  | [] => some s
  | l :: ls => match step cfg s l with
    | some s' => run cfg s' ls
    | none => none

/-- states reachable from an initial state -/
inductive Reachable (cfg : Cfg) (s0 : State) : State → Prop where
  | refl : Reachable cfg s0 s0
  | step {s s' : State} (l : Label) : Reachable cfg s0 s → step cfg s l = some s' → Reachable cfg s0 s'

/-- the script of one call of caller `c` with nobody else around: the function takes `lat` and returns `r`
(`fnStart` is enabled because the leader's re-check, at the instant and on the cell of `cacheCheck`, misses too) -/
def seqScript (c : Nat) (lat : Nat) (r : Res) : List Label :=
  [.invoke c, .cacheCheck c, .doEnter c, .fnStart c, .tick lat, .fnEnd c r, .cacheSet c, .doFinish c]

/-! ## the event log of a run

Every step of a run gets the next sequence number (`0, 1, 2, …`: the order of the steps is the
real-time order of the events).  The log records, per caller, the sequence number of its invocation
(`invoke`), of its return (the step that makes it `done`: a `cacheCheck` that hits, `doFinish`, `wake`),
and, for the caller's own execution of the supplied function, of its start (`fnStart`) and end
(`fnEnd`), together with the instants (`now`) of these events.  What was returned, what the function
returned and where a result came from are the ghost components `pc = done r`, `execRes`, `src` of the
state itself.  The log is pure observation: `step` never reads it. -/

structure EvLog where
  /-- number of steps so far = the sequence number of the next event -/
  n : Nat
  invAt   : Nat → Option Nat
  retAt   : Nat → Option Nat
  startAt : Nat → Option Nat
  endAt   : Nat → Option Nat
  invT    : Nat → Option Int
  retT    : Nat → Option Int
  startT  : Nat → Option Int
  endT    : Nat → Option Int

def EvLog.empty : EvLog :=
  { n := 0, invAt := fun _ => none, retAt := fun _ => none, startAt := fun _ => none, endAt := fun _ => none,
    invT := fun _ => none, retT := fun _ => none, startT := fun _ => none, endT := fun _ => none }

/-- the log after the step labelled `l` taken in state `s` (the step is assumed enabled) -/
def logStep (cfg : Cfg) (s : State) (g : EvLog) : Label → EvLog
  | .invoke c => { g with n := g.n + 1, invAt := upd g.invAt c (some g.n), invT := upd g.invT c (some s.now) }
  | .cacheCheck c =>
    match cellGet s.now (s.cache (cfg.key c)) with
    | some _ => { g with n := g.n + 1, retAt := upd g.retAt c (some g.n), retT := upd g.retT c (some s.now) }
    | none => { g with n := g.n + 1 }
  | .doEnter _ => { g with n := g.n + 1 }
  | .leadHit _ => { g with n := g.n + 1 }        -- no execution: nothing but the step itself is recorded
  | .fnStart c => { g with n := g.n + 1, startAt := upd g.startAt c (some g.n), startT := upd g.startT c (some s.now) }
  | .fnEnd c _ => { g with n := g.n + 1, endAt := upd g.endAt c (some g.n), endT := upd g.endT c (some s.now) }
  | .cacheSet _ => { g with n := g.n + 1 }
  | .doFinish c => { g with n := g.n + 1, retAt := upd g.retAt c (some g.n), retT := upd g.retT c (some s.now) }
  | .wake c => { g with n := g.n + 1, retAt := upd g.retAt c (some g.n), retT := upd g.retT c (some s.now) }
  | .tick _ => { g with n := g.n + 1 }

/-- run a script of labels, keeping the log -/
def runLog (cfg : Cfg) (s : State) (g : EvLog) : List Label → Option (State × EvLog)
  | [] => some (s, g)
  | l :: ls => match step cfg s l with
    | some s' => runLog cfg s' (logStep cfg s g l) ls
    | none => none

/-- (state, log) pairs reachable from the initial state with the empty log -/
inductive ReachableLog (cfg : Cfg) (s0 : State) : State → EvLog → Prop where
  | refl : ReachableLog cfg s0 s0 EvLog.empty
  | step {s s' : State} {g : EvLog} (l : Label) :
      ReachableLog cfg s0 s g → step cfg s l = some s' → ReachableLog cfg s0 s' (logStep cfg s g l)

/-! ## the virtual clock

Under `testing/synctest` time advances only when every goroutine is durably blocked.  In the LTS: a
caller is *blocked* when it has not been invoked yet (it is sleeping until its start instant), is inside
the supplied function (sleeping for the function's latency), waits for a leader that has not published
its result yet, or has returned.  Everywhere else it is running code that takes no (virtual) time. -/

def blocked (s : State) (c : Nat) : Prop :=
  match s.pc c with
  | .idle | .running | .done _ => True
  | .waiting l => s.result l = none
  | _ => False

/-- runs in which `tick` steps are taken only when every caller is blocked -/
inductive ReachableLogP (cfg : Cfg) (s0 : State) : State → EvLog → Prop where
  | refl : ReachableLogP cfg s0 s0 EvLog.empty
  | step {s s' : State} {g : EvLog} (l : Label) :
      ReachableLogP cfg s0 s g → step cfg s l = some s' →
      (∀ d, l = .tick d → ∀ c, blocked s c) → ReachableLogP cfg s0 s' (logStep cfg s g l)

/-! ## the history log (ghost): executions in start order, cache offers in the order they were made

A second observation log, again never read by `step`:
* `order` — the callers whose function was invoked, in the order of their `fnStart` steps (the order in
  which the harness lists executions);
* `sets` — one entry `(leader, value, instant)` per successful `cacheSet` step, in the order of these
  steps: what was offered to the cache, when;
* `readLen c` — how many offers had been made when caller `c` did its `cacheCheck`; for a caller that is
  served the value its flight's leader read at its re-check (`Src.lhit`): how many offers had been made
  when that value was read (the leader: at `leadHit`) resp. handed over (a joiner: at `wake`);
* `maxIn k` — the maximum of key `k`'s in-flight counter so far. -/

structure HLog where
  order   : List Nat
  sets    : List (Nat × Int × Int)
  readLen : Nat → Option Nat
  maxIn   : Nat → Nat

def HLog.empty : HLog :=
  { order := [], sets := [], readLen := fun _ => none, maxIn := fun _ => 0 }

def histStep (cfg : Cfg) (s : State) (h : HLog) : Label → HLog
  | .cacheCheck c => { h with readLen := upd h.readLen c (some h.sets.length) }
  | .leadHit c => { h with readLen := upd h.readLen c (some h.sets.length) }
  | .wake c =>
    match s.pc c with
    | .waiting l =>
      match s.src l with
      | some (.lhit _ _) => { h with readLen := upd h.readLen c (some h.sets.length) }
      | _ => h
    | _ => h
  | .fnStart c =>
    { h with order := h.order ++ [c],
             maxIn := upd h.maxIn (cfg.key c) (max (h.maxIn (cfg.key c)) (s.inflight (cfg.key c) + 1)) }
  | .cacheSet c =>
    match s.pc c with
    | .ran (.ok v) => { h with sets := h.sets ++ [(c, v, s.now)] }
    | _ => h
  | _ => h

/-- runs under the virtual clock, with both logs -/
inductive ReachableH (cfg : Cfg) (s0 : State) : State → EvLog → HLog → Prop where
  | refl : ReachableH cfg s0 s0 EvLog.empty HLog.empty
  | step {s s' : State} {g : EvLog} {h : HLog} (l : Label) :
      ReachableH cfg s0 s g h → step cfg s l = some s' →
      (∀ d, l = .tick d → ∀ c, blocked s c) →
      ReachableH cfg s0 s' (logStep cfg s g l) (histStep cfg s h l)

end GoguVerif.Model.C17
