import GoguVerif.Spec.C09
/-!
# Model of `trie/trie.go` (ternary search trie), as the code is after the repairs
0d72068 (Get/Contains look at `isValid`), bd33b0a (`collect` appends the raw byte) and
e13864e (`Put` counts and inserts in one critical section).

Nodes are never shared, so the pointer structure is an inductive value and in-place mutation is
functional update (DESIGN §5).  `nil` is the nil pointer.  The embedded `Item.key` of a node is written
once by `newNode` and never read anywhere in the package; it is not part of the model.  `Item.val` is
kept on every node, exactly as `newNode(key, val)` stores it (also on intermediate nodes).

`Option α` is used as the outcome type: `none` = the Go code panics (index out of range), `some a` =
normal return.  Keys are byte strings (`List UInt8`); `key[d]` is `key[d]?` with `none ↦ panic`.
The result queue (`Queuer`, any FIFO with `Clear/Enqueue/Dequeue/Size`) is a list, oldest first.
Core Lean only.
-/
namespace GoguVerif.Model.Trie
open GoguVerif.Spec.C09 (Key Op Out)

/-- `*node[K,V]` -/
inductive T where
  | nil
  | node (c : UInt8) (left mid right : T) (val : Int) (isValid : Bool)
deriving Repr, Inhabited, DecidableEq

/-- `type Trie struct { q Queuer; root *node; n int }` (the mutex is C01/C02's business) -/
structure Trie where
  root : T := .nil
  n : Int := 0
  q : List Key := []
deriving Repr, Inhabited, DecidableEq

/-- `func (n *node) get(key K, d int) (*node, error)`: the returned pointer and `err != nil`.
Recursion on the receiver (every recursive call is on a child). -/
def get : T → Key → Nat → Option (T × Bool)
  | .nil, _, _ => some (.nil, true)                           -- if n == nil { return nil, ErrorNotFound }
  | .node nc left mid right val iv, key, d =>
    if key.length = 0 then some (.nil, true)                  -- if len(key) == 0 { return nil, error }
    else match key[d]? with                                   -- c := key[d]
      | none => none                                          --   index out of range: panic
      | some c =>
        if c < nc then get left key d                         -- if c < n.c { return n.left.get(key, d) }
        else if c > nc then get right key d                   -- else if c > n.c { return n.right.get(key, d) }
        else if d < key.length - 1 then get mid key (d + 1)   -- else if d < len(key)-1 { return n.mid.get(key, d+1) }
        else some (.node nc left mid right val iv, false)     -- return n, nil

/-- `put` on a nil receiver, over the remaining bytes `key[d:]`: `n = newNode(key, val); n.c = c` makes
both comparisons `c < n.c`, `c > n.c` false, so control reaches `d < len(key)-1` (descend into the
fresh node's `mid`, which is nil again) or the final `else`.  Unfolded here so that the recursion is
structural (a fresh node is not a sub-term of the receiver). -/
def putNil (val : Int) (isValid : Bool) : List UInt8 → Option T
  | [] => none                                                -- c := key[d]: index out of range, panic
  | c :: rest =>
    match rest with
    | [] => some (.node c .nil .nil .nil val isValid)         -- d = len(key)-1: n.isValid = isValid; n.val = val
    | _ :: _ =>                                               -- d < len(key)-1: n.mid = n.mid.put(…, d+1, …)
      match putNil val isValid rest with
      | none => none
      | some m => some (.node c .nil m .nil val false)        -- newNode: Item.val = val, isValid = false

/-- `func (n *node) put(t, key, val, d, isValid) *node` -/
def put : T → Key → Int → Nat → Bool → Option T
  | .nil, key, val, d, isValid => putNil val isValid (key.drop d)
  | .node nc left mid right v iv, key, val, d, isValid =>
    match key[d]? with                                        -- c := key[d]
    | none => none                                            --   index out of range: panic
    | some c =>
      if c < nc then                                          -- n.left = n.left.put(t, key, val, d, isValid)
        match put left key val d isValid with
        | none => none
        | some l' => some (.node nc l' mid right v iv)
      else if c > nc then                                     -- n.right = n.right.put(…)
        match put right key val d isValid with
        | none => none
        | some r' => some (.node nc left mid r' v iv)
      else if d < key.length - 1 then                         -- n.mid = n.mid.put(t, key, val, d+1, isValid)
        match put mid key val (d + 1) isValid with
        | none => none
        | some m' => some (.node nc left m' right v iv)
      else some (.node nc left mid right val isValid)         -- n.isValid = isValid; n.val = val

/-- `x == nil || err != nil || !x.isValid` (short-circuit: `x.isValid` is only read when `x != nil`) -/
def notFound : T → Bool → Bool
  | .nil, _ => true
  | .node _ _ _ _ _ iv, err => err || !iv

/-- `func (n *node) collect(t, prefix)`: in-order walk; `q` is `t.q`, the result is `t.q` afterwards. -/
def collect : T → Key → List Key → List Key
  | .nil, _, q => q                                           -- if n == nil { return }
  | .node c left mid right _ iv, pfx, q =>
    let q1 := collect left pfx q                              -- n.left.collect(t, prefix)
    let q2 := if iv then q1 ++ [pfx ++ [c]] else q1        -- if n.isValid { t.q.Enqueue(prefix + K([]byte{n.c})) }
    let q3 := collect mid (pfx ++ [c]) q2                     -- n.mid.collect(t, prefix+K([]byte{n.c}))
    collect right pfx q3                                      -- return n.right.collect(t, prefix)

/-- The loop of `LongestPrefix`: `for x != nil && i < len(query) { c := query[i]; … }`; returns the final
`length`.  `query[i]? = none` is exactly the loop guard `i < len(query)` being false. -/
def lpLoop : T → Key → Nat → Nat → Nat
  | .nil, _, _, length => length                              -- x == nil: loop ends
  | .node xc left mid right _ iv, query, i, length =>
    match query[i]? with
    | none => length                                          -- i >= len(query): loop ends
    | some c =>
      if c < xc then lpLoop left query i length               -- x = x.left
      else if c > xc then lpLoop right query i length         -- x = x.right
      else                                                    -- i++; if x.isValid { length = i }; x = x.mid
        lpLoop mid query (i + 1) (if iv then i + 1 else length)

/-- `Trie.Put`: `none` = panic (the counter has been incremented before the panic; the case ends there). -/
def Put (t : Trie) (key : Key) (val : Int) : Option Trie :=
  match get t.root key 0 with                                 -- x, err := t.root.get(key, 0)
  | none => none
  | some (x, err) =>
    let n' := if notFound x err then t.n + 1 else t.n         -- if x == nil || err != nil || !x.isValid { t.n++ }
    match put t.root key val 0 true with                      -- t.root = t.root.put(t, key, val, 0, true)
    | none => none
    | some r => some { t with root := r, n := n' }

/-- `Trie.Get`: `none` in the `Out` = `(zero, false)`. -/
def Get (t : Trie) (key : Key) : Option (Option Int) :=
  if key.length = 0 then some none                            -- if len(key) == 0 { return v, false }
  else match get t.root key 0 with
    | none => none
    | some (x, err) =>
      match x with
      | .nil => some none                                     -- x == nil
      | .node _ _ _ _ val iv =>
        if err || !iv then some none                          -- err != nil || !x.isValid
        else some (some val)                                  -- return x.val, true

/-- `Trie.Contains` -/
def Contains (t : Trie) (key : Key) : Option Bool :=
  if key.length = 0 then some false
  else match Get t key with                                   -- _, ok := t.Get(key)
    | none => none
    | some r => some r.isSome

/-- `Trie.LongestPrefix`: result and `err != nil` -/
def LongestPrefix (t : Trie) (query : Key) : Key × Bool :=
  if query.length = 0 then ([], true)
  else (query.take (lpLoop t.root query 0 0), false)          -- query[:length]

/-- `Trie.StartsWith`: the trie afterwards (its queue holds the answer) and `err != nil` -/
def StartsWith (t : Trie) (pfx : Key) : Option (Trie × Bool) :=
  let t0 := { t with q := [] }                                -- t.q.Clear()
  if pfx.length = 0 then some (t0, true)
  else match get t.root pfx 0 with
    | none => none
    | some (x, err) =>
      match x with
      | .nil => some (t0, false)                              -- x == nil
      | .node _ _ mid _ _ iv =>
        if err then some (t0, false)                          -- err != nil
        else
          let q1 := if iv then t0.q ++ [pfx] else t0.q        -- if x.isValid { t.q.Enqueue(prefix) }
          some ({ t0 with q := collect mid pfx q1 }, false)   -- x.mid.collect(t, prefix)

/-- `Trie.Keys` -/
def Keys (t : Trie) : Trie × Bool :=
  ({ t with q := collect t.root [] [] }, false)               -- t.q.Clear(); t.root.collect(t, ""); return t.q, nil

/-- One call; `none` = the call panics.  Queue results are reported as the queue's content. -/
def step (t : Trie) : Op → Option (Trie × Out)
  | .put k v => match Put t k v with
    | none => none
    | some t' => some (t', .unit)
  | .get k => match Get t k with
    | none => none
    | some r => some (t, .got r)
  | .contains k => match Contains t k with
    | none => none
    | some b => some (t, .bool b)
  | .size => some (t, .int t.n)
  | .keys => let (t', e) := Keys t; some (t', .keyList t'.q e)
  | .startsWith p => match StartsWith t p with
    | none => none
    | some (t', e) => some (t', .keyList t'.q e)
  | .longestPrefix q => let (k, e) := LongestPrefix t q; some (t, .key k e)

/-- A whole history; `none` = some call panicked. -/
def run (t : Trie) : List Op → Option (Trie × List Out)
  | [] => some (t, [])
  | op :: ops =>
    match step t op with
    | none => none
    | some (t', o) =>
      match run t' ops with
      | none => none
      | some (t'', os) => some (t'', o :: os)

end GoguVerif.Model.Trie
