/-!
# Model of the reshaping helpers of `slice.go`, `filter.go`, `shuffle.go`, `string.go` (C12)

Each Go function is written as the loop it is.  Go slices are `List`s (aliasing is C16's business,
not C12's); every index expression and slice expression is bounds-checked explicitly and yields
`Outcome.panic` when Go would panic — that the loops never reach those branches is a theorem, not
a default.  Callbacks are parameters; the iterators (`Map`, `ForEach`, `ForEachRight`, `Reduce`)
take a *state-passing* callback so that the order of the calls is observable.

Core Lean only (linked into the driver).
-/
namespace GoguVerif.Model.C12

/-- Result of a Go call that may panic. -/
inductive Outcome (α : Type) where
  | ok : α → Outcome α
  | panic : Outcome α
deriving Repr, DecidableEq

variable {α β κ σ : Type}

/-- Go slice expression `s[lo:hi]` with `int` operands (bounds checked against `len`; the code never
relies on spare capacity). -/
def sliceOf (s : List α) (lo hi : Int) : Outcome (List α) :=
  if 0 ≤ lo ∧ lo ≤ hi ∧ hi ≤ s.length then .ok ((s.take hi.toNat).drop lo.toNat) else .panic

/-- `math.go: Abs` -/
def abs (x : Int) : Int := if x < 0 then -x else x

/-! ## Chunk -/

/-- `for i := 0; i < len(slice); i++ { if i%size == 0 { … } }` — first argument: iterations left. -/
def chunkLoop (slice : List α) (size : Nat) : Nat → Nat → List (List α) → Outcome (List (List α))
  | 0, _, result => .ok result
  | n + 1, i, result =>
    if i % size = 0 then
      if i + size < slice.length then
        match sliceOf slice i (i + size) with                       -- slice[i:i+size]
        | .ok c => chunkLoop slice size n (i + 1) (result ++ [c])
        | .panic => .panic
      else
        match sliceOf slice i slice.length with                     -- slice[i:]
        | .ok c => chunkLoop slice size n (i + 1) (result ++ [c])
        | .panic => .panic
    else chunkLoop slice size n (i + 1) result

def chunk (slice : List α) (size : Int) : Outcome (List (List α)) :=
  if size ≤ 0 then .panic                                           -- panic("Chunk size should be greater than zero.")
  else chunkLoop slice size.toNat slice.length 0 []

/-! ## Partition, Filter, Reject, DropWhile, DropRightWhile -/

def partitionLoop (fn : α → Bool) : List α → List α × List α → List α × List α
  | [], r => r
  | v :: rest, (yes, no) =>
    if fn v then partitionLoop fn rest (yes ++ [v], no) else partitionLoop fn rest (yes, no ++ [v])

def partition (slice : List α) (fn : α → Bool) : List α × List α := partitionLoop fn slice ([], [])

def filterLoop (fn : α → Bool) : List α → List α → List α
  | [], res => res
  | v :: rest, res => if fn v then filterLoop fn rest (res ++ [v]) else filterLoop fn rest res

def filter (slice : List α) (fn : α → Bool) : List α := filterLoop fn slice []

/-- `for i := 0; i < len(slice); i++ { if fn(slice[i]) { slice = append(slice[:i], slice[i+1:]...); i-- } }`
(`i--` followed by the loop's `i++` leaves `i` unchanged).  Value level only. -/
def rejectLoop (fn : α → Bool) (slice : List α) (i : Nat) : List α :=
  if h : i < slice.length then
    if fn slice[i] then rejectLoop fn (slice.take i ++ slice.drop (i + 1)) i
    else rejectLoop fn slice (i + 1)
  else slice
termination_by slice.length - i
decreasing_by
  · simp only [List.length_append, List.length_take, List.length_drop]; omega
  · omega

def reject (slice : List α) (fn : α → Bool) : List α := rejectLoop fn slice 0

def dropWhileLoop (fn : α → Bool) : List α → List α → List α
  | [], result => result
  | v :: rest, result => if !fn v then dropWhileLoop fn rest (result ++ [v]) else dropWhileLoop fn rest result

def dropWhile (slice : List α) (fn : α → Bool) : List α := dropWhileLoop fn slice []

/-- `for i := len(slice) - 1; i >= 0; i-- { if !fn(slice[i]) { result = append(result, slice[i]) } }`
— first argument is `i + 1`. -/
def dropRightWhileLoop (fn : α → Bool) (slice : List α) : Nat → List α → Outcome (List α)
  | 0, result => .ok result
  | i + 1, result =>
    match slice[i]? with
    | none => .panic
    | some v =>
      if !fn v then dropRightWhileLoop fn slice i (result ++ [v]) else dropRightWhileLoop fn slice i result

def dropRightWhile (slice : List α) (fn : α → Bool) : Outcome (List α) :=
  dropRightWhileLoop fn slice slice.length []

/-! ## Map, ForEach, ForEachRight, Reduce (state-passing callbacks) -/

/-- `result := make([]T2, len(slice)); for idx, v := range slice { result[idx] = fn(v) }` -/
def mapLoop (fn : α → σ → β × σ) : List α → Nat → List β → σ → Outcome (List β × σ)
  | [], _, result, st => .ok (result, st)
  | v :: rest, idx, result, st =>
    let r := fn v st
    if idx < result.length then mapLoop fn rest (idx + 1) (result.set idx r.1) r.2 else .panic

def map [Inhabited β] (slice : List α) (fn : α → σ → β × σ) (st : σ) : Outcome (List β × σ) :=
  mapLoop fn slice 0 (List.replicate slice.length default) st

/-- `Map` with a pure callback. -/
def mapPure [Inhabited β] (slice : List α) (f : α → β) : Outcome (List β) :=
  match map slice (fun x (_ : Unit) => (f x, ())) () with
  | .ok r => .ok r.1
  | .panic => .panic

def forEach (fn : α → σ → σ) : List α → σ → σ
  | [], st => st
  | v :: rest, st => forEach fn rest (fn v st)

/-- `for i := len(slice) - 1; i >= 0; i-- { fn(slice[i]) }` — first argument is `i + 1`. -/
def forEachRightLoop (fn : α → σ → σ) (slice : List α) : Nat → σ → Outcome σ
  | 0, st => .ok st
  | i + 1, st =>
    match slice[i]? with
    | none => .panic
    | some v => forEachRightLoop fn slice i (fn v st)

def forEachRight (slice : List α) (fn : α → σ → σ) (st : σ) : Outcome σ :=
  forEachRightLoop fn slice slice.length st

/-- `actual := initVal; for _, v := range slice { actual = fn(v, actual) }` -/
def reduce (fn : α → β → σ → β × σ) : List α → β → σ → β × σ
  | [], actual, st => (actual, st)
  | v :: rest, actual, st =>
    let r := fn v actual st
    reduce fn rest r.1 r.2

/-! ## GroupBy = mapByIndex(slice, Map(slice, fn)) — the Go map is an association list (insertion order) -/

def mapByIndexLoop [BEq κ] (orig : List α) : List κ → Nat → List (κ × List α) → Outcome (List (κ × List α))
  | [], _, result => .ok result
  | v :: rest, idx, result =>
    -- if _, ok := result[v]; !ok { result[v] = make(…) }
    let result := if result.any (fun e => e.1 == v) then result else result ++ [(v, [])]
    match orig[idx]? with                                              -- origSlice[idx]
    | none => .panic
    | some x =>
      mapByIndexLoop orig rest (idx + 1)
        (result.map fun e => if e.1 == v then (e.1, e.2 ++ [x]) else e)   -- result[v] = append(result[v], …)

def groupBy [BEq κ] [Inhabited κ] (slice : List α) (fn : α → κ) : Outcome (List (κ × List α)) :=
  match mapPure slice fn with
  | .panic => .panic
  | .ok keys => mapByIndexLoop slice keys 0 []

/-! ## Zip / Unzip -/

/-- `m[x][i]` -/
def get2 (m : List (List α)) (x i : Nat) : Outcome α :=
  match m[x]? with
  | none => .panic
  | some row => match row[i]? with
    | none => .panic
    | some v => .ok v

/-- `r[i][x] = v` -/
def set2 (r : List (List α)) (i x : Nat) (v : α) : Outcome (List (List α)) :=
  match r[i]? with
  | none => .panic
  | some row => if x < row.length then .ok (r.set i (row.set x v)) else .panic

/-- `for idx, sl := range slices { if sliceLen != len(sl) { panic } ; result[idx] = make([]T, len(sl)) }` -/
def rowsLoop [Inhabited α] (sliceLen : Nat) : List (List α) → Nat → List (List α) → Outcome (List (List α))
  | [], _, result => .ok result
  | sl :: rest, idx, result =>
    if sliceLen ≠ sl.length then .panic
    else if idx < result.length then
      rowsLoop sliceLen rest (idx + 1) (result.set idx (List.replicate sl.length default))
    else .panic

/-- inner loop `for i := 0; i < len(slices); i++ { result[i][x] = slices[x][i] }` (Zip, `tr = false`) or
`result[x][i] = slices[i][x]` (Unzip, `tr = true`); first argument: iterations left. -/
def cellLoop (tr : Bool) (slices : List (List α)) (x : Nat) :
    Nat → Nat → List (List α) → Outcome (List (List α))
  | 0, _, result => .ok result
  | n + 1, i, result =>
    match (if tr then get2 slices i x else get2 slices x i) with
    | .panic => .panic
    | .ok v =>
      match (if tr then set2 result x i v else set2 result i x v) with
      | .panic => .panic
      | .ok result => cellLoop tr slices x n (i + 1) result

/-- outer loop `for x := 0; x < sliceLen; x++ { … }` -/
def colLoop (tr : Bool) (slices : List (List α)) : Nat → Nat → List (List α) → Outcome (List (List α))
  | 0, _, result => .ok result
  | n + 1, x, result =>
    match cellLoop tr slices x slices.length 0 result with
    | .panic => .panic
    | .ok result => colLoop tr slices n (x + 1) result

/-- `var sliceLen int; if len(slices) > 0 { sliceLen = len(slices[0]) }` -/
def firstLen : List (List α) → Nat
  | [] => 0
  | s0 :: _ => s0.length

def zipWith [Inhabited α] (tr : Bool) (slices : List (List α)) : Outcome (List (List α)) :=
  -- var result = make([][]T, len(slices))   (nil rows)
  if firstLen slices ≠ slices.length then .panic
  else
    match rowsLoop (firstLen slices) slices 0 (List.replicate slices.length []) with
    | .panic => .panic
    | .ok result => colLoop tr slices (firstLen slices) 0 result

def zip [Inhabited α] (slices : List (List α)) : Outcome (List (List α)) := zipWith false slices
def unzip [Inhabited α] (slices : List (List α)) : Outcome (List (List α)) := zipWith true slices

/-! ## Flatten -/

/-- What `Flatten[T]` may be handed as `any`: a `T`, a `[]T`, a `[]any` of such things, or a value of
some other type (`bad`). -/
inductive Nested (α : Type) where
  | leaf : α → Nested α
  | slice : List α → Nested α
  | list : List (Nested α) → Nested α
  | bad : Nested α
deriving Repr

mutual
/-- `baseFlatten(acc, slice)`; `none` is the returned error. -/
def baseFlatten : List α → Nested α → Option (List α)
  | acc, .leaf v => some (acc ++ [v])
  | acc, .slice v => some (acc ++ v)
  | acc, .list vs => flattenRange acc vs
  | _, .bad => none
/-- `for _, sv := range v { acc, err = baseFlatten(acc, sv); if err != nil { return nil, err } }` -/
def flattenRange : List α → List (Nested α) → Option (List α)
  | acc, [] => some acc
  | acc, sv :: rest =>
    match baseFlatten acc sv with
    | none => none
    | some acc' => flattenRange acc' rest
end

def flatten (slice : Nested α) : Option (List α) := baseFlatten [] slice

/-! ## Merge, Drop -/

def mergeLoop : List (List α) → List α → List α
  | [], merged => merged
  | p :: rest, merged => mergeLoop rest (merged ++ p)

/-- `merged := make([]T, 0, len(s)); merged = append(merged, s...); for … { merged = append(merged, params[i]...) }` -/
def merge (s : List α) (params : List (List α)) : List α := mergeLoop params ([] ++ s)

/-- `if n > -len(slice) && n < len(slice) { … }` (the comparison does not negate `n`, so it is exact on Go's `int`
as well: no operand of it can overflow; inside the branch `Abs(n) < len(slice)`) -/
def drop (slice : List α) (n : Int) : Outcome (List α) :=
  if n > -(slice.length : Int) ∧ n < slice.length then
    if n > 0 then sliceOf slice n slice.length                      -- slice[n:]
    else sliceOf slice 0 (slice.length - abs n)                     -- slice[:len(slice)-Abs(n)]
  else .ok []

/-! ## Reverse, Shuffle -/

/-- `d[i], d[j] = d[j], d[i]` -/
def swapAt (d : List α) (i j : Nat) : Outcome (List α) :=
  match d[i]?, d[j]? with
  | some a, some b => .ok ((d.set i b).set j a)
  | _, _ => .panic

/-- `for i, j := 0, len(sl)-1; i < j; i, j = i+1, j-1 { sl[i], sl[j] = sl[j], sl[i] }`; the second
counter is kept as `j + 1` (so that the empty slice's `j = -1` is representable in `Nat`). -/
def reverseLoop (sl : List α) (i j1 : Nat) : Outcome (List α) :=
  if i + 1 < j1 then
    match swapAt sl i (j1 - 1) with
    | .panic => .panic
    | .ok sl' => reverseLoop sl' (i + 1) (j1 - 1)
  else .ok sl
termination_by j1 - i

def reverse (sl : List α) : Outcome (List α) := reverseLoop sl 0 sl.length

/-- `for i := len(src) - 1; i >= 0; i-- { j := rand.Int() % (i + 1); swap(&dst[i], &dst[j]) }`;
`rnd c` is what the `c`-th call of `rand.Int()` returns; first argument is `i + 1`. -/
def shuffleLoop (rnd : Nat → Nat) : Nat → Nat → List α → Outcome (List α)
  | 0, _, dst => .ok dst
  | i + 1, c, dst =>
    match swapAt dst i (rnd c % (i + 1)) with
    | .panic => .panic
    | .ok dst' => shuffleLoop rnd i (c + 1) dst'

def shuffle (rnd : Nat → Nat) (src : List α) : Outcome (List α) :=
  shuffleLoop rnd src.length 0 src                                   -- dst := copy of src

/-! ## ReverseStr: `[]rune(str)`, reverse, `string(runes)` — bytes and runes are `Nat`s -/

def isCont (b : Nat) : Bool := 0x80 ≤ b && b ≤ 0xBF

/-- `utf8.DecodeRuneInString` on the non-empty string `b0 :: rest`: the rune and its width; an invalid
or truncated sequence yields (U+FFFD, 1). -/
def decodeFirst (b0 : Nat) (rest : List Nat) : Nat × Nat :=
  if b0 < 0x80 then (b0, 1)
  else if 0xC2 ≤ b0 ∧ b0 ≤ 0xDF then
    match rest with
    | b1 :: _ =>
      if isCont b1 then ((b0 - 0xC0) * 64 + (b1 - 0x80), 2) else (0xFFFD, 1)
    | _ => (0xFFFD, 1)
  else if 0xE0 ≤ b0 ∧ b0 ≤ 0xEF then
    match rest with
    | b1 :: b2 :: _ =>
      let lo := if b0 = 0xE0 then 0xA0 else 0x80
      let hi := if b0 = 0xED then 0x9F else 0xBF
      if lo ≤ b1 ∧ b1 ≤ hi ∧ isCont b2 then
        ((b0 - 0xE0) * 4096 + (b1 - 0x80) * 64 + (b2 - 0x80), 3)
      else (0xFFFD, 1)
    | _ => (0xFFFD, 1)
  else if 0xF0 ≤ b0 ∧ b0 ≤ 0xF4 then
    match rest with
    | b1 :: b2 :: b3 :: _ =>
      let lo := if b0 = 0xF0 then 0x90 else 0x80
      let hi := if b0 = 0xF4 then 0x8F else 0xBF
      if lo ≤ b1 ∧ b1 ≤ hi ∧ isCont b2 ∧ isCont b3 then
        ((b0 - 0xF0) * 262144 + (b1 - 0x80) * 4096 + (b2 - 0x80) * 64 + (b3 - 0x80), 4)
      else (0xFFFD, 1)
    | _ => (0xFFFD, 1)
  else (0xFFFD, 1)

/-- `[]rune(s)` (same as `for range s`): decode rune after rune, advancing by the width. -/
def decodeRunes : List Nat → List Nat
  | [] => []
  | b0 :: rest =>
    let d := decodeFirst b0 rest
    d.1 :: decodeRunes (rest.drop (d.2 - 1))
termination_by l => l.length
decreasing_by simp only [List.length_drop, List.length_cons]; omega

/-- `utf8.AppendRune`: surrogates and values above U+10FFFF are encoded as U+FFFD. -/
def encodeRune (r : Nat) : List Nat :=
  if r < 0x80 then [r]
  else if r < 0x800 then [0xC0 + r / 64, 0x80 + r % 64]
  else if (0xD800 ≤ r ∧ r ≤ 0xDFFF) ∨ 0x10FFFF < r then [0xEF, 0xBF, 0xBD]
  else if r < 0x10000 then [0xE0 + r / 4096, 0x80 + r / 64 % 64, 0x80 + r % 64]
  else [0xF0 + r / 262144, 0x80 + r / 4096 % 64, 0x80 + r / 64 % 64, 0x80 + r % 64]

def encodeRunes : List Nat → List Nat
  | [] => []
  | r :: rest => encodeRune r ++ encodeRunes rest

/-- `res := []rune(str); for i, j := 0, len(res)-1; i < j; … { swap }; return T(res)` -/
def reverseStr (str : List Nat) : Outcome (List Nat) :=
  match reverse (decodeRunes str) with
  | .panic => .panic
  | .ok res => .ok (encodeRunes res)

end GoguVerif.Model.C12
