import GoguVerif.Model.Funcs
import GoguVerif.Model.Cache
/-!
# More models for C18: `RetryWithDelay` with its results and a clock; `Before` across time

* `retryDelayLoop` / `retryWithDelay` mirror the loop of `RType.RetryWithDelay` (`func.go`) statement
  by statement: the attempt counter, the last error, the callback's outcome script, a clock (time
  since `start := time.Now()`), the duration of each attempt and of each `<-time.After(delay)`.
  Unlike `Model.Funcs.retryDelayStamps` (free `fuel`, instants only) it returns everything the Go
  function returns, the number of callback invocations, and the (start, end) of every invocation.
* `beforeTimed`: consecutive calls of `Before` (`Model.Funcs.beforeCall`), each at its own instant.
* `beforeCallC` / `beforeTimedC`: the same `Before` run against the full cache model
  (`Model.Cache.set` / `Model.Cache.get` on a map of items) instead of the one-cell abstraction.
-/
namespace GoguVerif.Model.Funcs

/-! ## RetryWithDelay -/

/-- what a run of `RetryWithDelay` produces -/
structure RDOut where
  /-- first result: `time.Since(start)` at the `return` -/
  elapsed : Int
  /-- second result: `attempt` -/
  attempts : Nat
  /-- third result: `err != nil` -/
  err : Bool
  /-- how many times the callback was invoked -/
  calls : Nat
  /-- (start, end) of every invocation, relative to `start`; the start is also the `time.Duration`
  handed to the callback (`fn(time.Since(start), v.Input)`) -/
  times : List (Int × Int)
deriving Repr, DecidableEq

/-- The loop of `RetryWithDelay`, `fuel = n - attempt`:
```go
for attempt < n {
    err = fn(time.Since(start), v.Input)          -- invocation number `calls`, takes `durs calls`
    if err == nil { return time.Since(start), attempt, nil }
    <-time.After(delay)                           -- takes `waits attempt`
    attempt++
}
return time.Since(start), attempt, err
```
`now` is the time since `start`; `calls` counts the invocations of `fn` (its own counter, not derived
from `attempt`); the outcome of invocation `i` is `fails script i`. -/
def retryDelayLoop (script : List Bool) (waits durs : Nat → Int) :
    Nat → Nat → Bool → Nat → Int → RDOut
  | 0, attempt, err, calls, now => ⟨now, attempt, err, calls, []⟩
  | fuel + 1, attempt, _, calls, now =>
    let fin := now + durs calls
    if fails script calls then
      let r := retryDelayLoop script waits durs fuel (attempt + 1) true (calls + 1) (fin + waits attempt)
      ⟨r.elapsed, r.attempts, r.err, r.calls, (now, fin) :: r.times⟩
    else ⟨fin, attempt, false, calls + 1, [(now, fin)]⟩

/-- `RType.RetryWithDelay(n, delay, fn)`: `var err error; var attempt int; start := time.Now()`, then
the loop.  There is NO `n < 0` check in the Go code (unlike `Retry`): for `n < 0` the loop body never
runs (`n.toNat = 0`). -/
def retryWithDelay (n : Int) (script : List Bool) (waits durs : Nat → Int) : RDOut :=
  retryDelayLoop script waits durs n.toNat 0 false 0 0

/-! ## Before, each call at its own instant -/

/-- consecutive calls of `Before(&n, c, fn)` at the instants `ts`: (ran, returned) per call -/
def beforeTimed (expTime : Int) (res : Nat → Int) : BSt → List Int → List (Bool × Int)
  | _, [] => []
  | s, t :: ts =>
    let r := beforeCall expTime t res s
    (r.2.1, r.2.2) :: beforeTimed expTime res r.1 ts

/-- the state after those calls -/
def beforeTimedSt (expTime : Int) (res : Nat → Int) : BSt → List Int → BSt
  | s, [] => s
  | s, t :: ts => beforeTimedSt expTime res (beforeCall expTime t res s).1 ts

/-! ## Before against the full cache model -/

open GoguVerif.Model.Cache in
/-- the cell of `Model.Funcs` that a key of the cache's map stands for -/
def cellOf (key : Int) (m : Items) : Cell :=
  (lookup key m).map fun it => (it.object, it.expiration)

structure BStC where
  n : Int
  items : Cache.Items := []
  runs : Nat := 0

/-- `memo, _ = c.Get("func"); return memo.Val()` (`Val` of a nil item is the zero value) -/
def getVal (now : Int) (m : Cache.Items) (key : Int) : Int :=
  ((Cache.get now m key).map (·.object)).getD 0

/-- one call of `Before(&n, c, fn)` with `c` the cache model of `Model/Cache.lean`, `key` = `"func"` -/
def beforeCallC (cfg : Cache.Cfg) (key now : Int) (res : Nat → Int) (s : BStC) : BStC × Bool × Int :=
  let n' := s.n - 1
  if n' > 0 then
    ({ s with n := n', runs := s.runs + 1 }, true, res (s.runs + 1))
  else if n' = 0 then
    let items' := (Cache.set cfg now s.items key (res (s.runs + 1)) Gen.defaultExpiration).1
    ({ n := n', items := items', runs := s.runs + 1 }, true, getVal now items' key)
  else
    ({ s with n := n' }, false, getVal now s.items key)

def beforeTimedC (cfg : Cache.Cfg) (key : Int) (res : Nat → Int) : BStC → List Int → List (Bool × Int)
  | _, [] => []
  | s, t :: ts =>
    let r := beforeCallC cfg key t res s
    (r.2.1, r.2.2) :: beforeTimedC cfg key res r.1 ts

/-- the one-cell abstraction of a `BStC` -/
def absB (key : Int) (s : BStC) : BSt := { n := s.n, cell := cellOf key s.items, runs := s.runs }

end GoguVerif.Model.Funcs
