import GoguVerif.Go.Run
import GoguVerif.Spec.C03
import GoguVerif.Model.Heap
/-! Driver wiring for C03 (heap): the monitor (`monStep`, judges the implementation's answers) and,
beside it, the array model of `heap.go` (`modelAnswer`), whose answers are compared with the
implementation's for the exact comparators `lt`/`gt`. -/
namespace GoguVerif.Kinds.Heap
open GoguVerif Spec.C03

def compOf : String → Option (Int → Int → Bool)
  | "lt" => some (fun a b => decide (a < b))
  | "gt" => some (fun a b => decide (a > b))
  | "klt" => some (fun a b => decide (a.tdiv 10 < b.tdiv 10))
  | "kgt" => some (fun a b => decide (a.tdiv 10 > b.tdiv 10))
  | _ => none

structure St where
  comp : Int → Int → Bool
  compName : String
  held : List Int
  /-- known finding `heap.delete-no-resift`: a Delete hit a slot that is neither the root nor the last -/
  tainted : Bool := false
  /-- the array model of the code; `none` for the by-key comparators (ties: monitor only) and after
  a model panic/hang -/
  model : Option (Model.Heap.Heap Int) := none
  depth3 : Bool := false
  dups : Bool := false

def hasDup : List Int → Bool
  | [] => false
  | x :: r => r.contains x || hasDup r

def mk (st : St) (held : List Int) (tainted : Bool) : St :=
  { st with held := held, tainted := tainted && held.length > 1,
            depth3 := st.depth3 || held.length ≥ 4, dups := st.dups || hasDup held }

def ok (st : St) (op : String) : Step St := { st := st, tags := [op], nontrivial := st.depth3 || st.dups }

def fail (st : St) (op clause : String) : Step St :=
  { st := st, tags := [op], spec := some clause }

/-- an order clause failed: attribute it to the known finding only while tainted -/
def orderFail (st : St) (op clause : String) : Step St :=
  if st.tainted then { st := st, tags := [op], known := some "heap.delete-no-resift" }
  else fail st op clause

def monStep (st : St) (l : Line) : Step St :=
  match l.op, l.args, l.res with
  | "push", [.int v], [.atom "ok"] => ok (mk st (v :: st.held) st.tainted) "push"
  | "pushn", [vs], [.atom "ok"] =>
    match vs.ints? with
    | some vs => ok (mk st (vs ++ st.held) st.tainted) "pushn"
    | none => { st := st, bad := some "pushn args" }
  | "pop", [], [.int x] =>
    if st.held.isEmpty then
      if x = 0 then ok st "pop" else fail st "pop" "pop-empty-zero"
    else if !(st.held.contains x) then fail st "pop" "pop-returns-held-element"
    else
      let st' := mk st (st.held.erase x) st.tainted
      if decide (Extremal st.comp st.held x) then ok st' "pop" else orderFail st' "pop" "pop-extremal"
  | "peek", [], [.int x] =>
    if st.held.isEmpty then
      if x = 0 then ok st "peek" else fail st "peek" "peek-empty-zero"
    else if !(st.held.contains x) then fail st "peek" "peek-returns-held-element"
    else if decide (Extremal st.comp st.held x) then ok st "peek" else orderFail st "peek" "peek-extremal"
  | "size", [], [.int n] => if n = st.held.length then ok st "size" else fail st "size" "size"
  | "isempty", [], [.atom b] =>
    if b == (if st.held.isEmpty then "T" else "F") then ok st "isempty" else fail st "isempty" "isempty"
  | "clear", [], [.atom "ok"] => ok (mk st [] false) "clear"
  | "values", [], [vs] =>
    match vs.ints? with
    | some vs => if sameElems vs st.held then ok st "values" else fail st "values" "values-multiset"
    | none => fail st "values" "values-multiset"
  | "delete", [.int v], [.atom okf, .atom e, .int idx] =>
    if st.held.contains v then
      if okf == "T" && e == "ok" then
        let n := st.held.length
        let taint := st.tainted || (idx ≠ 0 && idx ≠ (n : Int) - 1)
        ok (mk st (st.held.erase v) taint) "delete-present"
      else fail st "delete" "delete-present-succeeds"
    else
      if okf == "F" && e == "err" then ok st "delete-absent" else fail st "delete" "delete-absent-reports"
  | "convert", [.atom c], [.atom "ok"] =>
    match compOf c with
    | some f => ok { (mk st st.held false) with comp := f, compName := c } "convert"
    | none => { st := st, bad := some "convert comparator" }
  | "merge", [arg], [a, b, c, .int sa, .int sb] =>
    match arg.ints?, a.ints?, b.ints?, c.ints? with
    | some arg, some a, some b, some c =>
      if !(sameElems a st.held) || sa ≠ st.held.length then fail st "merge" "merge-leaves-receiver"
      else if !(sameElems b arg) || sb ≠ arg.length then fail st "merge" "merge-leaves-argument"
      else if !(sameElems c (st.held ++ arg)) then fail st "merge" "merge-union"
      else ok (mk st (st.held ++ arg) false) "merge"
    | _, _, _, _ => fail st "merge" "merge-result"
  | "meld", [arg], [a, b, c, .int sa, .int sb] =>
    match arg.ints?, a.ints?, b.ints?, c.ints? with
    | some arg, some a, some b, some c =>
      if !a.isEmpty || sa ≠ 0 then fail st "meld" "meld-empties-receiver"
      else if !b.isEmpty || sb ≠ 0 then fail st "meld" "meld-empties-argument"
      else if !(sameElems c (st.held ++ arg)) then fail st "meld" "meld-union"
      else ok (mk st (st.held ++ arg) false) "meld"
    | _, _, _, _ => fail st "meld" "meld-result"
  | "fromslice", [arg, .atom c], [vs] =>
    match arg.ints?, vs.ints?, compOf c with
    | some arg, some vs, some f =>
      if sameElems vs arg then ok { (mk st arg false) with comp := f, compName := c } "fromslice"
      else fail st "fromslice" "fromslice-keeps-elements"
    | _, _, _ => fail st "fromslice" "fromslice-result"
  | "sort", [arg, .atom c], [vs] =>
    match arg.ints?, vs.ints?, compOf c with
    | some arg, some vs, some f =>
      if checkSort f arg vs then { (ok st "sort") with nontrivial := arg.length ≥ 3 }
      else fail st "sort" "sort-permutation-ordered"
    | _, _, _ => fail st "sort" "sort-result"
  | op, _, res =>
    match res with
    | [.atom "panic"] => fail st op s!"no-panic:{op}"
    | [.atom "hang"] => fail st op s!"terminates:{op}"
    | _ => { st := st, bad := some s!"bad heap line {op}" }

/-! ## The model beside the monitor -/

/-- exact comparators: the only ones for which the model's answers are compared -/
def exactComp (c : String) : Bool := c == "lt" || c == "gt"

def sortInts (l : List Int) : List Int := l.mergeSort (fun a b => decide (a ≤ b))

/-- A list observable is compared as a multiset: if the implementation's list is a permutation of
the model's, the model "answers" the implementation's token, otherwise its own sorted list. -/
def canonList (model : List Int) (impl : Val) : Val :=
  match impl.ints? with
  | some il => if sortInts il == sortInts model then impl else Val.ofInts (sortInts model)
  | none => Val.ofInts (sortInts model)

def parseOp (l : Line) : Option (Spec.C03.Op Int) :=
  match l.op, l.args with
  | "push", [.int v] => some (.push v)
  | "pushn", [vs] => vs.ints?.map .pushn
  | "pop", [] => some .pop
  | "peek", [] => some .peek
  | "size", [] => some .size
  | "isempty", [] => some .isEmpty
  | "clear", [] => some .clear
  | "values", [] => some .values
  | "delete", [.int v] => some (.delete v)
  | "convert", [.atom c] => (compOf c).map .convert
  | "merge", [arg] => arg.ints?.map .merge
  | "meld", [arg] => arg.ints?.map .meld
  | "fromslice", [arg, .atom c] =>
    match arg.ints?, compOf c with
    | some a, some f => some (.fromSlice a f)
    | _, _ => none
  | _, _ => none

/-- Render the model's answer in the shape of the protocol line.  Only the observables the property
names are compared: values/merge results as multisets; the third token of `delete` (the victim's
slot in the implementation's layout, printed by the harness for the monitor) is echoed. -/
def renderOut (res : List Val) : Spec.C03.Out Int → List Val
  | .unit => [.atom "ok"]
  | .val x => [.int x]
  | .int n => [.int n]
  | .bool b => [Val.ofBool b]
  | .del b => [Val.ofBool b, .atom (if b then "ok" else "err")] ++ res.drop 2
  | .vals l => [canonList l (res.headD (.atom ""))]
  | .merged r a n sr sa =>
    [canonList r (res.headD (.atom "")), canonList a ((res.drop 1).headD (.atom "")),
     canonList n ((res.drop 2).headD (.atom "")), .int sr, .int sa]

/-- the comparator name after the line -/
def nextCompName (cur : String) (l : Line) : String :=
  match l.op, l.args with
  | "convert", [.atom c] => c
  | "fromslice", [_, .atom c] => c
  | _, _ => cur

/-- model answer and next model state for one line -/
def modelAnswer (st : St) (l : Line) : Option (List Val) × Option (Model.Heap.Heap Int) :=
  if l.op == "sort" then
    match l.args with
    | [arg, .atom c] =>
      if exactComp c then
        match arg.ints?, compOf c with
        | some a, some f =>
          match Model.Heap.sort a.toArray f with
          | .ok out => (some [Val.ofInts out.toList], st.model)
          | .panic => (some [.atom "panic"], st.model)
          | .hang => (some [.atom "hang"], st.model)
        | _, _ => (none, st.model)
      else (none, st.model)
    | _ => (none, st.model)
  else
    let c' := nextCompName st.compName l
    -- `fromslice` builds a new heap: it (re-)creates the model whatever the state was
    let cur : Option (Model.Heap.Heap Int) :=
      if l.op == "fromslice" && exactComp c' then some (Model.Heap.new st.comp) else st.model
    match cur, parseOp l with
    | some m, some op =>
      if !(exactComp c') then (none, none)
      else
        match Model.Heap.step m op with
        | .ok (m', out) => (some (renderOut l.res out), some m')
        | .panic => (some [.atom "panic"], none)
        | .hang => (some [.atom "hang"], none)
    | _, _ => (none, none)

/-- `sortspare` / `fromslicespare`: the same calls on an argument that sits in a larger backing array
(spare capacity behind its length); the contract, the model and the monitor are those of `sort` /
`fromslice` — capacity is not part of a slice's value. -/
def normOp (l : Line) : Line :=
  if l.op == "sortspare" then { l with op := "sort" }
  else if l.op == "fromslicespare" then { l with op := "fromslice" }
  else l

def step (st : St) (l0 : Line) : Step St :=
  let l := normOp l0
  let r := monStep st l
  let (ans, m') := modelAnswer st l
  { r with st := { r.st with model := m' }, model := ans }

def kind : Kind where
  σ := St
  init := fun ps => match ps with
    | [.atom c] => (compOf c).map fun f =>
      { comp := f, compName := c, held := [],
        model := if exactComp c then some (Model.Heap.new f) else none }
    | _ => none
  step := step

end GoguVerif.Kinds.Heap
