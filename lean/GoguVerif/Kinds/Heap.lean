import GoguVerif.Go.Run
import GoguVerif.Spec.C03
/-! Driver wiring for C03 (heap). -/
namespace GoguVerif.Kinds.Heap
open GoguVerif Spec.C03

def compOf : String → Option (Int → Int → Bool)
  | "lt" => some (fun a b => decide (a < b))
  | "gt" => some (fun a b => decide (a > b))
  | "klt" => some (fun a b => decide (a.tdiv 10 < b.tdiv 10))
  | "kgt" => some (fun a b => decide (a.tdiv 10 > b.tdiv 10))
  | _ => none

structure St where
  comp : Int → Int → Bool
  compName : String
  held : List Int
  /-- known finding `heap.delete-no-resift`: a Delete hit a slot that is neither the root nor the last -/
  tainted : Bool := false
  depth3 : Bool := false
  dups : Bool := false

def hasDup : List Int → Bool
  | [] => false
  | x :: r => r.contains x || hasDup r

def mk (st : St) (held : List Int) (tainted : Bool) : St :=
  { st with held := held, tainted := tainted && held.length > 1,
            depth3 := st.depth3 || held.length ≥ 4, dups := st.dups || hasDup held }

def ok (st : St) (op : String) : Step St := { st := st, tags := [op], nontrivial := st.depth3 || st.dups }

def fail (st : St) (op clause : String) : Step St :=
  { st := st, tags := [op], spec := some clause }

/-- an order clause failed: attribute it to the known finding only while tainted -/
def orderFail (st : St) (op clause : String) : Step St :=
  if st.tainted then { st := st, tags := [op], known := some "heap.delete-no-resift" }
  else fail st op clause

def step (st : St) (l : Line) : Step St :=
  match l.op, l.args, l.res with
  | "push", [.int v], [.atom "ok"] => ok (mk st (v :: st.held) st.tainted) "push"
  | "pushn", [vs], [.atom "ok"] =>
    match vs.ints? with
    | some vs => ok (mk st (vs ++ st.held) st.tainted) "pushn"
    | none => { st := st, bad := some "pushn args" }
  | "pop", [], [.int x] =>
    if st.held.isEmpty then
      if x = 0 then ok st "pop" else fail st "pop" "pop-empty-zero"
    else if !(st.held.contains x) then fail st "pop" "pop-returns-held-element"
    else
      let st' := mk st (st.held.erase x) st.tainted
      if decide (Extremal st.comp st.held x) then ok st' "pop" else orderFail st' "pop" "pop-extremal"
  | "peek", [], [.int x] =>
    if st.held.isEmpty then
      if x = 0 then ok st "peek" else fail st "peek" "peek-empty-zero"
    else if !(st.held.contains x) then fail st "peek" "peek-returns-held-element"
    else if decide (Extremal st.comp st.held x) then ok st "peek" else orderFail st "peek" "peek-extremal"
  | "size", [], [.int n] => if n = st.held.length then ok st "size" else fail st "size" "size"
  | "isempty", [], [.atom b] =>
    if b == (if st.held.isEmpty then "T" else "F") then ok st "isempty" else fail st "isempty" "isempty"
  | "clear", [], [.atom "ok"] => ok (mk st [] false) "clear"
  | "values", [], [vs] =>
    match vs.ints? with
    | some vs => if sameElems vs st.held then ok st "values" else fail st "values" "values-multiset"
    | none => fail st "values" "values-multiset"
  | "delete", [.int v], [.atom okf, .atom e, .int idx] =>
    if st.held.contains v then
      if okf == "T" && e == "ok" then
        let n := st.held.length
        let taint := st.tainted || (idx ≠ 0 && idx ≠ (n : Int) - 1)
        ok (mk st (st.held.erase v) taint) "delete-present"
      else fail st "delete" "delete-present-succeeds"
    else
      if okf == "F" && e == "err" then ok st "delete-absent" else fail st "delete" "delete-absent-reports"
  | "convert", [.atom c], [.atom "ok"] =>
    match compOf c with
    | some f => ok { (mk st st.held false) with comp := f, compName := c } "convert"
    | none => { st := st, bad := some "convert comparator" }
  | "merge", [arg], [a, b, c, .int sa, .int sb] =>
    match arg.ints?, a.ints?, b.ints?, c.ints? with
    | some arg, some a, some b, some c =>
      if !(sameElems a st.held) || sa ≠ st.held.length then fail st "merge" "merge-leaves-receiver"
      else if !(sameElems b arg) || sb ≠ arg.length then fail st "merge" "merge-leaves-argument"
      else if !(sameElems c (st.held ++ arg)) then fail st "merge" "merge-union"
      else ok (mk st (st.held ++ arg) false) "merge"
    | _, _, _, _ => fail st "merge" "merge-result"
  | "meld", [arg], [a, b, c, .int sa, .int sb] =>
    match arg.ints?, a.ints?, b.ints?, c.ints? with
    | some arg, some a, some b, some c =>
      if !a.isEmpty || sa ≠ 0 then fail st "meld" "meld-empties-receiver"
      else if !b.isEmpty || sb ≠ 0 then fail st "meld" "meld-empties-argument"
      else if !(sameElems c (st.held ++ arg)) then fail st "meld" "meld-union"
      else ok (mk st (st.held ++ arg) false) "meld"
    | _, _, _, _ => fail st "meld" "meld-result"
  | "fromslice", [arg, .atom c], [vs] =>
    match arg.ints?, vs.ints?, compOf c with
    | some arg, some vs, some f =>
      if sameElems vs arg then ok { (mk st arg false) with comp := f, compName := c } "fromslice"
      else fail st "fromslice" "fromslice-keeps-elements"
    | _, _, _ => fail st "fromslice" "fromslice-result"
  | "sort", [arg, .atom c], [vs] =>
    match arg.ints?, vs.ints?, compOf c with
    | some arg, some vs, some f =>
      if checkSort f arg vs then { (ok st "sort") with nontrivial := arg.length ≥ 3 }
      else fail st "sort" "sort-permutation-ordered"
    | _, _, _ => fail st "sort" "sort-result"
  | op, _, res =>
    match res with
    | [.atom "panic"] => fail st op s!"no-panic:{op}"
    | [.atom "hang"] => fail st op s!"terminates:{op}"
    | _ => { st := st, bad := some s!"bad heap line {op}" }

def kind : Kind where
  σ := St
  init := fun ps => match ps with
    | [.atom c] => (compOf c).map fun f => { comp := f, compName := c, held := [] }
    | _ => none
  step := step

end GoguVerif.Kinds.Heap
