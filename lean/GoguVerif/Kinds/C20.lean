import GoguVerif.Go.Run
import GoguVerif.Spec.C20
import GoguVerif.Model.C20
/-!
# Driver wiring for C20 (kinds `debounce`, `delay`, `throttle`)

Every line: the model's answer (virtual clock and observation, compared exactly) and the monitor's
verdict on the implementation's own answer.  For `throttle` the model is compared only while at most
one `Next` has been outstanding; concurrent multi-`Next` cases are judged by the monitor alone.
-/
namespace GoguVerif.Kinds.C20
open GoguVerif Spec.C20 Model.C20

def failRes (l : Line) : Option String :=
  match l.op, l.res with
  | "bubble", _ => some "no-deadlock-or-leak"
  | _, [.atom "panic"] => some s!"no-panic:{l.op}"
  | _, [.atom "hang"] => some s!"terminates:{l.op}"
  | _, _ => none

def triple? (v : Val) : Option (Int × Int × Int) :=
  match v with
  | .list [.int a, .int b, .int c] => some (a, b, c)
  | _ => none

def triples? (v : Val) : Option (List (Int × Int × Int)) :=
  match v with
  | .list l => l.mapM triple?
  | _ => none

def tripleVal (a b c : Int) : Val := .list [.int a, .int b, .int c]

/-! ## debounce -/

structure DSt where
  wait : Nat
  mon : DMon
  m : DState := {}
  /-- positions of the calls, oldest first -/
  callPos : Array Nat := #[]
  sawCancelPending : Bool := false
  sawSupersede : Bool := false

def DSt.noOfPos (st : DSt) (pos : Nat) : Int :=
  match st.callPos.toList.findIdx? (· == pos) with
  | some k => k
  | none => -1

def debounceKind : Kind where
  σ := DSt
  init := fun ps => match ps with
    | [.int w] => if w < 0 then none else some { wait := w.toNat, mon := { wait := w.toNat } }
    | _ => none
  step := fun st l =>
    match failRes l with
    | some c => { st := st, spec := some c }
    | none =>
    match l.op, l.args, l.res with
    | "sleep", [.int ms], _ =>
      if ms < 0 then { st := st, bad := some "debounce: negative sleep" } else
      let e := DEv.advance ms.toNat
      let m' := dstep st.wait st.m e
      { st := { st with mon := st.mon.push e, m := m' },
        tags := if m'.fired.length > st.m.fired.length then ["debounce:fire"] else ["debounce:sleep"] }
    -- from here on the debounced function itself takes time: nothing in the debouncer's state depends on it
    -- (the function runs outside the debouncer's lock, after the go-ahead), so model and monitor are unchanged
    | "slow", [.int _], [.int _] => { st := st, model := some [.int st.m.now], tags := ["debounce:slow-function"] }
    | "call", [], [.int _] =>
      let m' := dstep st.wait st.m .call
      let sup := st.m.pending.isSome
      { st := { st with mon := st.mon.push .call, m := m', callPos := st.callPos.push st.m.n,
                        sawSupersede := st.sawSupersede || sup },
        model := some [.int m'.now],
        tags := if sup then ["debounce:call-supersedes-pending"] else ["debounce:call"] }
    -- a burst issued by several goroutines at one virtual instant counts as one call of the history
    | "parcall", [_, _], [.int _] =>
      let m' := dstep st.wait st.m .call
      let sup := st.m.pending.isSome
      { st := { st with mon := st.mon.push .call, m := m', callPos := st.callPos.push st.m.n,
                        sawSupersede := st.sawSupersede || sup },
        model := some [.int m'.now],
        tags := if sup then ["debounce:parcall"] else ["debounce:parcall"] }
    | "cancel", [], [.int _] =>
      let m' := dstep st.wait st.m .cancel
      let pend := st.m.pending.isSome
      { st := { st with mon := st.mon.push .cancel, m := m', sawCancelPending := st.sawCancelPending || pend },
        model := some [.int m'.now],
        tags := if pend then ["debounce:cancel-pending"] else ["debounce:cancel-idle"] }
    | "fired", [], [.int _, log] =>
      match triples? log with
      | none => { st := st, bad := some "debounce: fired list" }
      | some tl =>
        -- the implementation's entries, call numbers translated into history positions
        let conv := tl.mapM fun (f, k, tc) =>
          if k < 0 then none else (st.callPos[k.toNat]?).map fun p => (f, p, tc)
        let mans : List Val :=
          [.int st.m.now, .list (st.m.fired.map fun fr => tripleVal fr.f (st.noOfPos fr.idx) fr.tc)]
        match conv with
        | none => { st := st, model := some mans, spec := some "debounce:belongs-to-a-call" }
        | some log' =>
          let (c, mon') := st.mon.onFired log'
          { st := { st with mon := mon' }, model := some mans, spec := c,
            nontrivial := !st.m.fired.isEmpty && (st.sawSupersede || st.sawCancelPending) }
    | _, _, _ => { st := st, bad := some s!"debounce line {l.op}" }

/-! ## delay -/

structure LSt where
  mon : LMon := {}
  m : LState := {}
  stoppedPending : Bool := false

def insertFire (x : LFire) : List LFire → List LFire
  | [] => [x]
  | y :: r => if x.f < y.f || (x.f == y.f && x.id < y.id) then x :: y :: r else y :: insertFire x r

def sortFires (l : List LFire) : List LFire := l.foldl (fun acc x => insertFire x acc) []

def delayKind : Kind where
  σ := LSt
  init := fun _ => some {}
  step := fun st l =>
    match failRes l with
    | some c => { st := st, spec := some c }
    | none =>
    match l.op, l.args, l.res with
    | "sleep", [.int ms], _ =>
      if ms < 0 then { st := st, bad := some "delay: negative sleep" } else
      let m' := lstep st.m (.advance ms.toNat)
      { st := { st with m := m', mon := st.mon.onSleep ms.toNat },
        tags := if m'.fired.length > st.m.fired.length then ["delay:fire"] else ["delay:sleep"] }
    | "delay", [.int d], [.int _, .int _] =>
      let m' := lstep st.m (.delay d)
      { st := { st with m := m', mon := st.mon.onDelay d },
        model := some [.int m'.now, .int st.m.nextId],
        tags := if d ≤ 0 then ["delay:non-positive"] else ["delay:delay"] }
    | "stop", [.int id], [.int _, .atom _] =>
      if id < 0 then { st := st, bad := some "delay: negative id" } else
      let m' := lstep st.m (.stop id.toNat)
      let mon' := st.mon.onStop id.toNat
      let r : Val := match m'.lastStop with
        | some b => Val.ofBool b
        | none => .atom "none"
      { st := { st with m := m', mon := mon', stoppedPending := st.stoppedPending || m'.lastStop == some true },
        model := some [.int m'.now, r],
        tags := match m'.lastStop with
          | some true => ["delay:stop-pending"] | some false => ["delay:stop-late"] | none => ["delay:stop-unknown"] }
    | "fired", [], [.int _, log] =>
      match triples? log with
      | none => { st := st, bad := some "delay: fired list" }
      | some tl =>
        let conv := tl.mapM fun (f, id, tc) => if id < 0 then none else some (f, id.toNat, tc)
        let mans : List Val :=
          [.int st.m.now, .list ((sortFires st.m.fired).map fun fr => tripleVal fr.f fr.id fr.tc)]
        match conv with
        | none => { st := st, model := some mans, spec := some "delay:unknown-timer" }
        | some log' =>
          { st := { st with mon := st.mon.observe log' }, model := some mans,
            spec := st.mon.onFired log',
            nontrivial := st.m.fired.length ≥ 2 && st.stoppedPending }
    | _, _, _ => { st := st, bad := some s!"delay line {l.op}" }

/-! ## throttle -/

structure TSt where
  cfg : TCfg
  mon : TMon
  m : TState := {}
  /-- two `Next` calls were blocked at the same time at some point: the model (which needs the
  scheduler's choice) is no longer compared -/
  multi : Bool := false
  dropped : Bool := false
  released : Bool := false

def ch0 : Choice := fun _ _ => 0

def throttleKind : Kind where
  σ := TSt
  init := fun ps => match ps with
    | [.int d, .atom tr] =>
      if d < 0 then none
      else some { cfg := { dur := d.toNat, trailing := tr == "T" }, mon := { dur := d.toNat, trailing := tr == "T" } }
    | _ => none
  step := fun st l =>
    match failRes l with
    | some c => { st := st, spec := some c }
    | none =>
    let cmp := fun (multi : Bool) (v : List Val) => if multi then none else some v
    match l.op, l.args, l.res with
    | "sleep", [.int ms], _ =>
      if ms < 0 then { st := st, bad := some "throttle: negative sleep" } else
      let m' := tstepCode st.cfg ch0 st.m (.advance ms.toNat)
      { st := { st with m := m', mon := st.mon.onSleep ms.toNat },
        tags := if m'.grants.length > st.m.grants.length then ["throttle:trailing-timer-grants-blocked-next"]
                else if m'.waiting && !st.m.waiting then ["throttle:trailing-timer-sets-waiting"]
                else ["throttle:sleep"] }
    | "call", [], [.int _] =>
      let m' := tstepCode st.cfg ch0 st.m .call
      let drop := !st.m.waiting && !st.m.stop && m'.grants.length == st.m.grants.length && !m'.waiting &&
        (m'.scheduled == st.m.scheduled)
      { st := { st with m := m', mon := st.mon.onCall, dropped := st.dropped || drop },
        model := some [.int m'.now],
        tags :=
          if st.m.stop then ["throttle:call-after-cancel"]
          else if st.m.waiting then ["throttle:call-coalesced"]
          else if m'.grants.length > st.m.grants.length then ["throttle:call-wakes-blocked-next"]
          else if m'.waiting then ["throttle:call-sets-waiting"]
          else if m'.scheduled.isSome && st.m.scheduled.isNone then ["throttle:trailing-scheduled"]
          else if st.m.scheduled.isSome then ["throttle:call-in-period-already-scheduled"]
          else ["throttle:call-in-period-dropped"] }
    | "cancel", [], [.int _] =>
      let m' := tstepCode st.cfg ch0 st.m .cancel
      let rel := !st.m.blocked.isEmpty
      { st := { st with m := m', mon := st.mon.onCancel, released := st.released || rel },
        model := some [.int m'.now],
        tags := if rel then ["throttle:cancel-releases-blocked"] else ["throttle:cancel"] }
    | "next", [], [.int _, .int id, .atom r] =>
      if id < 0 then { st := st, bad := some "throttle: negative id" } else
      let id := id.toNat
      let m' := tstepCode st.cfg ch0 st.m (.next id)
      let ro : Option Bool := if r == "T" then some true else if r == "F" then some false else none
      let (c, mon') := st.mon.onNext id ro
      let mr : String :=
        if m'.blocked.contains id then "blocked"
        else if m'.grants.any (·.id == id) then "T" else "F"
      let multi := st.multi || m'.blocked.length ≥ 2
      { st := { st with m := m', mon := mon', multi := multi },
        model := cmp st.multi [.int m'.now, .int id, .atom mr], spec := c,
        tags := [if multi then "throttle:multi-next" else s!"throttle:next-{mr}"] }
    | "done", [], [.int _, log] =>
      match triples? log with
      | none => { st := st, bad := some "throttle: done list" }
      | some tl =>
        let conv := tl.mapM fun (id, t, r) => if id < 0 then none else some (id.toNat, t, r != 0)
        match conv with
        | none => { st := st, bad := some "throttle: done ids" }
        | some log' =>
          let (c, mon') := st.mon.onDone log'
          { st := { st with mon := mon' },
            model := cmp st.multi [.int st.m.now,
              .list (st.m.doneLog.map fun (id, t, r) => tripleVal id t (if r then 1 else 0))],
            spec := c,
            nontrivial := st.m.grants.length ≥ 2 || st.dropped || st.released }
    | _, _, _ => { st := st, bad := some s!"throttle line {l.op}" }

/-! ## throttle under real parallelism (kind `throttlerace`)

`race n`: the harness runs `n` rounds outside the virtual clock: a goroutine calls `Next` on a fresh throttle and
another calls `Cancel` at (almost) the same moment, with a varying head start.  Whatever the interleaving, the
specification (`no_permission_after_cancel`, `cancel_releases_blocked`: after `Cancel` nobody stays blocked and
`Next` answers `false`) allows one answer only: every round ends with `Next` having returned `false`.  `stuck` is
reported by the harness only when the caller of `Next` is seen parked in `sync.Cond.Wait` after `Cancel` has
returned (a state, not a time-out); a round that merely takes long is `slow` and gets no verdict. -/
def throttleRaceKind : Kind where
  σ := Unit
  init := fun _ => some ()
  step := fun st l =>
    match l.op, l.args with
    | "race", [.int _] =>
      match l.res with
      | .atom "slow" :: _ => { st := st, tags := ["throttle:cancel-races-next:slow-no-verdict"] }
      | _ =>
      { st := st, model := some [.atom "ok"], tags := ["throttle:cancel-races-next"], nontrivial := true
        spec := if l.res == [.atom "ok"] then none else some "throttle:cancel-releases-blocked-next" }
    | _, _ => { st := st, bad := some s!"throttlerace: bad line {l.op}" }

/-! ## throttle with a late trailing timer (kind `throttlelate`)

`late n`: `n` rounds on the real clock with one P, arranged so that the trailing timer's callback runs only after a
direct grant has begun a new period (see the harness).  By `Theorems/C20Late.lean: late_spacing` the code hands out
consecutive permissions at least one period apart HOWEVER late the timer runs, so the only admitted answers are `ok`
(some round was conclusive, none showed two permissions inside one period) and `none` (no verdict). -/
def throttleLateKind : Kind where
  σ := Unit
  init := fun _ => some ()
  step := fun st l =>
    match l.op, l.args with
    | "late", [.int _] =>
      match l.res with
      | .atom "none" :: _ => { st := st, tags := ["throttle:late-timer:no-verdict"] }
      | _ =>
      { st := st, model := some [.atom "ok"], tags := ["throttle:late-timer"], nontrivial := true
        spec := if l.res == [.atom "ok"] then none else some "throttle:one-permission-per-period:late-timer" }
    | _, _ => { st := st, bad := some s!"throttlelate: bad line {l.op}" }

/-! ## debounce when the goroutine of an expired timer starts late (kind `debouncelate`)

`latecancel n` / `latecall n`: trials on the real clock with one P in which a `cancel()` (or a newer debounced call)
completes in the window between the expiry of the debounce timer and the start of the goroutine the runtime created for
its function (see the harness).  By `Theorems/C20Late.lean: dlate_runs_ok_partial` the goroutine, when it finally
starts, first checks under the debouncer's lock that its timer is still the current one — a cancel or a newer call that
completed BEFORE that check sends it away.  The only admitted answer is `ok`.

`gapcancel n` / `gapcall n` (hook `VerifDebounceGap`, build tag verif): the cancel() / newer call completes AFTER the
goroutine's check and BEFORE it calls the function.  The model of the code (`dlstep`: `check` then `cancel` then `run`,
theorem `dlate_full_false`) runs the function there, and so does the code: known finding F46
`debounce.go-ahead-then-run-window`.  `ok` (a code that closes the window) meets the clause and is accepted. -/
def debounceLateKind : Kind where
  σ := Unit
  init := fun _ => some ()
  step := fun st l =>
    match l.op, l.args with
    | "latecancel", [.int _] =>
      { st := st, model := some [.atom "ok"], tags := ["debounce:late-start:cancel"], nontrivial := true
        spec := if l.res == [.atom "ok"] then none else some "debounce:not-at-all-after-cancel:late-start" }
    | "latecall", [.int _] =>
      { st := st, model := some [.atom "ok"], tags := ["debounce:late-start:newer-call"], nontrivial := true
        spec := if l.res == [.atom "ok"] then none else some "debounce:never-sooner-than-wait-after-the-most-recent-call:late-start" }
    | "gapcancel", [.int _] => gap st l [.call, .tick 5, .expire 0, .check 0, .cancel, .run 0] "debounce:not-at-all-after-cancel:go-ahead-gap"
    | "gapcall", [.int _] => gap st l [.call, .tick 5, .expire 0, .check 0, .call, .run 0]
        "debounce:never-sooner-than-wait-after-the-most-recent-call:go-ahead-gap"
    | _, _ => { st := st, bad := some s!"debouncelate: bad line {l.op}" }
where
  /-- the model of the code on the history of the trial: does the function of the FIRST call run? -/
  gap (st : Unit) (l : Line) (h : List Model.C20.DLEv) (clause : String) : Step Unit :=
    let runs := (Model.C20.dlrun true 5 h).runs.any (fun r => r.idx == 0)
    match l.res with
    | [.atom "ok"] => { st := st, tags := ["debounce:go-ahead-gap:closed"], nontrivial := true }
    | [.atom "ran-after-go-ahead", .int _] =>
      { st := st, tags := ["debounce:go-ahead-gap"], nontrivial := true
        model := some (if runs then l.res else [.atom "ok"])
        known := if runs then some "debounce.go-ahead-then-run-window" else none
        spec := if runs then none else some clause }
    | _ => { st := st, spec := some clause }

end GoguVerif.Kinds.C20
