import GoguVerif.Go.Run
/-! Driver wiring for C12 (stub — to be filled in). -/
namespace GoguVerif.Kinds.C12
open GoguVerif

def kind : Kind where
  σ := Unit
  init := fun _ => some ()
  step := fun st l => { st := st, bad := some s!"C12: kind not implemented ({l.op})" }

end GoguVerif.Kinds.C12
