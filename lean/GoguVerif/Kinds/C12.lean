import GoguVerif.Go.Run
import GoguVerif.Model.C12
import GoguVerif.Spec.C12
/-!
# Driver wiring for C12 (kind `c12`, stateless)

For every protocol line: the model's answer (`Model.C12`, compared with the implementation's answer
= correspondence) and the monitor's verdict (`Spec.C12`, evaluated on the implementation's answer).
The callback families `p0…p5`, `f0…f5`, `r0…r3` are the same functions as in `harness/k_c12_test.go`.
-/
namespace GoguVerif.Kinds.C12
open GoguVerif
open GoguVerif.Model.C12 (Outcome)

def pred? : String → Option (Int → Bool)
  | "p0" => some fun x => x.tmod 2 == 0
  | "p1" => some fun x => x > 1
  | "p2" => some fun _ => true
  | "p3" => some fun _ => false
  | "p4" => some fun x => x == 2
  | "p5" => some fun x => x < 0
  | _ => none

def key? : String → Option (Int → Int)
  | "f0" => some fun x => x
  | "f1" => some fun x => x.tmod 2
  | "f2" => some fun x => x.tdiv 2
  | "f3" => some fun _ => 0
  | "f4" => some fun x => -x
  | "f5" => some fun x => x * x
  | _ => none

/-- reducers `fn(v, acc)` -/
def red? : String → Option (Int → Int → Int)
  | "r0" => some fun v acc => acc + v
  | "r1" => some fun v acc => 2 * acc + v
  | "r2" => some fun v acc => v - acc
  | "r3" => some fun _ acc => acc
  | _ => none

def matrix? : Val → Option (List (List Int))
  | .list rows => rows.mapM Val.ints?
  | _ => none

def ofMatrix (m : List (List Int)) : Val := .list (m.map Val.ofInts)

def groups? : Val → Option (List (Int × List Int))
  | .list es => es.mapM fun e => match e with
    | .list [.int k, g] => (g.ints?).map fun l => (k, l)
    | _ => none
  | _ => none

def ofGroups (g : List (Int × List Int)) : Val := .list (g.map fun e => .list [.int e.1, Val.ofInts e.2])

def insertGroup (e : Int × List Int) : List (Int × List Int) → List (Int × List Int)
  | [] => [e]
  | x :: r => if e.1 ≤ x.1 then e :: x :: r else x :: insertGroup e r

/-- the harness prints what came out of the Go map sorted by key; so is the model's association list -/
def sortGroups (g : List (Int × List Int)) : List (Int × List Int) := g.foldl (fun acc e => insertGroup e acc) []

instance : Inhabited (Model.C12.Nested Int) := ⟨.bad⟩
instance : Inhabited (Spec.C12.Nest Int) := ⟨.bad⟩

partial def nestM : Val → Model.C12.Nested Int
  | .int i => .leaf i
  | .list (.atom "s" :: rest) => match rest.mapM Val.int? with
    | some l => .slice l
    | none => .bad
  | .list l => .list (l.map nestM)
  | .atom _ => .bad

partial def nestS : Val → Spec.C12.Nest Int
  | .int i => .leaf i
  | .list (.atom "s" :: rest) => match rest.mapM Val.int? with
    | some l => .slice l
    | none => .bad
  | .list l => .list (l.map nestS)
  | .atom _ => .bad

partial def nestDepth : Val → Nat
  | .list (.atom "s" :: _) => 0
  | .list l => 1 + (l.map nestDepth).foldl max 0
  | _ => 0

def natBytes? (v : Val) : Option (List Nat) := (v.bytes?).map fun l => l.map UInt8.toNat
def ofNatBytes (l : List Nat) : Val := Val.ofBytes (l.map UInt8.ofNat)

def panicV : List Val := [.atom "panic"]
def isPanic (res : List Val) : Bool := match res with | [.atom "panic"] => true | _ => false

def outVals {τ : Type} (f : τ → List Val) : Outcome τ → List Val
  | .ok a => f a
  | .panic => panicV

/-- verdict helper: `none` = fine -/
def clause (ok : Bool) (name : String) : Option String := if ok then none else some name

structure Ans where
  model : List Val
  spec : Option String := none
  tags : List String := []
  nontrivial : Bool := false

def distinct2 (s : List Int) : Bool := match s with
  | [] => false
  | x :: r => r.any (· != x)

/-- the logging callback: returns the pure result and appends the visited element to the log -/
def logging {β : Type} (f : Int → β) : Int → List Int → β × List Int := fun x log => (f x, log ++ [x])

def answer (l : Line) : Option Ans :=
  let res := l.res
  match l.op, l.args with
  | "chunk", [sv, .int n] => do
    let s ← sv.ints?
    let m := Model.C12.chunk s n
    let spec :=
      if n ≤ 0 then none                                   -- the deliberate panic is accepted here
      else if isPanic res then some "chunk:no-panic-for-positive-size"
      else match res with
        | [rv] => match matrix? rv with
          | some r => clause (decide (Spec.C12.ChunkOK s n.toNat r)) "chunk:cuts-into-size-n-pieces"
          | none => some "chunk:malformed-answer"
        | _ => some "chunk:malformed-answer"
    let tag := if n ≤ 0 then "chunk-panic" else if s.length == 0 then "chunk-empty"
      else if (s.length : Int).tmod n == 0 then "chunk-exact" else "chunk-short-last"
    pure { model := outVals (fun r => [ofMatrix r]) m, spec := spec, tags := ["chunk", tag]
           nontrivial := n ≤ 0 || (n < s.length && distinct2 s) }
  | "partition", [.atom pn, sv] => do
    let s ← sv.ints?
    let p ← pred? pn
    let (yes, no) := Model.C12.partition s p
    let spec := match res with
      | [a, b] => match a.ints?, b.ints? with
        | some a, some b => clause (decide (Spec.C12.PartitionOK p s a b)) "partition:split-by-predicate"
        | _, _ => some "partition:malformed-answer"
      | _ => some "partition:malformed-answer"
    pure { model := [Val.ofInts yes, Val.ofInts no], spec := spec, tags := ["partition"]
           nontrivial := !yes.isEmpty && !no.isEmpty }
  | "filter", [.atom pn, sv] => do
    let s ← sv.ints?
    let p ← pred? pn
    let r := Model.C12.filter s p
    let spec := match res with
      | [a] => match a.ints? with
        | some a => clause (decide (Spec.C12.FilterOK p s a)) "filter:keeps-exactly-the-satisfying"
        | none => some "filter:malformed-answer"
      | _ => some "filter:malformed-answer"
    pure { model := [Val.ofInts r], spec := spec, tags := ["filter"]
           nontrivial := !r.isEmpty && r.length < s.length }
  | "reject", [.atom pn, sv] => do
    let s ← sv.ints?
    let p ← pred? pn
    let r := Model.C12.reject s p
    let spec := match res with
      | [a] => match a.ints? with
        | some a => clause (decide (Spec.C12.RejectOK p s a)) "reject:keeps-exactly-the-non-satisfying"
        | none => some "reject:malformed-answer"
      | _ => some "reject:malformed-answer"
    pure { model := [Val.ofInts r], spec := spec, tags := ["reject"]
           nontrivial := !r.isEmpty && r.length < s.length }
  | "dropwhile", [.atom pn, sv] => do
    let s ← sv.ints?
    let p ← pred? pn
    let r := Model.C12.dropWhile s p
    let spec := match res with
      | [a] => match a.ints? with
        | some a => clause (decide (Spec.C12.DropWhileOK p s a)) "dropwhile:keeps-exactly-the-non-satisfying"
        | none => some "dropwhile:malformed-answer"
      | _ => some "dropwhile:malformed-answer"
    pure { model := [Val.ofInts r], spec := spec, tags := ["dropwhile"]
           nontrivial := !r.isEmpty && r.length < s.length }
  | "droprightwhile", [.atom pn, sv] => do
    let s ← sv.ints?
    let p ← pred? pn
    let m := Model.C12.dropRightWhile s p
    let spec :=
      if isPanic res then some "droprightwhile:no-panic"
      else match res with
      | [a] => match a.ints? with
        | some a => clause (decide (Spec.C12.DropRightWhileOK p s a)) "droprightwhile:keeps-the-non-satisfying-reversed"
        | none => some "droprightwhile:malformed-answer"
      | _ => some "droprightwhile:malformed-answer"
    let nt := match m with | .ok r => !r.isEmpty && r.length < s.length | .panic => false
    pure { model := outVals (fun r => [Val.ofInts r]) m, spec := spec, tags := ["droprightwhile"], nontrivial := nt }
  | "groupby", [.atom fname, sv] => do
    let s ← sv.ints?
    let f ← key? fname
    let m := Model.C12.groupBy s f
    let spec :=
      if isPanic res then some "groupby:no-panic"
      else match res with
      | [a] => match groups? a with
        | some g => clause (decide (Spec.C12.GroupOK f s g)) "groupby:groups-by-key-in-order"
        | none => some "groupby:malformed-answer"
      | _ => some "groupby:malformed-answer"
    let nt := match m with | .ok g => g.length ≥ 2 && g.any (fun e => e.2.length ≥ 2) | .panic => false
    pure { model := outVals (fun g => [ofGroups (sortGroups g)]) m, spec := spec, tags := ["groupby"], nontrivial := nt }
  | "groupbynan", [sv] => do
    -- GroupBy under a float64 key that is NaN for the multiples of 3 and x mod 2 otherwise: every element is in exactly
    -- one group (the total is the input length) and the two ordinary groups are the order-preserving sub-sequences
    let s ← sv.ints?
    let g0 := s.filter (fun x => x % 3 != 0 && x % 2 == 0)
    let g1 := s.filter (fun x => x % 3 != 0 && x % 2 != 0)
    let want := [Val.int s.length, Val.ofInts g0, Val.ofInts g1]
    pure { model := want, tags := ["groupby:nan-keys"], nontrivial := s.any (fun x => x % 3 == 0) && s.length ≥ 2
           spec := if isPanic res then some "groupby:no-panic" else clause (res == want) "groupby:every-element-exactly-once:nan-keys" }
  | "groupbyzero", [sv] => do
    -- GroupBy over float64 ELEMENTS with +0.0 (even multiples of 3) and -0.0 (odd multiples of 3, shown as -1000000)
    -- under the sign bit as key: every element goes to the part ITS OWN key dictates, in order
    let s ← sv.ints?
    let neg : Int → Bool := fun x => (x % 3 == 0 && x % 2 != 0) || (x % 3 != 0 && x < 0)
    let rend : Int → Int := fun x => if x % 3 == 0 then (if x % 2 == 0 then 0 else -1000000) else x
    let want := [Val.ofInts ((s.filter (fun x => !neg x)).map rend), Val.ofInts ((s.filter neg).map rend)]
    pure { model := want, tags := ["groupby:signed-zeros"]
           nontrivial := s.any (fun x => x % 3 == 0 && x % 2 == 0) && s.any (fun x => x % 3 == 0 && x % 2 != 0)
           spec := if isPanic res then some "groupby:no-panic" else clause (res == want) "groupby:each-in-the-part-its-key-dictates:signed-zeros" }
  | op@"zip", [mv] | op@"unzip", [mv] => do
    let m ← matrix? mv
    let tr := op == "unzip"
    let square := decide (Spec.C12.Square m)
    -- the line shows f(m) and g(f(m)) where (f, g) = (Zip, Unzip) or (Unzip, Zip)
    let model := match Model.C12.zipWith tr m with
      | .panic => panicV
      | .ok r => match Model.C12.zipWith (!tr) r with
        | .panic => panicV
        | .ok back => [ofMatrix r, ofMatrix back]
    let spec :=
      if !square then none                                  -- the deliberate panic is accepted here
      else if isPanic res then some s!"{op}:no-panic-on-square-input"
      else match res with
        | [a, b] => match matrix? a, matrix? b with
          | some r, some back =>
            if !decide (Spec.C12.TransposeOK m r) then some s!"{op}:transposes"
            else clause (back == m) s!"{op}:undone-by-its-opposite"
          | _, _ => some s!"{op}:malformed-answer"
        | _ => some s!"{op}:malformed-answer"
    let symmetric := match Model.C12.zipWith tr m with | .ok r => r == m | .panic => true
    pure { model := model, spec := spec, tags := [op, if square then op ++ "-square" else op ++ "-nonsquare-panic"]
           nontrivial := !square || (m.length ≥ 2 && !symmetric) }
  | "flatten", [nv] | "flattenshared", [nv] => do
    let mres := Model.C12.flatten (nestM nv)
    let model := match mres with
      | some r => [Val.atom "ok", Val.ofInts r]
      | none => [Val.atom "err"]
    let ns := nestS nv
    let ans : Option (Option (List Int)) := match res with
      | [.atom "ok", a] => (a.ints?).map some
      | [.atom "err"] => some none
      | _ => none
    let spec :=
      if isPanic res then some "flatten:no-panic"
      else match ans with
        | none => some "flatten:malformed-answer"
        | some a => clause (decide (Spec.C12.FlattenOK ns a)) "flatten:leaves-left-to-right"
    let d := nestDepth nv
    let nt := match mres with | some r => d ≥ 2 && r.length ≥ 2 | none => true
    pure { model := model, spec := spec, nontrivial := nt
           tags := ["flatten", if mres.isNone then "flatten-err" else s!"flatten-depth{min d 4}"] }
  | "merge", [mv] => do
    let m ← matrix? mv
    match m with
    | [] => none
    | s :: params =>
      let r := Model.C12.merge s params
      let spec := match res with
        | [a] => match a.ints? with
          | some a => clause (decide (Spec.C12.MergeOK s params a)) "merge:concatenates"
          | none => some "merge:malformed-answer"
        | _ => some "merge:malformed-answer"
      pure { model := [Val.ofInts r], spec := spec, tags := ["merge"]
             nontrivial := (m.filter (fun x => !x.isEmpty)).length ≥ 2 }
  | "drop", [sv, .int n] => do
    let s ← sv.ints?
    let m := Model.C12.drop s n
    let spec :=
      if isPanic res then some "drop:no-panic"
      else match res with
      | [a] => match a.ints? with
        | some a => clause (decide (Spec.C12.DropOK s n a)) "drop:removes-n-from-front-or-back"
        | none => some "drop:malformed-answer"
      | _ => some "drop:malformed-answer"
    let tag := if n == 0 then "drop-zero" else if n.natAbs < s.length then (if n > 0 then "drop-front" else "drop-back")
      else if n.natAbs == s.length then "drop-exactly-all" else "drop-more-than-all"
    pure { model := outVals (fun r => [Val.ofInts r]) m, spec := spec, tags := ["drop", tag]
           nontrivial := n != 0 && n.natAbs < s.length && distinct2 s }
  | "reverse", [sv] => do
    let s ← sv.ints?
    let model := match Model.C12.reverse s with
      | .panic => panicV
      | .ok r => match Model.C12.reverse r with
        | .panic => panicV
        | .ok rr => [Val.ofInts r, Val.ofInts rr]
    let spec :=
      if isPanic res then some "reverse:no-panic"
      else match res with
      | [a, b] => match a.ints?, b.ints? with
        | some r, some rr =>
          if !decide (Spec.C12.Reversed s r) then some "reverse:lists-backwards"
          else clause (rr == s) "reverse:involution"
        | _, _ => some "reverse:malformed-answer"
      | _ => some "reverse:malformed-answer"
    pure { model := model, spec := spec, tags := ["reverse"], nontrivial := s.length ≥ 2 && s.reverse != s }
  | "reversestr", [sv] => do
    let s ← natBytes? sv
    let model := match Model.C12.reverseStr s with
      | .panic => panicV
      | .ok r => match Model.C12.reverseStr r with
        | .panic => panicV
        | .ok rr => [ofNatBytes r, ofNatBytes rr]
    let valid := Spec.C12.parse? s
    let spec :=
      if isPanic res then some "reversestr:no-panic"
      else match res with
      | [a, b] => match natBytes? a, natBytes? b with
        | some r, some rr =>
          -- `reverseStrCheck` decides the clause (Theorems.C12.reverseStrCheck_iff); the rest only
          -- names the part that failed
          if Spec.C12.reverseStrCheck s r rr then none
          else match valid with
          | none => none
          | some rs =>
            if r != Spec.C12.utf8All rs.reverse then some "reversestr:reverses-the-runes"
            else some "reversestr:involution"
        | _, _ => some "reversestr:malformed-answer"
      | _ => some "reversestr:malformed-answer"
    let nt := match valid with
      | some rs => rs.length ≥ 2 && rs.any (· ≥ 0x80) && rs.reverse != rs
      | none => false
    pure { model := model, spec := spec, nontrivial := nt
           tags := ["reversestr", if valid.isSome then "reversestr-valid-utf8" else "reversestr-invalid-utf8"] }
  | "shuffle", [sv, .int _] => do
    let s ← sv.ints?
    match res with
    | [rv, jv, av] =>
      let js ← jv.ints?
      if js.length != s.length then none
      else
        let rnd : Nat → Nat := fun c => match js[c]? with | some j => j.toNat | none => 0
        let model := match Model.C12.shuffle rnd s with
          | .panic => panicV
          | .ok r => [Val.ofInts r, jv, sv]
        let spec := match rv.ints?, av.ints? with
          | some r, some a =>
            if !decide (Spec.C12.ShuffleOK s r) then some "shuffle:permutation"
            else clause (a == s) "shuffle:argument-unchanged"
          | _, _ => some "shuffle:malformed-answer"
        let moved := match rv.ints? with | some r => r != s | none => false
        pure { model := model, spec := spec, tags := ["shuffle"], nontrivial := s.length ≥ 3 && moved }
    | _ =>
      if isPanic res then
        pure { model := [], spec := some "shuffle:no-panic", tags := ["shuffle"] }
      else none
  | "map", [.atom fname, sv] => do
    let s ← sv.ints?
    let f ← key? fname
    let m := Model.C12.map s (logging f) []
    let spec :=
      if isPanic res then some "map:no-panic"
      else match res with
      | [a, b] => match a.ints?, b.ints? with
        | some r, some log =>
          if log != s then some "map:visits-once-in-index-order"
          else clause (decide (Spec.C12.MapOK f s r log)) "map:image-per-position"
        | _, _ => some "map:malformed-answer"
      | _ => some "map:malformed-answer"
    pure { model := outVals (fun r => [Val.ofInts r.1, Val.ofInts r.2]) m, spec := spec, tags := ["map"]
           nontrivial := distinct2 s }
  | "foreach", [sv] => do
    let s ← sv.ints?
    let log := Model.C12.forEach (fun x (log : List Int) => log ++ [x]) s []
    let spec :=
      if isPanic res then some "foreach:no-panic"
      else match res with
      | [a] => match a.ints? with
        | some lg => clause (decide (Spec.C12.ForEachOK s lg)) "foreach:visits-once-in-index-order"
        | none => some "foreach:malformed-answer"
      | _ => some "foreach:malformed-answer"
    pure { model := [Val.ofInts log], spec := spec, tags := ["foreach"], nontrivial := distinct2 s }
  | "foreachright", [sv] => do
    let s ← sv.ints?
    let m := Model.C12.forEachRight s (fun x (log : List Int) => log ++ [x]) []
    let spec :=
      if isPanic res then some "foreachright:no-panic"
      else match res with
      | [a] => match a.ints? with
        | some lg => clause (decide (Spec.C12.ForEachRightOK s lg)) "foreachright:visits-once-in-reverse-order"
        | none => some "foreachright:malformed-answer"
      | _ => some "foreachright:malformed-answer"
    pure { model := outVals (fun lg => [Val.ofInts lg]) m, spec := spec, tags := ["foreachright"]
           nontrivial := distinct2 s }
  | "reduce", [.atom rn, sv, .int init] => do
    let s ← sv.ints?
    let f ← red? rn
    let (v, log) := Model.C12.reduce (fun x acc (log : List Int) => (f x acc, log ++ [x])) s init []
    let spec :=
      if isPanic res then some "reduce:no-panic"
      else match res with
      | [.int v', b] => match b.ints? with
        | some lg =>
          if lg != s then some "reduce:visits-once-in-index-order"
          else clause (decide (Spec.C12.ReduceOK f s init v' lg)) "reduce:left-fold"
        | none => some "reduce:malformed-answer"
      | _ => some "reduce:malformed-answer"
    pure { model := [.int v, Val.ofInts log], spec := spec, tags := ["reduce"], nontrivial := distinct2 s }
  | _, _ => none

/-- `mergeshared m k`: `Merge` called on operands that are windows of ONE backing array, laid out in an
order (`k`) different from the argument order, with spare capacity behind every window; the contract,
model and monitor are those of `merge` — where a slice lives is not part of its value. -/
def normOp (l : Line) : Line :=
  match l.op, l.args with
  | "mergeshared", [mv, .int _] => { l with op := "merge", args := [mv] }
  | _, _ => l

def kind : Kind where
  σ := Unit
  init := fun _ => some ()
  step := fun st l0 =>
    let l := normOp l0
    match l.res with
    | [.atom "hang"] => { st := st, spec := some s!"terminates:{l.op}" }
    | _ =>
      match answer l with
      | none => { st := st, bad := some s!"c12: cannot read line ({l.op})" }
      | some a => { st := st, model := some a.model, spec := a.spec, tags := a.tags, nontrivial := a.nontrivial }

end GoguVerif.Kinds.C12
