import GoguVerif.Go.Run
import GoguVerif.Spec.C05
import GoguVerif.Spec.C06
import GoguVerif.Model.Queue
import GoguVerif.Model.Stack
/-! Driver wiring for C05 / C06: parse protocol lines, step model and monitor. -/
namespace GoguVerif.Kinds
open GoguVerif

namespace Q
open Spec.C05

def parseOp (l : Line) : Option (Op Int) :=
  match l.op, l.args with
  | "enqueue", [.int x] => some (.enqueue x)
  | "dequeue", [] => some .dequeue
  | "peek", [] => some .peek
  | "search", [.int x] => some (.search x)
  | "size", [] => some .size
  | "clear", [] => some .clear
  | _, _ => none

/-- `linked`: `LQueue.Dequeue` has no error flag (zero value on an empty queue). -/
def renderOut (linked : Bool) : Out Int → List Val
  | .unit => [.atom "ok"]
  | .deq v e => if linked then [.int v] else [.int v, Val.ofBool e]
  | .val v => [.int v]
  | .bool b => [Val.ofBool b]
  | .int n => [.int n]

structure St where
  spec : List Int
  model : List Int
  maxLen : Nat := 0
  emptied : Bool := false

def queueKind : Kind where
  σ := St
  init := fun _ => some { spec := [], model := [] }
  step := fun st l =>
    match parseOp l with
    | none => { st := st, bad := some s!"bad queue op {l.op}" }
    | some op =>
      let (s', so) := Spec.C05.step st.spec op
      let (m', mo) := Model.Queue.step st.model op
      let emptied := st.emptied || (st.maxLen ≥ 2 && s'.isEmpty)
      { st := { spec := s', model := m', maxLen := max st.maxLen s'.length, emptied := emptied }
        model := some (renderOut false mo)
        spec := if renderOut false so == l.res then none else some s!"fifo:{l.op}"
        -- non-trivial: held ≥ 2 elements, was emptied, and refilled afterwards
        nontrivial := st.emptied && s'.length ≥ 1
        tags := [l.op] }

/-- linked queue: spec monitor (the pointer-level model is added in `Kinds/Linked.lean`) -/
def lqueueSpecOnly : Kind where
  σ := St
  init := fun ps => match ps with
    | [.int v] => some { spec := [v], model := [] }
    | _ => none
  step := fun st l =>
    match parseOp l with
    | none => { st := st, bad := some s!"bad queue op {l.op}" }
    | some op =>
      let (s', so) := Spec.C05.step st.spec op
      let emptied := st.emptied || (st.maxLen ≥ 2 && s'.isEmpty)
      { st := { st with spec := s', maxLen := max st.maxLen s'.length, emptied := emptied }
        spec := if renderOut true so == l.res then none else some s!"fifo:{l.op}"
        nontrivial := st.emptied && s'.length ≥ 1
        tags := [l.op] }

end Q

namespace S
open Spec.C06

def parseOp (l : Line) : Option (Op Int) :=
  match l.op, l.args with
  | "push", [.int x] => some (.push x)
  | "pop", [] => some .pop
  | "peek", [] => some .peek
  | "search", [.int x] => some (.search x)
  | "size", [] => some .size
  | _, _ => none

def renderOut : Out Int → List Val
  | .unit => [.atom "ok"]
  | .val v => [.int v]
  | .bool b => [Val.ofBool b]
  | .int n => [.int n]

structure St where
  spec : List Int
  model : List Int
  maxLen : Nat := 0
  emptied : Bool := false

def stackKind : Kind where
  σ := St
  init := fun _ => some { spec := [], model := [] }
  step := fun st l =>
    match parseOp l with
    | none => { st := st, bad := some s!"bad stack op {l.op}" }
    | some op =>
      let (s', so) := Spec.C06.step st.spec op
      let (m', mo) := Model.Stack.step st.model op
      let emptied := st.emptied || (st.maxLen ≥ 2 && s'.isEmpty)
      { st := { spec := s', model := m', maxLen := max st.maxLen s'.length, emptied := emptied }
        model := some (renderOut mo)
        spec := if renderOut so == l.res then none else some s!"lifo:{l.op}"
        nontrivial := st.emptied && s'.length ≥ 1
        tags := [l.op] }

def lstackSpecOnly : Kind where
  σ := St
  init := fun ps => match ps with
    | [.int v] => some { spec := [v], model := [] }
    | _ => none
  step := fun st l =>
    match parseOp l with
    | none => { st := st, bad := some s!"bad stack op {l.op}" }
    | some op =>
      let (s', so) := Spec.C06.step st.spec op
      let emptied := st.emptied || (st.maxLen ≥ 2 && s'.isEmpty)
      { st := { st with spec := s', maxLen := max st.maxLen s'.length, emptied := emptied }
        spec := if renderOut so == l.res then none else some s!"lifo:{l.op}"
        nontrivial := st.emptied && s'.length ≥ 1
        tags := [l.op] }

end S
end GoguVerif.Kinds
