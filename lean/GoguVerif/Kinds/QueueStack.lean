import GoguVerif.Go.Run
import GoguVerif.Spec.C05
import GoguVerif.Spec.C06
import GoguVerif.Model.Queue
import GoguVerif.Model.Stack
import GoguVerif.Model.LQueue
import GoguVerif.Model.LStack
/-! Driver wiring for C05 / C06: parse protocol lines, step model and monitor. -/
namespace GoguVerif.Kinds
open GoguVerif

namespace Q
open Spec.C05

def parseOp (l : Line) : Option (Op Int) :=
  match l.op, l.args with
  | "enqueue", [.int x] => some (.enqueue x)
  | "dequeue", [] => some .dequeue
  | "peek", [] => some .peek
  | "search", [.int x] => some (.search x)
  | "size", [] => some .size
  | "clear", [] => some .clear
  | _, _ => none

/-- `linked`: `LQueue.Dequeue` has no error flag (zero value on an empty queue). -/
def renderOut (linked : Bool) : Out Int → List Val
  | .unit => [.atom "ok"]
  | .deq v e => if linked then [.int v] else [.int v, Val.ofBool e]
  | .val v => [.int v]
  | .bool b => [Val.ofBool b]
  | .int n => [.int n]

structure St where
  spec : List Int
  model : List Int
  maxLen : Nat := 0
  emptied : Bool := false

def queueKind : Kind where
  σ := St
  init := fun _ => some { spec := [], model := [] }
  step := fun st l =>
    match parseOp l with
    | none => { st := st, bad := some s!"bad queue op {l.op}" }
    | some op =>
      let (s', so) := Spec.C05.step st.spec op
      let (m', mo) := Model.Queue.step st.model op
      let emptied := st.emptied || (st.maxLen ≥ 2 && s'.isEmpty)
      { st := { spec := s', model := m', maxLen := max st.maxLen s'.length, emptied := emptied }
        model := some (renderOut false mo)
        spec := if renderOut false so == l.res then none else some s!"fifo:{l.op}"
        -- non-trivial: held ≥ 2 elements, was emptied, and refilled afterwards
        nontrivial := st.emptied && s'.length ≥ 1
        tags := [l.op] }

structure LSt where
  spec : List Int
  model : Model.LQueue.St Int
  maxLen : Nat := 0
  emptied : Bool := false

/-- linked queue: FIFO monitor + the model of `lqueue.go` (counter + `list.DList` at sequence level) -/
def lqueueKind : Kind where
  σ := LSt
  init := fun ps => match ps with
    | [.int v] => some { spec := [v], model := Model.LQueue.new v }
    | _ => none
  step := fun st l =>
    match parseOp l with
    | none => { st := st, bad := some s!"bad queue op {l.op}" }
    | some op =>
      let (s', so) := Spec.C05.step st.spec op
      let (m', mo) := Model.LQueue.step st.model op
      let emptied := st.emptied || (st.maxLen ≥ 2 && s'.isEmpty)
      { st := { spec := s', model := m', maxLen := max st.maxLen s'.length, emptied := emptied }
        model := some (renderOut true mo)
        spec := if renderOut true so == l.res then none else some s!"fifo:{l.op}"
        nontrivial := st.emptied && s'.length ≥ 1
        tags := [l.op] }

end Q

namespace S
open Spec.C06

def parseOp (l : Line) : Option (Op Int) :=
  match l.op, l.args with
  | "push", [.int x] => some (.push x)
  | "pop", [] => some .pop
  | "peek", [] => some .peek
  | "search", [.int x] => some (.search x)
  | "size", [] => some .size
  | _, _ => none

def renderOut : Out Int → List Val
  | .unit => [.atom "ok"]
  | .val v => [.int v]
  | .bool b => [Val.ofBool b]
  | .int n => [.int n]

structure St where
  spec : List Int
  model : List Int
  maxLen : Nat := 0
  emptied : Bool := false

def stackKind : Kind where
  σ := St
  init := fun _ => some { spec := [], model := [] }
  step := fun st l =>
    match parseOp l with
    | none => { st := st, bad := some s!"bad stack op {l.op}" }
    | some op =>
      let (s', so) := Spec.C06.step st.spec op
      let (m', mo) := Model.Stack.step st.model op
      let emptied := st.emptied || (st.maxLen ≥ 2 && s'.isEmpty)
      { st := { spec := s', model := m', maxLen := max st.maxLen s'.length, emptied := emptied }
        model := some (renderOut mo)
        spec := if renderOut so == l.res then none else some s!"lifo:{l.op}"
        nontrivial := st.emptied && s'.length ≥ 1
        tags := [l.op] }

/-- State of the linked-stack monitor: pure spec (while still a live hypothesis about the
implementation's state), patched spec (known findings). -/
structure LSt where
  spec : List Int
  specAlive : Bool := true
  model : Model.LStack.St Int
  patched : Spec.C06.Patched.St Int
  maxLen : Nat := 0
  emptied : Bool := false

/-- Monitor for `LStack`.  Two hypotheses about the implementation are tracked: it follows the pure
LIFO spec, or the spec patched with exactly the listed known findings.  An answer that contradicts
the pure spec is attributed to a known finding only if the patched spec predicts it; an answer
neither predicts is a violation. -/
def lstackMonitorStep (st : LSt) (l : Line) : Step LSt :=
    match parseOp l with
    | none => { st := st, bad := some s!"bad stack op {l.op}" }
    | some op =>
      let (p', po) := Spec.C06.Patched.step st.patched op
      let matchP := renderOut po == l.res
      if !st.specAlive then
        { st := { st with patched := p' }
          spec := if matchP then none else some s!"lifo-after-known-deviation:{l.op}"
          tags := [l.op] }
      else
        let (s', so) := Spec.C06.step st.spec op
        let matchS := renderOut so == l.res
        let agreeBefore := st.patched == Spec.C06.Patched.ofList st.spec
        let emptied := st.emptied || (st.maxLen ≥ 2 && s'.isEmpty)
        let base : LSt := { st with spec := s', maxLen := max st.maxLen s'.length, emptied := emptied }
        if matchS && matchP then
          { st := { base with patched := p' }, nontrivial := st.emptied && s'.length ≥ 1, tags := [l.op] }
        else if matchS then
          -- the implementation follows the pure spec here: drop the patched hypothesis' history
          { st := { base with patched := Spec.C06.Patched.ofList s' }
            nontrivial := st.emptied && s'.length ≥ 1, tags := [l.op] }
        else if matchP then
          let sig := if agreeBefore && st.spec.length ≥ 2 then "lstack.pop-returns-element-beneath"
                     else "lstack.pop-keeps-bottom"
          let agreeAfter := p' == Spec.C06.Patched.ofList s'
          { st := { base with patched := p', specAlive := agreeAfter }, known := some sig, tags := [l.op] }
        else
          { st := base, spec := some s!"lifo:{l.op}", tags := [l.op] }

/-- linked stack: the monitor above + the model of `lstack.go` (counter + `list.DList` at sequence
level) run beside it for the correspondence. -/
def lstackKind : Kind where
  σ := LSt
  init := fun ps => match ps with
    | [.int v] => some { spec := [v], model := Model.LStack.new v, patched := Spec.C06.Patched.ofList [v] }
    | _ => none
  step := fun st l =>
    let r := lstackMonitorStep st l
    match parseOp l with
    | none => r
    | some op =>
      let (m', mo) := Model.LStack.step st.model op
      { r with st := { r.st with model := m' }, model := some (renderOut mo) }

end S
end GoguVerif.Kinds
