import GoguVerif.Go.Run
import GoguVerif.Spec.C15
import GoguVerif.Model.C15
/-!
# Driver wiring for C15 (string helpers)

`CASE c15 [[rune,lower,upper],…]` — the case table computed by the harness with package `unicode`.
Every line is one call; the model's answer is compared with the implementation's (correspondence) and
the specification's checker judges the implementation's own answer (monitor).
-/
namespace GoguVerif.Kinds.C15
open GoguVerif GoguVerif.Go.Utf8
open GoguVerif.Model.C15 (Outcome)

abbrev Table := List (Nat × Nat × Nat)

def parseTable (v : Val) : Option Table :=
  match v with
  | .list l => l.mapM fun e =>
    match e with
    | .list [.int r, .int lo, .int up] =>
      if r < 0 ∨ lo < 0 ∨ up < 0 then none else some (r.toNat, lo.toNat, up.toNat)
    | _ => none
  | _ => none

def lookup (t : Table) (r : Nat) : Option (Nat × Nat) :=
  match t with
  | [] => none
  | (k, v) :: rest => if k == r then some v else lookup rest r

/-- the table as functions (a rune outside the table is reported as BAD before these are used) -/
def loOf (t : Table) (r : Nat) : Nat := match lookup t r with | some v => v.1 | none => r
def upOf (t : Table) (r : Nat) : Nat := match lookup t r with | some v => v.2 | none => r

def covered (t : Table) (s : Str) : Bool :=
  (lookup t runeError).isSome && (runes s).all fun r => (lookup t r).isSome

def outVal (o : Outcome Str) : List Val :=
  match o with
  | .ok b => [Val.ofBytes b]
  | .panic => [.atom "panic"]

def isPanic (res : List Val) : Bool :=
  match res with
  | [.atom "panic"] => true
  | [.atom "hang"] => true
  | _ => false

def bytes1 (res : List Val) : Option Str :=
  match res with
  | [v] => v.bytes?
  | _ => none

/-- monitor for a function whose specification determines the answer: `want` -/
def judgeEq (clause : String) (res : List Val) (want : Str) : Option String :=
  if isPanic res then some (clause ++ ":no-panic")
  else match bytes1 res with
    | some r => if r == want then none else some clause
    | none => some (clause ++ ":malformed")

def judgeBy (clause : String) (res : List Val) (ok : Str → Bool) : Option String :=
  if isPanic res then some (clause ++ ":no-panic")
  else match bytes1 res with
    | some r => if ok r then none else some clause
    | none => some (clause ++ ":malformed")

def hasMulti (s : Str) : Bool := s.any fun b => b.toNat ≥ 0x80

def step (t : Table) (l : Line) : Step Table :=
  let lo := loOf t
  let up := upOf t
  match l.op, l.args with
  | "substr", [sv, .int off, .int len] =>
    match sv.bytes? with
    | none => { st := t, bad := some "substr args" }
    | some s =>
      let want := Spec.C15.substrSpec s off len
      { st := t, model := some (outVal (Model.C15.substr s off len))
        spec := judgeEq "substr:php-range" l.res want
        tags := ["substr", if want.isEmpty then "substr:empty" else "substr:range"] ++
          (if off < 0 then ["substr:neg-offset"] else []) ++ (if len < 0 then ["substr:neg-length"] else [])
        nontrivial := !want.isEmpty && want.length < s.length }
  | "split", [sv, .int idx] =>
    match sv.bytes? with
    | none => { st := t, bad := some "split args" }
    | some s =>
      let model : List Val := match Model.C15.splitAtIndex s idx with
        | .ok parts => [.list (parts.map Val.ofBytes)]
        | .panic => [.atom "panic"]
      let verdict : Option String :=
        if isPanic l.res then some "split:no-panic"
        else match l.res with
          | [.list ps] =>
            match ps.mapM Val.bytes? with
            | some parts => if Spec.C15.splitOk s parts then none else some "split:two-parts-concat"
            | none => some "split:malformed"
          | _ => some "split:malformed"
      let inside : Bool := decide (0 ≤ idx ∧ idx + 1 < s.length) &&
        (match s[(idx + 1).toNat]? with | some b => isCont b.toNat | none => false)
      { st := t, model := some model, spec := verdict
        tags := ["split"] ++ (if inside then ["split:inside-rune"] else [])
        nontrivial := decide (0 ≤ idx ∧ idx + 1 < s.length) }
  | op, [sv, .int size, tv] =>
    match sv.bytes?, tv.bytes? with
    | some s, some tok =>
      let silent := tok.isEmpty && decide (size > s.length)
      let (m, ok) : Outcome Str × (Str → Bool) :=
        if op == "pad" then (Model.C15.pad s size tok, Spec.C15.padOk s size tok)
        else if op == "padl" then (Model.C15.padLeft s size tok, Spec.C15.padLeftOk s size tok)
        else (Model.C15.padRight s size tok, Spec.C15.padRightOk s size tok)
      if op != "pad" && op != "padl" && op != "padr" then { st := t, bad := some s!"c15: bad line {op}" }
      else
        let d := size - s.length
        { st := t, model := some (outVal m)
          spec := if silent then none else judgeBy (op ++ ":length-position-filler") l.res ok
          tags := [op] ++ (if silent then ["pad:empty-token"] else
            if d ≤ 0 then ["pad:long-enough"] else
            if (tok.length : Int) ≤ (if op == "pad" then d / 2 else d) then ["pad:repeat"] else ["pad:truncate"])
          nontrivial := !silent && decide (d > 0) && decide ((tok.length : Int) < d) }
    | _, _ => { st := t, bad := some "pad args" }
  | op, [sv, tv] =>
    match sv.bytes?, tv.bytes? with
    | some s, some tok =>
      if op == "wrap" then
        { st := t, model := some [Val.ofBytes (Model.C15.wrap s tok)]
          spec := judgeEq "wrap:token-both-sides" l.res (Spec.C15.wrapSpec s tok), tags := ["wrap"] }
      else if op == "unwrap" then
        let want := Spec.C15.unwrapSpec s tok
        let stripped := want.length < s.length
        { st := t, model := some (outVal (Model.C15.unwrap s tok))
          spec := judgeEq (if stripped then "unwrap:undoes-wrap" else "unwrap:not-wrapped-unchanged") l.res want
          tags := ["unwrap", if stripped then "unwrap:stripped" else "unwrap:unchanged"] ++
            (if !stripped && !tok.isEmpty && (tok.isPrefixOf s || tok.isSuffixOf s) then ["unwrap:half-wrapped"] else [])
          nontrivial := !tok.isEmpty && (tok.isPrefixOf s || tok.isSuffixOf s) }
      else if op == "unwrapwrap" then
        { st := t, model := some (outVal (Model.C15.unwrap (Model.C15.wrap s tok) tok))
          spec := judgeEq "unwrap-wrap:round-trip" l.res s
          tags := ["unwrapwrap"], nontrivial := !tok.isEmpty && !s.isEmpty }
      else if op == "wrapall" then
        { st := t, model := some [Val.ofBytes (Model.C15.wrapAllRune s tok)]
          spec := judgeEq "wrapall:every-rune" l.res (Spec.C15.wrapAllSpec s tok)
          tags := ["wrapall"], nontrivial := hasMulti s && !tok.isEmpty }
      else { st := t, bad := some s!"c15: bad line {op}" }
    | _, _ => { st := t, bad := some "wrap args" }
  | op, [sv] =>
    match sv.bytes? with
    | none => { st := t, bad := some "string arg" }
    | some s =>
      if op == "reverse" then
        { st := t, model := some (outVal (Model.C15.reverseStr s))
          spec := judgeEq "reverse:runes-reversed" l.res (Spec.C15.reverseSpec s)
          tags := ["reverse"], nontrivial := hasMulti s && (runes s).length ≥ 2 }
      else if !(covered t s) then { st := t, bad := some "c15: rune missing from the case table" }
      else if op == "lower" then
        let want := Spec.C15.lowerSpec lo s
        { st := t, model := some [Val.ofBytes (Model.C15.toLower lo s)]
          spec := judgeEq "lower:unicode-mapping" l.res want, tags := ["lower"], nontrivial := want != s }
      else if op == "upper" then
        let want := Spec.C15.upperSpec up s
        { st := t, model := some [Val.ofBytes (Model.C15.toUpper up s)]
          spec := judgeEq "upper:unicode-mapping" l.res want, tags := ["upper"], nontrivial := want != s }
      else if op == "cap" then
        let want := Spec.C15.capSpec lo up s
        { st := t, model := some [Val.ofBytes (Model.C15.capitalize lo up s)]
          spec := judgeEq "cap:unicode-mapping" l.res want, tags := ["cap"], nontrivial := want != s }
      else
        let dom := Spec.C15.inDomain s
        let words := (Spec.C15.initials true s).filter id |>.length
        let domTags := if dom then [op ++ ":domain"] else [op ++ ":outside"]
        if op == "camel" then
          { st := t, model := some [Val.ofBytes (Model.C15.camelCase lo up s)]
            spec := if dom then judgeBy "camel:letters-kept-no-separator-initials" l.res (Spec.C15.camelOk s) else none
            tags := ["camel"] ++ domTags, nontrivial := dom && words ≥ 2 }
        else if op == "snake" then
          let model : List Val := match Model.C15.snakeCase lo s with
            | .panic => [.atom "panic"]
            | .ok r => match Model.C15.snakeCase lo r, Model.C15.kebabCase lo s with
              | .ok rr, .ok rk => [Val.ofBytes r, Val.ofBytes rr, Val.ofBytes rk]
              | _, _ => [.atom "panic"]
          let verdict : Option String :=
            if !dom then none
            else if isPanic l.res then some "snake:no-panic"
            else match l.res with
              | [a, b, c] =>
                match a.bytes?, b.bytes?, c.bytes? with
                | some r, some rr, some rk =>
                  if !(Spec.C15.delimOk 0x5F s r r) then some "snake:letters-kept-own-delimiter-lower"
                  else if rr != r then some "snake:idempotent"
                  else if !(Spec.C15.sameUpToDelim r rk) then some "snake-kebab:differ-only-in-delimiter"
                  else none
                | _, _, _ => some "snake:malformed"
              | _ => some "snake:malformed"
          { st := t, model := some model, spec := verdict, tags := ["snake"] ++ domTags
            nontrivial := dom && (words ≥ 2 || !(Model.C15.findCamel 0 0 s).isEmpty) }
        else if op == "kebab" then
          let model : List Val := match Model.C15.kebabCase lo s with
            | .panic => [.atom "panic"]
            | .ok r => match Model.C15.kebabCase lo r with
              | .ok rr => [Val.ofBytes r, Val.ofBytes rr]
              | .panic => [.atom "panic"]
          let verdict : Option String :=
            if !dom then none
            else if isPanic l.res then some "kebab:no-panic"
            else match l.res with
              | [a, b] =>
                match a.bytes?, b.bytes? with
                | some r, some rr =>
                  if !(Spec.C15.delimOk 0x2D s r r) then some "kebab:letters-kept-own-delimiter-lower"
                  else if rr != r then some "kebab:idempotent"
                  else none
                | _, _ => some "kebab:malformed"
              | _ => some "kebab:malformed"
          { st := t, model := some model, spec := verdict, tags := ["kebab"] ++ domTags
            nontrivial := dom && (words ≥ 2 || !(Model.C15.findCamel 0 0 s).isEmpty) }
        else { st := t, bad := some s!"c15: bad line {op}" }
  | op, _ => { st := t, bad := some s!"c15: bad line {op}" }

def kind : Kind where
  σ := Table
  init := fun ps => match ps with
    | [v] => parseTable v
    | [] => some []
    | _ => none
  step := step

end GoguVerif.Kinds.C15
