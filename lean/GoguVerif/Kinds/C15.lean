import GoguVerif.Go.Run
/-! Driver wiring for C15 (stub — to be filled in). -/
namespace GoguVerif.Kinds.C15
open GoguVerif

def kind : Kind where
  σ := Unit
  init := fun _ => some ()
  step := fun st l => { st := st, bad := some s!"C15: kind not implemented ({l.op})" }

end GoguVerif.Kinds.C15
