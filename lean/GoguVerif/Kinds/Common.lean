import GoguVerif.Go.Run
/-! Helpers shared by the container kinds. -/
namespace GoguVerif.Kinds
open GoguVerif

def pairVal (e : Int × Int) : Val := .list [.int e.1, .int e.2]
def pairsVal (l : List (Int × Int)) : Val := .list (l.map pairVal)

def failRes (res : List Val) : Option String :=
  match res with
  | [.atom "panic"] => some "no-panic"
  | [.atom "hang"] => some "terminates"
  | _ => none

end GoguVerif.Kinds
