import GoguVerif.Go.Run
import GoguVerif.Spec.C13
import GoguVerif.Model.C13
/-!
# Driver wiring for C13

Kind `c13` is stateless: every protocol line is one call.  For each line the model's answer is
rendered (correspondence) and the specification clause is decided on the implementation's own answer
(monitor).  See `harness/k_c13_test.go` for the line formats.
-/
namespace GoguVerif.Kinds.C13
open GoguVerif
open GoguVerif.Spec.C13 (Out check)

/-- `p3` ↦ 3 (any one-letter prefix) -/
def famIdx (v : Val) : Option Nat :=
  match v with
  | .atom s => (s.drop 1).toNat?
  | _ => none

def pair? : Val → Option (Int × Int)
  | .list [.int a, .int b] => some (a, b)
  | _ => none

def pairs? : Val → Option (List (Int × Int))
  | .list l => l.mapM pair?
  | _ => none

def maps? : Val → Option (List (List (Int × Int)))
  | .list l => l.mapM pairs?
  | _ => none

def renderOutInt : Out Int → List Val
  | .ok v => [.atom "ok", .int v]
  | .err => [.atom "err"]
  | .panic => [.atom "panic"]
  | .hang => [.atom "hang"]

/-- a plain result: the value itself, or `panic` -/
def renderPlainInt : Out Int → List Val
  | .ok v => [.int v]
  | .err => [.atom "err"]
  | .panic => [.atom "panic"]
  | .hang => [.atom "hang"]

def renderOutList : Out (List Int) → List Val
  | .ok l => [.atom "ok", Val.ofInts l]
  | .err => [.atom "err"]
  | .panic => [.atom "panic"]
  | .hang => [.atom "hang"]

def parseOutInt : List Val → Option (Out Int)
  | [.atom "ok", .int v] => some (.ok v)
  | [.atom "err"] => some .err
  | [.atom "panic"] => some .panic
  | [.atom "hang"] => some .hang
  | _ => none

def parsePlainOutInt : List Val → Option (Out Int)
  | [.int v] => some (.ok v)
  | [.atom "panic"] => some .panic
  | [.atom "hang"] => some .hang
  | _ => none

def parseOutList : List Val → Option (Out (List Int))
  | [.atom "ok", l] => l.ints?.map .ok
  | [.atom "err"] => some .err
  | [.atom "panic"] => some .panic
  | [.atom "hang"] => some .hang
  | _ => none

def parseErrVal : List Val → Option (Bool × Int)
  | [.atom "ok", .int v] => some (false, v)
  | [.atom "err", .int v] => some (true, v)
  | _ => none

/-- the 256 int8 values in order -/
def int8s : List Int := (List.range 256).map (fun (n : Nat) => (n : Int) - 128)

/-- number of elements of `s` satisfying `p` -/
def countP (p : Int → Bool) (s : List Int) : Nat := (s.filter p).length

/-- some key value is shared by two elements -/
def hasTie (f : Int → Int) (s : List Int) : Bool :=
  let ks := s.map f
  ks.eraseDups.length < ks.length

structure Verdict where
  model : List Val
  /-- `some true` accepted, `some false` clause violated, `none` the implementation's answer has a shape
  the clause cannot judge (`panic`/`hang` are then violations, anything else a malformed line) -/
  ok : Option Bool
  clause : String
  tags : List String := []
  nontrivial : Bool := false

def finish (l : Line) (v : Verdict) : Step Unit :=
  let spec : Option String :=
    match v.ok with
    | some true => none
    | some false => some v.clause
    | none =>
      match l.res with
      | [.atom "panic"] => some s!"no-panic:{l.op}"
      | [.atom "hang"] => some s!"terminates:{l.op}"
      | _ => none
  let bad : Option String :=
    match v.ok, spec with
    | none, none => some s!"c13: unexpected result shape for {l.op}"
    | _, _ => none
  { st := (), model := some v.model, spec := spec, bad := bad, tags := l.op :: v.tags, nontrivial := v.nontrivial }

def intRes? : List Val → Option Int
  | [.int r] => some r
  | _ => none

def boolRes? : List Val → Option Bool
  | [v] => v.bool?
  | _ => none

def stepCore (l : Line) : Step Unit :=
  let badLine : Step Unit := { st := (), bad := some s!"c13: bad line {l.op}" }
  match l.op, l.args with
  | "indexof", [s, .int v] =>
    match s.ints? with
    | none => badLine
    | some s =>
      finish l { model := [.int (Model.C13.IndexOf s v)], ok := (intRes? l.res).map fun r => check (Spec.C13.IndexOf s v r)
                 clause := "indexof:smallest-matching-index", nontrivial := countP (· == v) s ≥ 2
                 tags := if s.contains v then [] else ["search:absent"] }
  | "lastindexof", [s, .int v] =>
    match s.ints? with
    | none => badLine
    | some s =>
      finish l { model := renderPlainInt (Model.C13.LastIndexOf s v), ok := (intRes? l.res).map fun r => check (Spec.C13.LastIndexOf s v r)
                 clause := "lastindexof:largest-matching-index", nontrivial := countP (· == v) s ≥ 2 }
  | "contains", [s, .int v] =>
    match s.ints? with
    | none => badLine
    | some s =>
      finish l { model := [Val.ofBool (Model.C13.Contains s v)], ok := (boolRes? l.res).map fun r => check (Spec.C13.Contains s v r)
                 clause := "contains:membership", nontrivial := s.length ≥ 2 }
  | "findindex", [s, p] =>
    match s.ints?, famIdx p with
    | some s, some k =>
      let p := Spec.C13.pred k
      finish l { model := [.int (Model.C13.FindIndex s p)], ok := (intRes? l.res).map fun r => check (Spec.C13.FirstIdx p s r)
                 clause := "findindex:smallest-matching-index", nontrivial := countP p s ≥ 2 }
    | _, _ => badLine
  | "findlastindex", [s, p] =>
    match s.ints?, famIdx p with
    | some s, some k =>
      let p := Spec.C13.pred k
      finish l { model := renderPlainInt (Model.C13.FindLastIndex s p), ok := (intRes? l.res).map fun r => check (Spec.C13.LastIdx p s r)
                 clause := "findlastindex:largest-matching-index", nontrivial := countP p s ≥ 2 }
    | _, _ => badLine
  | "findall", [s, p] =>
    match s.ints?, famIdx p with
    | some s, some k =>
      let p := Spec.C13.pred k
      let got : Option (List (Int × Int)) := match l.res with | [r] => pairs? r | _ => none
      finish l { model := [.list ((Model.C13.FindAll s p).map fun e => .list [.int e.1, .int e.2])]
                 ok := got.map fun r => check (Spec.C13.FindAll p s r)
                 clause := "findall:exactly-the-matching-pairs"
                 nontrivial := countP p s ≥ 1 && countP p s < s.length }
    | _, _ => badLine
  | "some", [s, p] =>
    match s.ints?, famIdx p with
    | some s, some k =>
      let p := Spec.C13.pred k
      finish l { model := [Val.ofBool (Model.C13.Some p s)], ok := (boolRes? l.res).map fun r => check (Spec.C13.Some p s r)
                 clause := "some:exists", nontrivial := s.length ≥ 2 }
    | _, _ => badLine
  | "every", [s, p] =>
    match s.ints?, famIdx p with
    | some s, some k =>
      let p := Spec.C13.pred k
      finish l { model := [Val.ofBool (Model.C13.Every p s)], ok := (boolRes? l.res).map fun r => check (Spec.C13.Every p s r)
                 clause := "every:forall", nontrivial := s.length ≥ 2 }
    | _, _ => badLine
  | "findmin", [s] =>
    match s.ints? with
    | none => badLine
    | some s =>
      finish l { model := [.int (Model.C13.FindMin s)], ok := (intRes? l.res).map fun r => check (Spec.C13.IsMin s r)
                 clause := "findmin:minimal-element-or-zero", nontrivial := s.length ≥ 2 && s.head? != some (Model.C13.FindMin s)
                 tags := if s.isEmpty then ["extremum:empty"] else [] }
  | "findmax", [s] =>
    match s.ints? with
    | none => badLine
    | some s =>
      finish l { model := [.int (Model.C13.FindMax s)], ok := (intRes? l.res).map fun r => check (Spec.C13.IsMax s r)
                 clause := "findmax:maximal-element-or-zero", nontrivial := s.length ≥ 2 && s.head? != some (Model.C13.FindMax s)
                 tags := if s.isEmpty then ["extremum:empty"] else [] }
  | "min", [s] =>
    match s.ints? with
    | none => badLine
    | some s =>
      finish l { model := [.int (Model.C13.Min s)], ok := (intRes? l.res).map fun r => check (Spec.C13.IsMin s r)
                 clause := "min:minimal-element-or-zero", nontrivial := s.length ≥ 2 && s.head? != some (Model.C13.Min s)
                 tags := if s.isEmpty then ["extremum:empty"] else [] }
  | "max", [s] =>
    match s.ints? with
    | none => badLine
    | some s =>
      finish l { model := [.int (Model.C13.Max s)], ok := (intRes? l.res).map fun r => check (Spec.C13.IsMax s r)
                 clause := "max:maximal-element-or-zero", nontrivial := s.length ≥ 2 && s.head? != some (Model.C13.Max s)
                 tags := if s.isEmpty then ["extremum:empty"] else [] }
  | "findminby", [s, f] =>
    match s.ints?, famIdx f with
    | some s, some k =>
      let f := Spec.C13.key k
      finish l { model := [.int (Model.C13.FindMinBy s f)], ok := (intRes? l.res).map fun r => check (Spec.C13.IsMinBy f s r)
                 clause := "findminby:first-element-with-minimal-key", nontrivial := hasTie f s
                 tags := if hasTie f s then ["extremum:key-tie"] else [] }
    | _, _ => badLine
  | "findmaxby", [s, f] =>
    match s.ints?, famIdx f with
    | some s, some k =>
      let f := Spec.C13.key k
      finish l { model := [.int (Model.C13.FindMaxBy s f)], ok := (intRes? l.res).map fun r => check (Spec.C13.IsMaxBy f s r)
                 clause := "findmaxby:first-element-with-maximal-key", nontrivial := hasTie f s
                 tags := if hasTie f s then ["extremum:key-tie"] else [] }
    | _, _ => badLine
  | "findminbykey", [ms, .int k] =>
    match maps? ms with
    | none => badLine
    | some ms =>
      let m := Model.C13.FindMinByKey ms k
      finish l { model := [.atom (if m.1 then "err" else "ok"), .int m.2]
                 ok := (parseErrVal l.res).map fun r => check (Spec.C13.IsMinByKey ms k r.1 r.2)
                 clause := "findminbykey:minimal-value-under-key"
                 nontrivial := (Spec.C13.keyVals k ms).length ≥ 2
                 tags := if m.1 then ["bykey:err"] else if (Spec.C13.keyVals k ms).length < ms.length then ["bykey:some-map-lacks-key"] else [] }
  | "findmaxbykey", [ms, .int k] =>
    match maps? ms with
    | none => badLine
    | some ms =>
      let m := Model.C13.FindMaxByKey ms k
      finish l { model := [.atom (if m.1 then "err" else "ok"), .int m.2]
                 ok := (parseErrVal l.res).map fun r => check (Spec.C13.IsMaxByKey ms k r.1 r.2)
                 clause := "findmaxbykey:maximal-value-under-key"
                 nontrivial := (Spec.C13.keyVals k ms).length ≥ 2
                 tags := if m.1 then ["bykey:err"] else [] }
  | "nth", [s, .int i] =>
    match s.ints? with
    | none => badLine
    | some s =>
      let n : Int := s.length
      finish l { model := renderOutInt (Model.C13.Nth s i), ok := (parseOutInt l.res).map fun o => check (Spec.C13.Nth s i o)
                 clause := "nth:element-or-error-never-panic"
                 nontrivial := (i < 0 && -n ≤ i) || i == n || i == -n - 1
                 tags := if 0 ≤ i && i < n then ["nth:front"] else if i < 0 && -n ≤ i then ["nth:back"] else ["nth:out-of-bounds"] }
  | "sum", [s] =>
    match s.ints? with
    | none => badLine
    | some s =>
      finish l { model := [.int (Model.C13.Sum s)], ok := (intRes? l.res).map fun r => check (Spec.C13.Sum s r)
                 clause := "sum:arithmetic-sum", nontrivial := s.length ≥ 2 }
  | "sumby", [s, f] =>
    match s.ints?, famIdx f with
    | some s, some k =>
      let f := Spec.C13.key k
      finish l { model := [.int (Model.C13.SumBy s f)], ok := (intRes? l.res).map fun r => check (Spec.C13.SumBy f s r)
                 clause := "sumby:arithmetic-sum-of-images", nontrivial := s.length ≥ 2 }
    | _, _ => badLine
  | "mean", [s] =>
    match s.ints? with
    | none => badLine
    | some s =>
      let t := Spec.C13.total s
      finish l { model := renderPlainInt (Model.C13.Mean s), ok := (parsePlainOutInt l.res).map fun o => check (Spec.C13.Mean s o)
                 clause := "mean:truncated-arithmetic-mean"
                 nontrivial := s.length ≥ 2 && t.tmod s.length != 0
                 tags := if s.isEmpty then ["mean:empty"] else if t < 0 && t.tmod s.length != 0 then ["mean:negative-inexact"] else [] }
  | "abs", [.int x] =>
    finish l { model := [.int (Model.C13.Abs x)], ok := (intRes? l.res).map fun r => check (Spec.C13.Abs x r)
               clause := "abs:non-negative-magnitude", nontrivial := x < 0 }
  | "abs8", [.int x] =>
    finish l { model := [.int (Model.C13.Abs8 x)], ok := (intRes? l.res).map fun r => check (Spec.C13.Abs8 x r)
               clause := "abs8:non-negative-magnitude-unless-min", nontrivial := x < 0
               tags := if x == -128 then ["abs8:min"] else [] }
  | "abs8all", [] =>
    let got : Option (List Int) := match l.res with | [r] => r.ints? | _ => none
    finish l { model := [Val.ofInts (int8s.map Model.C13.Abs8)]
               ok := got.map fun r => r.length == 256 && (int8s.zip r).all fun p => check (Spec.C13.Abs8 p.1 p.2)
               clause := "abs8:non-negative-magnitude-unless-min", nontrivial := true, tags := ["int8:exhaustive"] }
  | "clamp", [.int x, .int lo, .int hi] =>
    finish l { model := [.int (Model.C13.Clamp x lo hi)], ok := (intRes? l.res).map fun r => check (Spec.C13.Clamp x lo hi r)
               clause := "clamp:within-bounds-and-nearest", nontrivial := lo ≤ hi && (x < lo || hi < x)
               tags := if lo > hi then ["clamp:lo>hi"] else [] }
  | "clamp8", [.int x, .int lo, .int hi] =>
    finish l { model := [.int (Model.C13.Clamp x lo hi)], ok := (intRes? l.res).map fun r => check (Spec.C13.Clamp x lo hi r)
               clause := "clamp8:within-bounds-and-nearest", nontrivial := lo ≤ hi && (x < lo || hi < x) }
  | "clamp8row", [.int x, .int lo] =>
    let got : Option (List Int) := match l.res with | [r] => r.ints? | _ => none
    finish l { model := [Val.ofInts (int8s.map fun hi => Model.C13.Clamp x lo hi)]
               ok := got.map fun r => r.length == 256 && (int8s.zip r).all fun p => check (Spec.C13.Clamp x lo p.1 p.2)
               clause := "clamp8:within-bounds-and-nearest", nontrivial := true, tags := ["int8:exhaustive"] }
  | "inrange", [.int x, .int lo, .int hi] =>
    finish l { model := [Val.ofBool (Model.C13.InRange x lo hi)], ok := (boolRes? l.res).map fun r => check (Spec.C13.InRange x lo hi r)
               clause := "inrange:lo<=x<=hi", nontrivial := lo ≤ hi }
  | "inrange8", [.int x, .int lo, .int hi] =>
    finish l { model := [Val.ofBool (Model.C13.InRange x lo hi)], ok := (boolRes? l.res).map fun r => check (Spec.C13.InRange x lo hi r)
               clause := "inrange8:lo<=x<=hi", nontrivial := lo ≤ hi }
  | "inrange8row", [.int x, .int lo] =>
    let got : Option (List Int) := match l.res with | [r] => r.ints? | _ => none
    finish l { model := [Val.ofInts (int8s.map fun hi => if Model.C13.InRange x lo hi then 1 else 0)]
               ok := got.map fun r => r.length == 256 && (int8s.zip r).all fun p => check (Spec.C13.InRange x lo p.1 (p.2 != 0))
               clause := "inrange8:lo<=x<=hi", nontrivial := true }
  | "compare", [.int a, .int b, c] =>
    match famIdx c with
    | none => badLine
    | some k =>
      let c := Spec.C13.comp k
      finish l { model := [.int (Model.C13.Compare a b c)], ok := (intRes? l.res).map fun r => check (Spec.C13.Compare c a b r)
                 clause := "compare:reflects-comparator", nontrivial := a != b }
  | "less", [.int a, .int b] =>
    finish l { model := [Val.ofBool (Model.C13.Less a b)], ok := (boolRes? l.res).map fun r => check (Spec.C13.Less a b r)
               clause := "less:a<b", nontrivial := a != b }
  | "equal", [.int a, .int b] =>
    finish l { model := [Val.ofBool (Model.C13.Equal a b)], ok := (boolRes? l.res).map fun r => check (Spec.C13.Equal a b r)
               clause := "equal:a=b", nontrivial := true }
  | "range", [a] =>
    match a.ints? with
    | none => badLine
    | some a =>
      let m := Model.C13.Range a
      finish l { model := renderOutList m, ok := (parseOutList l.res).map fun o => check (Spec.C13.Range false a o)
                 clause := "range:maximal-progression-or-error"
                 nontrivial := match m with | .ok r => r.length ≥ 2 | .err => true | _ => false
                 tags := match m with
                   | .ok [] => ["range:empty"]
                   | .ok (x :: y :: _) => [if x < y then "range:ascending" else "range:descending"]
                   | .ok _ => ["range:single"]
                   | .err => ["range:err"]
                   | _ => ["range:hang-or-panic"] }
  | "rangeright", [a] =>
    match a.ints? with
    | none => badLine
    | some a =>
      let m := Model.C13.RangeRight a
      finish l { model := renderOutList m, ok := (parseOutList l.res).map fun o => check (Spec.C13.Range true a o)
                 clause := "rangeright:reverse-of-range"
                 nontrivial := match m with | .ok r => r.length ≥ 2 | .err => true | _ => false }
  | _, _ => badLine

/-- `str <op> …`: the same call made on the STRING instantiation of the generic function; the harness
maps the ints 0..10 to byte-wise increasing strings (0 ↦ "", the zero value) and translates results
back, so the line is judged exactly like the int call (order isomorphism). -/
def step (_ : Unit) (l : Line) : Step Unit :=
  match l.op, l.args with
  | "str", .atom op :: args =>
    let r := stepCore { l with op := op, args := args }
    { r with tags := "string-instantiation" :: r.tags.map (fun t => if t == op then "str:" ++ op else t) }
  | _, _ => stepCore l

/-- `rangeu` / `rangerightu`: `Range` / `RangeRight` instantiated with `uint64` in the harness.  The generator stays in
the domain where the unsigned instantiation means what the `int` one means (all arguments ≥ 0, ascending, no sum
reaches 2^64): the answers must be those of `range` / `rangeright`, also above 2^63. -/
def unU (l : Line) : Line :=
  if l.op == "rangeu" then { l with op := "range" }
  else if l.op == "rangerightu" then { l with op := "rangeright" }
  else l

def kind : Kind where
  σ := Unit
  init := fun _ => some ()
  step := fun st l =>
    let inDomain := match l.args with
      | [a] => match a.ints? with
        | some xs => xs.all (fun x => decide (0 ≤ x ∧ x < 18446744073709551616 - 1000))
        | none => false
      | _ => false
    if (l.op == "rangeu" || l.op == "rangerightu") && !inDomain then
      { st := st, bad := some "rangeu: argument outside the unsigned domain" }
    else step st (unU l)

end GoguVerif.Kinds.C13
