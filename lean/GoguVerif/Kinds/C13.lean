import GoguVerif.Go.Run
/-! Driver wiring for C13 (stub — to be filled in). -/
namespace GoguVerif.Kinds.C13
open GoguVerif

def kind : Kind where
  σ := Unit
  init := fun _ => some ()
  step := fun st l => { st := st, bad := some s!"C13: kind not implemented ({l.op})" }

end GoguVerif.Kinds.C13
