import GoguVerif.Go.Run
import GoguVerif.Kinds.Common
import GoguVerif.Spec.C10
/-! Driver wiring for C10: spec monitor (+ model correspondence). -/
namespace GoguVerif.Kinds
open GoguVerif

namespace BTree
open Spec.C10

def parseOp (l : Line) : Option Op :=
  match l.op, l.args with
  | "put", [.int k, .int v] => some (.put k v)
  | "remove", [.int k] => some (.remove k)
  | "get", [.int k] => some (.get k)
  | "size", [] => some .size
  | "isempty", [] => some .isEmpty
  | "traverse", [] => some .traverse
  | "height", [] => some .height
  | _, _ => none

def renderOut : Out → List Val
  | .unit => [.atom "ok"]
  | .got (some v) => [.int v, .atom "T"]
  | .got none => [.int 0, .atom "F"]
  | .int n => [.int n]
  | .bool b => [Val.ofBool b]
  | .items l => [pairsVal l]

structure MSt where
  s : St := {}
  maxHeight : Int := 0

def kind : Kind where
  σ := MSt
  init := fun _ => some {}
  step := fun st l =>
    match parseOp l with
    | none => { st := st, bad := some s!"bad btree op {l.op}" }
    | some op =>
      let (s', so) := Spec.C10.step st.s op
      match failRes l.res with
      | some c => { st := { st with s := s' }, tags := [l.op], spec := some s!"{c}:{l.op}" }
      | none =>
      match so with
      | some o =>
        { st := { st with s := s' }, tags := [l.op], nontrivial := st.maxHeight ≥ 1 && s'.m.length < s'.ever.length
          spec := if renderOut o == l.res then none else some s!"ordered-map:{l.op}" }
      | none =>
        match l.res with
        | [.int h] =>
          { st := { s := s', maxHeight := max st.maxHeight h }, tags := [l.op]
            spec := if decide (HeightOk st.s h) then none else some "height-bound" }
        | _ => { st := st, tags := [l.op], spec := some "height-bound" }

end BTree

end GoguVerif.Kinds
