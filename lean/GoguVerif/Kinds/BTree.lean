import GoguVerif.Go.Run
import GoguVerif.Kinds.Common
import GoguVerif.Spec.C10
import GoguVerif.Model.BTree
import GoguVerif.Gen.Consts
/-! Driver wiring for C10: spec monitor (+ model correspondence). -/
namespace GoguVerif.Kinds
open GoguVerif

namespace BTree
open Spec.C10

def parseOp (l : Line) : Option Op :=
  match l.op, l.args with
  | "put", [.int k, .int v] => some (.put k v)
  | "remove", [.int k] => some (.remove k)
  | "get", [.int k] => some (.get k)
  | "size", [] => some .size
  | "isempty", [] => some .isEmpty
  | "traverse", [] => some .traverse
  | "height", [] => some .height
  | _, _ => none

def renderOut : Out → List Val
  | .unit => [.atom "ok"]
  | .got (some v) => [.int v, .atom "T"]
  | .got none => [.int 0, .atom "F"]
  | .int n => [.int n]
  | .bool b => [Val.ofBool b]
  | .items l => [pairsVal l]

structure MSt where
  s : St := {}
  maxHeight : Int := 0
  /-- the model tree; `none` once the model has panicked -/
  t : Option Model.BTree.Tree := some Model.BTree.Tree.new

/-- The model's answer, rendered.  `Height` is NOT compared (it is judged by the monitor against the
bound only, so that another valid split policy does not break the correspondence). -/
def modelStep (t : Option Model.BTree.Tree) (op : Op) : Option Model.BTree.Tree × Option (List Val) :=
  match t with
  | none => (none, none)
  | some t =>
    match Model.BTree.step t op with
    | .panic => (none, some [.atom "panic"])
    | .ok (t', o) =>
      match op with
      | .height => (some t', none)
      | _ => (some t', some (renderOut o))

/-! ### Structural invariant checked on the REAL tree (verif hook `VerifShape`)

The shape the harness dumps — a leaf is the list of its keys, an internal node the list of
`[separator, child]` pairs — is checked against the clauses of `Lemmas/C10.lean: NodeInv` (what the
height-bound proof rests on): every node holds fewer than `maxChildren` entries, an internal node at
least 2, a non-root node at least `maxChildren / 2`, from the second child on the separator is the
smallest key of the child's subtree, and all keys ascend strictly.  A shape outside the invariant is
NOT a violation of the property by itself (another split policy may still respect the height bound):
it is reported through the correspondence channel — the code no longer has the structure the proof
is about — and triggers the failing-input search. -/

def half : Nat := Gen.maxChildren / 2

/-- keys of a dumped subtree of height `h`, left to right (`none`: malformed dump) -/
def shapeKeys : Nat → Val → Option (List Int)
  | 0, v => v.ints?
  | h + 1, .list cs =>
    cs.foldr (fun c acc => match c, acc with
      | .list [.int _, sub], some r => (shapeKeys h sub).map (· ++ r)
      | _, _ => none) (some [])
  | _, _ => none

def shapeOk : Nat → Bool → Val → Bool
  | 0, root, v =>
    match v.ints? with
    | some ks => decide (ks.length < Gen.maxChildren) && (root || decide (half ≤ ks.length))
    | none => false
  | h + 1, root, .list cs =>
    decide (cs.length < Gen.maxChildren) && decide (2 ≤ cs.length) && (root || decide (half ≤ cs.length)) &&
    (cs.zipIdx.all fun (c, i) => match c with
      | .list [.int sep, sub] =>
        shapeOk h false sub &&
        (i == 0 || (match shapeKeys h sub with
          | some (k :: _) => k == sep
          | _ => false))
      | _ => false)
  | _, _, _ => false

def ascending : List Int → Bool
  | a :: b :: r => decide (a < b) && ascending (b :: r)
  | _ => true

def shapeInvariant (h : Nat) (v : Val) : Bool :=
  shapeOk h true v && (match shapeKeys h v with | some ks => ascending ks | none => false)

def kind : Kind where
  σ := MSt
  init := fun _ => some {}
  step := fun st l =>
    if l.op == "shape" then
      match l.res with
      | [.atom "nohook"] => { st := st, tags := ["shape:nohook"] }
      | [.int h, v] =>
        if shapeInvariant h.toNat v then { st := st, tags := ["shape"] }
        else { st := st, tags := ["shape:outside-invariant"]
               model := some [.atom "a-tree-shape-satisfying-NodeInv(fill,separators,order)-of-Lemmas/C10"] }
      | _ => { st := st, bad := some "btree shape line" }
    else if l.op == "fillasc" || l.op == "removeasc" then
      -- long runs: n Puts / Removes of ascending keys in one line (closed forms proved equal to the single steps:
      -- `Theorems.C10.fillAsc_exec`, `dropAsc_exec`); the model tree takes the single steps (logarithmic each)
      match l.args with
      | [.int a, .int n] =>
        if n < 0 then { st := st, bad := some "btree bulk: negative count" } else
        let fill := l.op == "fillasc"
        let pre := if fill then fillPre st.s a else dropPre st.s a n.toNat
        if !pre then { st := st, bad := some s!"btree {l.op}: precondition of the closed form does not hold" } else
        let s' := if fill then fillAsc st.s a n.toNat else dropAsc st.s n.toNat
        let t' := (ascKeys a n.toNat).foldl (fun (t : Option Model.BTree.Tree) k =>
          (modelStep t (if fill then Op.put k k else Op.remove k)).1) st.t
        let mo : Option (List Val) := match t' with
          | some _ => some [.atom "ok"]
          | none => some [.atom "panic"]
        match failRes l.res with
        | some c => { st := { st with s := s', t := t' }, model := mo, tags := [l.op], spec := some s!"{c}:{l.op}" }
        | none =>
          { st := { st with s := s', t := t' }, model := mo, tags := [l.op], nontrivial := true
            spec := if l.res == [.atom "ok"] then none else some s!"ordered-map:{l.op}" }
      | _ => { st := st, bad := some "btree bulk line" }
    else
    match parseOp l with
    | none => { st := st, bad := some s!"bad btree op {l.op}" }
    | some op =>
      let (s', so) := Spec.C10.step st.s op
      let (t', mo) := modelStep st.t op
      let st : MSt := { st with t := t' }
      match failRes l.res with
      | some c => { st := { st with s := s' }, model := mo, tags := [l.op], spec := some s!"{c}:{l.op}" }
      | none =>
      match so with
      | some o =>
        { st := { st with s := s' }, model := mo, tags := [l.op], nontrivial := st.maxHeight ≥ 1 && s'.m.length < s'.ever.length
          spec := if renderOut o == l.res then none else some s!"ordered-map:{l.op}" }
      | none =>
        match l.res with
        | [.int h] =>
          { st := { st with s := s', maxHeight := max st.maxHeight h }, tags := [l.op]
            spec := if decide (HeightOk st.s h) then none else some "height-bound" }
        | _ => { st := st, tags := [l.op], spec := some "height-bound" }

end BTree

end GoguVerif.Kinds
