import GoguVerif.Go.Run
import GoguVerif.Kinds.Common
import GoguVerif.Spec.C10
import GoguVerif.Model.BTree
/-! Driver wiring for C10: spec monitor (+ model correspondence). -/
namespace GoguVerif.Kinds
open GoguVerif

namespace BTree
open Spec.C10

def parseOp (l : Line) : Option Op :=
  match l.op, l.args with
  | "put", [.int k, .int v] => some (.put k v)
  | "remove", [.int k] => some (.remove k)
  | "get", [.int k] => some (.get k)
  | "size", [] => some .size
  | "isempty", [] => some .isEmpty
  | "traverse", [] => some .traverse
  | "height", [] => some .height
  | _, _ => none

def renderOut : Out → List Val
  | .unit => [.atom "ok"]
  | .got (some v) => [.int v, .atom "T"]
  | .got none => [.int 0, .atom "F"]
  | .int n => [.int n]
  | .bool b => [Val.ofBool b]
  | .items l => [pairsVal l]

structure MSt where
  s : St := {}
  maxHeight : Int := 0
  /-- the model tree; `none` once the model has panicked -/
  t : Option Model.BTree.Tree := some Model.BTree.Tree.new

/-- The model's answer, rendered.  `Height` is NOT compared (it is judged by the monitor against the
bound only, so that another valid split policy does not break the correspondence). -/
def modelStep (t : Option Model.BTree.Tree) (op : Op) : Option Model.BTree.Tree × Option (List Val) :=
  match t with
  | none => (none, none)
  | some t =>
    match Model.BTree.step t op with
    | .panic => (none, some [.atom "panic"])
    | .ok (t', o) =>
      match op with
      | .height => (some t', none)
      | _ => (some t', some (renderOut o))

def kind : Kind where
  σ := MSt
  init := fun _ => some {}
  step := fun st l =>
    match parseOp l with
    | none => { st := st, bad := some s!"bad btree op {l.op}" }
    | some op =>
      let (s', so) := Spec.C10.step st.s op
      let (t', mo) := modelStep st.t op
      let st : MSt := { st with t := t' }
      match failRes l.res with
      | some c => { st := { st with s := s' }, model := mo, tags := [l.op], spec := some s!"{c}:{l.op}" }
      | none =>
      match so with
      | some o =>
        { st := { st with s := s' }, model := mo, tags := [l.op], nontrivial := st.maxHeight ≥ 1 && s'.m.length < s'.ever.length
          spec := if renderOut o == l.res then none else some s!"ordered-map:{l.op}" }
      | none =>
        match l.res with
        | [.int h] =>
          { st := { st with s := s', maxHeight := max st.maxHeight h }, tags := [l.op]
            spec := if decide (HeightOk st.s h) then none else some "height-bound" }
        | _ => { st := st, tags := [l.op], spec := some "height-bound" }

end BTree

end GoguVerif.Kinds
