import GoguVerif.Go.Run
import GoguVerif.Kinds.Common
import GoguVerif.Spec.C04
/-! Driver wiring for C04: spec monitor (+ model correspondence). -/
namespace GoguVerif.Kinds
open GoguVerif

namespace Bst
open Spec.C04

def compOf : String → Option (Int → Int → Bool)
  | "lt" => some (fun a b => decide (a < b))
  | "gt" => some (fun a b => decide (a > b))
  | _ => none

def parseOp (l : Line) : Option (Op Int Int) :=
  match l.op, l.args with
  | "upsert", [.int k, .int v] => some (.upsert k v)
  | "get", [.int k] => some (.get k)
  | "delete", [.int k] => some (.delete k)
  | "size", [] => some .size
  | "traverse", [] => some .traverse
  | _, _ => none

def renderOut : Out Int Int → List Val
  | .unit => [.atom "ok"]
  | .got (some v) => [.int v, .atom "ok"]
  | .got none => [.int 0, .atom "err"]
  | .deleted true => [.atom "ok"]
  | .deleted false => [.atom "err"]
  | .int n => [.int n]
  | .items l => [pairsVal l]

structure St where
  comp : Int → Int → Bool
  spec : List (Int × Int) := []
  patched : Patched.St Int Int := { m := [] }
  twoChildDelete : Bool := false
  maxSize : Nat := 0

def kind : Kind where
  σ := St
  init := fun ps => match ps with
    | [.atom c] => (compOf c).map fun f => { comp := f }
    | _ => none
  step := fun st l =>
    match parseOp l with
    | none => { st := st, bad := some s!"bad bst op {l.op}" }
    | some op =>
      let (s', so) := Spec.C04.step st.comp st.spec op
      let (p', po) := Patched.step st.comp st.patched op
      -- non-triviality: a delete of a key that has both a smaller and a larger neighbour present
      let two := match op with
        | .delete k => (Spec.OrdMap.lookup st.comp k st.spec).isSome &&
            st.spec.any (fun e => st.comp e.1 k) && st.spec.any (fun e => st.comp k e.1)
        | _ => false
      let st' : St := { st with spec := s', patched := p', twoChildDelete := st.twoChildDelete || two,
                                maxSize := max st.maxSize s'.length }
      let nt := st'.twoChildDelete && st'.maxSize ≥ 3
      if renderOut so == l.res then { st := st', tags := [l.op], nontrivial := nt }
      else match failRes l.res with
        | some c => { st := st', tags := [l.op], spec := some s!"{c}:{l.op}" }
        | none =>
          if renderOut po == l.res then
            { st := st', tags := [l.op], known := some "bstree.delete-absent-decrements-size" }
          else { st := st', tags := [l.op], spec := some s!"ordered-map:{l.op}" }

end Bst

end GoguVerif.Kinds
