import GoguVerif.Go.Run
import GoguVerif.Kinds.Common
import GoguVerif.Spec.C04
import GoguVerif.Model.Bst
/-! Driver wiring for C04: spec monitor (+ model correspondence). -/
namespace GoguVerif.Kinds
open GoguVerif

namespace Bst
open Spec.C04

def compOf : String → Option (Int → Int → Bool)
  | "lt" => some (fun a b => decide (a < b))
  | "gt" => some (fun a b => decide (a > b))
  -- strict comparators with ties (strict weak orders): keys in one class of ten are ONE key
  | "klt" => some (fun a b => decide (a.tdiv 10 < b.tdiv 10))
  | "kgt" => some (fun a b => decide (a.tdiv 10 > b.tdiv 10))
  | _ => none

/-- With a comparator that has ties the map's keys are the equivalence classes: the specification is run
on the canonical representative of a key (which member of the class the tree keeps is not fixed by the
property), with the plain order on representatives. -/
def canonOf : String → (Int → Int)
  | "klt" | "kgt" => fun k => k.tdiv 10
  | _ => id

def specCompOf : String → Option (Int → Int → Bool)
  | "klt" => compOf "lt"
  | "kgt" => compOf "gt"
  | c => compOf c

def canonOp (c : Int → Int) : Op Int Int → Op Int Int
  | .upsert k v => .upsert (c k) v
  | .get k => .get (c k)
  | .delete k => .delete (c k)
  | op => op

/-- canonicalise the keys of a `traverse` answer -/
def canonRes (c : Int → Int) (op : Op Int Int) (res : List Val) : List Val :=
  match op, res with
  | .traverse, [.list ps] => [.list (ps.map fun p => match p with
      | .list [.int k, v] => .list [.int (c k), v]
      | x => x)]
  | _, r => r

def parseOp (l : Line) : Option (Op Int Int) :=
  match l.op, l.args with
  | "upsert", [.int k, .int v] => some (.upsert k v)
  | "get", [.int k] => some (.get k)
  | "delete", [.int k] => some (.delete k)
  | "size", [] => some .size
  | "traverse", [] => some .traverse
  | _, _ => none

def renderOut : Out Int Int → List Val
  | .unit => [.atom "ok"]
  | .got (some v) => [.int v, .atom "ok"]
  | .got none => [.int 0, .atom "err"]
  | .deleted true => [.atom "ok"]
  | .deleted false => [.atom "err"]
  | .int n => [.int n]
  | .items l => [pairsVal l]

/-- What the model answers on the wire; a panicking call answers `panic`. -/
def renderModel : Option (Out Int Int) → List Val
  | some o => renderOut o
  | none => [.atom "panic"]

structure St where
  comp : Int → Int → Bool
  /-- comparator on canonical keys, used by the specification -/
  scomp : Int → Int → Bool
  canon : Int → Int := id
  model : Model.Bst.St Int Int := {}
  spec : List (Int × Int) := []
  patched : Patched.St Int Int := { m := [] }
  twoChildDelete : Bool := false
  maxSize : Nat := 0

def kind : Kind where
  σ := St
  init := fun ps => match ps with
    | [.atom c] => match compOf c, specCompOf c with
      | some f, some g => some { comp := f, scomp := g, canon := canonOf c }
      | _, _ => none
    | _ => none
  step := fun st l =>
    if l.op == "traversenested" then
      -- a second complete Traverse started from the callback of the first (at its second element): both walks
      -- must visit every present key once, in order; the answer is the outer sequence and the inner count
      let (_, so) := Spec.C04.step st.scomp st.spec .traverse
      let inner : Int := if st.spec.length ≥ 2 then st.spec.length else 0
      let mo := (Model.Bst.step st.comp st.model .traverse).map (·.2)
      let cres := match l.res with
        | [items, n] => canonRes st.canon .traverse [items] ++ [n]
        | r => r
      { st := st, tags := ["traversenested"], model := some (renderModel mo ++ [.int inner])
        spec := match failRes l.res with
          | some c => some s!"{c}:traversenested"
          | none => if renderOut so ++ [.int inner] == cres then none else some "ordered-map:traverse-reentrant" }
    else
    match parseOp l with
    | none => { st := st, bad := some s!"bad bst op {l.op}" }
    | some op =>
      let cop := canonOp st.canon op
      let cres := canonRes st.canon op l.res
      let (s', so) := Spec.C04.step st.scomp st.spec cop
      let (p', po) := Patched.step st.scomp st.patched cop
      -- non-triviality: a delete of a key that has both a smaller and a larger neighbour present
      let two := match op with
        | .delete k => (Spec.OrdMap.lookup st.scomp (st.canon k) st.spec).isSome &&
            st.spec.any (fun e => st.scomp e.1 (st.canon k)) && st.spec.any (fun e => st.scomp (st.canon k) e.1)
        | _ => false
      -- the model of the code, run beside the monitor; its answer is compared with the implementation's
      let mr := Model.Bst.step st.comp st.model op
      let (m', mo) : Model.Bst.St Int Int × Option (Out Int Int) := match mr with
        | some (m', o) => (m', some o)
        | none => (st.model, none)
      let mtags := match op with
        | .delete k => [l.op, "delete:" ++ Model.Bst.deleteCase st.comp k st.model.root]
        | .upsert k _ => [l.op, if (Model.Bst.get st.comp k st.model.root).isSome then "upsert:update" else "upsert:insert"]
        | .get k => [l.op, if (Model.Bst.get st.comp k st.model.root).isSome then "get:found" else "get:absent"]
        | _ => [l.op]
      let mtags := if Model.Bst.height m'.root ≥ 4 then "height>=4" :: mtags else mtags
      let st' : St := { st with model := m', spec := s', patched := p', twoChildDelete := st.twoChildDelete || two,
                                maxSize := max st.maxSize s'.length }
      let nt := st'.twoChildDelete && st'.maxSize ≥ 3
      let model := some (renderModel mo)
      if renderOut so == cres then { st := st', model, tags := mtags, nontrivial := nt }
      else match failRes l.res with
        | some c => { st := st', model, tags := mtags, spec := some s!"{c}:{l.op}" }
        | none =>
          if renderOut po == cres then
            { st := st', model, tags := mtags, known := some "bstree.delete-absent-decrements-size" }
          else { st := st', model, tags := mtags, spec := some s!"ordered-map:{l.op}" }

end Bst

end GoguVerif.Kinds
