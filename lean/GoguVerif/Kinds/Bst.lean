import GoguVerif.Go.Run
import GoguVerif.Kinds.Common
import GoguVerif.Spec.C04
import GoguVerif.Model.Bst
/-! Driver wiring for C04: spec monitor (+ model correspondence). -/
namespace GoguVerif.Kinds
open GoguVerif

namespace Bst
open Spec.C04

def compOf : String → Option (Int → Int → Bool)
  | "lt" => some (fun a b => decide (a < b))
  | "gt" => some (fun a b => decide (a > b))
  | _ => none

def parseOp (l : Line) : Option (Op Int Int) :=
  match l.op, l.args with
  | "upsert", [.int k, .int v] => some (.upsert k v)
  | "get", [.int k] => some (.get k)
  | "delete", [.int k] => some (.delete k)
  | "size", [] => some .size
  | "traverse", [] => some .traverse
  | _, _ => none

def renderOut : Out Int Int → List Val
  | .unit => [.atom "ok"]
  | .got (some v) => [.int v, .atom "ok"]
  | .got none => [.int 0, .atom "err"]
  | .deleted true => [.atom "ok"]
  | .deleted false => [.atom "err"]
  | .int n => [.int n]
  | .items l => [pairsVal l]

/-- What the model answers on the wire; a panicking call answers `panic`. -/
def renderModel : Option (Out Int Int) → List Val
  | some o => renderOut o
  | none => [.atom "panic"]

structure St where
  comp : Int → Int → Bool
  model : Model.Bst.St Int Int := {}
  spec : List (Int × Int) := []
  patched : Patched.St Int Int := { m := [] }
  twoChildDelete : Bool := false
  maxSize : Nat := 0

def kind : Kind where
  σ := St
  init := fun ps => match ps with
    | [.atom c] => (compOf c).map fun f => { comp := f }
    | _ => none
  step := fun st l =>
    match parseOp l with
    | none => { st := st, bad := some s!"bad bst op {l.op}" }
    | some op =>
      let (s', so) := Spec.C04.step st.comp st.spec op
      let (p', po) := Patched.step st.comp st.patched op
      -- non-triviality: a delete of a key that has both a smaller and a larger neighbour present
      let two := match op with
        | .delete k => (Spec.OrdMap.lookup st.comp k st.spec).isSome &&
            st.spec.any (fun e => st.comp e.1 k) && st.spec.any (fun e => st.comp k e.1)
        | _ => false
      -- the model of the code, run beside the monitor; its answer is compared with the implementation's
      let mr := Model.Bst.step st.comp st.model op
      let (m', mo) : Model.Bst.St Int Int × Option (Out Int Int) := match mr with
        | some (m', o) => (m', some o)
        | none => (st.model, none)
      let mtags := match op with
        | .delete k => [l.op, "delete:" ++ Model.Bst.deleteCase st.comp k st.model.root]
        | .upsert k _ => [l.op, if (Model.Bst.get st.comp k st.model.root).isSome then "upsert:update" else "upsert:insert"]
        | .get k => [l.op, if (Model.Bst.get st.comp k st.model.root).isSome then "get:found" else "get:absent"]
        | _ => [l.op]
      let mtags := if Model.Bst.height m'.root ≥ 4 then "height>=4" :: mtags else mtags
      let st' : St := { st with model := m', spec := s', patched := p', twoChildDelete := st.twoChildDelete || two,
                                maxSize := max st.maxSize s'.length }
      let nt := st'.twoChildDelete && st'.maxSize ≥ 3
      let model := some (renderModel mo)
      if renderOut so == l.res then { st := st', model, tags := mtags, nontrivial := nt }
      else match failRes l.res with
        | some c => { st := st', model, tags := mtags, spec := some s!"{c}:{l.op}" }
        | none =>
          if renderOut po == l.res then
            { st := st', model, tags := mtags, known := some "bstree.delete-absent-decrements-size" }
          else { st := st', model, tags := mtags, spec := some s!"ordered-map:{l.op}" }

end Bst

end GoguVerif.Kinds
