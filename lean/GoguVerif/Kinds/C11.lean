import GoguVerif.Go.Run
import GoguVerif.Spec.C11
import GoguVerif.Model.C11
/-!
# Driver wiring for C11

`CASE c11 int|str`; one line per call (see `harness/k_c11_test.go` for the protocol).  For every
line: the model's answer (correspondence) and the monitor's verdict on the implementation's answer.
-/
namespace GoguVerif.Kinds.C11
open GoguVerif
open GoguVerif.Spec.C11 (Nested)

/-- element type as it travels on the wire, with the key-function family of that type -/
structure Codec (α : Type) where
  dec : Val → Option α
  enc : α → Val
  le  : α → α → Bool
  fn  : String → Option (α → α)

def intFn : String → Option (Int → Int)
  | "f0" => some fun x => x
  | "f1" => some fun x => Int.tmod x 2
  | "f2" => some fun x => Int.tdiv x 2
  | "f3" => some fun _ => 0
  | "f4" => some fun x => -x
  | "f5" => some fun x => x * x
  | _ => none

def intCodec : Codec Int where
  dec := Val.int?
  enc := Val.int
  le := fun a b => decide (a ≤ b)
  fn := intFn

/-- Go's `<=` on strings: byte-wise lexicographic -/
def bytesLe : List UInt8 → List UInt8 → Bool
  | [], _ => true
  | _ :: _, [] => false
  | a :: x, b :: y => a < b || (a == b && bytesLe x y)

def strFn : String → Option (List UInt8 → List UInt8)
  | "g0" => some fun x => x
  | "g1" => some fun x => if x.length > 1 then x.take 1 else x
  | "g2" => some fun x => if x.length > 0 then x.drop 1 else x
  | "g3" => some fun _ => []
  | _ => none

def strCodec : Codec (List UInt8) where
  dec := Val.bytes?
  enc := Val.ofBytes
  le := bytesLe
  fn := strFn

section
variable {α : Type} [DecidableEq α] (c : Codec α)

def decList : Val → Option (List α)
  | .list l => l.mapM c.dec
  | _ => none

def decLists : Val → Option (List (List α))
  | .list l => l.mapM (decList c)
  | _ => none

def encList (l : List α) : Val := .list (l.map c.enc)

partial def decNested (v : Val) : Option (Nested α) :=
  match v with
  | .list (.atom "s" :: items) => (items.mapM c.dec).map .slice
  | .list items => (items.mapM decNested).map .list
  | .atom "bad0" => some .bad
  | .atom "bad1" => some .bad
  | .atom "bad2" => some .bad
  | .atom "bad3" => some .bad
  | v => (c.dec v).map .leaf

/-- the tree holds a typed nesting `[][]T` (`bad3`): the statement does not say whether that counts
as "nested slices" or as malformed input, so the monitor gives no verdict on such a call (the model
still predicts what the code does today: an error) -/
partial def hasTypedNesting : Val → Bool
  | .list items => items.any hasTypedNesting
  | .atom "bad3" => true
  | _ => false

def decPair : Val → Option (α × Nat)
  | .list [k, .int i] => if i < 0 then none else (c.dec k).map fun k => (k, i.toNat)
  | _ => none

def encPair (p : α × Nat) : Val := .list [c.enc p.1, .int p.2]

def hasRepeat (s : List α) : Bool := decide (Spec.C11.firstOccs s ≠ s)

/-- shape of the evidence for a function with a first argument `s`, reference answer `want` -/
def filt (s want : List α) : Bool :=
  hasRepeat s && !want.isEmpty && decide (want ≠ Spec.C11.firstOccs s)

def stepWith (l : Line) : Step Unit :=
  let bad (why : String) : Step Unit := { st := (), bad := some s!"c11 {l.op}: {why}" }
  -- list-valued answer of the implementation; `panic` / `hang` are violations on every input of the domain
  let judgeList (modelAns : List α) (tags : List String) (nontrivial : Bool)
      (verdict : List α → Option String) : Step Unit :=
    match l.res with
    | [.atom "panic"] => { st := (), model := some [encList c modelAns], spec := some s!"no-panic:{l.op}", tags := tags }
    | [.atom "hang"] => { st := (), model := some [encList c modelAns], spec := some s!"terminates:{l.op}", tags := tags }
    | [r] =>
      match decList c r with
      | none => bad "result"
      | some r => { st := (), model := some [encList c modelAns], spec := verdict r, tags := tags, nontrivial := nontrivial }
    | _ => bad "result"
  let exact (want : List α) (clause : String) : List α → Option String :=
    fun r => if r = want then none else some clause
  let by_ (cond : α → Bool) (s : List α) (name : String) : List α → Option String :=
    fun r =>
      if !r.isSublist s then some s!"{name}:subsequence-of-first-argument"
      else if !r.all cond then some s!"{name}:kept-element-fails-image-condition"
      else if !Spec.C11.byCheck cond s r then some s!"{name}:qualifying-element-missing"
      else none
  match l.op, l.args with
  | "unique", [s] =>
    match decList c s with
    | none => bad "args"
    | some s =>
      let want := Spec.C11.uniqueRef s
      judgeList (Model.C11.unique s) ["unique"] (s.length ≥ 3 && hasRepeat s && want.length ≥ 2)
        (exact want "unique:first-occurrences-in-order")
  | "uniqueby", [.atom f, s] =>
    match c.fn f, decList c s with
    | some f, some s =>
      let want := Spec.C11.uniqueByRef f s
      judgeList (Model.C11.uniqueBy s f) ["uniqueby"]
        (want.length ≥ 2 && decide (want ≠ Spec.C11.firstOccs s))
        (exact want "uniqueby:first-element-of-each-image")
    | _, _ => bad "args"
  | "dup", [s] =>
    match decList c s with
    | none => bad "args"
    | some s =>
      let m := (Model.C11.duplicate s).mergeSort c.le
      judgeList m ["dup"] (!m.isEmpty && m.length < (Spec.C11.firstOccs s).length)
        (fun r => if Spec.C11.dupCheck s r then none else some "duplicate:exactly-the-repeated-values-once")
  | "dupidx", [s] =>
    match decList c s with
    | none => bad "args"
    | some s =>
      let m := (Model.C11.duplicateWithIndex s).mergeSort (fun a b => c.le a.1 b.1)
      let modelAns : List Val := [.list (m.map (encPair c))]
      let tags := ["dupidx"]
      match l.res with
      | [.atom "panic"] => { st := (), model := some modelAns, spec := some "no-panic:dupidx", tags := tags }
      | [.atom "hang"] => { st := (), model := some modelAns, spec := some "terminates:dupidx", tags := tags }
      | [.list r] =>
        match r.mapM (decPair c) with
        | none => { st := (), model := some modelAns, spec := some "duplicatewithindex:first-index", tags := tags }
        | some r =>
          { st := (), model := some modelAns, tags := tags
            nontrivial := !m.isEmpty && m.any (fun p => p.2 > 0) && m.length < (Spec.C11.firstOccs s).length
            spec := if Spec.C11.dupIdxCheck s r then none else some "duplicatewithindex:first-index" }
      | _ => bad "result"
  | "union", [nv] | "unionshared", [nv] =>
    match decNested c nv with
    | none => bad "args"
    | some n =>
      let modelAns : List Val := match Model.C11.union n with
        | none => [.atom "err", .list []]
        | some r => [.atom "ok", encList c r]
      let want := Spec.C11.unionRef n
      let typed := hasTypedNesting nv
      let tags := ["union", if want.isNone then "union:malformed" else "union:wellformed", s!"union:depth{min n.depth 4}"]
        ++ (if typed then ["union:typed-nesting"] else [])
      let nontrivial := n.depth ≥ 2 && (match want with
        | none => !n.leaves.isEmpty
        | some w => w.length ≥ 2 && w.length < n.leaves.length)
      match l.res with
      | [.atom "panic"] => { st := (), model := some modelAns, spec := some "no-panic:union", tags := tags }
      | [.atom "hang"] => { st := (), model := some modelAns, spec := some "terminates:union", tags := tags }
      | [.atom e, r] =>
        match decList c r with
        | none => bad "result"
        | some r =>
          let isErr := e == "err"
          let clause :=
            if typed || Spec.C11.unionCheck n isErr r then none
            else match want with
              | none => some "union:malformed-nesting-yields-error"
              | some _ => if isErr then some "union:error-on-well-formed-input" else some "union:unique-of-flattening"
          { st := (), model := some modelAns, spec := clause, tags := tags, nontrivial := nontrivial }
      | _ => bad "result"
  | "inter", [ps] =>
    match decLists c ps with
    | none => bad "args"
    | some [] =>
      -- no argument at all: outside the property's domain (tuples of 1..3 slices); the code panics
      -- on `params[0]`, the model predicts it, the monitor is silent
      { st := (), model := some [.atom "panic"], tags := ["inter:no-argument"] }
    | some (s :: others) =>
      match Model.C11.intersection (s :: others) with
      | .panic => { st := (), model := some [.atom "panic"], spec := some "no-panic:inter" }
      | .ok m =>
        let want := Spec.C11.interRef s others
        judgeList m ["inter", s!"inter:k{min (others.length + 1) 4}"] (filt s want)
          (exact want "intersection:distinct-values-of-first-in-all-others")
  | "interby", [.atom f, ps] =>
    match c.fn f, decLists c ps with
    | some _, some [] => { st := (), model := some [.atom "panic"], tags := ["interby:no-argument"] }
    | some f, some (s :: others) =>
      match Model.C11.intersectionBy f (s :: others) with
      | .panic => { st := (), model := some [.atom "panic"], spec := some "no-panic:interby" }
      | .ok m =>
        let cond := Spec.C11.interByCond f others
        let want := Spec.C11.firstOccs (s.filter cond)
        judgeList m ["interby", s!"interby:k{min (others.length + 1) 4}"]
          (filt s want && decide (want ≠ Spec.C11.interRef s others))
          (by_ cond s "intersectionby")
    | _, _ => bad "args"
  | "diff", [s, t] =>
    match decList c s, decList c t with
    | some s, some t =>
      let want := Spec.C11.diffRef s t
      judgeList (Model.C11.difference s t) ["diff"] (filt s want)
        (exact want "difference:distinct-values-of-first-not-in-second")
    | _, _ => bad "args"
  | "without", [s, t] =>
    match decList c s, decList c t with
    | some s, some t =>
      let want := Spec.C11.diffRef s t
      judgeList (Model.C11.without s t) ["without"] (filt s want)
        (exact want "without:distinct-values-of-first-not-listed")
    | _, _ => bad "args"
  | "diffby", [.atom f, s, t] =>
    match c.fn f, decList c s, decList c t with
    | some f, some s, some t =>
      let cond := Spec.C11.diffByCond f t
      let want := Spec.C11.firstOccs (s.filter cond)
      judgeList (Model.C11.differenceBy s t f) ["diffby"]
        (filt s want && decide (want ≠ Spec.C11.diffRef s t))
        (by_ cond s "differenceby")
    | _, _, _ => bad "args"
  | _, _ => bad "unknown op or arity"

end

def kind : Kind where
  σ := Bool
  init := fun ps => match ps with
    | [.atom "int"] => some false
    | [.atom "str"] => some true
    | [.atom "any"] => some false     -- T = any in the harness, int-coded injectively: the int answers must be the same
    | _ => none
  step := fun st l =>
    let r := if st then stepWith strCodec l else stepWith intCodec l
    { r with st := st }

end GoguVerif.Kinds.C11
