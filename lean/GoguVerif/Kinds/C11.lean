import GoguVerif.Go.Run
/-! Driver wiring for C11 (stub — to be filled in). -/
namespace GoguVerif.Kinds.C11
open GoguVerif

def kind : Kind where
  σ := Unit
  init := fun _ => some ()
  step := fun st l => { st := st, bad := some s!"C11: kind not implemented ({l.op})" }

end GoguVerif.Kinds.C11
