import GoguVerif.Go.Run
import GoguVerif.Spec.C19
/-! Driver wiring for C19 (linked lists): relational sequence monitor. -/
namespace GoguVerif.Kinds.Lists
open GoguVerif Spec.C19

def parseOp (l : Line) : Option Op :=
  match l.op, l.args with
  | "unshift", [.int v] => some (.unshift v)
  | "append", [.int v] => some (.append v)
  | "shift", [] => some .shift
  | "pop", [] => some .pop
  | "insertafter", [.int x, .int v] => some (.insertAfter x v)
  | "insertbefore", [.int x, .int v] => some (.insertBefore x v)
  | "delete", [.int x] => some (.delete x)
  | "replace", [.int o, .int n] => some (.replace o n)
  | "find", [.int x] => some (.find x)
  | "first", [] => some .first
  | "last", [] => some .last
  | "each", [] => some .each
  | _, _ => none

/-- implementation result → (answer, sequence observed afterwards) -/
def parseRes (res : List Val) : Option (Ans × List Int) :=
  match res with
  | [seq] => seq.ints?.map (fun s => (.none, s))
  | [a, seq] =>
    match seq.ints? with
    | none => none
    | some s =>
      match a with
      | .atom "ok" => some (.ok, s)
      | .atom "err" => some (.err, s)
      | .atom "notfound" => some (.notFound, s)
      | .atom "T" => some (.bool true, s)
      | .atom "F" => some (.bool false, s)
      | .int v => some (.val v, s)
      | _ => none
  | _ => none

structure St where
  dbl : Bool
  xs : List Int
  headEdits : Nat := 0
  midEdits : Nat := 0

def kindFor (dbl : Bool) : Kind where
  σ := St
  init := fun ps => match ps with
    | [.int v] => some { dbl := dbl, xs := [v] }
    | _ => none
  step := fun st l =>
    match l.res with
    | [.atom "panic"] => { st := st, tags := [l.op], spec := some s!"no-panic:{l.op}" }
    | [.atom "hang"] => { st := st, tags := [l.op], spec := some s!"terminates:{l.op}" }
    | _ =>
    if l.op == "dump" then { st := st, tags := ["dump"] } else
    match parseOp l, parseRes l.res with
    | some op, some (ans, xs') =>
      let headEdit := match op with
        | .unshift _ | .shift => true
        | .insertBefore x _ | .delete x => st.xs.head? == some x
        | _ => false
      let midEdit := match op with
        | .insertAfter x _ | .insertBefore x _ | .delete x => st.xs.head? != some x && st.xs.contains x
        | _ => false
      let st' : St := { st with xs := xs', headEdits := st.headEdits + (if headEdit then 1 else 0),
                                midEdits := st.midEdits + (if midEdit then 1 else 0) }
      { st := st', tags := [l.op], nontrivial := st'.headEdits ≥ 1 && st'.midEdits ≥ 1
        spec := if decide (Allowed dbl st.xs op ans xs') then none else some s!"sequence:{l.op}" }
    | _, _ => { st := st, bad := some s!"bad list line {l.op}" }

end GoguVerif.Kinds.Lists
