import GoguVerif.Go.Run
import GoguVerif.Spec.C19
import GoguVerif.Model.SList
import GoguVerif.Model.DList
/-! Driver wiring for C19 (linked lists): relational sequence monitor + the pointer-level models
(`Model/SList.lean`, `Model/DList.lean`) run beside it.  Compared with the implementation: the
answer of every operation, the `Each` sequence after it, panics/hangs, and for `dump` the raw
next/prev structure with addresses canonicalised to chain positions. -/
namespace GoguVerif.Kinds.Lists
open GoguVerif Spec.C19

def parseOp (l : Line) : Option Op :=
  match l.op, l.args with
  | "unshift", [.int v] => some (.unshift v)
  | "append", [.int v] => some (.append v)
  | "shift", [] => some .shift
  | "pop", [] => some .pop
  | "insertafter", [.int x, .int v] => some (.insertAfter x v)
  | "insertbefore", [.int x, .int v] => some (.insertBefore x v)
  | "delete", [.int x] => some (.delete x)
  | "replace", [.int o, .int n] => some (.replace o n)
  | "find", [.int x] => some (.find x)
  | "first", [] => some .first
  | "last", [] => some .last
  | "each", [] => some .each
  | _, _ => none

/-- implementation result → (answer, sequence observed afterwards) -/
def parseRes (res : List Val) : Option (Ans × List Int) :=
  match res with
  | [seq] => seq.ints?.map (fun s => (.none, s))
  | [a, seq] =>
    match seq.ints? with
    | none => none
    | some s =>
      match a with
      | .atom "ok" => some (.ok, s)
      | .atom "err" => some (.err, s)
      | .atom "notfound" => some (.notFound, s)
      | .atom "T" => some (.bool true, s)
      | .atom "F" => some (.bool false, s)
      | .int v => some (.val v, s)
      | _ => none
  | _ => none

/-- the model's store (dead after an abnormal outcome: the case ends there) -/
inductive MSt where
  | s (h : Model.SList.Heap)
  | d (h : Model.DList.Heap)
  | dead

def renderAns : Ans → List Val
  | .ok => [.atom "ok"]
  | .err => [.atom "err"]
  | .notFound => [.atom "notfound"]
  | .bool b => [Val.ofBool b]
  | .val v => [.int v]
  | .none => []

def renderRes {α : Type} (f : α → MSt × List Val) : Model.ListRes α → MSt × List Val
  | .ok a => f a
  | .panic => (.dead, [.atom "panic"])
  | .hang => (.dead, [.atom "hang"])
  | .stuck => (.dead, [.atom "stuck"])

/-- the limit the harness passes to `VerifDump` -/
def dumpLimit : Nat := 5000

/-- model answer for one protocol line -/
def modelStep (m : MSt) (l : Line) : MSt × Option (List Val) :=
  match m with
  | .dead => (.dead, none)
  | .s h =>
    match parseOp l with
    | none => (m, none)
    | some op =>
      let r := renderRes (fun (x : Model.SList.Heap × Ans × List Int) =>
        (MSt.s x.1, renderAns x.2.1 ++ [Val.ofInts x.2.2])) (Model.SList.stepObs h op)
      (r.1, some r.2)
  | .d h =>
    if l.op == "dump" then
      let r := renderRes (fun (x : List Int × List Int × Bool) =>
        (MSt.d h, [Val.ofInts x.1, Val.ofInts x.2.1, Val.ofBool x.2.2])) (Model.DList.dump h dumpLimit)
      (r.1, some r.2)
    else
    match parseOp l with
    | none => (m, none)
    | some op =>
      let r := renderRes (fun (x : Model.DList.Heap × Ans × List Int) =>
        (MSt.d x.1, renderAns x.2.1 ++ [Val.ofInts x.2.2])) (Model.DList.stepObs h op)
      (r.1, some r.2)

/-- a kept handle: the slot number of the harness, the address in the model's store (`none`: nil) and the position
of the designated element by the specification's bookkeeping (`none`: it designates no element any more) -/
structure Slot where
  id : Nat
  addr : Option Nat
  idx : Option Nat
  /-- the handle is nil: `Find` did not find the value -/
  isNil : Bool := false

structure St where
  dbl : Bool
  xs : List Int
  m : MSt
  headEdits : Nat := 0
  midEdits : Nat := 0
  slots : List Slot := []
  handleEdits : Nat := 0

def moveSlots (dbl : Bool) (e : Edit) (slots : List Slot) : List Slot :=
  slots.map fun sl => { sl with idx := sl.idx.bind (moveIdx dbl e) }

def dropSlots (slots : List Slot) : List Slot := slots.map fun sl => { sl with idx := none }


/-- answer-only result of a quiet operation -/
def ansOfVals : List Val → Option Ans
  | [] => some .none
  | [.atom "ok"] => some .ok
  | [.atom "err"] => some .err
  | [.atom "notfound"] => some .notFound
  | [.atom "T"] => some (.bool true)
  | [.atom "F"] => some (.bool false)
  | [.int v] => some (.val v)
  | _ => none

def quietStep (st : St) (l : Line) : Step St :=
  let bad (why : String) : Step St := { st := st, bad := some s!"list {l.op}: {why}" }
  let st := { st with m := MSt.dead, slots := dropSlots st.slots }
  match l.op, l.args with
  | "fill", [.int a, .int n] =>
    if n < 0 then bad "negative count" else
    { st := { st with xs := fillFront a n.toNat st.xs }, tags := ["fill"]
      spec := if l.res == [.atom "ok"] then none else some "sequence:fill" }
  | "q", .atom name :: rest =>
    match parseOp { l with op := name, args := rest }, ansOfVals l.res with
    | some op, some ans =>
      if op == .shift && st.xs.length ≤ 1 then bad "quiet shift on a one-element list (outcome open)" else
      let (want, xs') := next st.dbl st.xs op
      { st := { st with xs := xs' }, tags := [s!"q:{name}"], nontrivial := st.xs.length > 1000
        spec := if ans == want then none else some s!"sequence:{name}" }
    | _, _ => bad "operation or answer"
  | "sum", [] =>
    match l.res with
    | [.int n, .int f, .int la, .int c] =>
      let ok := n == (st.xs.length : Int) && f == st.xs.head?.getD 0 && la == st.xs.getLast?.getD 0 && c == checksum st.xs
      { st := st, tags := ["sum"], spec := if ok then none else some "sequence:sum" }
    | _ => bad "summary"
  | "window", [.int i, .int j] =>
    match l.res with
    | [seq] =>
      if i < 0 || j < i then bad "window bounds" else
      { st := st, tags := ["window"]
        spec := if seq.ints? == some ((st.xs.drop i.toNat).take (j - i).toNat) then none else some "sequence:window" }
    | _ => bad "window result"
  | _, _ => bad "arguments"

/-- model side of the handle operations: the pointer-level methods called with the kept address -/
def modelHandle (m : MSt) (opn : String) (addr : Option Nat) (v : Int) : MSt × Option (List Val) :=
  match m with
  | .dead => (.dead, none)
  | .s h =>
    let r : Model.ListRes (Model.SList.Heap × Ans) :=
      if opn == "deleteh" then Model.SList.delete h addr
      else if opn == "insertafterh" then Model.SList.insertAfter h addr v
      else .stuck
    let r2 := r.bind fun (h1, ans) => (Model.SList.each h1).bind fun (h2, seq) => .ok (h2, ans, seq)
    let o := renderRes (fun (x : Model.SList.Heap × Ans × List Int) =>
      (MSt.s x.1, renderAns x.2.1 ++ [Val.ofInts x.2.2])) r2
    (o.1, some o.2)
  | .d h =>
    let r : Model.ListRes (Model.DList.Heap × Ans) :=
      if opn == "deleteh" then Model.DList.delete h addr
      else if opn == "insertafterh" then Model.DList.insertAfter h addr v
      else if opn == "insertbeforeh" then Model.DList.insertBefore h addr v
      else .stuck
    let r2 := r.bind fun (h1, ans) => (Model.DList.each h1).bind fun (h2, seq) => .ok (h2, ans, seq)
    let o := renderRes (fun (x : Model.DList.Heap × Ans × List Int) =>
      (MSt.d x.1, renderAns x.2.1 ++ [Val.ofInts x.2.2])) r2
    (o.1, some o.2)

/-- model side of `hold`: `Find`, keeping the address -/
def modelHold (m : MSt) (x : Int) : MSt × Option Nat × Option (List Val) :=
  match m with
  | .dead => (.dead, none, none)
  | .s h =>
    match (Model.SList.find h x).bind fun (h1, r) => (Model.SList.each h1).bind fun (h2, seq) => .ok (h2, r, seq) with
    | .ok (h2, r, seq) => (.s h2, r, some [Val.ofBool r.isSome, Val.ofInts seq])
    | _ => (.dead, none, some [.atom "panic"])
  | .d h =>
    match (Model.DList.find h x).bind fun r => (Model.DList.each h).bind fun (h2, seq) => .ok (h2, r, seq) with
    | .ok (h2, r, seq) => (.d h2, r, some [Val.ofBool r.isSome, Val.ofInts seq])
    | _ => (.dead, none, some [.atom "panic"])

/-- `hold k x` (keep the handle `Find(x)` in slot k) and the operations through a kept handle -/
def handleStep (st : St) (l : Line) : Step St :=
  let bad (why : String) : Step St := { st := st, bad := some s!"list {l.op}: {why}" }
  match l.op, l.args with
  | "hold", [.int k, .int x] =>
    match parseRes l.res with
    | some (ans, xs') =>
      let (m', addr, mans) := modelHold st.m x
      -- the first element lives in the list struct itself: a handle to it designates "the first slot", not an
      -- element that keeps its identity under edits -- only handles to later elements are followed
      let idx := match st.xs.idxOf? x with
        | some (i + 1) => some (i + 1)
        | _ => none
      let slots := { id := k.toNat, addr := addr, idx := idx, isNil := !st.xs.contains x } :: st.slots.filter (fun sl => sl.id != k.toNat)
      { st := { st with m := m', xs := xs', slots := slots }, model := mans, tags := ["hold"]
        spec := if ans == .bool (st.xs.contains x) && xs' == st.xs then none else some "sequence:find" }
    | none => bad "result"
  | opn, .int k :: rest =>
    match st.slots.find? (fun sl => sl.id == k.toNat), parseRes l.res with
    | some sl, some (ans, xs') =>
      let v : Int := match rest with
        | [.int v] => v
        | _ => 0
      if sl.isNil then
        -- a nil handle (the value was absent when `Find` was asked): every operation refuses it and changes nothing
        let (m', mans) := modelHandle st.m opn none v
        { st := { st with m := m', xs := xs' }, model := mans, tags := [opn ++ ":nil-handle"], nontrivial := true
          spec := if ans == .err && xs' == st.xs then none else some s!"nil-handle-refused:{opn}" }
      else
      match sl.idx with
      | none =>
        -- the handle designates no element (by the rules of `Spec.C19.moveIdx`): nothing is specified; the case goes
        -- on from the observed sequence, without the model and without the other handles
        { st := { st with m := .dead, xs := xs', slots := dropSlots st.slots }, tags := [opn ++ ":unspecified-handle"] }
      | some i =>
        if i ≥ st.xs.length then bad "handle position out of range" else
        let hop : Option HOp :=
          if opn == "deleteh" then some (.deleteH i)
          else if opn == "insertafterh" then some (.insertAfterH i v)
          else if opn == "insertbeforeh" && st.dbl then some (.insertBeforeH i v)
          else none
        match hop with
        | none => bad "operation"
        | some hop =>
          let (m', mans) := modelHandle st.m opn sl.addr v
          let ok := decide (AllowedH st.xs hop ans xs')
          let slots := if ok then moveSlots st.dbl (editOfH st.xs hop) st.slots else dropSlots st.slots
          { st := { st with m := m', xs := xs', slots := slots, handleEdits := st.handleEdits + 1 }
            model := mans, tags := [opn], nontrivial := true
            spec := if ok then none else some s!"sequence:{opn}" }
    | none, _ => bad "unknown slot"
    | _, none => bad "result"
  | _, _ => bad "arguments"

def kindFor (dbl : Bool) : Kind where
  σ := St
  init := fun ps => match ps with
    | [.int v] => some { dbl := dbl, xs := [v]
                         m := if dbl then .d (Model.DList.init v) else .s (Model.SList.init v) }
    | _ => none
  step := fun st l =>
    let isHandle := l.op == "hold" || l.op == "deleteh" || l.op == "insertafterh" || l.op == "insertbeforeh"
    if isHandle && l.res != [.atom "panic"] && l.res != [.atom "hang"] then handleStep st l else
    if (l.op == "eachobs" || l.op == "eachpanic") && (l.res == [.atom "panic"] || l.res == [.atom "hang"]) then
      { st := st, tags := [l.op], spec := some s!"no-panic:{l.op}" } else
    let (m', mans) := modelStep st.m l
    let st := { st with m := m' }
    match l.res with
    | [.atom "panic"] => { st := st, model := mans, tags := [l.op], spec := some s!"no-panic:{l.op}" }
    | [.atom "hang"] => { st := st, model := mans, tags := [l.op], spec := some s!"terminates:{l.op}" }
    | _ =>
    if l.op == "dump" then { st := st, model := mans, tags := ["dump"] } else
    -- `Each` with a callback that observes the list (`eachobs`: every nested observation must see the whole list) or
    -- panics at some visit (`eachpanic k`, recovered by the caller): `Each` observes, it never changes the sequence
    if l.op == "eachobs" then
      { st := st, model := some [Val.ofBool true, Val.ofInts st.xs], tags := ["eachobs"], nontrivial := st.xs.length ≥ 2
        spec := if l.res == [Val.ofBool true, Val.ofInts st.xs] then none else some "each-observes-without-changing:nested-observer" }
    else if l.op == "eachpanic" then
      { st := st, model := some [Val.ofInts st.xs], tags := ["eachpanic"], nontrivial := st.xs.length ≥ 2
        spec := if l.res == [Val.ofInts st.xs] then none else some "each-observes-without-changing:panicking-callback" }
    else
    -- long runs: `fill`, quiet operations (`q <op> …`: the answer only) and summarised observations.  The sequence
    -- is carried by the specification's successor function (`Spec.C19.next`, the only admitted outcome:
    -- `Theorems.C19.allowed_eq_next`); the pointer-level model is not run any more (quadratic on long lists).
    if l.op == "fill" || l.op == "q" || l.op == "sum" || l.op == "window" then quietStep st l else
    match parseOp l, parseRes l.res with
    | some op, some (ans, xs') =>
      let headEdit := match op with
        | .unshift _ | .shift => true
        | .insertBefore x _ | .delete x => st.xs.head? == some x
        | _ => false
      let midEdit := match op with
        | .insertAfter x _ | .insertBefore x _ | .delete x => st.xs.head? != some x && st.xs.contains x
        | _ => false
      let ok := decide (Allowed dbl st.xs op ans xs')
      let st' : St := { st with xs := xs', headEdits := st.headEdits + (if headEdit then 1 else 0),
                                midEdits := st.midEdits + (if midEdit then 1 else 0)
                                slots := if ok then moveSlots dbl (editOf st.xs op) st.slots else dropSlots st.slots }
      { st := st', model := mans, tags := [l.op], nontrivial := st'.headEdits ≥ 1 && st'.midEdits ≥ 1
        spec := if ok then none else some s!"sequence:{l.op}" }
    | _, _ => { st := st, bad := some s!"bad list line {l.op}" }

end GoguVerif.Kinds.Lists
