import GoguVerif.Go.Run
import GoguVerif.Spec.C19
import GoguVerif.Model.SList
import GoguVerif.Model.DList
/-! Driver wiring for C19 (linked lists): relational sequence monitor + the pointer-level models
(`Model/SList.lean`, `Model/DList.lean`) run beside it.  Compared with the implementation: the
answer of every operation, the `Each` sequence after it, panics/hangs, and for `dump` the raw
next/prev structure with addresses canonicalised to chain positions. -/
namespace GoguVerif.Kinds.Lists
open GoguVerif Spec.C19

def parseOp (l : Line) : Option Op :=
  match l.op, l.args with
  | "unshift", [.int v] => some (.unshift v)
  | "append", [.int v] => some (.append v)
  | "shift", [] => some .shift
  | "pop", [] => some .pop
  | "insertafter", [.int x, .int v] => some (.insertAfter x v)
  | "insertbefore", [.int x, .int v] => some (.insertBefore x v)
  | "delete", [.int x] => some (.delete x)
  | "replace", [.int o, .int n] => some (.replace o n)
  | "find", [.int x] => some (.find x)
  | "first", [] => some .first
  | "last", [] => some .last
  | "each", [] => some .each
  | _, _ => none

/-- implementation result → (answer, sequence observed afterwards) -/
def parseRes (res : List Val) : Option (Ans × List Int) :=
  match res with
  | [seq] => seq.ints?.map (fun s => (.none, s))
  | [a, seq] =>
    match seq.ints? with
    | none => none
    | some s =>
      match a with
      | .atom "ok" => some (.ok, s)
      | .atom "err" => some (.err, s)
      | .atom "notfound" => some (.notFound, s)
      | .atom "T" => some (.bool true, s)
      | .atom "F" => some (.bool false, s)
      | .int v => some (.val v, s)
      | _ => none
  | _ => none

/-- the model's store (dead after an abnormal outcome: the case ends there) -/
inductive MSt where
  | s (h : Model.SList.Heap)
  | d (h : Model.DList.Heap)
  | dead

def renderAns : Ans → List Val
  | .ok => [.atom "ok"]
  | .err => [.atom "err"]
  | .notFound => [.atom "notfound"]
  | .bool b => [Val.ofBool b]
  | .val v => [.int v]
  | .none => []

def renderRes {α : Type} (f : α → MSt × List Val) : Model.ListRes α → MSt × List Val
  | .ok a => f a
  | .panic => (.dead, [.atom "panic"])
  | .hang => (.dead, [.atom "hang"])
  | .stuck => (.dead, [.atom "stuck"])

/-- the limit the harness passes to `VerifDump` -/
def dumpLimit : Nat := 5000

/-- model answer for one protocol line -/
def modelStep (m : MSt) (l : Line) : MSt × Option (List Val) :=
  match m with
  | .dead => (.dead, none)
  | .s h =>
    match parseOp l with
    | none => (m, none)
    | some op =>
      let r := renderRes (fun (x : Model.SList.Heap × Ans × List Int) =>
        (MSt.s x.1, renderAns x.2.1 ++ [Val.ofInts x.2.2])) (Model.SList.stepObs h op)
      (r.1, some r.2)
  | .d h =>
    if l.op == "dump" then
      let r := renderRes (fun (x : List Int × List Int × Bool) =>
        (MSt.d h, [Val.ofInts x.1, Val.ofInts x.2.1, Val.ofBool x.2.2])) (Model.DList.dump h dumpLimit)
      (r.1, some r.2)
    else
    match parseOp l with
    | none => (m, none)
    | some op =>
      let r := renderRes (fun (x : Model.DList.Heap × Ans × List Int) =>
        (MSt.d x.1, renderAns x.2.1 ++ [Val.ofInts x.2.2])) (Model.DList.stepObs h op)
      (r.1, some r.2)

structure St where
  dbl : Bool
  xs : List Int
  m : MSt
  headEdits : Nat := 0
  midEdits : Nat := 0

/-- answer-only result of a quiet operation -/
def ansOfVals : List Val → Option Ans
  | [] => some .none
  | [.atom "ok"] => some .ok
  | [.atom "err"] => some .err
  | [.atom "notfound"] => some .notFound
  | [.atom "T"] => some (.bool true)
  | [.atom "F"] => some (.bool false)
  | [.int v] => some (.val v)
  | _ => none

def quietStep (st : St) (l : Line) : Step St :=
  let bad (why : String) : Step St := { st := st, bad := some s!"list {l.op}: {why}" }
  let st := { st with m := MSt.dead }
  match l.op, l.args with
  | "fill", [.int a, .int n] =>
    if n < 0 then bad "negative count" else
    { st := { st with xs := fillFront a n.toNat st.xs }, tags := ["fill"]
      spec := if l.res == [.atom "ok"] then none else some "sequence:fill" }
  | "q", .atom name :: rest =>
    match parseOp { l with op := name, args := rest }, ansOfVals l.res with
    | some op, some ans =>
      if op == .shift && st.xs.length ≤ 1 then bad "quiet shift on a one-element list (outcome open)" else
      let (want, xs') := next st.dbl st.xs op
      { st := { st with xs := xs' }, tags := [s!"q:{name}"], nontrivial := st.xs.length > 1000
        spec := if ans == want then none else some s!"sequence:{name}" }
    | _, _ => bad "operation or answer"
  | "sum", [] =>
    match l.res with
    | [.int n, .int f, .int la, .int c] =>
      let ok := n == (st.xs.length : Int) && f == st.xs.head?.getD 0 && la == st.xs.getLast?.getD 0 && c == checksum st.xs
      { st := st, tags := ["sum"], spec := if ok then none else some "sequence:sum" }
    | _ => bad "summary"
  | "window", [.int i, .int j] =>
    match l.res with
    | [seq] =>
      if i < 0 || j < i then bad "window bounds" else
      { st := st, tags := ["window"]
        spec := if seq.ints? == some ((st.xs.drop i.toNat).take (j - i).toNat) then none else some "sequence:window" }
    | _ => bad "window result"
  | _, _ => bad "arguments"

def kindFor (dbl : Bool) : Kind where
  σ := St
  init := fun ps => match ps with
    | [.int v] => some { dbl := dbl, xs := [v]
                         m := if dbl then .d (Model.DList.init v) else .s (Model.SList.init v) }
    | _ => none
  step := fun st l =>
    let (m', mans) := modelStep st.m l
    let st := { st with m := m' }
    match l.res with
    | [.atom "panic"] => { st := st, model := mans, tags := [l.op], spec := some s!"no-panic:{l.op}" }
    | [.atom "hang"] => { st := st, model := mans, tags := [l.op], spec := some s!"terminates:{l.op}" }
    | _ =>
    if l.op == "dump" then { st := st, model := mans, tags := ["dump"] } else
    -- long runs: `fill`, quiet operations (`q <op> …`: the answer only) and summarised observations.  The sequence
    -- is carried by the specification's successor function (`Spec.C19.next`, the only admitted outcome:
    -- `Theorems.C19.allowed_eq_next`); the pointer-level model is not run any more (quadratic on long lists).
    if l.op == "fill" || l.op == "q" || l.op == "sum" || l.op == "window" then quietStep st l else
    match parseOp l, parseRes l.res with
    | some op, some (ans, xs') =>
      let headEdit := match op with
        | .unshift _ | .shift => true
        | .insertBefore x _ | .delete x => st.xs.head? == some x
        | _ => false
      let midEdit := match op with
        | .insertAfter x _ | .insertBefore x _ | .delete x => st.xs.head? != some x && st.xs.contains x
        | _ => false
      let st' : St := { st with xs := xs', headEdits := st.headEdits + (if headEdit then 1 else 0),
                                midEdits := st.midEdits + (if midEdit then 1 else 0) }
      { st := st', model := mans, tags := [l.op], nontrivial := st'.headEdits ≥ 1 && st'.midEdits ≥ 1
        spec := if decide (Allowed dbl st.xs op ans xs') then none else some s!"sequence:{l.op}" }
    | _, _ => { st := st, bad := some s!"bad list line {l.op}" }

end GoguVerif.Kinds.Lists
