import GoguVerif.Go.Run
import GoguVerif.Kinds.Common
import GoguVerif.Spec.C07
/-! Driver wiring for C07: spec monitor (+ model correspondence). -/
namespace GoguVerif.Kinds
open GoguVerif

namespace Lru
open Spec.C07

def parseOp (l : Line) : Option Op :=
  match l.op, l.args with
  | "add", [.int k, .int v] => some (.add k v)
  | "get", [.int k] => some (.get k)
  | "getoldest", [] => some .getOldest
  | "getyoungest", [] => some .getYoungest
  | "remove", [.int k] => some (.remove k)
  | "removeoldest", [] => some .removeOldest
  | "removeyoungest", [] => some .removeYoungest
  | "flush", [] => some .flush
  | "count", [] => some .count
  | _, _ => none

def renderOut : Out → List Val
  | .unit => [.atom "ok"]
  | .kv (some e) => [.int e.1, .int e.2, .atom "T"]
  | .kv none => [.int 0, .int 0, .atom "F"]
  | .v (some v) => [.int v, .atom "T"]
  | .v none => [.int 0, .atom "F"]
  | .int n => [.int n]

structure St where
  cap : Int
  es : Entries := []
  evicted : Bool := false
  created : Bool := false

def kind : Kind where
  σ := St
  init := fun ps => match ps with
    | [.int c] => some { cap := c }
    | _ => none
  step := fun st l =>
    if l.op == "create" then
      let want : List Val := [.atom (if createOk st.cap then "ok" else "err")]
      { st := { st with created := true }, tags := ["create"], nontrivial := st.cap ≤ 0
        spec := if want == l.res then none else some "create-rejects-nonpositive" }
    else
    match parseOp l with
    | none => { st := st, bad := some s!"bad lru op {l.op}" }
    | some op =>
      let (es', o) := Spec.C07.step st.cap.toNat st.es op
      let ev := match op, o with
        | .add _ _, .kv (some _) => true
        | _, _ => false
      let st' : St := { st with es := es', evicted := st.evicted || ev }
      match failRes l.res with
      | some c => { st := st', tags := [l.op], spec := some s!"{c}:{l.op}" }
      | none =>
        { st := st', tags := [l.op], nontrivial := st'.evicted
          spec := if renderOut o == l.res then none else some s!"lru:{l.op}" }

end Lru

end GoguVerif.Kinds
