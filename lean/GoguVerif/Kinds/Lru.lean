import GoguVerif.Go.Run
import GoguVerif.Kinds.Common
import GoguVerif.Spec.C07
import GoguVerif.Model.Lru
import GoguVerif.Model.LruPtr
/-! Driver wiring for C07: spec monitor + model correspondence.

The model's answer is the Go result tuple (`Model.Lru.Ret`), printed token by token; the monitor's
expected answer is the specification's `Out` turned into the same tuple by `Ret.ofOut`
(`Theorems.C07` proves the two equal for every history).  Only the results of the calls are
compared — no layout of the list or the map.  Both layers of the model run: the pointer-level one
(`Model.LruPtr`) gives the answer that is compared; the abstract-list one (`Model.Lru`) must give
the same answer (proved in `Theorems.C07`; a disagreement would be printed as the model answer
`layers-disagree`). -/
namespace GoguVerif.Kinds
open GoguVerif

namespace Lru
open Spec.C07

def parseOp (l : Line) : Option Op :=
  match l.op, l.args with
  | "add", [.int k, .int v] => some (.add k v)
  | "get", [.int k] => some (.get k)
  | "getoldest", [] => some .getOldest
  | "getyoungest", [] => some .getYoungest
  | "remove", [.int k] => some (.remove k)
  | "removeoldest", [] => some .removeOldest
  | "removeyoungest", [] => some .removeYoungest
  | "flush", [] => some .flush
  | "count", [] => some .count
  | _, _ => none

def renderRet : Model.Lru.Ret → List Val
  | .unit => [.atom "ok"]
  | .kvb k v b => [.int k, .int v, Val.ofBool b]
  | .vb v b => [.int v, Val.ofBool b]
  | .int n => [.int n]

def renderOut (o : Out) : List Val := renderRet (Model.Lru.Ret.ofOut o)

structure St where
  cap : Int
  es : Entries := []
  evicted : Bool := false
  created : Bool := false
  /-- the model's cache; `none` = the Go variable holds a nil `*LRUCache` (before `create`, or
  `NewLRU` returned the error) -/
  m : Option Model.Lru.St := none
  /-- the same for the pointer-level layer -/
  pm : Option Model.LruPtr.PSt := none

/-- capacities from which a case is judged by the monitor only -/
def bigRun (cap : Int) : Bool := decide (cap > 50000)

def kind : Kind where
  σ := St
  init := fun ps => match ps with
    | [.int c] => some { cap := c }
    -- `lru <cap> str`: the same histories on an LRUCache[int, string] whose values are an injective image of the int
    -- values (0 is the empty string, the zero value of the type); the harness translates them back
    | [.int c, .atom _] => some { cap := c }
    | _ => none
  step := fun st l =>
    if l.op == "create" then
      let want : List Val := [.atom (if createOk st.cap then "ok" else "err")]
      let m := Model.Lru.newLRU st.cap
      let pm := Model.LruPtr.newLRU st.cap
      { st := { st with created := true, m := m, pm := pm }, tags := ["create"], nontrivial := st.cap ≤ 0
        model := some (if m.isSome == pm.isSome then [.atom (if pm.isSome then "ok" else "err")]
                       else [.atom "layers-disagree"])
        spec := if want == l.res then none else some "create-rejects-nonpositive" }
    else
    match parseOp l with
    | none => { st := st, bad := some s!"bad lru op {l.op}" }
    | some op =>
      let (es', o) := Spec.C07.step st.cap.toNat st.es op
      let ev := match op, o with
        | .add _ _, .kv (some _) => true
        | _, _ => false
      -- very large capacities (runs that straddle a threshold of ≥ 2^15 entries): the specification monitor
      -- alone judges the implementation's answers; the two model layers (quadratic in the population: the
      -- pointer layer copies its heap on every write) are not run, so there is no model answer to compare
      if bigRun st.cap then
        let st' : St := { st with es := es', evicted := st.evicted || ev, m := none, pm := none }
        match failRes l.res with
        | some c => { st := st', tags := [l.op, "bigrun:monitor-only"], spec := some s!"{c}:{l.op}" }
        | none =>
          { st := st', tags := [l.op, "bigrun:monitor-only"], nontrivial := st'.evicted
            spec := if renderOut o == l.res then none else some s!"lru:{l.op}" }
      else
      -- model: a method call through a nil `*LRUCache` dereferences nil (every method reads a field)
      let (m', mres) : Option Model.Lru.St × List Val := match st.m with
        | none => (none, [.atom "panic"])
        | some c => match Model.Lru.step c op with
          | .ok c' r => (some c', renderRet r)
          | .stale => (none, [.atom "stale"])
      let (pm', pres) : Option Model.LruPtr.PSt × List Val := match st.pm with
        | none => (none, [.atom "panic"])
        | some c => match Model.LruPtr.step c op with
          | .ok c' r => (some c', renderRet r)
          | .fault => (none, [.atom "panic"])
      let mres := if mres == pres then pres else [.atom "layers-disagree"]
      let st' : St := { st with es := es', evicted := st.evicted || ev, m := m', pm := pm' }
      match failRes l.res with
      | some c => { st := st', tags := [l.op], model := some mres, spec := some s!"{c}:{l.op}" }
      | none =>
        { st := st', tags := [l.op], nontrivial := st'.evicted
          model := some mres
          spec := if renderOut o == l.res then none else some s!"lru:{l.op}" }

end Lru

end GoguVerif.Kinds
