import GoguVerif.Go.Run
import GoguVerif.Spec.C16
import GoguVerif.Gen.Effects
/-! Driver wiring for C16: snapshot monitor + prediction from the regenerated effect table. -/
namespace GoguVerif.Kinds.C16
open GoguVerif

/-- harness names such as `Merge2` are second applications of the helper `Merge` -/
def baseName (n : String) : String :=
  String.ofList (n.toList.reverse.dropWhile Char.isDigit).reverse

/-- the translator's verdict for a helper: `some true` = writes through no parameter (or only the
self-assignment idiom), `some false` = writes through a parameter, `none` = not in the table -/
def tableSaysPure (name : String) : Option Bool :=
  (Gen.effects.find? (·.name == baseName name)).map fun e => e.writes.isEmpty || e.selfAssignOnly

def toks (l : List Val) : List String := l.map toString

structure St where
  big : Bool

def kind : Kind where
  σ := St
  init := fun ps => match ps with
    | s1 :: _ => some { big := match s1.ints? with | some l => l.length ≥ 2 | none => false }
    | _ => none
  step := fun st l =>
    match l.op, l.args with
    | "call", [.atom name] =>
      let r := toks l.res
      let n := (r.length - 1) / 2
      if r.length < 3 || r.length % 2 = 0 then { st := st, bad := some "c16 call: bad result shape" }
      else
        let before := r.take n
        let after := (r.drop n).take n
        let pure := tableSaysPure name
        { st := st, tags := [if Spec.C16.isInPlace (baseName name) then "call-inplace" else "call"]
          nontrivial := st.big
          -- correspondence: where the regenerated table says "writes nothing" the pool must be unchanged
          model := match pure with
            | some true => some (l.res.take n ++ l.res.take n ++ l.res.drop (2 * n))
            | some false => none
            | none => some [.atom s!"helper {name} missing from the effect table"]
          spec := if Spec.C16.callOk (baseName name) before after then none
                  else some s!"argument-unchanged:{name}:{",".intercalate (Spec.C16.changedFields before after)}" }
    | "pair", [.atom _h1, .atom h2] =>
      match l.res with
      | [.atom "skip", _, _] => { st := st, tags := ["pair-skip"] }
      | [first, again, al] =>
        { st := st, tags := ["pair"], nontrivial := st.big
          spec := if Spec.C16.pairOk (baseName _h1) (baseName h2) (toString first) (toString again) (al.bool? == some true) then none
                  else some s!"earlier-result-unaltered:{_h1}:{h2}" }
      | _ => { st := st, bad := some "c16 pair: bad result shape" }
    | _, _ => { st := st, bad := some s!"bad c16 line {l.op}" }

end GoguVerif.Kinds.C16
