import GoguVerif.Go.Run
import GoguVerif.Spec.C08
/-! Driver wiring for C08 (expiring cache): non-deterministic monitor over the set of possible states. -/
namespace GoguVerif.Kinds.Cache
open GoguVerif Spec.C08

def parsePairs (v : Val) : Option (List (Int × Int)) :=
  match v with
  | .list l => l.mapM (fun e => match e with
      | .list [.int a, .int b] => some (a, b)
      | _ => none)
  | _ => none

def parseOp (l : Line) : Option Op :=
  match l.op, l.args with
  | "set", [.int k, .int v, .int d] => some (.set k v d)
  | "setdefault", [.int k, .int v] => some (.set k v 0)
  | "update", [.int k, .int v, .int d] => some (.update k v d)
  | "get", [.int k] => some (.get k)
  | "delete", [.int k] => some (.delete k)
  | "flush", [] => some .flush
  | "delexp", [] => some .deleteExpired
  | "count", [] => some .count
  | "list", [] => some .list
  | "maptocache", [kvs, .int d] => (parsePairs kvs).map (.mapToCache · d)
  | "isexpired", [.int k] => some (.isExpired k)
  | "sleep", [.int ms] => some (.sleep ms)
  | _, _ => none

def errAtom (e : Bool) : Val := .atom (if e then "err" else "ok")

def renderOut : Out → List Val
  | .err e => [errAtom e]
  | .got (some v) => [.int v, .atom "ok"]
  | .got none => [.int 0, .atom "err"]
  | .unit => [.atom "ok"]
  | .int n => [.int n]
  | .items l => [.list (l.map fun e => .list [.int e.1, .int e.2])]
  | .bool b => [Val.ofBool b]

structure MSt where
  cfg : Cfg
  cands : List St := [{}]
  sawExpiry : Bool := false
  sawReject : Bool := false

def kind : Kind where
  σ := MSt
  init := fun ps => match ps with
    | [.int e, .int c, .atom vt] => some { cfg := { defExp := e, cleanup := c, strVals := vt == "str" } }
    | _ => none
  step := fun st l =>
    match l.res with
    | [.atom "panic"] => { st := st, tags := [l.op], spec := some s!"no-panic:{l.op}" }
    | [.atom "hang"] => { st := st, tags := [l.op], spec := some s!"terminates:{l.op}" }
    | _ =>
    match parseOp l with
    | none => { st := st, bad := some s!"bad cache op {l.op}" }
    | some op =>
      let next := ndStep st.cands (fun s => (stepAll st.cfg s op).map fun p => (p.1, renderOut p.2)) l.res
      if next.isEmpty then
        -- keep going from the deterministic successor so that the case can be shrunk sensibly
        let fallback := st.cands.map (fun s => (step st.cfg true s op).1)
        { st := { st with cands := fallback.take 1 }, tags := [l.op], spec := some s!"deadline-map:{l.op}" }
      else
        let exp := match op, l.res with
          | .get _, [_, .atom "err"] => next.any (fun s => match op with
              | .get k => (find k s.es).isSome
              | _ => false)
          | .isExpired _, [.atom "T"] => true
          | _, _ => false
        let rej := match op, l.res with
          | .set _ _ _, [.atom "err"] => true
          | .update _ _ _, [.atom "err"] => true
          | _, _ => false
        let st' := { st with cands := next, sawExpiry := st.sawExpiry || exp, sawReject := st.sawReject || rej }
        { st := st', tags := [l.op], nontrivial := st'.sawExpiry || st'.sawReject }

end GoguVerif.Kinds.Cache
