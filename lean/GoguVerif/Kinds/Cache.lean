import GoguVerif.Go.Run
import GoguVerif.Spec.C08
import GoguVerif.Model.Cache
/-! Driver wiring for C08 (expiring cache): the model of `cache/cache.go` run beside the
non-deterministic monitor over the set of possible states.  Compared observables: error flags,
`Get` value/flag, `Count`, `List` as (key, value) pairs sorted by key, `IsExpired`. -/
namespace GoguVerif.Kinds.Cache
open GoguVerif Spec.C08

def parsePairs (v : Val) : Option (List (Int × Int)) :=
  match v with
  | .list l => l.mapM (fun e => match e with
      | .list [.int a, .int b] => some (a, b)
      | _ => none)
  | _ => none

/-- the harness builds a Go map from the listed pairs (`m[k] = v`): a later pair with the same key
overwrites an earlier one -/
def dedupLast : List (Int × Int) → List (Int × Int)
  | [] => []
  | p :: r => if r.any (·.1 == p.1) then dedupLast r else p :: dedupLast r

def parseOp (l : Line) : Option Op :=
  match l.op, l.args with
  | "set", [.int k, .int v, .int d] => some (.set k v d)
  | "setdefault", [.int k, .int v] => some (.set k v 0)
  | "update", [.int k, .int v, .int d] => some (.update k v d)
  | "get", [.int k] => some (.get k)
  | "delete", [.int k] => some (.delete k)
  | "flush", [] => some .flush
  | "delexp", [] => some .deleteExpired
  | "count", [] => some .count
  | "list", [] => some .list
  | "maptocache", [kvs, .int d] => (parsePairs kvs).map (fun ps => .mapToCache (dedupLast ps) d)
  | "isexpired", [.int k] => some (.isExpired k)
  | "sleep", [.int ms] => some (.sleep ms)
  | _, _ => none

def errAtom (e : Bool) : Val := .atom (if e then "err" else "ok")

def renderOut : Out → List Val
  | .err e => [errAtom e]
  | .got (some v) => [.int v, .atom "ok"]
  | .got none => [.int 0, .atom "err"]
  | .unit => [.atom "ok"]
  | .int n => [.int n]
  | .items l => [.list (l.map fun e => .list [.int e.1, .int e.2])]
  | .bool b => [Val.ofBool b]

structure MSt where
  cfg : Cfg
  mcfg : Model.Cache.Cfg
  model : Model.Cache.St
  cands : List St := [{}]
  sawExpiry : Bool := false
  sawReject : Bool := false

/-- which branch of the model an operation took (for the input-distribution part of the evidence) -/
def branchTags (cfg : Model.Cache.Cfg) (s s' : Model.Cache.St) (op : Op) : List String :=
  let live := fun (k : Int) => (Model.Cache.get s.now s.items k).isSome
  let stored := fun (k : Int) => (Model.Cache.lookup k s.items).isSome
  match op with
  | .set k v _ =>
    if live k then ["set:blocked-by-live-entry"]
    else if Model.Cache.rejected cfg v then ["set:rejected-value"]
    else if stored k then ["set:over-expired-entry"] else ["set:fresh"]
  | .update k v _ =>
    if Model.Cache.rejected cfg v then ["update:rejected-value"]
    else if live k then ["update:over-live"] else if stored k then ["update:over-expired"] else ["update:fresh"]
  | .get k => if live k then ["get:live"] else if stored k then ["get:expired-unpurged"] else ["get:missing"]
  | .isExpired k => if Model.Cache.isExpired s.now s.items k then ["isexpired:T"] else []
  | .deleteExpired => if s'.items.length < s.items.length then ["delexp:purged"] else []
  | .sleep _ =>
    (if s'.items.length < s.items.length then ["sleep:janitor-purged"] else []) ++
    (if s'.nextTick != s.nextTick then ["sleep:tick"] else []) ++
    (if s.items.any (fun p => p.2.expiration == s'.now) then ["sleep:to-deadline-instant"] else [])
  | .mapToCache _ _ => if s'.items.length > s.items.length then ["maptocache:stored"] else ["maptocache:none-stored"]
  | _ => []

def kind : Kind where
  σ := MSt
  init := fun ps => match ps with
    | [.int e, .int c, .atom vt] =>
      let mcfg : Model.Cache.Cfg := { expTime := e, cleanupInt := c, strVals := vt == "str" }
      some { cfg := { defExp := e, cleanup := c, strVals := vt == "str" }, mcfg := mcfg
             model := Model.Cache.init mcfg }
    | _ => none
  step := fun st l =>
    match l.res with
    | [.atom "panic"] => { st := st, tags := [l.op], spec := some s!"no-panic:{l.op}" }
    | [.atom "hang"] => { st := st, tags := [l.op], spec := some s!"terminates:{l.op}" }
    | _ =>
    if l.op == "held" then
      -- what `Get` handed back is a value: re-reading an item obtained earlier gives what it gave then, whatever was
      -- stored since (the result list pairs the value read at the time with the value read now)
      match l.res with
      | [v] =>
        let same := match v with
          | .list ps => ps.all fun p => match p with
            | .list [a, b] => a == b
            | _ => false
          | _ => false
        { st := st, tags := ["held"], spec := if same then none else some "deadline-map:get-result-is-stable" }
      | _ => { st := st, bad := some "cache held line" }
    else
    match parseOp l with
    | none => { st := st, bad := some s!"bad cache op {l.op}" }
    | some op =>
      let (m', mo) := Model.Cache.step st.mcfg st.model op
      let btags := branchTags st.mcfg st.model m' op
      let st := { st with model := m' }
      let mres := some (renderOut mo)
      let next := ndStep st.cands (fun s => (stepAll st.cfg s op).map fun p => (p.1, renderOut p.2)) l.res
      if next.isEmpty then
        -- keep going from the deterministic successor so that the case can be shrunk sensibly
        let fallback := st.cands.map (fun s => (step st.cfg true s op).1)
        { st := { st with cands := fallback.take 1 }, model := mres, tags := l.op :: btags, spec := some s!"deadline-map:{l.op}" }
      else
        let exp := match op, l.res with
          | .get _, [_, .atom "err"] => next.any (fun s => match op with
              | .get k => (find k s.es).isSome
              | _ => false)
          | .isExpired _, [.atom "T"] => true
          | _, _ => false
        let rej := match op, l.res with
          | .set _ _ _, [.atom "err"] => true
          | .update _ _ _, [.atom "err"] => true
          | _, _ => false
        let st' := { st with cands := next, sawExpiry := st.sawExpiry || exp, sawReject := st.sawReject || rej }
        { st := st', model := mres, tags := l.op :: btags, nontrivial := st'.sawExpiry || st'.sawReject }

end GoguVerif.Kinds.Cache
