import GoguVerif.Go.Run
import GoguVerif.Kinds.Common
import GoguVerif.Spec.C09
import GoguVerif.Model.Trie
/-! Driver wiring for C09: spec monitor (+ model correspondence). -/
namespace GoguVerif.Kinds
open GoguVerif

namespace Trie
open Spec.C09

def parseOp (l : Line) : Option Op :=
  match l.op, l.args with
  | "put", [k, .int v] => k.bytes?.map (.put · v)
  | "get", [k] => k.bytes?.map .get
  | "contains", [k] => k.bytes?.map .contains
  | "size", [] => some .size
  | "keys", [] => some .keys
  | "startswith", [k] => k.bytes?.map .startsWith
  -- the caller reads only the first k keys of the result and leaves the rest in the trie's result queue
  | "keyspart", [.int _] => some .keys
  -- the caller reads the first k keys and puts them back at the end of the result queue (same length, other content)
  | "keysrot", [.int _] => some .keys
  | "startswithpart", [.int _, k] => k.bytes?.map .startsWith
  | "longestprefix", [k] => k.bytes?.map .longestPrefix
  | _, _ => none

def errAtom (e : Bool) : Val := .atom (if e then "err" else "ok")

def renderOut : Out → List Val
  | .unit => [.atom "ok"]
  | .got (some v) => [.int v, .atom "T"]
  | .got none => [.int 0, .atom "F"]
  | .bool b => [Val.ofBool b]
  | .int n => [.int n]
  | .keyList l e => [.list (l.map Val.ofBytes), errAtom e]
  | .key k e => [Val.ofBytes k, errAtom e]

/-- how many keys of the result the caller reads (`keyspart k`, `startswithpart k p`); `none`: all -/
def cutOf (l : Line) : Option Nat :=
  match l.op, l.args with
  | "keyspart", [.int k] => some k.toNat
  | "keysrot", [.int k] => some k.toNat
  | "startswithpart", [.int k, _] => some k.toNat
  | _, _ => none

def renderCut (cut : Option Nat) (o : Out) : List Val :=
  match cut, o with
  | some k, .keyList l e => [.list ((l.take k).map Val.ofBytes), errAtom e]
  | _, o => renderOut o

structure St where
  m : List (Key × Int) := []
  /-- the model of `trie.go`, run beside the monitor -/
  model : Model.Trie.Trie := {}
  nested : Bool := false      -- some stored key is a proper prefix of another stored key

def kind : Kind where
  σ := St
  init := fun _ => some {}
  step := fun st l =>
    match parseOp l with
    | none => { st := st, bad := some s!"bad trie op {l.op}" }
    | some op =>
      let (m', o) := Spec.C09.step st.m op
      -- the model's answer (`none` = the model predicts a Go panic; the case ends there)
      let (model', mo) := match Model.Trie.step st.model op with
        | some (t', o) => (t', renderCut (cutOf l) o)
        | none => (st.model, [Val.atom "panic"])
      let nested := st.nested || m'.any (fun a => m'.any (fun b => a.1 != b.1 && isPrefix a.1 b.1))
      let st' : St := { m := m', model := model', nested := nested }
      match failRes l.res with
      | some c => { st := st', tags := [l.op], model := some mo, spec := some s!"{c}:{l.op}" }
      | none =>
        { st := st', tags := [l.op], nontrivial := nested && m'.length ≥ 3
          -- every answer of these calls is an observable the property names (Get/Contains/Size results,
          -- drained queue contents, LongestPrefix result, error flags); nothing of the layout is compared
          model := some mo
          spec := if renderCut (cutOf l) o == l.res then none else some s!"string-map:{l.op}" }

end Trie

end GoguVerif.Kinds
