import GoguVerif.Go.Run
/-! Driver wiring for C14 (stub — to be filled in). -/
namespace GoguVerif.Kinds.C14
open GoguVerif

def kind : Kind where
  σ := Unit
  init := fun _ => some ()
  step := fun st l => { st := st, bad := some s!"C14: kind not implemented ({l.op})" }

end GoguVerif.Kinds.C14
