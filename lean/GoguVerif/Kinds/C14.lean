import GoguVerif.Go.Run
import GoguVerif.Spec.C14
import GoguVerif.Model.C14
/-!
# Driver wiring for C14 (map helpers)

One stateless call per protocol line (see `harness/k_c14_test.go` for the line formats).  Maps travel
as `[[k,v],…]` sorted by key, so the association list the model receives is ONE iteration order (the
sorted one).  Helpers whose answer is the same for every iteration order are compared exactly (after
sorting by key).  For the helpers whose answer may depend on the order (`findkey`, `findbykey`,
`mapkeys`, `invert`, `mapunique`) the comparison is existential: the implementation's answer must be
the model's answer for SOME permutation of the entries (computed for ≤ 5 entries, otherwise only the
monitor judges).  The monitor (`Spec.C14`) always judges the implementation's own answer.
-/
namespace GoguVerif.Kinds.C14
open GoguVerif
open GoguVerif.Model.C14 (Outcome GoMap)

abbrev IMap := List (Int × Int)
abbrev IMap2 := List (Int × IMap)

/-! ## callback families (identical in the Go harness) -/

def predP : String → Option (Int → Bool)
  | "p0" => some fun x => x.tmod 2 == 0
  | "p1" => some fun x => decide (x > 1)
  | "p2" => some fun _ => true
  | "p3" => some fun _ => false
  | "p4" => some fun x => x == 2
  | "p5" => some fun x => decide (x < 0)
  | _ => none

def funF : String → Option (Int → Int)
  | "f0" => some fun x => x
  | "f1" => some fun x => x.tmod 2
  | "f2" => some fun x => x.tdiv 2
  | "f3" => some fun _ => 0
  | "f4" => some fun x => -x
  | "f5" => some fun x => x * x
  | _ => none

def predQ : String → Option (Int → Int → Bool)
  | "q0" => some fun k _ => k.tmod 2 == 0
  | "q1" => some fun _ v => decide (v > 1)
  | "q2" => some fun _ _ => true
  | "q3" => some fun _ _ => false
  | "q4" => some fun k v => k == v
  | "q5" => some fun k v => decide (k < v)
  | _ => none

def funG : String → Option (Int → Int → Int)
  | "g0" => some fun k _ => k
  | "g1" => some fun k _ => k.tmod 2
  | "g2" => some fun k _ => k.tdiv 2
  | "g3" => some fun _ _ => 0
  | "g4" => some fun k v => k + v
  | "g5" => some fun _ v => v
  | _ => none

/-- predicates on a whole map; all independent of the order of the entries -/
def predM : String → Option (IMap → Bool)
  | "m0" => some fun m => decide (m.length ≥ 2)
  | "m1" => some fun m => m.any (fun e => e.1 == 1)
  | "m2" => some fun _ => true
  | "m3" => some fun _ => false
  | "m4" => some fun m => m.any (fun e => e.2 == 2)
  | "m5" => some fun m => decide ((m.foldl (fun s e => s + e.2) 0) > 2)
  | _ => none

/-! ## parsing and rendering -/

def pair? : Val → Option (Int × Int)
  | .list [.int k, .int v] => some (k, v)
  | _ => none

/-- `nil` is the nil map: it behaves as the empty map in every helper -/
def map? : Val → Option IMap
  | .atom "nil" => some []
  | .list l => l.mapM pair?
  | _ => none

def ints? : Val → Option (List Int)
  | .atom "nil" => some []
  | v => v.ints?

def coll? : Val → Option (List IMap)
  | .atom "nil" => some []
  | .list l => l.mapM map?
  | _ => none

def entry2? : Val → Option (Int × IMap)
  | .list [.int k, m] => (map? m).map fun m => (k, m)
  | _ => none

def map2? : Val → Option IMap2
  | .atom "nil" => some []
  | .list l => l.mapM entry2?
  | _ => none

def coll2? : Val → Option (List IMap2)
  | .atom "nil" => some []
  | .list l => l.mapM map2?
  | _ => none

def sortInts (l : List Int) : List Int := l.mergeSort (fun a b => decide (a ≤ b))

/-- canonical form: sorted by key -/
def canon {β : Type} (m : List (Int × β)) : List (Int × β) := m.mergeSort (fun a b => decide (a.1 ≤ b.1))

def mapVal (m : IMap) : Val := .list ((canon m).map fun e => .list [.int e.1, .int e.2])
def collVal (c : List IMap) : Val := .list (c.map mapVal)
def map2Val (m : IMap2) : Val := .list ((canon m).map fun e => .list [.int e.1, mapVal e.2])
def coll2Val (c : List IMap2) : Val := .list (c.map map2Val)

def insertions {α : Type} (x : α) : List α → List (List α)
  | [] => [[x]]
  | y :: ys => (x :: y :: ys) :: (insertions x ys).map (y :: ·)

def perms {α : Type} : List α → List (List α)
  | [] => [[]]
  | x :: xs => (perms xs).flatMap (insertions x)

/-- Existential correspondence for an order-dependent helper: `f` is the model's (rendered) answer for
one iteration order.  Second component: a tag saying how the implementation's answer was matched. -/
def existsOrder (m : IMap) (f : IMap → List Val) (res : List Val) : Option (List Val) × List String :=
  let a := f m
  if a == res then (some a, [])
  else if m.length > 5 then (none, ["order:monitor-only-over-5-entries"])
  else if (perms m).any (fun m' => f m' == res) then (some res, ["order:answer-of-another-iteration-order"])
  else (some a, [])

def okTok (e : Bool) : Val := .atom (if e then "err" else "ok")

def count (m : IMap) (p : Int × Int → Bool) : Nat := (m.filter p).length

def specIf (ok : Bool) (clause : String) : Option String := if ok then none else some clause

def mixed (m : IMap) (sel : Int × Int → Bool) : Bool := m.any sel && m.any (fun e => !sel e)

open GoguVerif.Spec.C14 in
open GoguVerif.Model.C14 in
def step (st : Unit) (l : Line) : Step Unit :=
  -- a panic is admitted only where the property says so: SliceToMap on unequal lengths
  match l.res with
  | [.atom "hang"] => { st := st, spec := some s!"terminates:{l.op}" }
  | _ =>
  let panicked := l.res == [.atom "panic"]
  if panicked && l.op != "slicetomap" then { st := st, spec := some s!"no-panic:{l.op}", tags := [l.op] }
  else
  let bad : Step Unit := { st := st, bad := some s!"c14: bad line {l.op}" }
  match l.op, l.args with
  | "keys", [mv] =>
    match map? mv, l.res with
    | some m, [rv] =>
      match rv.ints?, Keys m with
      | some r, .ok ks =>
        { st := st, model := some [Val.ofInts (sortInts ks)], tags := ["keys"], nontrivial := m.length ≥ 2
          spec := specIf (decide (KeysSpec m r)) "keys:every-key-once" }
      | some _, .panic => { st := st, model := some [.atom "panic"], tags := ["keys"] }
      | _, _ => bad
    | _, _ => bad
  | "values", [mv] =>
    match map? mv, l.res with
    | some m, [rv] =>
      match rv.ints?, Values m with
      | some r, .ok vs =>
        { st := st, model := some [Val.ofInts (sortInts vs)], tags := ["values"], nontrivial := m.length ≥ 2
          spec := specIf (decide (ValuesSpec m r)) "values:every-value-once" }
      | some _, .panic => { st := st, model := some [.atom "panic"], tags := ["values"] }
      | _, _ => bad
    | _, _ => bad
  | "pick", [mv, kv] =>
    match map? mv, ints? kv, l.res with
    | some m, some ks, [rv, _] =>
      match map? rv with
      | some r =>
        let (a, e) := Pick m ks
        { st := st, model := some [mapVal a, okTok e]
          tags := if e then ["pick", "pick:no-keys"] else ["pick"]
          nontrivial := mixed m (fun x => ks.contains x.1)
          spec := specIf (decide (PickSpec m ks r)) "pick:exactly-the-entries-with-listed-keys" }
      | none => bad
    | _, _, _ => bad
  | "omit", [mv, kv] =>
    match map? mv, ints? kv, l.res with
    | some m, some ks, [rv] =>
      match map? rv with
      | some r =>
        { st := st, model := some [mapVal (Omit m ks)], tags := ["omit"]
          nontrivial := mixed m (fun x => ks.contains x.1)
          spec := specIf (decide (OmitSpec m ks r)) "omit:exactly-the-other-entries" }
      | none => bad
    | _, _, _ => bad
  | "pickomit", [mv, kv] =>
    match map? mv, ints? kv, l.res with
    | some m, some ks, [pv, ov] =>
      match map? pv, map? ov with
      | some p, some o =>
        { st := st, model := some [mapVal (Pick m ks).1, mapVal (Omit m ks)], tags := ["pickomit"]
          nontrivial := mixed m (fun x => ks.contains x.1)
          spec := specIf (decide (PartitionSpec m p o)) "pick+omit:partition-the-map" }
      | _, _ => bad
    | _, _, _ => bad
  | "pickby", [mv, .atom q] =>
    match map? mv, predQ q, l.res with
    | some m, some fn, [rv] =>
      match map? rv with
      | some r =>
        { st := st, model := some [mapVal (PickBy m fn)], tags := ["pickby"]
          nontrivial := mixed m (fun x => fn x.1 x.2)
          spec := specIf (decide (PickBySpec m fn r)) "pickby:exactly-the-qualifying-entries" }
      | none => bad
    | _, _, _ => bad
  | "omitby", [mv, .atom q] =>
    match map? mv, predQ q, l.res with
    | some m, some fn, [rv] =>
      match map? rv with
      | some r =>
        { st := st, model := some [mapVal (OmitBy m fn)], tags := ["omitby"]
          nontrivial := mixed m (fun x => fn x.1 x.2)
          spec := specIf (decide (OmitBySpec m fn r)) "omitby:exactly-the-other-entries" }
      | none => bad
    | _, _, _ => bad
  | "pickomitby", [mv, .atom q] =>
    match map? mv, predQ q, l.res with
    | some m, some fn, [pv, ov] =>
      match map? pv, map? ov with
      | some p, some o =>
        { st := st, model := some [mapVal (PickBy m fn), mapVal (OmitBy m fn)], tags := ["pickomitby"]
          nontrivial := mixed m (fun x => fn x.1 x.2)
          spec := specIf (decide (PartitionSpec m p o)) "pickby+omitby:partition-the-map" }
      | _, _ => bad
    | _, _, _ => bad
  | "filtermap", [mv, .atom p] =>
    match map? mv, predP p, l.res with
    | some m, some fn, [rv] =>
      match map? rv with
      | some r =>
        { st := st, model := some [mapVal (FilterMap m fn)], tags := ["filtermap"]
          nontrivial := mixed m (fun x => fn x.2)
          spec := specIf (decide (FilterMapSpec m fn r)) "filtermap:exactly-the-qualifying-entries" }
      | none => bad
    | _, _, _ => bad
  | "filteromit", [mv, .atom p] =>
    match map? mv, predP p, l.res with
    | some m, some fn, [pv, ov] =>
      match map? pv, map? ov with
      | some a, some o =>
        { st := st, model := some [mapVal (FilterMap m fn), mapVal (OmitBy m (fun _ v => fn v))]
          tags := ["filteromit"], nontrivial := mixed m (fun x => fn x.2)
          spec := specIf (decide (PartitionSpec m a o)) "filtermap+omitby:partition-the-map" }
      | _, _ => bad
    | _, _, _ => bad
  | "mapvalues", [mv, .atom f] =>
    match map? mv, funF f, l.res with
    | some m, some fn, [rv] =>
      match map? rv with
      | some r =>
        { st := st, model := some [mapVal (MapValues m fn)], tags := ["mapvalues"]
          nontrivial := m.length ≥ 2
          spec := specIf (decide (MapValuesSpec m fn r)) "mapvalues:same-keys-transformed-values" }
      | none => bad
    | _, _, _ => bad
  | "mapkeys", [mv, .atom g] =>
    match map? mv, funG g, l.res with
    | some m, some fn, [rv] =>
      match map? rv with
      | some r =>
        let collide := decide ((m.map fun e => fn e.1 e.2).eraseDups.length < m.length)
        let (mo, ot) := existsOrder m (fun m' => [mapVal (MapKeys m' fn)]) l.res
        { st := st, model := mo
          tags := ot ++ (if collide then ["mapkeys", "mapkeys:collision"] else ["mapkeys"])
          nontrivial := m.length ≥ 2
          spec := specIf (decide (MapKeysSpec m fn r)) "mapkeys:entries-are-images-all-images-present" }
      | none => bad
    | _, _, _ => bad
  | "invert", [mv] =>
    match map? mv, l.res with
    | some m, [rv] =>
      match map? rv with
      | some r =>
        let collide := decide ((m.map Prod.snd).eraseDups.length < m.length)
        let f := fun (m' : IMap) => match Invert m' with
          | .ok x => [mapVal x]
          | .panic => [Val.atom "panic"]
        let (mo, ot) := existsOrder m f l.res
        { st := st, model := mo
          tags := ot ++ (if collide then ["invert", "invert:collision"] else ["invert"])
          nontrivial := m.length ≥ 2
          spec := specIf (decide (InvertSpec m r)) "invert:every-value-maps-to-a-key-that-held-it" }
      | none => bad
    | _, _ => bad
  | "find", [mv, .atom p] =>
    match map? mv, predP p, l.res with
    | some m, some fn, [rv] =>
      match map? rv with
      | some r =>
        let mres := match Find m fn with
          | .ok x => [mapVal x]
          | .panic => [Val.atom "panic"]
        let n := count m (fun e => fn e.2)
        { st := st, model := some mres
          tags := if n ≥ 2 then ["find", "find:several-qualify"] else ["find"]
          nontrivial := n ≥ 2
          spec := specIf (decide (FindSpec m fn r)) "find:qualifying-entry-with-smallest-key" }
      | none => bad
    | _, _, _ => bad
  | "findkey", [mv, .atom p] =>
    match map? mv, predP p, l.res with
    | some m, some fn, [.int k] =>
      let n := count m (fun e => fn e.2)
      let (mo, ot) := existsOrder m (fun m' => [Val.int (FindKey fn m')]) l.res
      { st := st, model := mo
        tags := ot ++ (if n ≥ 2 then ["findkey", "findkey:several-qualify"] else ["findkey"])
        nontrivial := n ≥ 2
        spec := specIf (decide (FindKeySpec m fn k)) "findkey:key-of-a-qualifying-entry" }
    | _, _, _ => bad
  | "findbykey", [mv, .atom p] =>
    match map? mv, predP p, l.res with
    | some m, some fn, [rv] =>
      match map? rv with
      | some r =>
        let n := count m (fun e => fn e.1)
        let (mo, ot) := existsOrder m (fun m' => [mapVal (FindByKey fn m')]) l.res
        { st := st, model := mo
          tags := ot ++ (if n ≥ 2 then ["findbykey", "findbykey:several-qualify"] else ["findbykey"])
          nontrivial := n ≥ 2
          spec := specIf (decide (FindByKeySpec m fn r)) "findbykey:an-entry-whose-key-qualifies" }
      | none => bad
    | _, _, _ => bad
  | "mapunique", [mv] =>
    match map? mv, l.res with
    | some m, [rv] =>
      match map? rv with
      | some r =>
        let dup := decide ((m.map Prod.snd).eraseDups.length < m.length)
        let (mo, ot) := existsOrder m (fun m' => [mapVal (MapUnique m')]) l.res
        { st := st, model := mo
          tags := ot ++ (if dup then ["mapunique", "mapunique:duplicates"] else ["mapunique"])
          nontrivial := dup
          spec := specIf (decide (MapUniqueSpec m r)) "mapunique:one-entry-per-distinct-value" }
      | none => bad
    | _, _ => bad
  | "mapevery", [mv, .atom p] =>
    match map? mv, predP p, l.res with
    | some m, some fn, [rv] =>
      match rv.bool? with
      | some b =>
        { st := st, model := some [Val.ofBool (MapEvery fn m)], tags := ["mapevery"]
          nontrivial := mixed m (fun x => fn x.2)
          spec := specIf (decide (EverySpec m fn b)) "mapevery:all-values" }
      | none => bad
    | _, _, _ => bad
  | "mapsome", [mv, .atom p] =>
    match map? mv, predP p, l.res with
    | some m, some fn, [rv] =>
      match rv.bool? with
      | some b =>
        { st := st, model := some [Val.ofBool (MapSome fn m)], tags := ["mapsome"]
          nontrivial := mixed m (fun x => fn x.2)
          spec := specIf (decide (SomeSpec m fn b)) "mapsome:some-value" }
      | none => bad
    | _, _, _ => bad
  | "mapcontains", [mv, .int x] =>
    match map? mv, l.res with
    | some m, [rv] =>
      match rv.bool? with
      | some b =>
        { st := st, model := some [Val.ofBool (MapContains x m)], tags := ["mapcontains"]
          nontrivial := mixed m (fun e => e.2 == x)
          spec := specIf (decide (ContainsSpec m x b)) "mapcontains:value-present" }
      | none => bad
    | _, _ => bad
  | "mapcontainsptr", [mv, .int x] =>
    -- values are pointers, each entry's to its own int: a pointer to a FRESH int equal to x is not a value of the map;
    -- the pointer stored for an entry of value x is
    match map? mv with
    | some m =>
      let want := [Val.ofBool false, Val.ofBool (MapContains x m)]
      { st := st, model := some want, tags := ["mapcontains:pointer-values"], nontrivial := MapContains x m
        spec := specIf (l.res == want) "mapcontains:value-present:pointer-values" }
    | none => bad
  | "pluck", [cv, .int key] =>
    match coll? cv, l.res with
    | some c, [rv] =>
      match rv.ints? with
      | some r =>
        let has := c.any (fun m => m.any (fun e => e.1 == key))
        let lacks := c.any (fun m => !(m.any (fun e => e.1 == key)))
        { st := st, model := some [Val.ofInts (Pluck c key)], tags := ["pluck"]
          nontrivial := has && lacks
          spec := specIf (decide (PluckSpec c key r)) "pluck:value-from-each-map-that-has-the-key-in-order" }
      | none => bad
    | _, _ => bad
  | "slicetomap", [kv, vv] =>
    match ints? kv, ints? vv with
    | some s1, some s2 =>
      let out : Option (Option IMap) :=
        if panicked then some none
        else match l.res with
          | [rv] => (map? rv).map some
          | _ => none
      match out with
      | none => bad
      | some out =>
        let mres := match SliceToMap s1 s2 with
          | .ok x => [mapVal x]
          | .panic => [Val.atom "panic"]
        let dupKeys := decide (s1.eraseDups.length < s1.length)
        { st := st, model := some mres
          tags := if s1.length ≠ s2.length then ["slicetomap", "slicetomap:unequal-lengths"]
                  else if dupKeys then ["slicetomap", "slicetomap:repeated-key"] else ["slicetomap"]
          nontrivial := s1.length ≠ s2.length || dupKeys
          spec := specIf (sliceToMapCheck s1 s2 out)
            (if s1.length ≠ s2.length then "slicetomap:rejects-unequal-lengths" else "slicetomap:pairs-positions-last-wins") }
    | _, _ => bad
  | "filtermapcoll", [cv, .atom p] =>
    match coll? cv, predP p, l.res with
    | some c, some fn, [rv] =>
      match coll? rv with
      | some r =>
        let multi := c.any (fun m => count m (fun e => fn e.2) ≥ 2)
        { st := st, model := some [collVal (FilterMapCollection c fn)]
          tags := if multi then ["filtermapcoll", "filtermapcoll:map-with-several-qualifying-values"] else ["filtermapcoll"]
          nontrivial := multi
          spec := specIf (decide (FilterCollSpec (c.map canon) fn r)) "filtermapcoll:each-qualifying-map-once-in-order" }
      | none => bad
    | _, _, _ => bad
  | "filter2d", [cv, .atom p] =>
    match coll2? cv, predM p, l.res with
    | some c, some fn, [rv] =>
      match coll2? rv with
      | some r =>
        let multi := c.any (fun m => (m.filter (fun e => fn e.2)).length ≥ 2)
        let cc := c.map (fun m => canon (m.map fun e => (e.1, canon e.2)))
        { st := st, model := some [coll2Val (Filter2DMapCollection c fn)]
          tags := if multi then ["filter2d", "filter2d:map-with-several-qualifying-values"] else ["filter2d"]
          nontrivial := multi
          spec := specIf (decide (FilterCollSpec cc fn r)) "filter2d:each-qualifying-map-once-in-order" }
      | none => bad
    | _, _, _ => bad
  | "partitionmap", [cv, .atom p] =>
    match coll? cv, predM p, l.res with
    | some c, some fn, [av, bv] =>
      match coll? av, coll? bv with
      | some a, some b =>
        let res := PartitionMap c fn
        let hasEmpty := c.any (·.isEmpty)
        { st := st, model := some [collVal res.1, collVal res.2]
          tags := if hasEmpty then ["partitionmap", "partitionmap:empty-map-skipped"] else ["partitionmap"]
          nontrivial := !a.isEmpty && !b.isEmpty
          spec := specIf (decide (PartitionMapSpec (c.map canon) fn (a, b))) "partitionmap:non-empty-maps-routed-by-predicate-in-order" }
      | _, _ => bad
    | _, _, _ => bad
  | _, _ => bad

/-- `invertany` / `mapuniqueany`: the same helpers instantiated with `V = any` in the harness, the values coded
injectively as ints — the int answers must be those of `invert` / `mapunique`. -/
def unAny (l : Line) : Line :=
  if l.op == "invertany" then { l with op := "invert" }
  else if l.op == "mapuniqueany" then { l with op := "mapunique" }
  else l

def kind : Kind where
  σ := Unit
  init := fun _ => some ()
  step := fun st l => step st (unAny l)

end GoguVerif.Kinds.C14
