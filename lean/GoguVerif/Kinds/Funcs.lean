import GoguVerif.Go.Run
import GoguVerif.Spec.C18
import GoguVerif.Model.Funcs
/-! Driver wiring for C18. -/
namespace GoguVerif.Kinds.Funcs
open GoguVerif Spec.C18

def failRes (l : Line) : Option String :=
  match l.res with
  | [.atom "panic"] => some s!"no-panic:{l.op}"
  | [.atom "hang"] => some s!"terminates:{l.op}"
  | _ => none

structure ASt where
  n : Int
  k : Nat := 0
  /-- model: the caller-owned counter as `After` leaves it -/
  mn : Int

def afterKind : Kind where
  σ := ASt
  init := fun ps => match ps with | [.int n] => some { n := n, mn := n } | _ => none
  step := fun st l =>
    match failRes l with
    | some c => { st := st, spec := some c }
    | none =>
    match l.op, l.res with
    | "call", [.int ran] =>
      let k := st.k + 1
      let (mn', mran) := Model.Funcs.afterCall st.mn
      let want : Int := if afterRuns st.n k then 1 else 0
      { st := { st with k := k, mn := mn' }, tags := ["after"], nontrivial := st.n ≥ 1 && k > st.n.toNat
        model := some [.int (if mran then 1 else 0)]
        spec := if ran = want then none else some "after:runs-iff-past-n" }
    | _, _ => { st := st, bad := some "after line" }

structure BSt where
  n : Int
  k : Nat := 0
  runs : Nat := 0
  m : Model.Funcs.BSt
  /-- the callback's `j`-th run returns `base + j` -/
  base : Int := 100
  /-- default lifetime of the cache's entries in ms (`-1`: none) and the virtual instant -/
  exp : Int := -1
  now : Int := 0

def beforeKind : Kind where
  σ := BSt
  init := fun ps => match ps with | [.int n, .int e, .int b] => some { n := n, m := { n := n }, base := b, exp := e } | _ => none
  step := fun st l =>
    match failRes l with
    | some c => { st := st, spec := some c }
    | none =>
    match l.op, l.res with
    | "purge", _ =>
      -- the cache's cleanup: removes expired entries only (C08: `deleteExpired` keeps every live entry), and the
      -- entry of `Before` does not expire (NoExpiration, or a zero default) -- no effect
      { st := st, tags := ["before:purge"], spec := if l.res == [.atom "ok"] then none else some "before:purge" }
    | "sleep", _ =>
      match l.args with
      | [.int d] => { st := { st with now := st.now + d }, tags := ["before:sleep"] }
      | _ => { st := st, bad := some "before sleep" }
    | "call", [.int ran, .int ret] =>
      let k := st.k + 1
      let should := beforeRuns st.n k
      let runs := st.runs + (if should then 1 else 0)
      -- results are base + run number; with no run so far the zero value is returned
      let wantRet : Int := if runs = 0 then 0 else st.base + runs
      let okRan := ran = (if should then 1 else 0)
      -- model: cache without expiry (the harness creates it with expiration -1), callback result 100 + run number
      let (m', mran, mret) := Model.Funcs.beforeCall st.exp st.now (fun j => st.base + (j : Int)) st.m
      -- KNOWN FINDING (pinned by Example_before, which prints the stored item): the last run's result lives in a cache
      -- entry with the cache's DEFAULT lifetime; once that entry has expired a later call returns the zero value.  The
      -- deviation is attributed to the finding only when the model of the code predicts exactly this answer, the entry
      -- of the last run has expired, and nothing else is wrong.
      let lost := okRan && ret ≠ wantRet && ret = 0 && mret = 0 && st.exp > 0 && !should && runs > 0
      { st := { st with k := k, runs := runs, m := m' }, tags := ["before"], nontrivial := st.n ≥ 1 && k > st.n.toNat
        model := some [.int (if mran then 1 else 0), .int mret]
        known := if lost then some "before.result-lost-after-entry-expires" else none
        spec := if !okRan then some "before:runs-first-n-only"
                else if ret ≠ wantRet && !lost then some "before:returns-last-run" else none }
    | _, _ => { st := st, bad := some "before line" }

structure OSt where
  exp : Int
  cands : List OnceSt := [{}]
  runs : Nat := 0
  reran : Bool := false
  now : Int := 0
  cell : Model.Funcs.Cell := none
  base : Int := 100

def onceKind : Kind where
  σ := OSt
  init := fun ps => match ps with | [.int e, .int b] => some { exp := e, base := b } | _ => none
  step := fun st l =>
    match failRes l with
    | some c => { st := st, spec := some c }
    | none =>
    match l.op, l.args, l.res with
    | "sleep", [.int ms], _ =>
      { st := { st with cands := st.cands.map fun s => { s with now := s.now + ms }, now := st.now + ms }, tags := ["sleep"] }
    | "purge", _, _ =>
      -- the cache's cleanup removes the entry only if it has expired, and then `Once` would run again anyway: the
      -- monitor's candidates (entry lives / has expired, by the clock) and the model cell are unaffected
      { st := st, tags := ["once:purge"], spec := if l.res == [.atom "ok"] then none else some "once:purge" }
    | "call", [], [.int ran, .int ret] =>
      -- the value a run would produce now: 100 + (runs so far + 1)
      let fresh : Int := st.base + st.runs + 1
      let alts := fun (s : OnceSt) => [true, false].map fun c =>
        let (s', r, v) := onceCall st.exp c s fresh
        (s', ([.int r, .int v] : List Val))
      let next := ndStep st.cands alts l.res
      let runs := st.runs + ran.toNat
      let (cell', mran, mret) := Model.Funcs.onceCall st.exp st.now st.cell fresh
      let st := { st with cell := cell' }
      let mans : Option (List Val) := some [.int (if mran then 1 else 0), .int mret]
      if next.isEmpty then
        { st := { st with runs := runs, cands := (st.cands.map fun s => (onceCall st.exp true s fresh).1).take 1 }
          tags := ["once"], model := mans, spec := some (if ran > 1 then "once:runs-at-most-once-per-call" else "once:first-result-while-entry-lives") }
      else
        { st := { st with cands := next, runs := runs, reran := st.reran || (ran = 1 && st.runs ≥ 1) }
          tags := ["once"], model := mans, nontrivial := st.runs ≥ 1 }
    | _, _, _ => { st := st, bad := some "once line" }

def boolsOf (l : List Int) : List Bool := l.map (· ≠ 0)

def retryKind : Kind where
  σ := Unit
  init := fun _ => some ()
  step := fun st l =>
    match failRes l with
    | some c => { st := st, spec := some c }
    | none =>
    match l.op, l.args, l.res with
    | "retry", [.int n, sc], [.int attempts, .atom e, .int calls] =>
      match sc.ints? with
      | none => { st := st, bad := some "retry script" }
      | some sc =>
        let script := boolsOf sc
        let wantCalls := retryCalls n script
        let clause :=
          if calls ≠ wantCalls then some "retry:number-of-calls"
          else if attempts ≠ retryFailures n script then some "retry:failed-attempts-reported"
          else if n ≥ 0 && (e == "err") != retryLastFails n script then some "retry:last-error-reported"
          else none
        let (ma, me, mc) := Model.Funcs.retry n script
        { st := st, tags := ["retry"], nontrivial := wantCalls ≥ 2, spec := clause
          model := some [.int ma, .atom (if me then "err" else "ok"), .int mc] }
    | "retrydelay", .int n :: .int d :: sc :: rest, [.int attempts, .atom e, .int calls, stamps, ends]
    | "retrydelayus", .int n :: .int d :: sc :: rest, [.int attempts, .atom e, .int calls, stamps, ends] =>
      let durs? : Option (List Int) := match rest with
        | [] => some []
        | [du] => du.ints?
        | _ => none
      match sc.ints?, stamps.ints?, ends.ints?, durs? with
      | some sc, some stamps, some ends, some durs =>
        let script := boolsOf sc
        let wantCalls := retryCalls n script
        let clause :=
          if calls ≠ wantCalls then some "retrydelay:number-of-calls"
          else if attempts ≠ retryFailures n script then some "retrydelay:failed-attempts-reported"
          else if (e == "err") != retryLastFails n script then some "retrydelay:last-error-reported"
          else if stamps.length ≠ wantCalls || ends.length ≠ wantCalls || !(spaced d stamps) ||
                  !(gapped d (stamps.zip ends)) then some "retrydelay:waits-at-least-d"
          else none
        -- model: under the virtual clock every wait takes exactly `d` and attempt i exactly durs[i]
        -- (RetryWithDelay has no n < 0 guard)
        let (ma, me, mc) := Model.Funcs.retryLoop script n.toNat 0 false
        let times := Model.Funcs.retryDelayTimes script (fun _ => d) (fun i => durs.getD i 0) n.toNat 0 0
        { st := st, tags := [if durs.any (· > 0) then "retrydelay-slow-attempts" else "retrydelay"]
          nontrivial := wantCalls ≥ 2, spec := clause
          model := some [.int ma, .atom (if me then "err" else "ok"), .int mc,
                         Val.ofInts (times.map (·.1)), Val.ofInts (times.map (·.2))] }
      | _, _, _, _ => { st := st, bad := some "retrydelay args" }
    | _, _, _ => { st := st, bad := some "retry line" }

/-! ## `Once` on the real clock (kind `oncelive`)

`spin n`: `n` calls of `Once` on a cache whose entries live for a few microseconds, with a callback whose results are all
non-zero.  `Once` reads the cache entry once per call (`Model.Funcs`: one `get`), so whatever instant the call happens
at, it returns the stored first result or the result of a new run — never the zero value (`once_value_nonzero`). -/
def onceLiveKind : Kind where
  σ := Unit
  init := fun _ => some ()
  step := fun st l =>
    match l.op, l.args with
    | "spin", [.int _] =>
      { st := st, model := some [.atom "ok"], tags := ["once:entry-expires-during-calls"], nontrivial := true
        spec := if l.res == [.atom "ok"] then none else some "once:first-result-or-new-run:expiry-inside-a-call" }
    | _, _ => { st := st, bad := some s!"oncelive: bad line {l.op}" }

end GoguVerif.Kinds.Funcs
