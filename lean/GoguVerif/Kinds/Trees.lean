import GoguVerif.Go.Run
import GoguVerif.Spec.C04
import GoguVerif.Spec.C07
import GoguVerif.Spec.C09
import GoguVerif.Spec.C10
/-! Driver wiring for C04 (BST), C10 (B-tree), C09 (trie), C07 (LRU): spec monitors. -/
namespace GoguVerif.Kinds
open GoguVerif

def pairVal (e : Int × Int) : Val := .list [.int e.1, .int e.2]
def pairsVal (l : List (Int × Int)) : Val := .list (l.map pairVal)

def failRes (res : List Val) : Option String :=
  match res with
  | [.atom "panic"] => some "no-panic"
  | [.atom "hang"] => some "terminates"
  | _ => none

namespace Bst
open Spec.C04

def compOf : String → Option (Int → Int → Bool)
  | "lt" => some (fun a b => decide (a < b))
  | "gt" => some (fun a b => decide (a > b))
  | _ => none

def parseOp (l : Line) : Option (Op Int Int) :=
  match l.op, l.args with
  | "upsert", [.int k, .int v] => some (.upsert k v)
  | "get", [.int k] => some (.get k)
  | "delete", [.int k] => some (.delete k)
  | "size", [] => some .size
  | "traverse", [] => some .traverse
  | _, _ => none

def renderOut : Out Int Int → List Val
  | .unit => [.atom "ok"]
  | .got (some v) => [.int v, .atom "ok"]
  | .got none => [.int 0, .atom "err"]
  | .deleted true => [.atom "ok"]
  | .deleted false => [.atom "err"]
  | .int n => [.int n]
  | .items l => [pairsVal l]

structure St where
  comp : Int → Int → Bool
  spec : List (Int × Int) := []
  patched : Patched.St Int Int := { m := [] }
  twoChildDelete : Bool := false
  maxSize : Nat := 0

def kind : Kind where
  σ := St
  init := fun ps => match ps with
    | [.atom c] => (compOf c).map fun f => { comp := f }
    | _ => none
  step := fun st l =>
    match parseOp l with
    | none => { st := st, bad := some s!"bad bst op {l.op}" }
    | some op =>
      let (s', so) := Spec.C04.step st.comp st.spec op
      let (p', po) := Patched.step st.comp st.patched op
      -- non-triviality: a delete of a key that has both a smaller and a larger neighbour present
      let two := match op with
        | .delete k => (Spec.OrdMap.lookup st.comp k st.spec).isSome &&
            st.spec.any (fun e => st.comp e.1 k) && st.spec.any (fun e => st.comp k e.1)
        | _ => false
      let st' : St := { st with spec := s', patched := p', twoChildDelete := st.twoChildDelete || two,
                                maxSize := max st.maxSize s'.length }
      let nt := st'.twoChildDelete && st'.maxSize ≥ 3
      if renderOut so == l.res then { st := st', tags := [l.op], nontrivial := nt }
      else match failRes l.res with
        | some c => { st := st', tags := [l.op], spec := some s!"{c}:{l.op}" }
        | none =>
          if renderOut po == l.res then
            { st := st', tags := [l.op], known := some "bstree.delete-absent-decrements-size" }
          else { st := st', tags := [l.op], spec := some s!"ordered-map:{l.op}" }

end Bst

namespace BTree
open Spec.C10

def parseOp (l : Line) : Option Op :=
  match l.op, l.args with
  | "put", [.int k, .int v] => some (.put k v)
  | "remove", [.int k] => some (.remove k)
  | "get", [.int k] => some (.get k)
  | "size", [] => some .size
  | "isempty", [] => some .isEmpty
  | "traverse", [] => some .traverse
  | "height", [] => some .height
  | _, _ => none

def renderOut : Out → List Val
  | .unit => [.atom "ok"]
  | .got (some v) => [.int v, .atom "T"]
  | .got none => [.int 0, .atom "F"]
  | .int n => [.int n]
  | .bool b => [Val.ofBool b]
  | .items l => [pairsVal l]

structure MSt where
  s : St := {}
  maxHeight : Int := 0

def kind : Kind where
  σ := MSt
  init := fun _ => some {}
  step := fun st l =>
    match parseOp l with
    | none => { st := st, bad := some s!"bad btree op {l.op}" }
    | some op =>
      let (s', so) := Spec.C10.step st.s op
      match failRes l.res with
      | some c => { st := { st with s := s' }, tags := [l.op], spec := some s!"{c}:{l.op}" }
      | none =>
      match so with
      | some o =>
        { st := { st with s := s' }, tags := [l.op], nontrivial := st.maxHeight ≥ 1 && s'.m.length < s'.ever.length
          spec := if renderOut o == l.res then none else some s!"ordered-map:{l.op}" }
      | none =>
        match l.res with
        | [.int h] =>
          { st := { s := s', maxHeight := max st.maxHeight h }, tags := [l.op]
            spec := if decide (HeightOk st.s h) then none else some "height-bound" }
        | _ => { st := st, tags := [l.op], spec := some "height-bound" }

end BTree

namespace Trie
open Spec.C09

def parseOp (l : Line) : Option Op :=
  match l.op, l.args with
  | "put", [k, .int v] => k.bytes?.map (.put · v)
  | "get", [k] => k.bytes?.map .get
  | "contains", [k] => k.bytes?.map .contains
  | "size", [] => some .size
  | "keys", [] => some .keys
  | "startswith", [k] => k.bytes?.map .startsWith
  | "longestprefix", [k] => k.bytes?.map .longestPrefix
  | _, _ => none

def errAtom (e : Bool) : Val := .atom (if e then "err" else "ok")

def renderOut : Out → List Val
  | .unit => [.atom "ok"]
  | .got (some v) => [.int v, .atom "T"]
  | .got none => [.int 0, .atom "F"]
  | .bool b => [Val.ofBool b]
  | .int n => [.int n]
  | .keyList l e => [.list (l.map Val.ofBytes), errAtom e]
  | .key k e => [Val.ofBytes k, errAtom e]

structure St where
  m : List (Key × Int) := []
  nested : Bool := false      -- some stored key is a proper prefix of another stored key

def kind : Kind where
  σ := St
  init := fun _ => some {}
  step := fun st l =>
    match parseOp l with
    | none => { st := st, bad := some s!"bad trie op {l.op}" }
    | some op =>
      let (m', o) := Spec.C09.step st.m op
      let nested := st.nested || m'.any (fun a => m'.any (fun b => a.1 != b.1 && isPrefix a.1 b.1))
      let st' : St := { m := m', nested := nested }
      match failRes l.res with
      | some c => { st := st', tags := [l.op], spec := some s!"{c}:{l.op}" }
      | none =>
        { st := st', tags := [l.op], nontrivial := nested && m'.length ≥ 3
          spec := if renderOut o == l.res then none else some s!"string-map:{l.op}" }

end Trie

namespace Lru
open Spec.C07

def parseOp (l : Line) : Option Op :=
  match l.op, l.args with
  | "add", [.int k, .int v] => some (.add k v)
  | "get", [.int k] => some (.get k)
  | "getoldest", [] => some .getOldest
  | "getyoungest", [] => some .getYoungest
  | "remove", [.int k] => some (.remove k)
  | "removeoldest", [] => some .removeOldest
  | "removeyoungest", [] => some .removeYoungest
  | "flush", [] => some .flush
  | "count", [] => some .count
  | _, _ => none

def renderOut : Out → List Val
  | .unit => [.atom "ok"]
  | .kv (some e) => [.int e.1, .int e.2, .atom "T"]
  | .kv none => [.int 0, .int 0, .atom "F"]
  | .v (some v) => [.int v, .atom "T"]
  | .v none => [.int 0, .atom "F"]
  | .int n => [.int n]

structure St where
  cap : Int
  es : Entries := []
  evicted : Bool := false
  created : Bool := false

def kind : Kind where
  σ := St
  init := fun ps => match ps with
    | [.int c] => some { cap := c }
    | _ => none
  step := fun st l =>
    if l.op == "create" then
      let want : List Val := [.atom (if createOk st.cap then "ok" else "err")]
      { st := { st with created := true }, tags := ["create"], nontrivial := st.cap ≤ 0
        spec := if want == l.res then none else some "create-rejects-nonpositive" }
    else
    match parseOp l with
    | none => { st := st, bad := some s!"bad lru op {l.op}" }
    | some op =>
      let (es', o) := Spec.C07.step st.cap.toNat st.es op
      let ev := match op, o with
        | .add _ _, .kv (some _) => true
        | _, _ => false
      let st' : St := { st with es := es', evicted := st.evicted || ev }
      match failRes l.res with
      | some c => { st := st', tags := [l.op], spec := some s!"{c}:{l.op}" }
      | none =>
        { st := st', tags := [l.op], nontrivial := st'.evicted
          spec := if renderOut o == l.res then none else some s!"lru:{l.op}" }

end Lru
end GoguVerif.Kinds
