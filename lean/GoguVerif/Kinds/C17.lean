import GoguVerif.Go.Run
import GoguVerif.Spec.C17
import GoguVerif.Model.C17
/-!
# Driver wiring for C17 (kind `memo`)

`CASE memo <expirationMs> <cleanupMs>`; ops `spawn`, `run`, `seq`, `get`, `sleep` (see
`harness/k_c17_test.go`).

* `seq` / `get` lines: the model (`Model.C17.memoizeSeq`, `cellGet`) predicts the answer exactly.
* `run` lines (a concurrent scenario; the schedule is the Go scheduler's): the monitor `Spec.C17.check`
  judges the event log; the model side re-derives the cache content from the observed executions
  (`cellSet` in the order of occurrence) and predicts the `Cache.Get` answers after the scenario; for
  small scenarios the log is additionally checked to be a trace of the protocol LTS (`Model.C17.step`).
-/
namespace GoguVerif.Kinds.C17
open GoguVerif Spec.C17

structure Spawn where
  id : Int
  key : Int
  off : Int
  lat : Int
  out : String
deriving Repr

structure St where
  exp : Int
  now : Int := 0
  entries : List (Int × Entry) := []          -- monitor: cached value per key
  cells : List (Int × Model.C17.Cell) := []   -- model: cache cell per key
  spawns : List Spawn := []
  calls : Nat := 0
  hits : Nat := 0

def lookupE (l : List (Int × Entry)) (k : Int) : Entry :=
  match l.lookup k with
  | some e => e
  | none => none

def lookupC (l : List (Int × Model.C17.Cell)) (k : Int) : Model.C17.Cell :=
  match l.lookup k with
  | some e => e
  | none => none

def setKey {α : Type} (l : List (Int × α)) (k : Int) (v : α) : List (Int × α) :=
  (k, v) :: l.filter (fun p => p.1 != k)

def parseCall (v : Val) : Option Call :=
  match v.ints? with
  | some [id, key, invSeq, invT, retSeq, retT, out, val, src] =>
    some { id, key, invSeq, invT, retSeq, retT, out, val, src }
  | _ => none

def parseExec (v : Val) : Option Exec :=
  match v.ints? with
  | some [key, startSeq, startT, endSeq, endT, leader, out, val] =>
    some { key, startSeq, startT, endSeq, endT, leader, out, val }
  | _ => none

def parseGet (v : Val) : Option (Option Int) :=
  match v.ints? with
  | some [0, x] => some (some x)
  | some [1, _] => some none
  | _ => none

def renderGet : Option Int → Val
  | some v => .list [.int 0, .int v]
  | none => .list [.int 1, .int 0]

def outCode (s : String) : Option Int :=
  if s == "v" then some 0 else if s == "e" then some 1 else if s == "n" then some 2 else none

def resOf (id : Int) (code : Int) : Model.C17.Res :=
  if code == 1 then .err else if code == 2 then .ok 0 else .ok (1000 + id)

/-- harness sanity: the log is the log of the scripted scenario (who, which key, when invoked, how long
the function took, what it returned).  A failure is a harness/driver bug (`BAD`), not a verdict. -/
def logMatchesScript (now : Int) (spawns : List Spawn) (l : Log) : Option String :=
  if l.callers.length != spawns.length then some "number of callers"
  else if !(spawns.all fun sp => l.callers.any fun c => c.id == sp.id && c.key == sp.key && c.invT == now + sp.off
      && c.invSeq < c.retSeq && c.invT ≤ c.retT) then
    some "caller record does not match its spawn"
  else if !(l.execs.all fun e => spawns.any fun sp => sp.id == e.leader &&
      e.endT - e.startT == sp.lat && e.startSeq < e.endSeq && some e.out == outCode sp.out &&
      e.val == (if e.out == 0 then 1000 + sp.id else 0)) then
    some "execution record does not match its leader's script"
  else if !(l.callers.all fun c => c.retT ≤ l.endT) || l.endT < now then some "end time"
  else if (spawns.map (·.id)).eraseDups.length != spawns.length then some "duplicate caller id"
  else none

/-- model side of a run: the cache cells after the observed executions (in their order of occurrence) -/
def cellsAfter (exp : Int) (cells : List (Int × Model.C17.Cell)) (execs : List Exec) : List (Int × Model.C17.Cell) :=
  execs.foldl (fun cs e =>
    if e.out == 1 then cs
    else setKey cs e.key (Model.C17.cellSet exp e.endT (lookupC cs e.key) e.val)) cells

def overlapSeq (a b : Exec) : Bool := a.startSeq < b.endSeq && b.startSeq < a.endSeq
def overlapT (a b : Exec) : Bool := a.startT < b.endT && b.startT < a.endT

def runTags (exp : Int) (e0 : Int → Entry) (l : Log) : List String × Bool :=
  let joins := l.callers.filter fun c => c.src ≥ 0 && (match l.execs[c.src.toNat]? with
      | some e => e.leader != c.id
      | none => false)
  let hitsC := l.callers.filter fun c => c.out == 0 && c.src == -1 && !(leads c l.execs)
  let lateLeader := (List.range l.execs.length).any fun i => match l.execs[i]? with
    | some e => e.out == 0 && (history exp e.key (e0 e.key) l.execs).any (fun (j, en) => j == (i : Int) &&
        (match en with | some (v, _) => v != e.val | none => true))
    | none => false
  let crossKey := l.execs.any fun a => l.execs.any fun b => a.key != b.key && overlapT a b
  let sameInstant := l.execs.any fun a => l.execs.any fun b => a.key == b.key && a.startSeq != b.startSeq && a.startT == b.startT
  let indep := l.callers.any fun c => c.retT == c.invT && l.execs.any fun e => e.key != c.key && e.startT < c.invT && c.invT < e.endT
  let rerun := l.execs.any fun e => e.out != 1 && l.execs.any fun f => f.key == e.key && f.startSeq > e.endSeq
  let tags := (if joins.isEmpty then [] else ["run:join"]) ++ (if hitsC.isEmpty then [] else ["run:hit"])
    ++ (if lateLeader then ["run:late-leader-refused-by-cache"] else [])
    ++ (if crossKey then ["run:keys-overlap"] else []) ++ (if sameInstant then ["run:same-instant-executions"] else [])
    ++ (if indep then ["run:other-key-returns-at-once"] else [])
    ++ (if rerun then ["run:rerun-after-success"] else [])
    ++ (if l.execs.any (·.out == 1) then ["run:error"] else [])
    ++ (if l.callers.length ≥ 8 then ["run:callers>=8"] else [])
    ++ ["run"]
  (tags, !joins.isEmpty)


/-! ## trace membership: is the observed log a trace of the protocol LTS?

Visible events (in the order of their sequence numbers): `invoke c`, `fnStart c`, `fnEnd c r` are steps
of the LTS; `ret c r` is the observation `pc c = done r`.  Hidden steps (`cacheCheck`, `doEnter`, `leadHit`,
`cacheSet`, `doFinish`, `wake`) and the passage of time (`tick` up to the next event's instant) are
inserted by a depth-first search with a memo of failed configurations.  `leadHit` — the leader's re-check of
the cache finds a live value — is hidden: in the log such a caller (and the joiners of its flight) returns a
cached value after having missed at its first lookup, without any execution of its own. -/

inductive Ev where
  | inv (c : Nat)
  | fs (c : Nat)
  | fe (c : Nat) (r : Model.C17.Res)
  | ret (c : Nat) (r : Model.C17.Res)
deriving Repr

def callRes (out val : Int) : Model.C17.Res := if out == 1 then .err else .ok val

def mergeBySeq (evs : List (Int × Int × Ev)) : List (Int × Int × Ev) :=
  (evs.toArray.qsort (fun a b => a.1 < b.1)).toList

def eventsOf (l : Log) : List (Int × Int × Ev) :=
  mergeBySeq <|
    (l.callers.flatMap fun c =>
      [(c.invSeq, c.invT, Ev.inv c.id.toNat), (c.retSeq, c.retT, Ev.ret c.id.toNat (callRes c.out c.val))]) ++
    (l.execs.flatMap fun e =>
      [(e.startSeq, e.startT, Ev.fs e.leader.toNat),
       (e.endSeq, e.endT, Ev.fe e.leader.toNat (if e.out == 1 then .err else .ok e.val))])

def encPC : Model.C17.PC → List Int
  | .idle => [0] | .start => [1] | .missed => [2] | .waiting l => [3, l] | .leader => [4] | .running => [5]
  | .ran (.ok v) => [6, v] | .ran .err => [7] | .setDone (.ok v) => [8, v] | .setDone .err => [9]
  | .done (.ok v) => [10, v] | .done .err => [11]

def encCell : Model.C17.Cell → List Int
  | none => [0]
  | some (v, e) => [1, v, e]

def encState (ids keys : List Nat) (s : Model.C17.State) (remaining : Nat) : List Int :=
  [(remaining : Int), s.now] ++ ids.flatMap (fun c => encPC (s.pc c) ++ (match s.result c with
      | some (.ok v) => [1, v] | some .err => [2] | none => [0])) ++
    keys.flatMap (fun k => encCell (s.cache k) ++ (match s.flight k with | some c => [1, (c : Int)] | none => [0]))

/-- what the log says about a caller (used only to cut branches of the search that cannot match the log) -/
inductive Role where
  | leads
  | joins (l : Nat)
  | hits
  | unknown
deriving Repr

def roleOf (l : Log) (c : Call) : Role :=
  if l.execs.any (·.leader == c.id) then .leads
  else if c.src ≥ 0 then
    match l.execs[c.src.toNat]? with
    | some e => .joins e.leader.toNat
    | none => .unknown
  else if l.execs.any (fun e => e.key == c.key && e.out == 2) then .unknown   -- a nil item has no identity
  else if c.out == 0 then .hits
  else .unknown

/-- may caller `c` be at `pc` right after its `cacheCheck` / `doEnter` / `leadHit`, given its role in the log?
A caller that `hits` (a cached value, no source index, no execution of its own) may have hit at its own
`cacheCheck`, or missed there and been served the value the leader of its flight — itself or the caller it
joined — read at its re-check (`leadHit`): every path is open to it except running the function and joining
a flight whose leader runs the function (it would have received that execution's result object). -/
def roleAllows (roles : Nat → Role) (r : Role) (pc : Model.C17.PC) : Bool :=
  match pc, r with
  | .done _, .leads => false
  | .done _, .joins _ => false
  | .waiting _, .leads => false
  | .waiting l, .hits => (match roles l with | .leads => false | .joins _ => false | _ => true)
  | .waiting l, .joins l' => l == l'
  | .leader, .joins _ => false
  -- right after `leadHit`: a caller that leads an execution, or received an execution's result, did not re-hit
  | .setDone _, .leads => false
  | .setDone _, .joins _ => false
  | _, _ => true

structure Search where
  /-- hashes of the configurations from which no matching run exists -/
  failed : Array UInt64 := #[]
  nodes : Nat := 0

/-- `some true`: a matching run of the LTS exists; `some false`: none; `none`: budget exhausted -/
partial def ltsSearch (cfg : Model.C17.Cfg) (ids keys : List Nat) (roles : Nat → Role) (budget : Nat)
    (s : Model.C17.State) (evs : List (Int × Int × Ev)) (m : Search) : Option Bool × Search :=
  if m.nodes > budget then (none, m)
  else
    match evs with
    | [] => (some true, m)
    | (_, t, e) :: rest =>
      let key := hash (encState ids keys s evs.length)
      if m.failed.contains key then (some false, m)
      else
        let m := { m with nodes := m.nodes + 1 }
        -- successors in the order tried: hidden steps as soon as they are enabled (what a free-running
        -- execution mostly does), then the next visible event if it can happen now, then the passage of
        -- time up to that event's instant
        let nextC : Nat := match e with | .inv c | .fs c | .fe c _ | .ret c _ => c
        let order := nextC :: ids.filter (· != nextC)
        let hidden : List Model.C17.State := order.flatMap fun c =>
          ([Model.C17.Label.cacheCheck c, .doEnter c, .leadHit c].filterMap fun h =>
            match Model.C17.step cfg s h with
            | some s' => if roleAllows roles (roles c) (s'.pc c) then some s' else none
            | none => none) ++
          ([Model.C17.Label.cacheSet c, .doFinish c, .wake c].filterMap fun h => Model.C17.step cfg s h)
        let vis : Option Model.C17.State :=
          if s.now != t then none
          else match e with
            | .inv c => Model.C17.step cfg s (.invoke c)
            | .fs c => Model.C17.step cfg s (.fnStart c)
            | .fe c r => Model.C17.step cfg s (.fnEnd c r)
            | .ret c r => if s.pc c == .done r then some s else none
        let moves : List (Model.C17.State × List (Int × Int × Ev)) :=
          (hidden.map fun s' => (s', evs)) ++
          (match vis with | some s' => [(s', rest)] | none => []) ++
          (if s.now < t then ((Model.C17.step cfg s (.tick (t - s.now).toNat)).toList.map fun s' => (s', evs)) else [])
        let rec tryAll (ms : List (Model.C17.State × List (Int × Int × Ev))) (m : Search) : Option Bool × Search :=
          match ms with
          | [] => (some false, m)
          | (s', evs') :: more =>
            match ltsSearch cfg ids keys roles budget s' evs' m with
            | (some false, m) => tryAll more m
            | other => other
        match tryAll moves m with
        | (some false, m) => (some false, { m with failed := m.failed.push key })
        | other => other

/-- is the log of one scenario a trace of the LTS started from the given cache cells at `now`? -/
def isTrace (exp now : Int) (cells : Int → Model.C17.Cell) (spawns : List Spawn) (l : Log) (budget : Nat) : Option Bool :=
  let cfg : Model.C17.Cfg :=
    { expTime := exp
      key := fun c => match spawns.find? (fun sp => sp.id.toNat == c) with
        | some sp => sp.key.toNat
        | none => 0 }
  let ids := spawns.map (·.id.toNat)
  let keys := (spawns.map (·.key.toNat)).eraseDups
  let s0 := Model.C17.init (fun k => cells (k : Int)) now
  let roles : Nat → Role := fun c => match l.callers.find? (fun x => x.id.toNat == c) with
    | some x => roleOf l x
    | none => .unknown
  (ltsSearch cfg ids keys roles budget s0 (eventsOf l) {}).1

def kind : Kind where
  σ := St
  init := fun ps => match ps with
    | [.int e, .int _] => some { exp := e }
    | _ => none
  step := fun st l =>
    match l.res with
    | [.atom "panic"] => { st := st, tags := [l.op], spec := some s!"no-panic:{l.op}" }
    | [.atom "hang"] => { st := st, tags := [l.op], spec := some s!"terminates:{l.op}" }
    | _ =>
    match l.op, l.args, l.res with
    | "sleep", [.int ms], _ => { st := { st with now := st.now + ms }, tags := ["sleep"] }
    | "spawn", [.int id, .int key, .int off, .int lat, .atom out], _ =>
      if (outCode out).isNone || off < 0 || lat < 0 then { st := st, bad := some "spawn arguments" }
      else { st := { st with spawns := st.spawns ++ [{ id, key, off, lat, out }] }, model := some [.atom "ok"] }
    | "get", [.int k], res =>
      let want := live st.now (lookupE st.entries k)
      let got : Option (Option Int) := match res with
        | [.int v, .atom "ok"] => some (some v)
        | [.int 0, .atom "err"] => some none
        | _ => none
      let m : List Val := match Model.C17.cellGet st.now (lookupC st.cells k) with
        | some v => [.int v, .atom "ok"]
        | none => [.int 0, .atom "err"]
      match got with
      | none => { st := st, bad := some "get result" }
      | some g => { st := st, tags := ["get"], model := some m,
                    spec := if g == want then none else some "cache-shows-the-live-successful-value" }
    | "seq", [.int id, .int key, .int lat, .atom out], [.int rout, .int rval, .int ran, .int el, .int mx] =>
      match outCode out with
      | none => { st := st, bad := some "seq outcome" }
      | some code =>
        let fnVal : Int := if code == 0 then 1000 + id else 0
        let (want, entry') := seqCall st.exp st.now lat (lookupE st.entries key) code fnVal
        let m := Model.C17.memoizeSeq st.exp st.now lat (lookupC st.cells key) (resOf id code)
        let mres : List Val := match m.res with
          | .ok v => [.int 0, .int v]
          | .err => [.int 1, .int 0]
        let mran : Int := if m.ran then 1 else 0
        let clause :=
          if mx > 1 || ran > 1 then some "one-execution-per-key-at-a-time"
          else if (rout, rval, ran, el) == want then none
          else if want.2.2.1 == 0 then some "cached-value-served-without-invoking"
          else if ran == 0 then some "expired-or-absent-value-is-recomputed"
          else if want.1 == 1 then some "error-returned-to-caller"
          else some "value-of-own-execution-returned"
        let hit := want.2.2.1 == 0
        { st := { st with now := st.now + el, entries := setKey st.entries key entry',
                          cells := setKey st.cells key m.cell, calls := st.calls + 1,
                          hits := st.hits + (if hit then 1 else 0) }
          tags := [if hit then "seq:hit" else if code == 1 then "seq:error" else "seq:run"]
          nontrivial := hit && st.calls ≥ 1
          model := some (mres ++ [.int mran, .int (m.now - st.now), .int mran])
          spec := clause }
    | "run", [], [.int endT, .list cs, .list es, mx, .list gs] =>
      match cs.mapM parseCall, es.mapM parseExec, mx.ints?, gs.mapM parseGet with
      | some callers, some execs, some maxIn, some gets =>
        let log : Log := { callers, execs, maxIn, gets, endT }
        match logMatchesScript st.now st.spawns log with
        | some why => { st := { st with spawns := [] }, bad := some s!"run: {why}" }
        | none =>
          let e0 := lookupE st.entries
          let verdict := check st.exp e0 log
          let keys := (List.range gets.length).map (fun (k : Nat) => (k : Int))
          let entries' := keys.foldl (fun es k => setKey es k (after st.exp e0 log k)) st.entries
          let cells' := cellsAfter st.exp st.cells execs
          let mgets := keys.map fun k => renderGet (Model.C17.cellGet endT (lookupC cells' k))
          let (tags, nt) := runTags st.exp e0 log
          -- model-to-code tie for the concurrent part: the log must be a trace of the protocol LTS
          let trace := if verdict.isNone then isTrace st.exp st.now (lookupC st.cells) st.spawns log 6000 else none
          let tags := tags ++ (match trace with
            | some true => ["run:lts-trace-ok"]
            | some false => ["run:lts-trace-FAILED"]
            | none => ["run:lts-trace-skipped"])
          { st := { st with now := endT, entries := entries', cells := cells', spawns := [],
                            calls := st.calls + callers.length }
            tags := tags, nontrivial := nt
            model := if trace == some false then some [.atom "log-is-not-a-trace-of-the-protocol-LTS"]
                     else some [.int endT, .list cs, .list es, mx, .list mgets]
            spec := verdict }
      | _, _, _, _ => { st := st, bad := some "run result" }
    | _, _, _ => { st := st, bad := some s!"memo line {l.op}" }

/-! ## kind `memogate`: a complete call inside the window between the outer caller's cache miss and its `group.Do`

`gate v` (see the harness): when the outer caller goes on, the value IS cached and live, so — "once a successful value
is cached and until it expires, Memoize returns it without invoking the function" — the function has been invoked once
(by the inner call) and the outer caller receives the cached value.  In the protocol model this is the step `leadHit`
(`Theorems/C17.lean: no_start_while_cached`). -/
def gateKind : Kind where
  σ := Unit
  init := fun _ => some ()
  step := fun st l =>
    match l.op, l.args with
    | "gate", [.int v] =>
      { st := st, model := some [.int 1, .int v, .int v], tags := ["memoize:miss-then-cached-before-do"], nontrivial := true
        spec := match l.res with
          | [.int calls, .int got, .int cached] =>
            if calls == 1 && got == cached && cached == v then none else some "cached-value-served-without-invoking:late-leader"
          | _ => some "cached-value-served-without-invoking:late-leader" }
    | "emptyresult", [] =>
      -- V = string, the callback succeeds with "" (never cached: the cache refuses the empty string, Memoize drops
      -- that refusal): both calls return the value "" without error, and each runs the callback (nothing is cached)
      let want := [Val.atom "ok", .atom "x", .atom "ok", .atom "x", .int 2]
      { st := st, model := some want, tags := ["memoize:string-valued:empty-result"], nontrivial := true
        spec := if l.res == want then none else some "result-is-what-the-execution-produced:empty-string-value" }
    | _, _ => { st := st, bad := some s!"memogate: bad line {l.op}" }

end GoguVerif.Kinds.C17
