-- Root of the library: everything `lake build` (bin/setup) has to build.
import GoguVerif.Go.Val
import GoguVerif.Go.Run
import GoguVerif.Kinds.QueueStack
import GoguVerif.Kinds.Heap
import GoguVerif.Kinds.Bst
import GoguVerif.Kinds.BTree
import GoguVerif.Kinds.Trie
import GoguVerif.Kinds.Lru
import GoguVerif.Kinds.Lists
import GoguVerif.Kinds.Cache
import GoguVerif.Kinds.Funcs
import GoguVerif.Theorems.C01
import GoguVerif.Theorems.C02
import GoguVerif.Theorems.C05
import GoguVerif.Theorems.C06
import GoguVerif.Theorems.C16
import GoguVerif.Theorems.C18
