import GoguVerif.Go.Val
import GoguVerif.Go.Run
import GoguVerif.Kinds.QueueStack
