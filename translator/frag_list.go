package main

// Go -> Lean translation of the POINTER-LEVEL linked lists list/slist.go and list/dlist.go (Gen/Lists.lean).
// `Theorems/GenTieLists.lean` proves each regenerated definition equal to the hand-written definition of
// `Model/SList.lean` (and, where tied, `Model/DList.lean`).
//
// THE FRAGMENT AND ITS ASSUMED SEMANTICS (part of the trusted base).
//
// STORE.  List nodes are aliased (handles returned by Find, the head embedded by value and copied), so the heap of node
// cells is the address-indexed store of the hand-written model: `Heap = List Node` (IMPORTED from `Model/SList.lean` /
// `Model/DList.lean`, with its read `load h a`, `ListRes.deref`, write `List.set`, allocation `h ++ [cell]` at address
// `h.length`).  ADDRESS 0 is the node embedded by value in the list struct (`l.SingleNode`, `l.DoubleNode`; the promoted
// fields `l.next`, `l.Value` are fields of cell 0; `&l.SingleNode` = `some 0`).  A `*Node` is `Option Nat` (`none` = nil),
// the element type `T` is `Int`, an `error` result is `Ans.ok` (nil) / `Ans.err` (`fmt.Errorf(…)`).
// The store variable is `h`; a method takes it first and hands it back first: `ListRes Heap` for a method without
// results, `ListRes (Heap × results)` otherwise.  Outcomes (`ListRes`): `ok`, `panic` (nil dereference), `hang` (fuel
// exhausted), `stuck` (a dangling address: not a Go behaviour).
//   p.f  (read)        `let a ← ListRes.deref p; let c ← load h a` then `c.f`
//   *p   (read)        the same, the whole cell `c`
//   p.f = e            `let a ← deref p`; the right-hand side; `let c ← load h a`; `h := h.set a { c with f := e }`
//   *p = e             `let a ← deref p`; the right-hand side; `let _ ← load h a`; `h := h.set a e`
//   l.Head = e         the right-hand side; `h := h.set 0 e`      (struct copy = cell overwrite)
//   p == q, p != q     address comparison; `==` on `T` is `=` on `Int`
// LOCAL CELLS.  A local of struct type (`firstNode := l.SingleNode`, `prev := SingleNode[T]{}`) and a local pointer
// initialised by a call of an allocator function (a function whose body is `return &Node{field: param-or-nil, …}`, e.g.
// `newNode(v)`) is a PENDING cell: a Lean value of type `Node`; reads and field writes through it act on that value.
// It is ALLOCATED (`let x := h.length; let h := h ++ [value]`) at the moment its address is first used as a pointer
// value (`&firstNode`, `q.next = newNode`); from then on it is the cell at that address and is read/written through
// the store.  (Allocation of a fresh cell commutes with every statement that does not mention it, and addresses are
// not observable; this is the convention of the hand-written models.)  Allocation inside a loop of a cell declared
// outside it is outside the fragment.
// CONTROL.  `if` (optional init statement; `&&`, `||`, `!` short-circuit; the statements after an `if` are translated
// once per branch), `return`, blocks.  LOOPS `for {…}`, `for cond {…}`, `for init; cond; post {…}` become an auxiliary
// definition structurally recursive on fuel (`0 => hang`); its state is the store plus the variables it assigns; the
// caller runs it on fuel `h.length + 1` (one more than the number of cells: by the pigeonhole principle a walk along
// `next` that needs more steps is on a cyclic chain, where the Go loop does not terminate either).  A loop that
// contains a `return` yields `(some results, state)` for a return from inside, `(none, state)` for a normal end/`break`.
// CALLS.  `l.M(args)` of a translated method: `let (h, results) ← M h args`.  A parameter of function type
// `func(T)` is a state transformer `fn : σ → Int → σ` with a state `fn_s : σ` that the method takes after it and
// hands back last; `fn(e)` is `fn_s := fn fn_s e` (the callback cannot reach the list: it gets a value).
// A CONSTRUCTOR `return &L{cell}` is the one-cell store `[cell]`.
// Anything else makes the function "outside the translated fragment": it is omitted with a comment (and reported in
// facts.json); a tie theorem that mentions it then fails to build.  No per-function special case.

import (
	"fmt"
	"go/ast"
	"go/token"
	"go/types"
	"sort"
	"strings"
)

type lsVar struct {
	kind   string // "ptr" | "cell" | "val" | "bool"
	lean   string
	viaPtr bool // kind cell: the Go variable is a POINTER to the cell (x := newNode(v)), not the cell itself
	mat    bool // kind cell: allocated; lean names its address (a Nat)
	outer  bool // declared outside the current loop
}

type lsEnv map[string]*lsVar

func (e lsEnv) clone() lsEnv {
	r := lsEnv{}
	for k, v := range e {
		c := *v
		r[k] = &c
	}
	return r
}

type lsLoop struct {
	name   string
	state  []string // Go names of the state variables
	hasRet bool
	call   func(env lsEnv) string
}

type lsType struct {
	name    string // SList
	ns      string // Lean namespace of the model: GoguVerif.Model.SList
	node    string // SingleNode
	headFld string // SingleNode (embedded)
	fields  []string
}

type lsCtx struct {
	f        *fn
	info     *types.Info
	lt       *lsType
	recv     string
	fresh    int
	loop     *lsLoop
	nloops   int
	aux      []string // auxiliary loop definitions
	results  []string // Lean types of the results
	fnVar    string   // callback parameter (state transformer)
	base     string   // Lean name of the method
	byName   map[string]*fn
	calls    map[string]bool
	loopDefs map[string]string // text of a loop definition (name abstracted) -> its name
	err      string
}

type lsFail struct{ msg string }

func (c *lsCtx) fail(format string, a ...any) {
	panic(lsFail{fmt.Sprintf(format, a...)})
}

func (c *lsCtx) tmp(p string) string {
	c.fresh++
	return fmt.Sprintf("%s%d", p, c.fresh)
}

var lsFieldLean = map[string]string{"Value": "val", "next": "next", "prev": "prev"}

func lsIndent(ls []string) []string {
	r := make([]string, len(ls))
	for i, l := range ls {
		r[i] = "  " + l
	}
	return r
}

// kindOf: the representation class of a Go type.
func (c *lsCtx) kindOf(t types.Type) string {
	if t == nil {
		return ""
	}
	if p, ok := t.(*types.Pointer); ok {
		if n, ok := p.Elem().(*types.Named); ok && n.Obj().Name() == c.lt.node {
			return "ptr"
		}
		return ""
	}
	if n, ok := t.(*types.Named); ok {
		if n.Obj().Name() == c.lt.node {
			return "cell"
		}
		if n.Obj().Name() == "error" {
			return "error"
		}
	}
	if _, ok := t.(*types.TypeParam); ok {
		return "val"
	}
	if b, ok := t.Underlying().(*types.Basic); ok {
		if b.Info()&types.IsBoolean != 0 {
			return "bool"
		}
		if b.Kind() == types.UntypedNil {
			return "nil"
		}
	}
	if _, ok := t.Underlying().(*types.Interface); ok && t.String() == "error" {
		return "error"
	}
	return ""
}

func lsLeanType(kind string) string {
	switch kind {
	case "ptr":
		return "Option Nat"
	case "cell":
		return "Node"
	case "val":
		return "Int"
	case "bool":
		return "Bool"
	case "error":
		return "Ans"
	}
	return "?"
}

func (c *lsCtx) isRecvHead(e ast.Expr) bool { // l.SingleNode
	s, ok := e.(*ast.SelectorExpr)
	if !ok || s.Sel.Name != c.lt.headFld {
		return false
	}
	id, ok := s.X.(*ast.Ident)
	return ok && id.Name == c.recv
}

func (c *lsCtx) isRecv(e ast.Expr) bool {
	id, ok := e.(*ast.Ident)
	return ok && id.Name == c.recv && c.recv != ""
}

// materialise: allocate a pending local cell; afterwards v.lean names its address.
func (c *lsCtx) materialise(name string, env lsEnv, out *[]string) string {
	v := env[name]
	if v.mat {
		return v.lean
	}
	if c.loop != nil && v.outer {
		c.fail("allocation of %s inside a loop", name)
	}
	addr := name
	if !v.viaPtr {
		addr = name + "_a"
	}
	*out = append(*out, fmt.Sprintf("let %s := h.length", addr), fmt.Sprintf("let h := h ++ [%s]", v.lean))
	v.mat, v.lean = true, addr
	return addr
}

// allocCall: a call of an allocator function -> the Lean cell value.
func (c *lsCtx) allocCall(call *ast.CallExpr, env lsEnv, out *[]string) (string, bool) {
	id, ok := call.Fun.(*ast.Ident)
	if !ok {
		return "", false
	}
	g := c.byName[id.Name]
	if g == nil || g.decl.Recv != nil || g.decl.Body == nil || len(g.decl.Body.List) != 1 {
		return "", false
	}
	ret, ok := g.decl.Body.List[0].(*ast.ReturnStmt)
	if !ok || len(ret.Results) != 1 {
		return "", false
	}
	u, ok := ret.Results[0].(*ast.UnaryExpr)
	if !ok || u.Op != token.AND {
		return "", false
	}
	lit, ok := u.X.(*ast.CompositeLit)
	if !ok {
		return "", false
	}
	subst := map[string]string{}
	i := 0
	for _, fl := range g.decl.Type.Params.List {
		for _, nm := range fl.Names {
			if i >= len(call.Args) {
				return "", false
			}
			subst[nm.Name] = c.evalVal(call.Args[i], env, out)
			i++
		}
	}
	return c.cellLit(lit, subst), true
}

// cellLit: Node{f: e, …} with e a parameter (substituted) or nil.
func (c *lsCtx) cellLit(lit *ast.CompositeLit, subst map[string]string) string {
	vals := map[string]string{}
	for _, el := range lit.Elts {
		kv, ok := el.(*ast.KeyValueExpr)
		if !ok {
			c.fail("positional composite literal")
		}
		k := kv.Key.(*ast.Ident).Name
		switch v := kv.Value.(type) {
		case *ast.Ident:
			if v.Name == "nil" {
				vals[k] = "none"
			} else if s, ok := subst[v.Name]; ok {
				vals[k] = s
			} else {
				c.fail("composite literal field %s", k)
			}
		default:
			c.fail("composite literal field %s", k)
		}
	}
	var parts []string
	for _, f := range c.lt.fields {
		if v, ok := vals[f]; ok {
			parts = append(parts, v)
		} else if f == "Value" {
			parts = append(parts, "0")
		} else {
			parts = append(parts, "none")
		}
	}
	return "(⟨" + strings.Join(parts, ", ") + "⟩ : Node)"
}

// cellOf: the cell a field selection / struct read goes to: a Lean term of type Node.
func (c *lsCtx) cellOf(x ast.Expr, env lsEnv, out *[]string) string {
	if p, ok := x.(*ast.ParenExpr); ok {
		return c.cellOf(p.X, env, out)
	}
	if c.isRecv(x) || c.isRecvHead(x) {
		t := c.tmp("c")
		*out = append(*out, fmt.Sprintf("let %s ← load h 0", t))
		return t
	}
	if id, ok := x.(*ast.Ident); ok {
		if v := env[id.Name]; v != nil && v.kind == "cell" {
			if !v.mat {
				return v.lean
			}
			t := c.tmp("c")
			*out = append(*out, fmt.Sprintf("let %s ← load h %s", t, v.lean))
			return t
		}
	}
	if st, ok := x.(*ast.StarExpr); ok {
		if call, ok := st.X.(*ast.CallExpr); ok {
			if cell, ok := c.allocCall(call, env, out); ok {
				return cell
			}
		}
		return c.cellOf(st.X, env, out)
	}
	if lit, ok := x.(*ast.CompositeLit); ok {
		return c.cellLit(lit, nil)
	}
	switch c.kindOf(c.info.TypeOf(x)) {
	case "ptr":
		p := c.evalPtr(x, env, out)
		a, t := c.tmp("a"), c.tmp("c")
		*out = append(*out, fmt.Sprintf("let %s ← ListRes.deref %s", a, p), fmt.Sprintf("let %s ← load h %s", t, a))
		return t
	}
	c.fail("cell expression %T", x)
	return ""
}

func (c *lsCtx) evalPtr(e ast.Expr, env lsEnv, out *[]string) string {
	switch x := e.(type) {
	case *ast.ParenExpr:
		return c.evalPtr(x.X, env, out)
	case *ast.Ident:
		if x.Name == "nil" {
			return "none"
		}
		v := env[x.Name]
		if v == nil {
			c.fail("unknown variable %s", x.Name)
		}
		if v.kind == "ptr" {
			return v.lean
		}
		if v.kind == "cell" && v.viaPtr {
			return "(some " + c.materialise(x.Name, env, out) + ")"
		}
	case *ast.UnaryExpr:
		if x.Op == token.AND {
			if c.isRecvHead(x.X) {
				return "(some 0)"
			}
			if id, ok := x.X.(*ast.Ident); ok {
				if v := env[id.Name]; v != nil && v.kind == "cell" && !v.viaPtr {
					return "(some " + c.materialise(id.Name, env, out) + ")"
				}
			}
		}
	case *ast.SelectorExpr:
		if f, ok := lsFieldLean[x.Sel.Name]; ok && c.kindOf(c.info.TypeOf(e)) == "ptr" {
			return c.cellOf(x.X, env, out) + "." + f
		}
	}
	c.fail("pointer expression")
	return ""
}

func (c *lsCtx) evalVal(e ast.Expr, env lsEnv, out *[]string) string {
	switch x := e.(type) {
	case *ast.ParenExpr:
		return c.evalVal(x.X, env, out)
	case *ast.Ident:
		if v := env[x.Name]; v != nil && v.kind == "val" {
			return v.lean
		}
	case *ast.SelectorExpr:
		if f, ok := lsFieldLean[x.Sel.Name]; ok {
			return c.cellOf(x.X, env, out) + "." + f
		}
	}
	c.fail("value expression")
	return ""
}

// eval by the kind of the expression's type
func (c *lsCtx) eval(e ast.Expr, kind string, env lsEnv, out *[]string) string {
	switch kind {
	case "ptr", "nil":
		return c.evalPtr(e, env, out)
	case "val":
		return c.evalVal(e, env, out)
	case "cell":
		return c.cellOf(e, env, out)
	case "error":
		if id, ok := e.(*ast.Ident); ok && id.Name == "nil" {
			return "Ans.ok"
		}
		if call, ok := e.(*ast.CallExpr); ok {
			if s, ok := call.Fun.(*ast.SelectorExpr); ok && s.Sel.Name == "Errorf" {
				return "Ans.err"
			}
		}
	case "bool":
		if id, ok := e.(*ast.Ident); ok {
			if id.Name == "true" || id.Name == "false" {
				return id.Name
			}
			if v := env[id.Name]; v != nil && v.kind == "bool" {
				return v.lean
			}
		}
	}
	c.fail("expression of kind %q", kind)
	return ""
}

type lsK func(env lsEnv) []string

// cond: a condition in continuation-passing style (short-circuit evaluation; each branch gets its own environment).
func (c *lsCtx) cond(e ast.Expr, env lsEnv, kT, kF lsK) []string {
	switch x := e.(type) {
	case *ast.ParenExpr:
		return c.cond(x.X, env, kT, kF)
	case *ast.UnaryExpr:
		if x.Op == token.NOT {
			return c.cond(x.X, env, kF, kT)
		}
	case *ast.Ident:
		if v := env[x.Name]; v != nil && v.kind == "bool" {
			return c.ite(v.lean+" = true", env, kT, kF)
		}
	case *ast.BinaryExpr:
		switch x.Op {
		case token.LAND:
			return c.cond(x.X, env, func(e2 lsEnv) []string { return c.cond(x.Y, e2, kT, kF) }, kF)
		case token.LOR:
			return c.cond(x.X, env, kT, func(e2 lsEnv) []string { return c.cond(x.Y, e2, kT, kF) })
		case token.EQL, token.NEQ:
			kind := c.kindOf(c.info.TypeOf(x.X))
			if kind == "nil" {
				kind = c.kindOf(c.info.TypeOf(x.Y))
			}
			if kind != "ptr" && kind != "val" {
				c.fail("comparison of kind %q", kind)
			}
			var out []string
			l := c.eval(x.X, kind, env, &out)
			r := c.eval(x.Y, kind, env, &out)
			if x.Op == token.NEQ {
				kT, kF = kF, kT
			}
			return append(out, c.ite(l+" = "+r, env, kT, kF)...)
		}
	}
	c.fail("condition")
	return nil
}

func (c *lsCtx) ite(test string, env lsEnv, kT, kF lsK) []string {
	out := []string{"if " + test + " then do"}
	out = append(out, lsIndent(kT(env.clone()))...)
	out = append(out, "else do")
	out = append(out, lsIndent(kF(env.clone()))...)
	return out
}

// retLine: leave the method with the given results.
func (c *lsCtx) retLine(res []string, env lsEnv) string {
	parts := append([]string{"h"}, res...)
	if c.fnVar != "" {
		parts = append(parts, "fn_s")
	}
	val := parts[0]
	if len(parts) > 1 {
		val = "(" + strings.Join(parts, ", ") + ")"
	}
	if c.loop != nil {
		if !c.loop.hasRet {
			c.fail("internal: return in a loop without returns")
		}
		r := "()"
		if len(res) > 0 {
			r = "(" + strings.Join(res, ", ") + ")"
		}
		return "pure (some " + r + ", " + c.stateTuple(env) + ")"
	}
	return "pure " + val
}

// stateTuple: the loop's state (store first) as a tuple body.
func (c *lsCtx) stateTuple(env lsEnv) string {
	parts := []string{"h"}
	for _, s := range c.loop.state {
		if s == "fn_s" {
			parts = append(parts, "fn_s")
			continue
		}
		parts = append(parts, env[s].lean)
	}
	return strings.Join(parts, ", ")
}

func (c *lsCtx) loopEnd(env lsEnv) string { // normal end / break
	if c.loop.hasRet {
		return "pure (none, " + c.stateTuple(env) + ")"
	}
	t := c.stateTuple(env)
	if strings.Contains(t, ",") {
		t = "(" + t + ")"
	}
	return "pure " + t
}

func (c *lsCtx) stmts(list []ast.Stmt, env lsEnv, k lsK) []string {
	if len(list) == 0 {
		return k(env)
	}
	rest := func(e2 lsEnv) []string { return c.stmts(list[1:], e2, k) }
	switch s := list[0].(type) {
	case *ast.BlockStmt:
		return c.stmts(s.List, env, rest)
	case *ast.ReturnStmt:
		var out []string
		var res []string
		if len(s.Results) != len(c.results) {
			c.fail("return arity")
		}
		for i, r := range s.Results {
			res = append(res, c.eval(r, c.results[i], env, &out))
		}
		return append(out, c.retLine(res, env))
	case *ast.BranchStmt:
		if s.Tok == token.BREAK && c.loop != nil && s.Label == nil {
			return []string{c.loopEnd(env)}
		}
		c.fail("branch statement")
	case *ast.IfStmt:
		var pre []ast.Stmt
		if s.Init != nil {
			pre = []ast.Stmt{s.Init}
		}
		return c.stmts(pre, env, func(e1 lsEnv) []string {
			kElse := rest
			if s.Else != nil {
				kElse = func(e2 lsEnv) []string { return c.stmts([]ast.Stmt{s.Else}, e2, rest) }
			}
			return c.cond(s.Cond, e1, func(e2 lsEnv) []string { return c.stmts(s.Body.List, e2, rest) }, kElse)
		})
	case *ast.ForStmt:
		return c.forStmt(s, env, rest)
	case *ast.ExprStmt:
		call, ok := s.X.(*ast.CallExpr)
		if !ok {
			c.fail("expression statement")
		}
		var out []string
		c.call(call, nil, env, &out)
		return append(out, rest(env)...)
	case *ast.AssignStmt:
		var out []string
		c.assign(s, env, &out)
		return append(out, rest(env)...)
	}
	c.fail("statement %T", list[0])
	return nil
}

// call: a statement-level call: the callback, or a method of the receiver.  lhs: the Go names the results are bound to.
func (c *lsCtx) call(call *ast.CallExpr, lhs []ast.Expr, env lsEnv, out *[]string) {
	if id, ok := call.Fun.(*ast.Ident); ok && id.Name == c.fnVar && c.fnVar != "" && len(call.Args) == 1 && lhs == nil {
		a := c.evalVal(call.Args[0], env, out)
		*out = append(*out, fmt.Sprintf("let fn_s := %s fn_s %s", c.fnVar, a))
		return
	}
	sel, ok := call.Fun.(*ast.SelectorExpr)
	if !ok || !c.isRecv(sel.X) {
		c.fail("call")
	}
	g := c.byName[c.lt.name+"_"+sel.Sel.Name]
	if g == nil {
		c.fail("call of unknown method %s", sel.Sel.Name)
	}
	c.calls[c.lt.name+"_"+sel.Sel.Name] = true
	sig := g.obj.Type().(*types.Signature)
	var args []string
	for i, a := range call.Args {
		kind := c.kindOf(sig.Params().At(i).Type())
		if kind == "" {
			c.fail("argument kind")
		}
		args = append(args, c.eval(a, kind, env, out))
	}
	pat := []string{"h"}
	for i := 0; i < sig.Results().Len(); i++ {
		kind := c.kindOf(sig.Results().At(i).Type())
		name := "_"
		if lhs != nil {
			id, ok := lhs[i].(*ast.Ident)
			if !ok {
				c.fail("call result target")
			}
			if id.Name != "_" {
				name = id.Name
				env[id.Name] = &lsVar{kind: kind, lean: id.Name}
			}
		}
		pat = append(pat, name)
	}
	p := pat[0]
	if len(pat) > 1 {
		p = "(" + strings.Join(pat, ", ") + ")"
	}
	*out = append(*out, fmt.Sprintf("let %s ← %s h%s", p, sel.Sel.Name, lsArgs(args)))
}

func lsArgs(a []string) string {
	s := ""
	for _, x := range a {
		s += " " + x
	}
	return s
}

func (c *lsCtx) checkName(n string) {
	switch n {
	case "h", "fuel", "fn_s", "fun", "do", "let", "match", "with", "if", "then", "else", "at", "from", "open", "end", "in":
		c.fail("variable name %s", n)
	}
}

func (c *lsCtx) assign(s *ast.AssignStmt, env lsEnv, out *[]string) {
	if s.Tok != token.ASSIGN && s.Tok != token.DEFINE {
		c.fail("assignment operator")
	}
	if len(s.Rhs) == 1 {
		if call, ok := s.Rhs[0].(*ast.CallExpr); ok && len(s.Lhs) > 1 {
			if s.Tok != token.DEFINE {
				c.fail("call results assigned to existing variables")
			}
			c.call(call, s.Lhs, env, out)
			return
		}
	}
	if len(s.Lhs) != 1 || len(s.Rhs) != 1 {
		c.fail("parallel assignment")
	}
	lhs, rhs := s.Lhs[0], s.Rhs[0]
	if id, ok := lhs.(*ast.Ident); ok {
		c.checkName(id.Name)
		if s.Tok == token.DEFINE {
			kind := c.kindOf(c.info.TypeOf(rhs))
			switch kind {
			case "ptr":
				if call, ok := rhs.(*ast.CallExpr); ok {
					cell, ok := c.allocCall(call, env, out)
					if !ok {
						c.fail("pointer-valued call")
					}
					env[id.Name] = &lsVar{kind: "cell", viaPtr: true, lean: id.Name + "_c"}
					*out = append(*out, fmt.Sprintf("let %s_c : Node := %s", id.Name, cell))
					return
				}
				v := c.evalPtr(rhs, env, out)
				env[id.Name] = &lsVar{kind: "ptr", lean: id.Name}
				*out = append(*out, fmt.Sprintf("let %s : Option Nat := %s", id.Name, v))
			case "cell":
				v := c.cellOf(rhs, env, out)
				env[id.Name] = &lsVar{kind: "cell", lean: id.Name}
				*out = append(*out, fmt.Sprintf("let %s : Node := %s", id.Name, v))
			case "val":
				v := c.evalVal(rhs, env, out)
				env[id.Name] = &lsVar{kind: "val", lean: id.Name}
				*out = append(*out, fmt.Sprintf("let %s : Int := %s", id.Name, v))
			default:
				c.fail("definition of kind %q", kind)
			}
			return
		}
		v := env[id.Name]
		if v == nil {
			c.fail("assignment to unknown %s", id.Name)
		}
		switch {
		case v.kind == "ptr":
			r := c.evalPtr(rhs, env, out)
			*out = append(*out, fmt.Sprintf("let %s : Option Nat := %s", v.lean, r))
		case v.kind == "cell" && !v.viaPtr && !v.mat:
			r := c.cellOf(rhs, env, out)
			*out = append(*out, fmt.Sprintf("let %s : Node := %s", v.lean, r))
		case v.kind == "cell" && !v.viaPtr && v.mat:
			r := c.cellOf(rhs, env, out)
			*out = append(*out, fmt.Sprintf("let _ ← load h %s", v.lean), fmt.Sprintf("let h := h.set %s %s", v.lean, r))
		case v.kind == "val":
			r := c.evalVal(rhs, env, out)
			*out = append(*out, fmt.Sprintf("let %s : Int := %s", v.lean, r))
		default:
			c.fail("assignment to %s", id.Name)
		}
		return
	}
	if s.Tok != token.ASSIGN {
		c.fail("definition target")
	}
	// l.Head = e
	if c.isRecvHead(lhs) {
		r := c.cellOf(rhs, env, out)
		*out = append(*out, fmt.Sprintf("let h := h.set 0 %s", r))
		return
	}
	// *p = e
	if st, ok := lhs.(*ast.StarExpr); ok {
		p := c.evalPtr(st.X, env, out)
		a := c.tmp("a")
		*out = append(*out, fmt.Sprintf("let %s ← ListRes.deref %s", a, p))
		r := c.cellOf(rhs, env, out)
		*out = append(*out, fmt.Sprintf("let _ ← load h %s", a), fmt.Sprintf("let h := h.set %s %s", a, r))
		return
	}
	// X.f = e
	sel, ok := lhs.(*ast.SelectorExpr)
	if !ok {
		c.fail("assignment target")
	}
	f, ok := lsFieldLean[sel.Sel.Name]
	if !ok {
		c.fail("field %s", sel.Sel.Name)
	}
	fkind := c.kindOf(c.info.TypeOf(lhs))
	// the right-hand side without the allocation of a pending pointer
	rhsVal := func() (string, string) { // (term, pending variable to allocate)
		if id, ok := rhs.(*ast.Ident); ok && fkind == "ptr" {
			if v := env[id.Name]; v != nil && v.kind == "cell" && v.viaPtr && !v.mat {
				return "", id.Name
			}
		}
		if u, ok := rhs.(*ast.UnaryExpr); ok && u.Op == token.AND && fkind == "ptr" {
			if id, ok := u.X.(*ast.Ident); ok {
				if v := env[id.Name]; v != nil && v.kind == "cell" && !v.viaPtr && !v.mat {
					return "", id.Name
				}
			}
		}
		return c.eval(rhs, fkind, env, out), ""
	}
	if id, ok := sel.X.(*ast.Ident); ok {
		if v := env[id.Name]; v != nil && v.kind == "cell" && !v.mat {
			// a field of a pending local cell
			r, pend := rhsVal()
			if pend != "" {
				if pend == id.Name {
					c.fail("self-reference of a pending cell")
				}
				r = "(some " + c.materialise(pend, env, out) + ")"
			}
			*out = append(*out, fmt.Sprintf("let %s : Node := { %s with %s := %s }", v.lean, v.lean, f, r))
			return
		}
	}
	// the address written to
	var addr string
	switch {
	case c.isRecv(sel.X) || c.isRecvHead(sel.X):
		addr = "0"
	default:
		if id, ok := sel.X.(*ast.Ident); ok {
			if v := env[id.Name]; v != nil && v.kind == "cell" && v.mat {
				addr = v.lean
			}
		}
		if addr == "" {
			if c.kindOf(c.info.TypeOf(sel.X)) != "ptr" {
				c.fail("field assignment base")
			}
			p := c.evalPtr(sel.X, env, out)
			addr = c.tmp("a")
			*out = append(*out, fmt.Sprintf("let %s ← ListRes.deref %s", addr, p))
		}
	}
	r, pend := rhsVal()
	t := c.tmp("c")
	*out = append(*out, fmt.Sprintf("let %s ← load h %s", t, addr))
	if pend != "" {
		r = "(some " + c.materialise(pend, env, out) + ")"
	}
	*out = append(*out, fmt.Sprintf("let h := h.set %s { %s with %s := %s }", addr, t, f, r))
}

// assignedIn: the variables of env assigned inside the statements (targets that are plain identifiers).
func lsAssigned(n ast.Node, env lsEnv, fnVar string) (vars []string, hasRet, callsFn bool) {
	seen := map[string]bool{}
	ast.Inspect(n, func(x ast.Node) bool {
		switch s := x.(type) {
		case *ast.AssignStmt:
			for _, l := range s.Lhs {
				if id, ok := l.(*ast.Ident); ok && env[id.Name] != nil && !seen[id.Name] {
					seen[id.Name] = true
				}
				// a field write through a pending local cell changes that local
				if sel, ok := l.(*ast.SelectorExpr); ok {
					if id, ok := sel.X.(*ast.Ident); ok && env[id.Name] != nil && env[id.Name].kind == "cell" && !env[id.Name].mat {
						seen[id.Name] = true
					}
				}
			}
		case *ast.ReturnStmt:
			hasRet = true
		case *ast.CallExpr:
			if id, ok := s.Fun.(*ast.Ident); ok && id.Name == fnVar && fnVar != "" {
				callsFn = true
			}
		}
		return true
	})
	for k := range seen {
		vars = append(vars, k)
	}
	sort.Strings(vars)
	return
}

func (c *lsCtx) forStmt(s *ast.ForStmt, env lsEnv, rest lsK) []string {
	if c.loop != nil {
		c.fail("nested loop")
	}
	var pre []ast.Stmt
	if s.Init != nil {
		pre = []ast.Stmt{s.Init}
	}
	return c.stmts(pre, env, func(env lsEnv) []string {
		// state: assigned variables (declared before the body); parameters: the other variables mentioned
		wrap := &ast.BlockStmt{List: []ast.Stmt{s.Body}}
		if s.Post != nil {
			wrap.List = append(wrap.List, s.Post)
		}
		state, hasRet, callsFn := lsAssigned(wrap, env, c.fnVar)
		if callsFn {
			state = append(state, "fn_s")
		}
		isState := map[string]bool{}
		for _, v := range state {
			isState[v] = true
		}
		used := map[string]bool{}
		mention := func(n ast.Node) {
			if n == nil {
				return
			}
			ast.Inspect(n, func(x ast.Node) bool {
				if id, ok := x.(*ast.Ident); ok && env[id.Name] != nil {
					used[id.Name] = true
				}
				return true
			})
		}
		mention(wrap)
		if s.Cond != nil {
			mention(s.Cond)
		}
		var params []string
		for k := range used {
			if !isState[k] {
				params = append(params, k)
			}
		}
		sort.Strings(params)
		c.nloops++
		name := fmt.Sprintf("%s_loop%d", c.base, c.nloops)
		lp := &lsLoop{name: name, state: state, hasRet: hasRet}
		// the definition
		inner := env.clone()
		for _, v := range inner {
			v.outer = true
		}
		binders := "(fuel : Nat) (h : Heap)"
		if callsFn {
			binders = "{σ : Type} (fuel : Nat) (h : Heap) (" + c.fnVar + " : σ → Int → σ)"
		}
		callArgs := func(e lsEnv) string {
			a := ""
			if callsFn {
				a += " " + c.fnVar
			}
			for _, p := range params {
				a += " " + e[p].lean
			}
			for _, p := range state {
				if p == "fn_s" {
					a += " fn_s"
				} else {
					a += " " + e[p].lean
				}
			}
			return a
		}
		varType := func(v *lsVar) string {
			if v.kind == "cell" && v.mat {
				return "Nat"
			}
			return lsLeanType(v.kind)
		}
		for _, p := range params {
			binders += fmt.Sprintf(" (%s : %s)", inner[p].lean, varType(inner[p]))
		}
		stTypes := []string{"Heap"}
		for _, p := range state {
			if p == "fn_s" {
				binders += " (fn_s : σ)"
				stTypes = append(stTypes, "σ")
				continue
			}
			if inner[p].kind == "cell" && inner[p].mat {
				c.fail("loop assigns an allocated local cell")
			}
			binders += fmt.Sprintf(" (%s : %s)", inner[p].lean, varType(inner[p]))
			stTypes = append(stTypes, varType(inner[p]))
		}
		resT := strings.Join(stTypes, " × ")
		if hasRet {
			r := "Unit"
			if len(c.results) > 0 {
				var rs []string
				for _, k := range c.results {
					rs = append(rs, lsLeanType(k))
				}
				r = strings.Join(rs, " × ")
				if len(rs) > 1 {
					r = "(" + r + ")"
				}
			}
			resT = "Option " + r + " × " + resT
		}
		c.loop = lp
		savedFresh := c.fresh
		c.fresh = 0 // temporaries of the loop definition are numbered on their own (a loop reached on two paths gives one text)
		next := func(e lsEnv) []string {
			var post []ast.Stmt
			if s.Post != nil {
				post = []ast.Stmt{s.Post}
			}
			return c.stmts(post, e, func(e2 lsEnv) []string { return []string{name + " fuel h" + callArgs(e2)} })
		}
		body := func(e lsEnv) []string { return c.stmts(s.Body.List, e, next) }
		var lines []string
		if s.Cond != nil {
			lines = c.cond(s.Cond, inner, body, func(e lsEnv) []string { return []string{c.loopEnd(e)} })
		} else {
			lines = body(inner)
		}
		c.loop = nil
		c.fresh = savedFresh
		def := fmt.Sprintf("/-- the loop at %s -/\ndef %s %s : ListRes (%s) :=\n  match fuel with\n  | 0 => .hang\n  | fuel + 1 => do\n", c.pos(s.Pos()), "@NAME@", binders, resT)
		for _, l := range lines {
			def += "    " + l + "\n"
		}
		def = strings.ReplaceAll(def, name, "@NAME@")
		if prev, ok := c.loopDefs[def]; ok { // the same loop reached on another path (statements after an `if`)
			c.nloops--
			name = prev
		} else {
			c.loopDefs[def] = name
			c.aux = append(c.aux, strings.ReplaceAll(def, "@NAME@", name))
		}
		// the call
		pat := []string{"h"}
		for _, p := range state {
			if p == "fn_s" {
				pat = append(pat, "fn_s")
			} else {
				pat = append(pat, env[p].lean)
			}
		}
		var out []string
		call := name + " (h.length + 1) h" + callArgs(env)
		if !hasRet {
			p := pat[0]
			if len(pat) > 1 {
				p = "(" + strings.Join(pat, ", ") + ")"
			}
			out = append(out, fmt.Sprintf("let %s ← %s", p, call))
			return append(out, rest(env)...)
		}
		out = append(out, fmt.Sprintf("let (ret, %s) ← %s", strings.Join(pat, ", "), call))
		out = append(out, "match ret with")
		parts := []string{"h"}
		if len(c.results) > 0 {
			parts = append(parts, "r")
		}
		if c.fnVar != "" {
			parts = append(parts, "fn_s")
		}
		val := parts[0]
		if len(parts) > 1 {
			val = "(" + strings.Join(parts, ", ") + ")"
		}
		if len(c.results) > 0 {
			out = append(out, "| some r => pure "+val)
		} else {
			out = append(out, "| some _ => pure "+val)
		}
		out = append(out, "| none => do")
		return append(out, lsIndent(rest(env.clone()))...)
	})
}

func (c *lsCtx) pos(p token.Pos) string {
	ps := c.f.pkg.Fset.Position(p)
	return fmt.Sprintf("%s:%d", lkBaseName(ps.Filename), ps.Line)
}

var lsTypes = []*lsType{
	{name: "SList", ns: "GoguVerif.Model.SList", node: "SingleNode", headFld: "SingleNode", fields: []string{"Value", "next"}},
	{name: "DList", ns: "GoguVerif.Model.DList", node: "DoubleNode", headFld: "DoubleNode", fields: []string{"Value", "next", "prev"}},
}

// translateListFunc: one method (or constructor) -> (Lean text, status, callees).
func translateListFunc(lt *lsType, name string, f *fn, byName map[string]*fn) (text string, status string, calls map[string]bool) {
	c := &lsCtx{f: f, info: f.pkg.TypesInfo, lt: lt, byName: byName, calls: map[string]bool{}, base: name, loopDefs: map[string]string{}}
	calls = c.calls
	defer func() {
		if r := recover(); r != nil {
			lf, ok := r.(lsFail)
			if !ok {
				panic(r)
			}
			status = "outside the translated fragment: " + lf.msg
			text = fmt.Sprintf("-- %s.%s (%s): %s\n\n", lt.name, name, c.pos(f.decl.Pos()), status)
		}
	}()
	sig := f.obj.Type().(*types.Signature)
	env := lsEnv{}
	binders := ""
	if sig.Recv() == nil {
		// constructor: return &L{cell}
		if len(f.decl.Body.List) != 1 {
			c.fail("constructor body")
		}
		ret, ok := f.decl.Body.List[0].(*ast.ReturnStmt)
		if !ok || len(ret.Results) != 1 {
			c.fail("constructor body")
		}
		u, ok := ret.Results[0].(*ast.UnaryExpr)
		if !ok || u.Op != token.AND {
			c.fail("constructor body")
		}
		lit, ok := u.X.(*ast.CompositeLit)
		if !ok || len(lit.Elts) != 1 {
			c.fail("constructor body")
		}
		for i := 0; i < sig.Params().Len(); i++ {
			p := sig.Params().At(i)
			if c.kindOf(p.Type()) != "val" {
				c.fail("constructor parameter")
			}
			env[p.Name()] = &lsVar{kind: "val", lean: p.Name()}
			binders += fmt.Sprintf(" (%s : Int)", p.Name())
		}
		var out []string
		el := lit.Elts[0]
		if kv, ok := el.(*ast.KeyValueExpr); ok {
			el = kv.Value
		}
		cell := c.cellOf(el, env, &out)
		if len(out) != 0 {
			c.fail("constructor cell")
		}
		return fmt.Sprintf("/-- %s: %s -/\ndef %s%s : Heap := [%s]\n\n", c.pos(f.decl.Pos()), f.obj.Name(), name, binders, cell), "translated", calls
	}
	c.recv = sig.Recv().Name()
	if _, isPtr := sig.Recv().Type().(*types.Pointer); !isPtr || c.recv == "" || c.recv == "_" {
		c.fail("receiver form")
	}
	binders = " (h : Heap)"
	pre := ""
	for i := 0; i < sig.Params().Len(); i++ {
		p := sig.Params().At(i)
		c.checkName(p.Name())
		if fs, ok := p.Type().(*types.Signature); ok && fs.Params().Len() == 1 && fs.Results().Len() == 0 && c.kindOf(fs.Params().At(0).Type()) == "val" && c.fnVar == "" {
			c.fnVar = p.Name()
			pre = " {σ : Type}"
			binders += fmt.Sprintf(" (%s : σ → Int → σ) (fn_s : σ)", p.Name())
			continue
		}
		kind := c.kindOf(p.Type())
		if kind != "ptr" && kind != "val" {
			c.fail("parameter %s", p.Name())
		}
		env[p.Name()] = &lsVar{kind: kind, lean: p.Name()}
		binders += fmt.Sprintf(" (%s : %s)", p.Name(), lsLeanType(kind))
	}
	resT := []string{"Heap"}
	for i := 0; i < sig.Results().Len(); i++ {
		kind := c.kindOf(sig.Results().At(i).Type())
		if kind != "ptr" && kind != "val" && kind != "bool" && kind != "error" {
			c.fail("result type")
		}
		if sig.Results().At(i).Name() != "" {
			c.fail("named result")
		}
		c.results = append(c.results, kind)
		resT = append(resT, lsLeanType(kind))
	}
	if c.fnVar != "" {
		resT = append(resT, "σ")
	}
	lines := c.stmts(f.decl.Body.List, env, func(e lsEnv) []string {
		if len(c.results) != 0 {
			c.fail("missing return")
		}
		return []string{c.retLine(nil, e)}
	})
	var sb strings.Builder
	for _, a := range c.aux {
		sb.WriteString(a + "\n")
	}
	fmt.Fprintf(&sb, "/-- %s: %s.%s -/\ndef %s%s%s : ListRes (%s) := do\n", c.pos(f.decl.Pos()), lt.name, f.obj.Name(), name, pre, binders, strings.Join(resT, " × "))
	for _, l := range lines {
		sb.WriteString("  " + l + "\n")
	}
	sb.WriteString("\n")
	return sb.String(), "translated", calls
}

func translateLists() (string, map[string]string) {
	status := map[string]string{}
	var sb strings.Builder
	sb.WriteString("import GoguVerif.Model.SList\nimport GoguVerif.Model.DList\n")
	sb.WriteString("/-! GENERATED by /verif/translator (frag_list.go) from /repo's current source — do not edit.\n\n")
	sb.WriteString("Mechanical Go → Lean translation of list/slist.go and list/dlist.go at the POINTER level (see translator/frag_list.go\n")
	sb.WriteString("for the fragment): the heap of node cells is the address-indexed store `Heap = List Node` of the hand-written model\n")
	sb.WriteString("(address 0 = the head embedded by value in the list struct); a pointer is `Option Nat`; a dereference is a store read\n")
	sb.WriteString("(`ListRes.deref`: nil ⇒ panic; `load`: dangling ⇒ stuck), a field assignment / struct copy is `List.set`, a local cell\n")
	sb.WriteString("is allocated (`h ++ [cell]`) when its address is first used; a pointer walk is a loop on fuel `h.length + 1` (hang on\n")
	sb.WriteString("exhaustion).  `Theorems/GenTieLists.lean` proves the definitions equal to those of `Model/SList.lean`. -/\n")
	sb.WriteString("set_option linter.unusedVariables false\nnamespace GoguVerif.Gen.Lists\n\n")
	for _, lt := range lsTypes {
		byName := map[string]*fn{}
		var names []string
		for _, f := range order {
			if f.pkg.Name != "list" || f.decl.Body == nil {
				continue
			}
			if f.decl.Recv != nil {
				if recvTypeName(f.obj) != lt.name {
					continue
				}
				byName[lt.name+"_"+f.obj.Name()] = f
				names = append(names, lt.name+"_"+f.obj.Name())
				continue
			}
			byName[f.obj.Name()] = f
			// a constructor of this list type
			sig := f.obj.Type().(*types.Signature)
			if sig.Results().Len() == 1 {
				if p, ok := sig.Results().At(0).Type().(*types.Pointer); ok {
					if n, ok := p.Elem().(*types.Named); ok && n.Obj().Name() == lt.name {
						names = append(names, f.obj.Name())
					}
				}
			}
		}
		fmt.Fprintf(&sb, "namespace %s\nopen GoguVerif.Model %s\nopen GoguVerif.Spec.C19 (Ans)\n\n", lt.name, lt.ns)
		// callees before callers (depth-first over the calls found while translating)
		texts, callsOf, emitted := map[string]string{}, map[string]map[string]bool{}, map[string]bool{}
		for _, n := range names {
			short := strings.TrimPrefix(n, lt.name+"_")
			t, st, calls := translateListFunc(lt, short, byName[n], byName)
			texts[n], callsOf[n] = t, calls
			status["list."+n] = st
		}
		var emit func(n string)
		emit = func(n string) {
			if emitted[n] {
				return
			}
			emitted[n] = true
			var cs []string
			for k := range callsOf[n] {
				cs = append(cs, k)
			}
			sort.Strings(cs)
			for _, k := range cs {
				emit(k)
			}
			sb.WriteString(texts[n])
		}
		for _, n := range names {
			emit(n)
		}
		fmt.Fprintf(&sb, "end %s\n\n", lt.name)
	}
	sb.WriteString("end GoguVerif.Gen.Lists\n")
	return sb.String(), status
}
