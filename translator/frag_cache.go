package main

// Go -> Lean translation of cache/cache.go (Gen/Cache.lean).  A third, self-contained fragment next to frag.go and
// frag_heap.go, for the expiring cache: a struct reached through an embedded pointer, `time.Now()`, a type switch on a
// type parameter, `errors.Join/Unwrap`, maps of pointers to structs, a mutating method called while ranging.
// `Theorems/GenTieCache.lean` proves each regenerated definition equal (up to the order of the association list) to
// the definition of `Model/Cache.lean`.
//
// THE FRAGMENT AND ITS ASSUMED SEMANTICS (part of the trusted base).
//
// Types.  The type parameters of the receiver type -> Lean type variables of the same name, with `[Inhabited T]`
// (`default` = the zero value) and, for a comparable constraint (`~string`, `comparable`), `[DecidableEq T]`;
// Go integer types, `time.Duration` -> `Int` (unbounded: wrap-around is NOT modelled, integer conversions are the
// identity); `bool` -> `Bool`; `string` -> `List UInt8`; `error` -> `Bool` (non-nil; the text is not modelled);
// a struct type of the package that is not a receiver -> a Lean structure with the same fields (`Item V`);
// `map[K]E` -> `List (K × E)`, an association list used only through `mapHas` / `mapGet` / `mapSet` / `mapDel`
// (the same four definitions as in frag.go: overwrite in place or add at the end; delete the first entry of the key)
// and `len`; the map is assumed non-nil.
// POINTERS TO STRUCTS `*S`.  As the element type of a map, and for a variable bound by reading or ranging over such a
// map, `*S` is the struct VALUE `S` (the pointer is non-nil and nobody writes through it: the translator checks that
// every value stored into such a map is `&S{…}` or such a variable, and that no field of S is assigned anywhere in
// the package; pointer identity is not modelled).  As a function RESULT, and for a variable bound from such a result,
// `*S` is `Option S` (`nil` = `none`); dereferencing such a variable is outside the fragment.  A variable bound by the
// comma-ok read `v, ok := m[k]` is `mapGet m k default`; this is accepted only as the init statement of an `if` whose
// condition is `ok` or `ok && …` and whose else-branch does not mention `v` (so the nil that Go yields for an absent key
// is never looked at).
// THE CLOCK.  `time.Now().UnixNano()` is the parameter `clock_ : Int`; `time.Now().Add(d).UnixNano()` is `clock_ + d`.
// A function takes `clock_` iff it (or a callee) reads the clock, and hands the SAME `clock_` to its callees:
// SIMPLIFICATION — all readings of the clock during one call of an exported method are one instant (the hand-written
// model makes the same assumption).  Methods that can read the clock more than once per call, i.e. whose tie theorem
// depends on this: Set / SetDefault (the comparison, then `store`), Update (`Get`, then `store`), MapToCache (every
// iteration).  store, Get, IsExpired, DeleteExpired read it at most once.
// THE TYPE SWITCH `switch any(x).(type) { case string: … }` on a variable x whose type is a type parameter T: the
// function takes a parameter `strOf_T : T → Option (List UInt8)` — `some bytes` iff the dynamic type of the value is
// string — and the switch is `match strOf_T x with | some str_ => … | none => …`; inside the case `any(x).(string)` is
// `str_`.  Only `case string` and `default` clauses are in the fragment.
// ERRORS.  `nil` = false; `fmt.Errorf(…)` = true (arguments must be variables or literals: not evaluated);
// `errors.Join(a, b, …)` = `a || b || …` (nil iff all are nil); `errors.Unwrap(e)` = false, accepted only when e is
// a local variable declared `var e error` all of whose assignments are `errors.Join(…)` (the join error has no
// `Unwrap() error` method, so the result is nil) — library semantics assumed.
// METHODS.  The receiver is a pointer to a struct; its modelled fields are the fields reached through embedded
// (pointers to) structs, without `sync.*`, channel and function fields (any use of those is outside the fragment);
// they are variables `<recv>_<field>`, parameters of every method.  `Lock/Unlock/RLock/RUnlock` (also deferred) are
// skipped: what is translated is the body as one goroutine executes it alone.  A function returns the tuple of its
// results followed by the receiver fields it (or a callee) assigns (`()` when empty); a caller rebinds them.  Calls of
// other functions of the package are allowed as a whole right-hand side, `return` operand, or expression statement.
// STATEMENTS.  `var x T`, `x := e`, `x = e`, `m[k] = e`, `delete(m, k)`, `recv.f = make(map…)`, `return`, `if` with
// optional init / else / else-if, the type switch above, and `for k, v := range m` over a map: structural recursion
// over the association list AS IT IS AT LOOP ENTRY, in list order (= the order this iteration visits the entries,
// which Go leaves open: the tie holds for every list).  Inside the loop body the ranged map may be written only by
// `delete(m, k)` / `m[k] = e` with k the range key — directly or in a callee that receives the range key as the
// parameter it uses there (the language guarantees that this does not disturb the iteration); `return`, `break`,
// `continue` inside a loop are outside the fragment.  An `if`/switch none of whose branches returns is the VALUE of
// the variables its branches assign; one that returns on some path has the statements that follow it translated
// once per branch.  Different variables of one function must have different names, none ending in `_`.
// Anything else makes the function "outside the translated fragment": it is omitted with a comment (and reported in
// facts.json); a tie theorem that mentions it then fails to build.  No per-function special case.

import (
	"fmt"
	"go/ast"
	"go/constant"
	"go/token"
	"go/types"
	"sort"
	"strings"

	"golang.org/x/tools/go/packages"
)

// the functions of cache/cache.go to regenerate, in output order (dependencies are emitted first)
var cacheFunctions = []string{"Cache_store", "Cache_add", "Cache_Set", "Cache_SetDefault", "Cache_Get", "Item_Val", "Cache_Update",
	"cache_delete", "Cache_Delete", "cache_DeleteExpired", "Cache_Flush", "Cache_List", "Cache_Count", "Cache_MapToCache", "Cache_IsExpired"}

const cachePrelude = `/-- ` + "`_, ok := m[k]`" + ` -/
def mapHas {κ β : Type} [DecidableEq κ] (m : List (κ × β)) (k : κ) : Bool :=
  match m with
  | [] => false
  | e :: rest => if e.1 = k then true else mapHas rest k

/-- ` + "`m[k]`" + ` (z: the zero value, for an absent key) -/
def mapGet {κ β : Type} [DecidableEq κ] (m : List (κ × β)) (k : κ) (z : β) : β :=
  match m with
  | [] => z
  | e :: rest => if e.1 = k then e.2 else mapGet rest k z

/-- ` + "`m[k] = v`" + `: overwrite the entry of k, or add one at the end -/
def mapSet {κ β : Type} [DecidableEq κ] (m : List (κ × β)) (k : κ) (v : β) : List (κ × β) :=
  match m with
  | [] => [(k, v)]
  | e :: rest => if e.1 = k then (k, v) :: rest else e :: mapSet rest k v

/-- ` + "`delete(m, k)`" + ` -/
def mapDel {κ β : Type} [DecidableEq κ] (m : List (κ × β)) (k : κ) : List (κ × β) :=
  match m with
  | [] => []
  | e :: rest => if e.1 = k then rest else e :: mapDel rest k

`

type cvar struct{ name, typ string }

// cmapw: one way in which a function writes a map-typed receiver field
type cmapw struct {
	field    string
	op       string // "del", "set", "other"
	keyParam int    // index of the (never assigned) parameter used as the key, or -1
}

type csum struct {
	f      *fn
	key    string
	writes map[string]bool
	clock  bool
	strOf  map[string]bool
	mapw   []cmapw
	busy   bool
	done   bool
	rec    bool
}

type cinfo struct {
	status  string
	ok      bool
	results []string
	wvars   []string // Go names of the fields handed back
}

type cctx struct {
	f       *fn
	pkg     *packages.Package
	info    *types.Info
	sum     *csum
	name    string
	recv    string
	fields  []*types.Var
	scope   []cvar
	results []string
	err     string
	aux     []string
	nloop   int
	assert  map[types.Object]string
	okVars  map[types.Object]bool
}

var cSums map[*types.Func]*csum
var cDone map[string]*cinfo
var cOut *strings.Builder
var cStructs []string
var cStructSeen map[string]bool
var cConsts []string
var cConstSeen map[string]bool
var cPkg *packages.Package

func (c *cctx) fail(format string, a ...any) string {
	if c.err == "" {
		c.err = fmt.Sprintf(format, a...)
	}
	return "sorryUnsupported"
}

func cKey(f *fn) string {
	if f.decl.Recv != nil {
		return recvTypeName(f.obj) + "_" + f.obj.Name()
	}
	return f.obj.Name()
}

func cRecvName(f *fn) string {
	if f.decl.Recv == nil || len(f.decl.Recv.List) == 0 || len(f.decl.Recv.List[0].Names) == 0 {
		return ""
	}
	return f.decl.Recv.List[0].Names[0].Name
}

func cIsSync(t types.Type) bool {
	if p, ok := t.(*types.Pointer); ok {
		t = p.Elem()
	}
	n, ok := t.(*types.Named)
	return ok && n.Obj().Pkg() != nil && n.Obj().Pkg().Path() == "sync"
}

// cFlatFields: the modelled fields of a receiver type (through embedded structs; without sync.*, chan, func fields)
func cFlatFields(t types.Type, depth int) []*types.Var {
	if p, ok := t.(*types.Pointer); ok {
		t = p.Elem()
	}
	st, ok := t.Underlying().(*types.Struct)
	if !ok || depth > 4 {
		return nil
	}
	var out []*types.Var
	for i := 0; i < st.NumFields(); i++ {
		fl := st.Field(i)
		ft := fl.Type()
		if cIsSync(ft) {
			continue
		}
		switch ft.Underlying().(type) {
		case *types.Chan, *types.Signature:
			continue
		}
		if fl.Embedded() {
			out = append(out, cFlatFields(ft, depth+1)...)
			continue
		}
		out = append(out, fl)
	}
	return out
}

func cFieldNames(f *fn) []string {
	sig := f.obj.Type().(*types.Signature)
	if sig.Recv() == nil {
		return nil
	}
	var out []string
	for _, v := range cFlatFields(sig.Recv().Type(), 0) {
		out = append(out, v.Name())
	}
	return out
}

func cCallee(pkg *packages.Package, call *ast.CallExpr) *types.Func {
	switch fun := call.Fun.(type) {
	case *ast.Ident:
		if m, ok := pkg.TypesInfo.Uses[fun].(*types.Func); ok {
			return m.Origin()
		}
	case *ast.SelectorExpr:
		if m, ok := pkg.TypesInfo.Uses[fun.Sel].(*types.Func); ok {
			return m.Origin()
		}
	}
	return nil
}

// cLibCall: "pkg.Name" of a call of a function of another package ("" otherwise)
func cLibCall(pkg *packages.Package, call *ast.CallExpr) string {
	if se, ok := call.Fun.(*ast.SelectorExpr); ok {
		if m, ok := pkg.TypesInfo.Uses[se.Sel].(*types.Func); ok && m.Pkg() != nil && m.Pkg() != pkg.Types {
			if sig := m.Type().(*types.Signature); sig.Recv() != nil {
				return m.Pkg().Path() + "." + recvTypeName(m) + "." + m.Name()
			}
			return m.Pkg().Path() + "." + m.Name()
		}
	}
	return ""
}

// cFieldOf: for `recv.f` (through embedding) the name of the modelled field, else ""
func cFieldOf(pkg *packages.Package, e ast.Expr, recv string) string {
	se, ok := e.(*ast.SelectorExpr)
	if !ok || recv == "" {
		return ""
	}
	id, ok := se.X.(*ast.Ident)
	if !ok || id.Name != recv {
		return ""
	}
	if sel := pkg.TypesInfo.Selections[se]; sel != nil && sel.Kind() == types.FieldVal {
		return sel.Obj().Name()
	}
	return ""
}

func cParamIndex(f *fn, name string) int {
	sig := f.obj.Type().(*types.Signature)
	for i := 0; i < sig.Params().Len(); i++ {
		if sig.Params().At(i).Name() == name {
			return i
		}
	}
	return -1
}

// cAssignedIdents: names of the plain variables assigned (not declared) somewhere in the function
func cAssignedIdents(f *fn) map[string]bool {
	out := map[string]bool{}
	ast.Inspect(f.decl.Body, func(n ast.Node) bool {
		switch x := n.(type) {
		case *ast.AssignStmt:
			for _, l := range x.Lhs {
				if id, ok := l.(*ast.Ident); ok && (x.Tok != token.DEFINE || f.pkg.TypesInfo.Defs[id] == nil) {
					out[id.Name] = true
				}
			}
		case *ast.IncDecStmt:
			if id, ok := x.X.(*ast.Ident); ok {
				out[id.Name] = true
			}
		}
		return true
	})
	return out
}

func cIsClockRead(pkg *packages.Package, call *ast.CallExpr) bool {
	return cLibCall(pkg, call) == "time.Now"
}

func cSummary(obj *types.Func) *csum {
	s := cSums[obj]
	if s == nil {
		return nil
	}
	if s.done {
		return s
	}
	if s.busy {
		s.rec = true
		return s
	}
	s.busy = true
	f := s.f
	recv := cRecvName(f)
	assigned := cAssignedIdents(f)
	keyParam := func(e ast.Expr) int {
		if id, ok := e.(*ast.Ident); ok && !assigned[id.Name] {
			return cParamIndex(f, id.Name)
		}
		return -1
	}
	ast.Inspect(f.decl.Body, func(n ast.Node) bool {
		switch x := n.(type) {
		case *ast.AssignStmt:
			for _, l := range x.Lhs {
				if fn := cFieldOf(f.pkg, l, recv); fn != "" {
					s.writes[fn] = true
					s.mapw = append(s.mapw, cmapw{fn, "other", -1})
				} else if ix, ok := l.(*ast.IndexExpr); ok {
					if fn := cFieldOf(f.pkg, ix.X, recv); fn != "" {
						s.writes[fn] = true
						s.mapw = append(s.mapw, cmapw{fn, "set", keyParam(ix.Index)})
					}
				}
			}
		case *ast.IncDecStmt:
			if fn := cFieldOf(f.pkg, x.X, recv); fn != "" {
				s.writes[fn] = true
				s.mapw = append(s.mapw, cmapw{fn, "other", -1})
			}
		case *ast.TypeSwitchStmt:
			if tp := cSwitchTypeParam(f.pkg, x); tp != "" {
				s.strOf[tp] = true
			}
		case *ast.CallExpr:
			if id, ok := x.Fun.(*ast.Ident); ok && id.Name == "delete" && len(x.Args) == 2 {
				if fn := cFieldOf(f.pkg, x.Args[0], recv); fn != "" {
					s.writes[fn] = true
					s.mapw = append(s.mapw, cmapw{fn, "del", keyParam(x.Args[1])})
				}
			}
			if cIsClockRead(f.pkg, x) {
				s.clock = true
			}
			if g := cCallee(f.pkg, x); g != nil && cSums[g] != nil {
				gs := cSummary(g)
				for w := range gs.writes {
					s.writes[w] = true
				}
				s.clock = s.clock || gs.clock
				for t := range gs.strOf {
					s.strOf[t] = true
				}
				for _, mw := range gs.mapw {
					kp := -1
					if mw.keyParam >= 0 && mw.keyParam < len(x.Args) {
						kp = keyParam(x.Args[mw.keyParam])
					}
					s.mapw = append(s.mapw, cmapw{mw.field, mw.op, kp})
				}
			}
		}
		return true
	})
	s.busy = false
	s.done = true
	return s
}

// cSwitchTypeParam: for `switch any(x).(type)` with x of type-parameter type T the name of T
func cSwitchTypeParam(pkg *packages.Package, s *ast.TypeSwitchStmt) string {
	x := cSwitchOperand(s)
	if x == nil {
		return ""
	}
	if tp, ok := pkg.TypesInfo.TypeOf(x).(*types.TypeParam); ok {
		return tp.Obj().Name()
	}
	return ""
}

// cSwitchOperand: the identifier x of `switch any(x).(type)` (nil for every other form)
func cSwitchOperand(s *ast.TypeSwitchStmt) *ast.Ident {
	if s.Init != nil {
		return nil
	}
	es, ok := s.Assign.(*ast.ExprStmt)
	if !ok {
		return nil
	}
	ta, ok := es.X.(*ast.TypeAssertExpr)
	if !ok || ta.Type != nil {
		return nil
	}
	return cAnyOf(ta.X)
}

// cAnyOf: x for the expression `any(x)` / `interface{}(x)` with x an identifier
func cAnyOf(e ast.Expr) *ast.Ident {
	call, ok := e.(*ast.CallExpr)
	if !ok || len(call.Args) != 1 {
		return nil
	}
	switch fun := call.Fun.(type) {
	case *ast.Ident:
		if fun.Name != "any" {
			return nil
		}
	case *ast.InterfaceType:
		if fun.Methods != nil && len(fun.Methods.List) > 0 {
			return nil
		}
	default:
		return nil
	}
	id, _ := call.Args[0].(*ast.Ident)
	return id
}

// ---------- types ----------

func (c *cctx) leanType(t types.Type, result bool) string {
	switch x := t.(type) {
	case *types.TypeParam:
		return x.Obj().Name()
	case *types.Pointer:
		if n, ok := x.Elem().(*types.Named); ok {
			if _, isStruct := n.Underlying().(*types.Struct); isStruct && n.Obj().Pkg() == c.pkg.Types {
				s := c.structType(n)
				if result {
					return "(Option " + s + ")"
				}
				return s
			}
		}
		return c.fail("pointer type %s", t)
	case *types.Map:
		return "(List (" + c.leanType(x.Key(), false) + " × " + c.leanType(x.Elem(), false) + "))"
	case *types.Named:
		if x.Obj().Pkg() == nil && x.Obj().Name() == "error" {
			return "Bool"
		}
		if _, isStruct := x.Underlying().(*types.Struct); isStruct && x.Obj().Pkg() == c.pkg.Types {
			return c.structType(x)
		}
		if b, ok := x.Underlying().(*types.Basic); ok {
			return c.leanType(b, result)
		}
		return c.fail("type %s", t)
	case *types.Basic:
		switch {
		case x.Info()&types.IsInteger != 0:
			return "Int"
		case x.Info()&types.IsBoolean != 0:
			return "Bool"
		case x.Info()&types.IsString != 0:
			return "(List UInt8)"
		}
	}
	return c.fail("type %s", t)
}

// structType: the Lean structure for a struct type of the package (emitted once, from its declaration)
func (c *cctx) structType(n *types.Named) string {
	name := n.Obj().Name()
	org := n.Origin()
	if !cStructSeen[name] {
		cStructSeen[name] = true
		st := org.Underlying().(*types.Struct)
		var sb strings.Builder
		fmt.Fprintf(&sb, "/-- `type %s struct` -/\nstructure %s", name, name)
		if tps := org.TypeParams(); tps != nil {
			for i := 0; i < tps.Len(); i++ {
				fmt.Fprintf(&sb, " (%s : Type)", tps.At(i).Obj().Name())
			}
		}
		sb.WriteString(" where\n")
		for i := 0; i < st.NumFields(); i++ {
			fl := st.Field(i)
			if mutableField[fl.Name()] {
				c.fail("field %s.%s is assigned somewhere in the package", name, fl.Name())
			}
			fmt.Fprintf(&sb, "  %s : %s\n", lv(fl.Name()), c.leanType(fl.Type(), false))
		}
		sb.WriteString("deriving Inhabited\n\n")
		cStructs = append(cStructs, sb.String())
	}
	s := name
	if ta := n.TypeArgs(); ta != nil {
		for i := 0; i < ta.Len(); i++ {
			s += " " + c.leanType(ta.At(i), false)
		}
		return "(" + s + ")"
	}
	return s
}

func (c *cctx) zero(typ string) string {
	switch {
	case typ == "Int":
		return "(0 : Int)"
	case typ == "Bool":
		return "false"
	case strings.HasPrefix(typ, "(List "):
		return "[]"
	case strings.HasPrefix(typ, "(Option "):
		return "none"
	}
	return "(default : " + typ + ")"
}

// ---------- scope ----------

func (c *cctx) declare(name, typ string) {
	for i := range c.scope {
		if c.scope[i].name == name {
			c.scope[i].typ = typ
			return
		}
	}
	c.scope = append(c.scope, cvar{name, typ})
}

func (c *cctx) lookup(name string) (string, bool) {
	for _, v := range c.scope {
		if v.name == name {
			return v.typ, true
		}
	}
	return "", false
}

func (c *cctx) fieldVar(goName string) string { return c.recv + "_" + goName }

func (c *cctx) isField(goName string) bool {
	for _, f := range c.fields {
		if f.Name() == goName {
			return true
		}
	}
	return false
}

// ---------- expressions ----------

func cTuple(xs []string) string {
	switch len(xs) {
	case 0:
		return "()"
	case 1:
		return xs[0]
	}
	return "(" + strings.Join(xs, ", ") + ")"
}

func cTupleType(xs []string) string {
	switch len(xs) {
	case 0:
		return "Unit"
	case 1:
		return xs[0]
	}
	return "(" + strings.Join(xs, " × ") + ")"
}

func (c *cctx) coerce(term, have, want string) string {
	if have == want || want == "" {
		return term
	}
	if have == "nil" {
		switch {
		case want == "Bool":
			return "false"
		case strings.HasPrefix(want, "(Option "):
			return "none"
		}
		return c.fail("nil of type %s", want)
	}
	if want == "(Option "+have+")" {
		return "(some " + term + ")"
	}
	return c.fail("a value of type %s where %s is expected", have, want)
}

func (c *cctx) isPureArg(e ast.Expr) bool {
	switch x := e.(type) {
	case *ast.Ident, *ast.BasicLit:
		return true
	case *ast.ParenExpr:
		return c.isPureArg(x.X)
	}
	return false
}

func (c *cctx) constRef(k *types.Const) string {
	name := k.Name()
	if k.Pkg() != c.pkg.Types {
		return c.fail("constant %s of another package", name)
	}
	v, ok := constant.Int64Val(constant.ToInt(k.Val()))
	if !ok {
		return c.fail("constant %s is not an integer", name)
	}
	if !cConstSeen[name] {
		cConstSeen[name] = true
		cConsts = append(cConsts, fmt.Sprintf("/-- `const %s` -/\ndef %s : Int := %d\n\n", name, name, v))
	}
	return name
}

// expr: the Lean term and its Lean type ("nil" for the untyped nil)
func (c *cctx) expr(e ast.Expr) (string, string) {
	switch x := e.(type) {
	case *ast.ParenExpr:
		return c.expr(x.X)
	case *ast.BasicLit:
		if x.Kind == token.INT {
			return "(" + x.Value + " : Int)", "Int"
		}
		return c.fail("literal %s", x.Value), ""
	case *ast.Ident:
		switch obj := c.info.Uses[x].(type) {
		case *types.Nil:
			return "nil", "nil"
		case *types.Const:
			if x.Name == "true" || x.Name == "false" {
				return x.Name, "Bool"
			}
			return c.constRef(obj), "Int"
		case *types.Var:
			if t, ok := c.lookup(lv(x.Name)); ok {
				return lv(x.Name), t
			}
		}
		return c.fail("identifier %s", x.Name), ""
	case *ast.SelectorExpr:
		if fn := cFieldOf(c.pkg, x, c.recv); fn != "" {
			if !c.isField(fn) {
				return c.fail("field %s is not modelled", fn), ""
			}
			t, _ := c.lookup(c.fieldVar(fn))
			return c.fieldVar(fn), t
		}
		if sel := c.info.Selections[x]; sel != nil && sel.Kind() == types.FieldVal && len(sel.Index()) == 1 {
			xt, xty := c.expr(x.X)
			if strings.HasPrefix(xty, "(Option ") {
				return c.fail("field of a pointer that may be nil"), ""
			}
			return "(" + xt + "." + lv(sel.Obj().Name()) + ")", c.leanType(sel.Obj().Type(), false)
		}
		if k, ok := c.info.Uses[x.Sel].(*types.Const); ok {
			return c.constRef(k), "Int"
		}
		return c.fail("selector %s", x.Sel.Name), ""
	case *ast.UnaryExpr:
		switch x.Op {
		case token.NOT:
			t, ty := c.expr(x.X)
			if ty != "Bool" {
				return c.fail("! of a non-bool"), ""
			}
			return "(!" + t + ")", "Bool"
		case token.SUB:
			t, ty := c.expr(x.X)
			if ty != "Int" {
				return c.fail("- of a non-integer"), ""
			}
			return "(-" + t + ")", "Int"
		case token.AND:
			if cl, ok := x.X.(*ast.CompositeLit); ok {
				return c.composite(cl)
			}
		}
		return c.fail("unary %s", x.Op), ""
	case *ast.BinaryExpr:
		return c.binary(x)
	case *ast.CallExpr:
		return c.callExpr(x)
	case *ast.CompositeLit:
		return c.composite(x)
	case *ast.IndexExpr:
		if _, ok := c.info.TypeOf(x.X).Underlying().(*types.Map); ok {
			m, mt := c.expr(x.X)
			k, _ := c.expr(x.Index)
			et := c.leanType(c.info.TypeOf(x), false)
			_ = mt
			return "(mapGet " + m + " " + k + " " + c.zero(et) + ")", et
		}
		return c.fail("index expression"), ""
	case *ast.TypeAssertExpr:
		if id := cAnyOf(x.X); id != nil && x.Type != nil {
			if b, ok := c.info.TypeOf(x.Type).(*types.Basic); ok && b.Kind() == types.String {
				if s, ok := c.assert[c.info.Uses[id]]; ok {
					return s, "(List UInt8)"
				}
			}
		}
		return c.fail("type assertion"), ""
	}
	return c.fail("expression %T", e), ""
}

func (c *cctx) composite(cl *ast.CompositeLit) (string, string) {
	t := c.info.TypeOf(cl)
	n, ok := t.(*types.Named)
	if !ok {
		return c.fail("composite literal of %s", t), ""
	}
	st, ok := n.Underlying().(*types.Struct)
	if !ok || n.Obj().Pkg() != c.pkg.Types {
		return c.fail("composite literal of %s", t), ""
	}
	lt := c.structType(n)
	vals := map[string]string{}
	for i, el := range cl.Elts {
		if kv, ok := el.(*ast.KeyValueExpr); ok {
			v, vt := c.expr(kv.Value)
			name := kv.Key.(*ast.Ident).Name
			for j := 0; j < st.NumFields(); j++ {
				if st.Field(j).Name() == name {
					v = c.coerce(v, vt, c.leanType(st.Field(j).Type(), false))
				}
			}
			vals[name] = v
		} else if i < st.NumFields() {
			v, vt := c.expr(el)
			vals[st.Field(i).Name()] = c.coerce(v, vt, c.leanType(st.Field(i).Type(), false))
		}
	}
	var parts []string
	for j := 0; j < st.NumFields(); j++ {
		fl := st.Field(j)
		v, ok := vals[fl.Name()]
		if !ok {
			v = c.zero(c.leanType(fl.Type(), false))
		}
		parts = append(parts, lv(fl.Name())+" := "+v)
	}
	return "({ " + strings.Join(parts, ", ") + " } : " + lt + ")", lt
}

func (c *cctx) binary(x *ast.BinaryExpr) (string, string) {
	a, at := c.expr(x.X)
	b, bt := c.expr(x.Y)
	switch x.Op {
	case token.LAND, token.LOR:
		if at != "Bool" || bt != "Bool" {
			return c.fail("%s of non-bools", x.Op), ""
		}
		op := "&&"
		if x.Op == token.LOR {
			op = "||"
		}
		return "(" + a + " " + op + " " + b + ")", "Bool"
	case token.ADD, token.SUB, token.MUL:
		if at != "Int" || bt != "Int" {
			return c.fail("arithmetic on %s, %s", at, bt), ""
		}
		return "(" + a + " " + x.Op.String() + " " + b + ")", "Int"
	case token.EQL, token.NEQ:
		if bt == "nil" || at == "nil" {
			v, vt := a, at
			if at == "nil" {
				v, vt = b, bt
			}
			var isNil string
			switch {
			case vt == "Bool": // an error
				isNil = "(!" + v + ")"
			case strings.HasPrefix(vt, "(Option "):
				isNil = "(" + v + ".isNone)"
			default:
				return c.fail("comparison of a %s with nil", vt), ""
			}
			if x.Op == token.NEQ {
				if vt == "Bool" {
					return v, "Bool"
				}
				return "(" + v + ".isSome)", "Bool"
			}
			return isNil, "Bool"
		}
		if at != bt {
			return c.fail("comparison of %s with %s", at, bt), ""
		}
		if at == "Bool" {
			if tt := c.info.TypeOf(x.X); tt != nil && tt.String() == "error" {
				return c.fail("comparison of two errors"), ""
			}
		}
		if at != "Int" && at != "Bool" && at != "(List UInt8)" {
			if _, ok := c.info.TypeOf(x.X).(*types.TypeParam); !ok || !types.Comparable(c.info.TypeOf(x.X)) {
				return c.fail("== on %s", at), ""
			}
		}
		t := "(decide (" + a + " = " + b + "))"
		if x.Op == token.NEQ {
			t = "(!" + t + ")"
		}
		return t, "Bool"
	case token.LSS, token.LEQ, token.GTR, token.GEQ:
		if at != "Int" || bt != "Int" {
			return c.fail("ordering on %s, %s", at, bt), ""
		}
		op := map[token.Token]string{token.LSS: "<", token.LEQ: "≤", token.GTR: ">", token.GEQ: "≥"}[x.Op]
		return "(decide (" + a + " " + op + " " + b + "))", "Bool"
	}
	return c.fail("operator %s", x.Op), ""
}

// clockExpr: `time.Now().UnixNano()` / `time.Now().Add(d).UnixNano()`
func (c *cctx) clockExpr(call *ast.CallExpr) (string, bool) {
	if cLibCall(c.pkg, call) != "time.Time.UnixNano" || len(call.Args) != 0 {
		return "", false
	}
	inner, ok := call.Fun.(*ast.SelectorExpr).X.(*ast.CallExpr)
	if !ok {
		return "", false
	}
	switch cLibCall(c.pkg, inner) {
	case "time.Now":
		return "clock_", true
	case "time.Time.Add":
		base, ok := inner.Fun.(*ast.SelectorExpr).X.(*ast.CallExpr)
		if ok && cLibCall(c.pkg, base) == "time.Now" && len(inner.Args) == 1 {
			d, dt := c.expr(inner.Args[0])
			if dt != "Int" {
				return c.fail("Add of a non-duration"), true
			}
			return "(clock_ + " + d + ")", true
		}
	}
	return "", false
}

func (c *cctx) callExpr(call *ast.CallExpr) (string, string) {
	if t, ok := c.clockExpr(call); ok {
		return t, "Int"
	}
	// conversions
	if tv, ok := c.info.Types[call.Fun]; ok && tv.IsType() && len(call.Args) == 1 {
		if b, ok := tv.Type.Underlying().(*types.Basic); ok && b.Info()&types.IsInteger != 0 {
			a, at := c.expr(call.Args[0])
			if at == "Int" {
				return a, "Int"
			}
		}
		return c.fail("conversion to %s", tv.Type), ""
	}
	if id, ok := call.Fun.(*ast.Ident); ok {
		if _, isBuiltin := c.info.Uses[id].(*types.Builtin); isBuiltin {
			switch id.Name {
			case "len":
				a, at := c.expr(call.Args[0])
				if strings.HasPrefix(at, "(List ") {
					return "((" + a + ".length : Nat) : Int)", "Int"
				}
				return c.fail("len of %s", at), ""
			case "make":
				if _, isMap := c.info.TypeOf(call).Underlying().(*types.Map); isMap {
					for _, a := range call.Args[1:] {
						if !c.sideEffectFree(a) {
							return c.fail("size hint of make with a call"), ""
						}
					}
					return "[]", c.leanType(c.info.TypeOf(call), false)
				}
			}
			return c.fail("builtin %s", id.Name), ""
		}
	}
	switch cLibCall(c.pkg, call) {
	case "fmt.Errorf":
		for i, a := range call.Args {
			if i == 0 {
				if bl, ok := a.(*ast.BasicLit); !ok || strings.Contains(bl.Value, "%w") {
					return c.fail("fmt.Errorf with a non-literal format or %%w"), ""
				}
				continue
			}
			if !c.isPureArg(a) {
				return c.fail("fmt.Errorf with a computed argument"), ""
			}
		}
		return "true", "Bool"
	case "errors.Join":
		var parts []string
		for _, a := range call.Args {
			t, ty := c.expr(a)
			parts = append(parts, c.coerce(t, ty, "Bool"))
		}
		if len(parts) == 0 {
			return "false", "Bool"
		}
		return "(" + strings.Join(parts, " || ") + ")", "Bool"
	case "errors.Unwrap":
		if id, ok := call.Args[0].(*ast.Ident); ok && c.onlyJoined(id) {
			return "false", "Bool"
		}
		return c.fail("errors.Unwrap of an error that is not known to be a join"), ""
	}
	// a call of a function of the package as a value: only a function without writes and with one result
	if g := cCallee(c.pkg, call); g != nil && cSums[g] != nil {
		t, res, wv := c.pkgCall(call)
		if len(wv) == 0 && len(res) == 1 {
			return t, res[0]
		}
		return c.fail("call of %s inside an expression", g.Name()), ""
	}
	return c.fail("call"), ""
}

func (c *cctx) sideEffectFree(e ast.Expr) bool {
	ok := true
	ast.Inspect(e, func(n ast.Node) bool {
		if call, isCall := n.(*ast.CallExpr); isCall {
			if id, isId := call.Fun.(*ast.Ident); !isId || id.Name != "len" {
				ok = false
			}
		}
		return true
	})
	return ok
}

// onlyJoined: id is declared `var id error` and every assignment to it is `id = errors.Join(…)`
func (c *cctx) onlyJoined(id *ast.Ident) bool {
	obj := c.info.Uses[id]
	if obj == nil {
		return false
	}
	ok, declared := true, false
	ast.Inspect(c.f.decl.Body, func(n ast.Node) bool {
		switch x := n.(type) {
		case *ast.ValueSpec:
			for _, nm := range x.Names {
				if c.info.Defs[nm] == obj {
					declared = len(x.Values) == 0
				}
			}
		case *ast.AssignStmt:
			for i, l := range x.Lhs {
				if lid, isId := l.(*ast.Ident); isId && (c.info.Uses[lid] == obj || c.info.Defs[lid] == obj) {
					if len(x.Rhs) != len(x.Lhs) {
						ok = false
						continue
					}
					r, isCall := x.Rhs[i].(*ast.CallExpr)
					if !isCall || cLibCall(c.pkg, r) != "errors.Join" {
						ok = false
					}
				}
			}
		case *ast.UnaryExpr:
			if x.Op == token.AND {
				if lid, isId := x.X.(*ast.Ident); isId && c.info.Uses[lid] == obj {
					ok = false
				}
			}
		}
		return true
	})
	return ok && declared
}

// pkgCall: the call of a translated function of the package: term, Lean types of its results, Go names of the fields it hands back
func (c *cctx) pkgCall(call *ast.CallExpr) (string, []string, []string) {
	g := cCallee(c.pkg, call)
	gs := cSums[g]
	r := cTranslate(gs)
	if !r.ok {
		return c.fail("callee %s is outside the fragment", gs.key), nil, nil
	}
	var args []string
	gsig := g.Type().(*types.Signature)
	if gsig.Recv() != nil {
		se, ok := call.Fun.(*ast.SelectorExpr)
		if !ok {
			return c.fail("method value"), nil, nil
		}
		id, ok := se.X.(*ast.Ident)
		if !ok || id.Name != c.recv || c.recv == "" {
			return c.fail("method call on something other than the receiver"), nil, nil
		}
		gf := cFieldNames(gs.f)
		mine := cFieldNames(c.f)
		if strings.Join(gf, ",") != strings.Join(mine, ",") {
			return c.fail("callee %s has other receiver fields", gs.key), nil, nil
		}
	}
	var tps []string
	for t := range gs.strOf {
		tps = append(tps, t)
	}
	sort.Strings(tps)
	for _, t := range tps {
		if !c.sum.strOf[t] {
			return c.fail("type parameter %s of the callee", t), nil, nil
		}
		args = append(args, "strOf_"+t)
	}
	if gs.clock {
		args = append(args, "clock_")
	}
	if gsig.Recv() != nil {
		for _, fl := range c.fields {
			args = append(args, c.fieldVar(fl.Name()))
		}
	}
	if gsig.Variadic() || len(call.Args) != gsig.Params().Len() {
		return c.fail("variadic call"), nil, nil
	}
	gc := &cctx{f: gs.f, pkg: c.pkg, info: c.info, sum: gs}
	for i, a := range call.Args {
		t, ty := c.expr(a)
		want := gc.leanType(gsig.Params().At(i).Type(), false)
		if gc.err != "" {
			return c.fail("parameter type of %s", gs.key), nil, nil
		}
		args = append(args, c.coerce(t, ty, want))
	}
	return "(" + gs.key + " " + strings.Join(args, " ") + ")", r.results, r.wvars
}

// ---------- statements ----------

func cMayLeave(nodes ...ast.Node) bool {
	leaves := false
	for _, n := range nodes {
		if n == nil {
			continue
		}
		ast.Inspect(n, func(m ast.Node) bool {
			switch m.(type) {
			case *ast.ReturnStmt, *ast.BranchStmt:
				leaves = true
			case *ast.FuncLit:
				return false
			}
			return true
		})
	}
	return leaves
}

// assigned: the variables of the current scope (in scope order) that the nodes assign
func (c *cctx) assigned(nodes ...ast.Node) []cvar {
	names := map[string]bool{}
	root := func(e ast.Expr) {
		for {
			switch x := e.(type) {
			case *ast.ParenExpr:
				e = x.X
				continue
			case *ast.IndexExpr:
				e = x.X
				continue
			}
			break
		}
		if fn := cFieldOf(c.pkg, e, c.recv); fn != "" {
			names[c.fieldVar(fn)] = true
		} else if id, ok := e.(*ast.Ident); ok {
			names[lv(id.Name)] = true
		}
	}
	for _, n := range nodes {
		if n == nil {
			continue
		}
		ast.Inspect(n, func(m ast.Node) bool {
			switch x := m.(type) {
			case *ast.AssignStmt:
				for _, l := range x.Lhs {
					if id, ok := l.(*ast.Ident); ok && x.Tok == token.DEFINE && c.info.Defs[id] != nil {
						continue
					}
					root(l)
				}
			case *ast.IncDecStmt:
				root(x.X)
			case *ast.CallExpr:
				if id, ok := x.Fun.(*ast.Ident); ok && id.Name == "delete" && len(x.Args) == 2 {
					root(x.Args[0])
				}
				if g := cCallee(c.pkg, x); g != nil && cSums[g] != nil {
					for w := range cSummary(g).writes {
						names[c.fieldVar(w)] = true
					}
				}
			}
			return true
		})
	}
	var out []cvar
	for _, v := range c.scope {
		if names[v.name] {
			out = append(out, v)
		}
	}
	return out
}

func cNames(vs []cvar) []string {
	var out []string
	for _, v := range vs {
		out = append(out, v.name)
	}
	return out
}

func cTypes(vs []cvar) []string {
	var out []string
	for _, v := range vs {
		out = append(out, v.typ)
	}
	return out
}

// retTerm: results followed by the current values of the fields handed back
func (c *cctx) retTerm(vals []string) string {
	all := append([]string{}, vals...)
	for _, fl := range c.fields {
		if c.sum.writes[fl.Name()] {
			all = append(all, c.fieldVar(fl.Name()))
		}
	}
	return cTuple(all)
}

func (c *cctx) wvarNames() []string {
	var out []string
	for _, fl := range c.fields {
		if c.sum.writes[fl.Name()] {
			out = append(out, fl.Name())
		}
	}
	return out
}

func (c *cctx) isLockCall(e ast.Expr) bool {
	call, ok := e.(*ast.CallExpr)
	if !ok {
		return false
	}
	se, ok := call.Fun.(*ast.SelectorExpr)
	if !ok {
		return false
	}
	if t := c.info.TypeOf(se.X); t != nil && cIsSync(t) {
		switch se.Sel.Name {
		case "Lock", "Unlock", "RLock", "RUnlock":
			return true
		}
	}
	return false
}

func (c *cctx) stmts(list []ast.Stmt, k func() string) string {
	if c.err != "" {
		return "sorryUnsupported"
	}
	if len(list) == 0 {
		return k()
	}
	s, rest := list[0], list[1:]
	next := func() string { return c.stmts(rest, k) }
	switch x := s.(type) {
	case *ast.EmptyStmt:
		return next()
	case *ast.BlockStmt:
		return c.stmts(append(append([]ast.Stmt{}, x.List...), rest...), k)
	case *ast.DeferStmt:
		if c.isLockCall(x.Call) {
			return next()
		}
		return c.fail("defer")
	case *ast.ExprStmt:
		if c.isLockCall(x.X) {
			return next()
		}
		call, ok := x.X.(*ast.CallExpr)
		if !ok {
			return c.fail("expression statement")
		}
		if id, ok := call.Fun.(*ast.Ident); ok && id.Name == "delete" && len(call.Args) == 2 {
			if _, isB := c.info.Uses[id].(*types.Builtin); isB {
				m, mt := c.expr(call.Args[0])
				key, _ := c.expr(call.Args[1])
				if !strings.HasPrefix(mt, "(List (") || !c.isVarTerm(m) {
					return c.fail("delete on %s", mt)
				}
				return "let " + m + " := (mapDel " + m + " " + key + ");\n" + next()
			}
		}
		if g := cCallee(c.pkg, call); g != nil && cSums[g] != nil {
			t, res, wv := c.pkgCall(call)
			var pat []string
			for range res {
				pat = append(pat, "_")
			}
			for _, w := range wv {
				pat = append(pat, c.fieldVar(w))
			}
			if len(wv) == 0 {
				return next() // a call without effect on the modelled state
			}
			return "let " + cTuple(pat) + " := " + t + ";\n" + next()
		}
		return c.fail("call statement")
	case *ast.DeclStmt:
		gd, ok := x.Decl.(*ast.GenDecl)
		if !ok || gd.Tok != token.VAR {
			return c.fail("declaration")
		}
		out := ""
		for _, sp := range gd.Specs {
			vs := sp.(*ast.ValueSpec)
			for i, nm := range vs.Names {
				ty := c.leanType(c.info.TypeOf(nm), false)
				val := c.zero(ty)
				if len(vs.Values) > i {
					v, vt := c.expr(vs.Values[i])
					val = c.coerce(v, vt, ty)
				} else if len(vs.Values) > 0 {
					return c.fail("var with a tuple value")
				}
				c.declare(lv(nm.Name), ty)
				out += "let " + lv(nm.Name) + " : " + ty + " := " + val + ";\n"
			}
		}
		return out + next()
	case *ast.AssignStmt:
		return c.assign(x) + next()
	case *ast.ReturnStmt:
		return c.ret(x)
	case *ast.IfStmt:
		return c.ifStmt(x, rest, k)
	case *ast.TypeSwitchStmt:
		return c.typeSwitch(x, rest, k)
	case *ast.RangeStmt:
		return c.rangeStmt(x) + next()
	}
	return c.fail("statement %T", s)
}

func (c *cctx) isVarTerm(t string) bool {
	_, ok := c.lookup(t)
	return ok
}

func (c *cctx) ret(x *ast.ReturnStmt) string {
	if len(x.Results) == 1 && len(c.results) >= 1 {
		if call, ok := x.Results[0].(*ast.CallExpr); ok {
			if g := cCallee(c.pkg, call); g != nil && cSums[g] != nil {
				t, res, wv := c.pkgCall(call)
				if c.err != "" {
					return "sorryUnsupported"
				}
				if strings.Join(res, ";") != strings.Join(c.results, ";") {
					return c.fail("result types of the returned call")
				}
				if strings.Join(wv, ",") == strings.Join(c.wvarNames(), ",") {
					return t
				}
				var pat, vals []string
				for i := range res {
					pat = append(pat, fmt.Sprintf("r%d_", i+1))
					vals = append(vals, fmt.Sprintf("r%d_", i+1))
				}
				for _, w := range wv {
					pat = append(pat, c.fieldVar(w))
				}
				return "let " + cTuple(pat) + " := " + t + ";\n" + c.retTerm(vals)
			}
		}
	}
	if len(x.Results) != len(c.results) {
		return c.fail("return with %d values for %d results", len(x.Results), len(c.results))
	}
	var vals []string
	for i, r := range x.Results {
		t, ty := c.expr(r)
		vals = append(vals, c.coerce(t, ty, c.results[i]))
	}
	return c.retTerm(vals)
}

func (c *cctx) assign(x *ast.AssignStmt) string {
	if x.Tok != token.ASSIGN && x.Tok != token.DEFINE {
		return c.fail("assignment operator %s", x.Tok)
	}
	// a call of a function of the package as the whole right-hand side
	if len(x.Rhs) == 1 {
		if call, ok := x.Rhs[0].(*ast.CallExpr); ok {
			if g := cCallee(c.pkg, call); g != nil && cSums[g] != nil {
				t, res, wv := c.pkgCall(call)
				if c.err != "" {
					return "sorryUnsupported"
				}
				if len(res) != len(x.Lhs) {
					return c.fail("assignment count")
				}
				var pat []string
				for i, l := range x.Lhs {
					id, ok := l.(*ast.Ident)
					if !ok {
						return c.fail("call result assigned to a non-variable")
					}
					if id.Name == "_" {
						pat = append(pat, "_")
						continue
					}
					if have, ok := c.lookup(lv(id.Name)); ok && have != res[i] {
						return c.fail("call result of type %s assigned to a variable of type %s", res[i], have)
					}
					c.declare(lv(id.Name), res[i])
					pat = append(pat, lv(id.Name))
				}
				for _, w := range wv {
					pat = append(pat, c.fieldVar(w))
				}
				return "let " + cTuple(pat) + " := " + t + ";\n"
			}
		}
	}
	if len(x.Lhs) != len(x.Rhs) {
		return c.fail("tuple assignment")
	}
	if len(x.Lhs) != 1 {
		return c.fail("parallel assignment")
	}
	l, r := x.Lhs[0], x.Rhs[0]
	// m[k] = e
	if ix, ok := l.(*ast.IndexExpr); ok {
		mt, isMap := c.info.TypeOf(ix.X).Underlying().(*types.Map)
		if !isMap {
			return c.fail("indexed assignment to a non-map")
		}
		m, _ := c.expr(ix.X)
		if !c.isVarTerm(m) {
			return c.fail("map store into a non-variable")
		}
		key, _ := c.expr(ix.Index)
		v, vt := c.expr(r)
		if _, isPtr := mt.Elem().(*types.Pointer); isPtr && !c.nonNilValue(r) {
			return c.fail("a pointer that may be nil is stored into a map")
		}
		v = c.coerce(v, vt, c.leanType(mt.Elem(), false))
		return "let " + m + " := (mapSet " + m + " " + key + " " + v + ");\n"
	}
	// recv.f = e
	if fn := cFieldOf(c.pkg, l, c.recv); fn != "" {
		if !c.isField(fn) {
			return c.fail("field %s is not modelled", fn)
		}
		ft, _ := c.lookup(c.fieldVar(fn))
		v, vt := c.expr(r)
		return "let " + c.fieldVar(fn) + " := " + c.coerce(v, vt, ft) + ";\n"
	}
	id, ok := l.(*ast.Ident)
	if !ok {
		return c.fail("assignment target")
	}
	v, vt := c.expr(r)
	if id.Name == "_" {
		return ""
	}
	if x.Tok == token.DEFINE && c.info.Defs[id] != nil {
		ty := c.leanType(c.info.TypeOf(id), false)
		if vt != "nil" && vt != "" && !strings.HasPrefix(vt, "(Option ") {
			ty = vt
		}
		c.declare(lv(id.Name), ty)
		return "let " + lv(id.Name) + " := " + c.coerce(v, vt, ty) + ";\n"
	}
	have, ok := c.lookup(lv(id.Name))
	if !ok {
		return c.fail("assignment to %s", id.Name)
	}
	return "let " + lv(id.Name) + " := " + c.coerce(v, vt, have) + ";\n"
}

// nonNilValue: `&S{…}` or a variable that stands for a non-nil pointer (bound from a map of pointers)
func (c *cctx) nonNilValue(e ast.Expr) bool {
	switch x := e.(type) {
	case *ast.ParenExpr:
		return c.nonNilValue(x.X)
	case *ast.UnaryExpr:
		_, ok := x.X.(*ast.CompositeLit)
		return ok && x.Op == token.AND
	case *ast.Ident:
		t, ok := c.lookup(lv(x.Name))
		return ok && !strings.HasPrefix(t, "(Option ")
	}
	return false
}

func cMentions(info *types.Info, n ast.Node, obj types.Object) bool {
	found := false
	if n == nil || obj == nil {
		return false
	}
	ast.Inspect(n, func(m ast.Node) bool {
		if id, ok := m.(*ast.Ident); ok && info.Uses[id] == obj {
			found = true
		}
		return true
	})
	return found
}

// branch: the term of a branch that does not leave: its statements, then the tuple of `vars`
func (c *cctx) valueBranch(body []ast.Stmt, vars []cvar) string {
	n := len(c.scope)
	t := c.stmts(body, func() string { return cTuple(cNames(vars)) })
	c.scope = c.scope[:n]
	return t
}

func (c *cctx) ifStmt(x *ast.IfStmt, rest []ast.Stmt, k func() string) string {
	pre := ""
	cond := x.Cond
	var guarded types.Object // the value variable of a comma-ok read in the init statement
	if x.Init != nil {
		as, ok := x.Init.(*ast.AssignStmt)
		if !ok || as.Tok != token.DEFINE {
			return c.fail("if-init statement")
		}
		if len(as.Lhs) == 2 && len(as.Rhs) == 1 {
			if ix, isIx := as.Rhs[0].(*ast.IndexExpr); isIx {
				// v, ok := m[k]
				mt, isMap := c.info.TypeOf(ix.X).Underlying().(*types.Map)
				if !isMap {
					return c.fail("comma-ok on a non-map")
				}
				m, _ := c.expr(ix.X)
				key, _ := c.expr(ix.Index)
				vid, okid := as.Lhs[0].(*ast.Ident), as.Lhs[1].(*ast.Ident)
				if okid.Name == "_" {
					return c.fail("comma-ok without ok")
				}
				pre += "let " + lv(okid.Name) + " := (mapHas " + m + " " + key + ");\n"
				c.declare(lv(okid.Name), "Bool")
				if vid.Name != "_" {
					et := c.leanType(mt.Elem(), false)
					pre += "let " + lv(vid.Name) + " := (mapGet " + m + " " + key + " " + c.zero(et) + ");\n"
					c.declare(lv(vid.Name), et)
					guarded = c.info.Defs[vid]
					// the condition must be `ok` or `ok && …`, and the else-branch must not look at v
					first := cond
					if be, isBin := cond.(*ast.BinaryExpr); isBin && be.Op == token.LAND {
						first = be.X
					}
					fid, isId := first.(*ast.Ident)
					if !isId || c.info.Uses[fid] != c.info.Defs[okid] {
						return c.fail("comma-ok value not guarded by its ok")
					}
					if x.Else != nil && cMentions(c.info, x.Else, guarded) {
						return c.fail("comma-ok value used in the else-branch")
					}
				}
			} else {
				pre += c.assign(as)
			}
		} else {
			pre += c.assign(as)
		}
	}
	ct, cty := c.expr(cond)
	if cty != "Bool" {
		return c.fail("condition of type %s", cty)
	}
	var elseList []ast.Stmt
	switch e := x.Else.(type) {
	case nil:
	case *ast.BlockStmt:
		elseList = e.List
	case *ast.IfStmt:
		elseList = []ast.Stmt{e}
	default:
		return c.fail("else form")
	}
	if !cMayLeave(x.Body, x.Else) {
		vars := c.assigned(x.Body, x.Else)
		if len(vars) == 0 {
			return pre + c.stmts(rest, k)
		}
		a := c.valueBranch(x.Body.List, vars)
		b := c.valueBranch(elseList, vars)
		return pre + "let " + cTuple(cNames(vars)) + " := (if " + ct + " then (" + a + ") else (" + b + "));\n" + c.stmts(rest, k)
	}
	n := len(c.scope)
	after := func() string { return c.stmts(rest, k) }
	a := c.stmts(x.Body.List, after)
	c.scope = c.scope[:n]
	b := c.stmts(elseList, after)
	c.scope = c.scope[:n]
	return pre + "(if " + ct + " then (" + a + ") else (" + b + "))"
}

func (c *cctx) typeSwitch(x *ast.TypeSwitchStmt, rest []ast.Stmt, k func() string) string {
	id := cSwitchOperand(x)
	tp := cSwitchTypeParam(c.pkg, x)
	if id == nil || tp == "" {
		return c.fail("type switch form")
	}
	v, _ := c.expr(id)
	var strBody, defBody []ast.Stmt
	seenStr := false
	for _, cl := range x.Body.List {
		cc := cl.(*ast.CaseClause)
		if cc.List == nil {
			defBody = cc.Body
			continue
		}
		if len(cc.List) != 1 {
			return c.fail("type switch case with several types")
		}
		b, ok := c.info.TypeOf(cc.List[0]).(*types.Basic)
		if !ok || b.Kind() != types.String || seenStr {
			return c.fail("type switch case %s", c.info.TypeOf(cc.List[0]))
		}
		seenStr = true
		strBody = cc.Body
	}
	obj := c.info.Uses[id]
	withAssert := func(f func() string) string {
		c.assert[obj] = "str_"
		defer delete(c.assert, obj)
		return f()
	}
	head := "(match strOf_" + tp + " " + v + " with\n| some str_ => ("
	if !cMayLeave(x.Body) {
		var nodes []ast.Node
		nodes = append(nodes, x.Body)
		vars := c.assigned(nodes...)
		if len(vars) == 0 {
			return c.stmts(rest, k)
		}
		a := withAssert(func() string { return c.valueBranch(strBody, vars) })
		b := c.valueBranch(defBody, vars)
		return "let " + cTuple(cNames(vars)) + " := " + head + a + ")\n| none => (" + b + "));\n" + c.stmts(rest, k)
	}
	n := len(c.scope)
	after := func() string { return c.stmts(rest, k) }
	a := withAssert(func() string { return c.stmts(strBody, after) })
	c.scope = c.scope[:n]
	b := c.stmts(defBody, after)
	c.scope = c.scope[:n]
	return head + a + ")\n| none => (" + b + "))"
}

// rangeStmt: `for k, v := range m` over a map
func (c *cctx) rangeStmt(x *ast.RangeStmt) string {
	mt, isMap := c.info.TypeOf(x.X).Underlying().(*types.Map)
	if !isMap || x.Tok != token.DEFINE {
		return c.fail("range form")
	}
	if cMayLeave(x.Body) {
		return c.fail("return / break / continue inside a loop")
	}
	m, mty := c.expr(x.X)
	if !c.isVarTerm(m) {
		return c.fail("range over a non-variable")
	}
	kName, vName := "_", "_"
	var kObj types.Object
	if id, ok := x.Key.(*ast.Ident); ok && id.Name != "_" {
		kName = lv(id.Name)
		kObj = c.info.Defs[id]
	}
	if x.Value != nil {
		if id, ok := x.Value.(*ast.Ident); ok && id.Name != "_" {
			vName = lv(id.Name)
		}
	}
	// writes of the ranged map inside the body: only delete / store at the range key
	if !c.rangeWritesOK(x, m, kObj) {
		return c.fail("the ranged map is written inside the loop other than at the range key")
	}
	state := c.assigned(x.Body)
	if len(state) == 0 {
		return ""
	}
	c.nloop++
	loopName := fmt.Sprintf("%s_loop%d", c.name, c.nloop)
	inState := map[string]bool{}
	for _, v := range state {
		inState[v.name] = true
	}
	var fixed []cvar
	for _, v := range c.scope {
		if !inState[v.name] {
			fixed = append(fixed, v)
		}
	}
	n := len(c.scope)
	if kName != "_" {
		c.declare(kName, c.leanType(mt.Key(), false))
	}
	if vName != "_" {
		c.declare(vName, c.leanType(mt.Elem(), false))
	}
	callArgs := func(list string) string {
		var a []string
		a = append(a, c.sigArgsPrefix()...)
		a = append(a, cNames(fixed)...)
		a = append(a, list)
		a = append(a, cNames(state)...)
		return "(" + loopName + " " + strings.Join(a, " ") + ")"
	}
	body := c.stmts(x.Body.List, func() string { return callArgs("rest_") })
	c.scope = c.scope[:n]
	var sb strings.Builder
	fmt.Fprintf(&sb, "/-- the `for %s, %s := range` loop of %s: the entries still to be visited, then the variables the body assigns -/\n", kName, vName, c.name)
	fmt.Fprintf(&sb, "def %s %s", loopName, c.binders())
	for _, v := range fixed {
		fmt.Fprintf(&sb, " (%s : %s)", v.name, v.typ)
	}
	fmt.Fprintf(&sb, " (es_ : %s)", mty)
	for _, v := range state {
		fmt.Fprintf(&sb, " (%s : %s)", v.name, v.typ)
	}
	fmt.Fprintf(&sb, " : %s :=\n  match es_ with\n  | [] => %s\n  | (%s, %s) :: rest_ =>\n%s\n\n", cTupleType(cTypes(state)), cTuple(cNames(state)), kName, vName, cIndent(body, 4))
	c.aux = append(c.aux, sb.String())
	return "let " + cTuple(cNames(state)) + " := " + callArgs(m) + ";\n"
}

// rangeWritesOK: every write of the ranged map (a receiver field or a variable) in the body is at the range key
func (c *cctx) rangeWritesOK(x *ast.RangeStmt, m string, kObj types.Object) bool {
	ok := true
	isKey := func(e ast.Expr) bool {
		id, isId := e.(*ast.Ident)
		return isId && kObj != nil && c.info.Uses[id] == kObj
	}
	sameMap := func(e ast.Expr) bool {
		if fn := cFieldOf(c.pkg, e, c.recv); fn != "" {
			return c.fieldVar(fn) == m
		}
		id, isId := e.(*ast.Ident)
		return isId && lv(id.Name) == m
	}
	field := ""
	if strings.HasPrefix(m, c.recv+"_") && c.recv != "" {
		field = strings.TrimPrefix(m, c.recv+"_")
	}
	ast.Inspect(x.Body, func(n ast.Node) bool {
		switch s := n.(type) {
		case *ast.AssignStmt:
			for _, l := range s.Lhs {
				if sameMap(l) {
					ok = false
				}
				if ix, isIx := l.(*ast.IndexExpr); isIx && sameMap(ix.X) && !isKey(ix.Index) {
					ok = false
				}
				if id, isId := l.(*ast.Ident); isId && kObj != nil && c.info.Uses[id] == kObj {
					ok = false // the range key is assigned
				}
			}
		case *ast.CallExpr:
			if id, isId := s.Fun.(*ast.Ident); isId && id.Name == "delete" && len(s.Args) == 2 && sameMap(s.Args[0]) && !isKey(s.Args[1]) {
				ok = false
			}
			if g := cCallee(c.pkg, s); g != nil && cSums[g] != nil && field != "" {
				for _, mw := range cSummary(g).mapw {
					if mw.field != field {
						continue
					}
					if mw.op == "other" || mw.keyParam < 0 || mw.keyParam >= len(s.Args) || !isKey(s.Args[mw.keyParam]) {
						ok = false
					}
				}
			}
		}
		return true
	})
	return ok
}

func cIndent(s string, n int) string {
	pad := strings.Repeat(" ", n)
	lines := strings.Split(strings.TrimRight(s, "\n"), "\n")
	for i := range lines {
		lines[i] = pad + lines[i]
	}
	return strings.Join(lines, "\n")
}

// binders: the type variables and their instances
func (c *cctx) binders() string {
	sig := c.f.obj.Type().(*types.Signature)
	tps := sig.RecvTypeParams()
	if tps == nil {
		tps = sig.TypeParams()
	}
	var sb strings.Builder
	if tps != nil {
		for i := 0; i < tps.Len(); i++ {
			tp := tps.At(i)
			fmt.Fprintf(&sb, "{%s : Type} ", tp.Obj().Name())
		}
		for i := 0; i < tps.Len(); i++ {
			tp := tps.At(i)
			if types.Comparable(tp) {
				fmt.Fprintf(&sb, "[DecidableEq %s] ", tp.Obj().Name())
			}
			fmt.Fprintf(&sb, "[Inhabited %s] ", tp.Obj().Name())
		}
	}
	var tnames []string
	for t := range c.sum.strOf {
		tnames = append(tnames, t)
	}
	sort.Strings(tnames)
	for _, t := range tnames {
		fmt.Fprintf(&sb, "(strOf_%s : %s → Option (List UInt8)) ", t, t)
	}
	if c.sum.clock {
		sb.WriteString("(clock_ : Int) ")
	}
	return strings.TrimRight(sb.String(), " ")
}

// sigArgsPrefix: the arguments for strOf_… and clock_ in a call of one of this function's own loops
func (c *cctx) sigArgsPrefix() []string {
	var out []string
	var tnames []string
	for t := range c.sum.strOf {
		tnames = append(tnames, t)
	}
	sort.Strings(tnames)
	for _, t := range tnames {
		out = append(out, "strOf_"+t)
	}
	if c.sum.clock {
		out = append(out, "clock_")
	}
	return out
}

func cSignatureText(f *fn) string {
	var sb strings.Builder
	sb.WriteString("func ")
	if f.decl.Recv != nil {
		sb.WriteString("(" + cRecvName(f) + " *" + recvTypeName(f.obj) + ") ")
	}
	sb.WriteString(f.obj.Name())
	sig := f.obj.Type().(*types.Signature)
	var ps []string
	for i := 0; i < sig.Params().Len(); i++ {
		ps = append(ps, sig.Params().At(i).Name())
	}
	sb.WriteString("(" + strings.Join(ps, ", ") + ")")
	return sb.String()
}

func cTranslate(s *csum) *cinfo {
	if r, ok := cDone[s.key]; ok {
		return r
	}
	cSummary(s.f.obj)
	f := s.f
	c := &cctx{f: f, pkg: f.pkg, info: f.pkg.TypesInfo, sum: s, name: s.key, assert: map[types.Object]string{}}
	r := &cinfo{}
	cDone[s.key] = r // (a recursive call finds ok == false)
	if s.rec {
		c.fail("recursion")
	}
	sig := f.obj.Type().(*types.Signature)
	if rv := sig.Recv(); rv != nil {
		if _, isPtr := rv.Type().(*types.Pointer); !isPtr || rv.Name() == "" || rv.Name() == "_" {
			c.fail("receiver form")
		} else {
			c.recv = rv.Name()
			c.fields = cFlatFields(rv.Type(), 0)
			for _, fl := range c.fields {
				c.declare(c.fieldVar(fl.Name()), c.leanType(fl.Type(), false))
			}
			// a receiver that is compared with nil is a pointer that may be nil: outside the fragment
			ast.Inspect(f.decl.Body, func(n ast.Node) bool {
				if be, ok := n.(*ast.BinaryExpr); ok && (be.Op == token.EQL || be.Op == token.NEQ) {
					for _, side := range []ast.Expr{be.X, be.Y} {
						if id, ok := side.(*ast.Ident); ok && id.Name == c.recv {
							c.fail("the receiver is compared with nil")
						}
					}
				}
				return true
			})
		}
	}
	for i := 0; i < sig.Params().Len(); i++ {
		p := sig.Params().At(i)
		if p.Name() == "" || p.Name() == "_" || sig.Variadic() {
			c.fail("unnamed or variadic parameter")
			continue
		}
		c.declare(lv(p.Name()), c.leanType(p.Type(), false))
	}
	for i := 0; i < sig.Results().Len(); i++ {
		rs := sig.Results().At(i)
		if rs.Name() != "" {
			c.fail("named results")
		}
		c.results = append(c.results, c.leanType(rs.Type(), true))
	}
	// names: unique per function, none reserved
	seen := map[string]bool{}
	for _, v := range c.scope {
		seen[v.name] = true
	}
	nparams := sig.Params().Len()
	_ = nparams
	ast.Inspect(f.decl.Body, func(n ast.Node) bool {
		if _, ok := n.(*ast.FuncLit); ok {
			c.fail("function literal")
		}
		id, ok := n.(*ast.Ident)
		if !ok || c.info.Defs[id] == nil || id.Name == "_" {
			return true
		}
		if _, isVar := c.info.Defs[id].(*types.Var); !isVar {
			return true
		}
		switch {
		case strings.HasSuffix(id.Name, "_"):
			c.fail("identifier %s ends in an underscore (reserved for generated names)", id.Name)
		case strings.HasPrefix(id.Name, "strOf_"):
			c.fail("identifier %s is reserved", id.Name)
		case seen[lv(id.Name)]:
			c.fail("two variables named %s", id.Name)
		}
		seen[lv(id.Name)] = true
		return true
	})
	params := append([]cvar{}, c.scope...)
	body := ""
	if c.err == "" {
		body = c.stmts(f.decl.Body.List, func() string {
			if len(c.results) > 0 {
				return c.fail("missing return")
			}
			return c.retTerm(nil)
		})
	}
	if c.err != "" {
		r.status = "unsupported: " + c.err
		fmt.Fprintf(cOut, "-- %s: outside the translated fragment (%s)\n\n", s.key, c.err)
		return r
	}
	var rtypes []string
	rtypes = append(rtypes, c.results...)
	for _, w := range c.wvarNames() {
		t, _ := c.lookup(c.fieldVar(w))
		rtypes = append(rtypes, t)
	}
	for _, a := range c.aux {
		cOut.WriteString(a)
	}
	fmt.Fprintf(cOut, "/-- `%s` -/\ndef %s %s", cSignatureText(f), s.key, c.binders())
	for _, v := range params {
		fmt.Fprintf(cOut, " (%s : %s)", v.name, v.typ)
	}
	fmt.Fprintf(cOut, " : %s :=\n%s\n\n", cTupleType(rtypes), cIndent(body, 2))
	r.ok = true
	r.status = "ok"
	r.results = c.results
	r.wvars = c.wvarNames()
	return r
}

func translateCache() (string, map[string]string) {
	status := map[string]string{}
	cSums = map[*types.Func]*csum{}
	cDone = map[string]*cinfo{}
	cStructs, cConsts = nil, nil
	cStructSeen, cConstSeen = map[string]bool{}, map[string]bool{}
	var body strings.Builder
	cOut = &body
	byKey := map[string]*csum{}
	for _, f := range order {
		if f.pkg.Name != "cache" || !strings.HasSuffix(f.pkg.Fset.File(f.decl.Pos()).Name(), "cache.go") {
			continue
		}
		s := &csum{f: f, key: cKey(f), writes: map[string]bool{}, strOf: map[string]bool{}}
		cSums[f.obj] = s
		byKey[s.key] = s
		cPkg = f.pkg
	}
	for _, name := range cacheFunctions {
		s := byKey[name]
		if s == nil {
			status["cache."+name] = "missing from the source"
			fmt.Fprintf(&body, "-- %s: missing from the source\n\n", name)
			continue
		}
		r := cTranslate(s)
		status["cache."+name] = r.status
	}
	var sb strings.Builder
	sb.WriteString("/-! GENERATED by /verif/translator (frag_cache.go) from /repo's current source — do not edit.\n\n")
	sb.WriteString("Mechanical Go → Lean translation of cache/cache.go (see translator/frag_cache.go for the fragment and its assumed\n")
	sb.WriteString("semantics).  Decisions: `time.Now().UnixNano()` is the parameter `clock_` (ONE instant per call of a method, handed on to\n")
	sb.WriteString("its callees: Set, SetDefault, Update, MapToCache may read the clock several times in Go); the map `items` is an\n")
	sb.WriteString("association list used through mapHas / mapGet / mapSet / mapDel (list order = iteration order); `*Item[V]` in the\n")
	sb.WriteString("map is the struct value (non-nil), as a result it is an `Option`; `error` is a flag; the type switch on `V` is the\n")
	sb.WriteString("parameter `strOf_V`; mutex calls are skipped; `New`, the janitor goroutine and the finalizer are not translated.\n")
	sb.WriteString("A function returns its results followed by the receiver fields it assigns.\n")
	sb.WriteString("`Theorems/GenTieCache.lean` proves each definition equal to `Model/Cache.lean` up to the order of the list. -/\n")
	sb.WriteString("set_option linter.unusedVariables false\nnamespace GoguVerif.Gen.Cache\n\n")
	sb.WriteString(cachePrelude)
	for _, s := range cConsts {
		sb.WriteString(s)
	}
	for _, s := range cStructs {
		sb.WriteString(s)
	}
	sb.WriteString(body.String())
	sb.WriteString("end GoguVerif.Gen.Cache\n")
	return sb.String(), status
}
