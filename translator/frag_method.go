package main

import (
	"go/ast"
	"go/token"
	"go/types"
	"strings"
)

func isSyncType(t types.Type) bool {
	if p, ok := t.(*types.Pointer); ok {
		t = p.Elem()
	}
	n, ok := t.(*types.Named)
	return ok && n.Obj().Pkg() != nil && n.Obj().Pkg().Path() == "sync"
}

// methodSetup: the receiver `name` of struct type `t` (pointer receiver): its fields become parameters.
func (c *fragCtx) methodSetup(name string, t types.Type) {
	st, ok := t.Underlying().(*types.Struct)
	if !ok {
		c.fail("pointer receiver on a non-struct")
		return
	}
	c.method = true
	c.recv = name
	for i := 0; i < st.NumFields(); i++ {
		f := st.Field(i)
		if isSyncType(f.Type()) {
			continue
		}
		fv := fieldVar{goName: f.Name(), lean: name + "_" + f.Name(), typ: c.leanType(f.Type())}
		if c.countDefs(fv.lean) != 0 {
			c.fail("a local is named like the field variable %s", fv.lean)
		}
		c.fields = append(c.fields, fv)
		c.params = append(c.params, fv.lean)
		c.ptypes = append(c.ptypes, fv.typ)
	}
	if len(c.fields) == 0 {
		c.fail("receiver without modelled fields")
	}
	c.mutates = methodMutates(c.f, map[*fn]bool{})
}

// methodMutates: the method assigns a field of its receiver, or calls a method of the receiver that does.
func methodMutates(f *fn, seen map[*fn]bool) bool {
	if seen[f] {
		return false
	}
	seen[f] = true
	if f.decl.Recv == nil || len(f.decl.Recv.List) == 0 || len(f.decl.Recv.List[0].Names) == 0 {
		return false
	}
	recv := f.decl.Recv.List[0].Names[0].Name
	onRecv := func(e ast.Expr) bool {
		for {
			switch x := e.(type) {
			case *ast.IndexExpr:
				e = x.X
				continue
			case *ast.SelectorExpr:
				id, ok := x.X.(*ast.Ident)
				return ok && id.Name == recv
			}
			return false
		}
	}
	mut := false
	ast.Inspect(f.decl.Body, func(n ast.Node) bool {
		switch x := n.(type) {
		case *ast.AssignStmt:
			for _, l := range x.Lhs {
				if onRecv(l) {
					mut = true
				}
			}
		case *ast.IncDecStmt:
			if onRecv(x.X) {
				mut = true
			}
		case *ast.CallExpr:
			if sel, ok := x.Fun.(*ast.SelectorExpr); ok {
				if id, ok := sel.X.(*ast.Ident); ok && id.Name == recv {
					if m, ok := f.pkg.TypesInfo.Uses[sel.Sel].(*types.Func); ok {
						if g := funcs[m.Origin()]; g != nil && methodMutates(g, seen) {
							mut = true
						}
					}
				}
			}
			// a field handed to a function that may write through it (swap(h.data, i, j), copy(h.data, …))
			if id, ok := x.Fun.(*ast.Ident); ok && id.Name != "len" && id.Name != "cap" && id.Name != "append" {
				for _, a := range x.Args {
					if onRecv(a) {
						if _, isSlice := f.pkg.TypesInfo.TypeOf(a).Underlying().(*types.Slice); isSlice {
							mut = true
						}
					}
				}
			}
		}
		return true
	})
	return mut
}

// methodResults fixes the Lean result type of a method.
func (c *fragCtx) methodResults(sig *types.Signature, decl *ast.FuncDecl) {
	for i := 0; i < sig.Results().Len(); i++ {
		r := sig.Results().At(i)
		isErr := r.Type().String() == "error"
		lt := "Bool"
		if !isErr {
			lt = c.leanType(r.Type())
		}
		c.results = append(c.results, lt)
		if r.Name() != "" && r.Name() != "_" {
			c.named = append(c.named, namedRes{goName: r.Name(), typ: lt, isErr: isErr})
		}
	}
	if len(c.named) != 0 && len(c.named) != sig.Results().Len() {
		c.fail("partly named results")
	}
	rt := "Unit"
	if len(c.results) == 1 {
		rt = c.results[0]
	} else if len(c.results) > 1 {
		rt = "(" + strings.Join(c.results, " × ") + ")"
	}
	if c.mutates {
		rt = "(" + rt + " × " + c.fieldsType() + ")"
	}
	c.ret = rt
	// the zero values of named results need the Go types
	_ = decl
}

func (c *fragCtx) fieldsType() string {
	if len(c.fields) == 1 {
		return c.fields[0].typ
	}
	parts := make([]string, len(c.fields))
	for i, f := range c.fields {
		parts[i] = f.typ
	}
	return "(" + strings.Join(parts, " × ") + ")"
}

func (c *fragCtx) fieldsTuple() string {
	if len(c.fields) == 1 {
		return c.fields[0].lean
	}
	parts := make([]string, len(c.fields))
	for i, f := range c.fields {
		parts[i] = f.lean
	}
	return "(" + strings.Join(parts, ", ") + ")"
}

// namedInit: `let` bindings giving the named results their zero values.
func (c *fragCtx) namedInit() string {
	if !c.method || len(c.named) == 0 {
		return ""
	}
	sig := c.f.obj.Type().(*types.Signature)
	out := ""
	for i, n := range c.named {
		if n.isErr {
			out += "let " + lv(n.goName) + " : Bool := false\n"
		} else {
			out += "let " + lv(n.goName) + " : " + n.typ + " := " + c.zero(sig.Results().At(i).Type()) + "\n"
		}
	}
	return out
}

// methodReturn: the value of a return statement in METHOD mode (results as a tuple, paired with the fields when the
// method mutates).
func (c *fragCtx) methodReturn(x *ast.ReturnStmt) string {
	var vals []string
	switch {
	case len(x.Results) == 0:
		if len(c.results) != 0 && len(c.named) == 0 {
			return c.fail("bare return without named results")
		}
		for _, n := range c.named {
			vals = append(vals, lv(n.goName))
		}
	case len(x.Results) == len(c.results):
		sig := c.f.obj.Type().(*types.Signature)
		for i, e := range x.Results {
			if c.results[i] == "Bool" && sig.Results().At(i).Type().String() == "error" {
				if id, ok := e.(*ast.Ident); ok {
					if id.Name == "nil" {
						vals = append(vals, "false")
						continue
					}
					if len(c.named) > i && c.named[i].goName == id.Name {
						vals = append(vals, lv(id.Name))
						continue
					}
				}
				vals = append(vals, "true") // a non-nil error (its text is not modelled; building it has no effect)
				continue
			}
			vals = append(vals, c.rhs(e, sig.Results().At(i).Type()))
		}
	default:
		return c.fail("return with %d results", len(x.Results))
	}
	v := "()"
	if len(vals) == 1 {
		v = vals[0]
	} else if len(vals) > 1 {
		v = "(" + strings.Join(vals, ", ") + ")"
	}
	if c.mutates {
		v = "(" + v + ", " + c.fieldsTuple() + ")"
	}
	return v
}

// fieldOf: `recv.f` for a modelled field f -> its variable.
func (c *fragCtx) fieldOf(e ast.Expr) (string, bool) {
	if !c.method {
		return "", false
	}
	sel, ok := e.(*ast.SelectorExpr)
	if !ok {
		return "", false
	}
	id, ok := sel.X.(*ast.Ident)
	if !ok || id.Name != c.recv {
		return "", false
	}
	for _, f := range c.fields {
		if f.goName == sel.Sel.Name {
			return f.lean, true
		}
	}
	return "", false
}

// varOf: the Lean variable an assignable expression names (a local, or a field of the receiver).
func (c *fragCtx) varOf(e ast.Expr) (string, bool) {
	if id, ok := e.(*ast.Ident); ok {
		return id.Name, true
	}
	return c.fieldOf(e)
}

// isMutexStmt: `recv.mu.Lock()` and friends, as a statement or deferred.
func (c *fragCtx) isMutexCall(e ast.Expr) bool {
	if !c.method {
		return false
	}
	call, ok := e.(*ast.CallExpr)
	if !ok || len(call.Args) != 0 {
		return false
	}
	sel, ok := call.Fun.(*ast.SelectorExpr)
	if !ok {
		return false
	}
	switch sel.Sel.Name {
	case "Lock", "Unlock", "RLock", "RUnlock":
	default:
		return false
	}
	inner, ok := sel.X.(*ast.SelectorExpr)
	if !ok {
		return false
	}
	id, ok := inner.X.(*ast.Ident)
	if !ok || id.Name != c.recv {
		return false
	}
	return isSyncType(c.typeOf(inner))
}

// readerCall: `recv.m(args)` where m is a READER method of the same type.
func (c *fragCtx) readerCall(x *ast.CallExpr, sel *ast.SelectorExpr) (string, bool) {
	if !c.method {
		return "", false
	}
	id, ok := sel.X.(*ast.Ident)
	if !ok || id.Name != c.recv {
		return "", false
	}
	m, ok := c.f.pkg.TypesInfo.Uses[sel.Sel].(*types.Func)
	if !ok {
		return "", false
	}
	key := c.f.pkg.Name + "." + recvTypeName(m.Origin()) + "_" + m.Name()
	if fragByName[key] == nil {
		return c.fail("call of the method %s, which is not in the table", key), true
	}
	r := translateFunc(key, "", nil, c)
	if !strings.HasPrefix(r.status, "ok") || !r.method {
		return c.fail("call of %s, which is %s", r.leanName, r.status), true
	}
	if r.mutates {
		return c.fail("call of the mutating method %s", r.leanName), true
	}
	if x.Ellipsis != token.NoPos {
		return c.fail("variadic method call"), true
	}
	parts := []string{r.leanName}
	for _, f := range c.fields {
		parts = append(parts, f.lean)
	}
	for _, a := range x.Args {
		parts = append(parts, c.expr(a))
	}
	term := strings.Join(parts, " ")
	if r.res {
		return c.partial(term), true
	}
	return "(" + term + ")", true
}
