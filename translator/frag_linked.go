package main

// Go -> Lean translation of queue/lqueue.go and stack/lstack.go (Gen/Linked.lean).  A third, self-contained fragment
// next to frag.go (METHOD mode) and frag_heap.go, for the two containers whose storage is a `*list.DList`.
// `Theorems/GenTieLinked.lean` proves each regenerated definition equal to `Model.LQueue.step` / `Model.LStack.step`.
//
// THE FRAGMENT AND ITS ASSUMED SEMANTICS (part of the trusted base).
//
// LAYER.  The translation stops at the calls into package `list`: a value of type `*list.DList[T]` is the SEQUENCE of
// values the list holds (`List α`, the state type of `Model/DSeq.lean`) and every call `recv.<listfield>.M(args)` is the
// function of `Model/DSeq.lean` named in `lkContract` below.  At this layer that contract is ASSUMED; it is discharged by
// property C19 (`Theorems/C19.lean: dlist_realises_dseq` proves that the pointer-level model of dlist.go realises exactly
// these sequence operations).  The contract is total: the list methods called here do not panic on a list built by
// `InitDList` (the list field is never nil: it is set by the constructor and only ever re-assigned from `InitDList`).
//   list.InitDList(v)      `DSeq.init v`            a fresh one-node list (only as the value assigned to the list field)
//   l.Append(v)            `DSeq.append l v`        the new sequence
//   l.Shift()  l.Pop()     `DSeq.shift l` `DSeq.pop l`   (new sequence, node)
//   l.First()  l.Last()    `DSeq.first l` `DSeq.last l`  a value
//   _, ok := l.Find(v)     `DSeq.find l v`          the flag only: the node result is not in the contract and must be `_`
//   l.Clear()              `DSeq.clear l`           the new sequence
//   l.Val(node), node.Value  the node itself: a `*list.DoubleNode[T]` is represented by the VALUE it carries, which is
//                          all `DSeq.shift` / `DSeq.pop` return (a node is a struct copy; nothing else may be done with it)
// A call that changes the sequence may stand only as a statement of its own or as the whole right-hand side of an
// assignment; the list field may be used only as the receiver of such calls (no second name for the list: no aliasing).
//
// Types.  The single type parameter -> a Lean type variable `α` with `[Inhabited α]` (`default` = the zero value) and
// `[DecidableEq α]` (`==` of a comparable type); Go integer types -> `Int` (unbounded: wrap-around is NOT modelled);
// `bool` -> `Bool`.  `sync.*` fields are not modelled and every `Lock/Unlock/RLock/RUnlock` call on them (also deferred)
// is skipped: what is translated is the body as one goroutine executes it alone (atomicity of the critical sections is
// the business of C01/C02).
//
// METHODS.  The modelled fields of the pointer receiver are variables `<recv>_<field>` and parameters of every method,
// in declaration order.  A method that assigns a field or calls a sequence-changing list method returns
// `(results, fields)` (`()` for no results), any other returns its results.  `error` results do not occur.  Named
// results start at their zero values; a bare `return` returns them.  A CONSTRUCTOR (a function whose body is
// `return &T{field: value, …}`) returns the tuple of the modelled fields.
// Statements: `x := e`, `x = e`, `x += e`, `x -= e`, `x++`, `x--` (x a local or a receiver field), `var x T`, `if` (with
// an optional init statement; the statements after an `if` are translated once per branch), `return`, blocks.  Every
// name is defined at most once in a function (no shadowing).  Expressions: variables, integer/boolean literals,
// `+ - *`, comparisons, `&& || !` (all operands are pure, so evaluation order does not matter), the pure list calls.
// Anything else makes the function "outside the translated fragment": it is omitted with a comment (and reported in
// facts.json); a tie theorem that mentions it then fails to build.  No per-function special case.

import (
	"fmt"
	"go/ast"
	"go/token"
	"go/types"
	"strings"
)

type lkOp struct {
	lean  string
	nargs int
	mut   bool   // hands back the new sequence (first component when there is a result as well)
	res   string // "", "elem", "node", "find"
}

var lkContract = map[string]lkOp{
	"Append": {"DSeq.append", 1, true, ""},
	"Shift":  {"DSeq.shift", 0, true, "node"},
	"Pop":    {"DSeq.pop", 0, true, "node"},
	"First":  {"DSeq.first", 0, false, "elem"},
	"Last":   {"DSeq.last", 0, false, "elem"},
	"Find":   {"DSeq.find", 1, false, "find"},
	"Clear":  {"DSeq.clear", 0, true, ""},
	"Val":    {"", 1, false, "elem"},
}

const lkImplicit = "{α : Type} [Inhabited α] [DecidableEq α]"

type lkCtx struct {
	f       *fn
	info    *types.Info
	err     string
	recv    string
	fields  []fieldVar
	listFld string // Go name of the *list.DList field
	results []string
	named   []string
	mutates bool
	ctor    *types.Struct
	tmp     int
}

func (c *lkCtx) fail(format string, a ...any) string {
	if c.err == "" {
		c.err = fmt.Sprintf(format, a...)
	}
	return "sorryUnsupported"
}

func lkListNamed(t types.Type, name string) bool {
	p, ok := t.(*types.Pointer)
	if !ok {
		return false
	}
	n, ok := p.Elem().(*types.Named)
	if !ok || n.Obj().Pkg() == nil {
		return false
	}
	path := n.Obj().Pkg().Path()
	return n.Obj().Name() == name && (path == "list" || strings.HasSuffix(path, "/list"))
}

func (c *lkCtx) leanType(t types.Type) string {
	switch u := t.(type) {
	case *types.TypeParam:
		return "α"
	case *types.Basic:
		if u.Info()&types.IsInteger != 0 {
			return "Int"
		}
		if u.Kind() == types.Bool {
			return "Bool"
		}
	case *types.Pointer:
		if lkListNamed(t, "DList") {
			return "(List α)"
		}
		if lkListNamed(t, "DoubleNode") {
			return "α"
		}
	}
	return c.fail("type %s", t.String())
}

func (c *lkCtx) zero(t types.Type) string {
	switch u := t.(type) {
	case *types.TypeParam:
		return "(default : α)"
	case *types.Basic:
		if u.Info()&types.IsInteger != 0 {
			return "(0 : Int)"
		}
		if u.Kind() == types.Bool {
			return "false"
		}
	}
	return c.fail("zero value of %s", t.String())
}

func lkTuple(vals []string) string {
	switch len(vals) {
	case 0:
		return "()"
	case 1:
		return vals[0]
	}
	return "(" + strings.Join(vals, ", ") + ")"
}

func lkTypeTuple(ts []string) string {
	switch len(ts) {
	case 0:
		return "Unit"
	case 1:
		return ts[0]
	}
	return "(" + strings.Join(ts, " × ") + ")"
}

func (c *lkCtx) fieldsTuple() string {
	var v []string
	for _, f := range c.fields {
		v = append(v, f.lean)
	}
	return lkTuple(v)
}

func (c *lkCtx) fieldsType() string {
	var v []string
	for _, f := range c.fields {
		v = append(v, f.typ)
	}
	return lkTypeTuple(v)
}

func (c *lkCtx) retTerm(vals []string) string {
	if c.mutates {
		return "(" + lkTuple(vals) + ", " + c.fieldsTuple() + ")"
	}
	return lkTuple(vals)
}

// fieldOf: `recv.f` for a modelled field f.
func (c *lkCtx) fieldOf(e ast.Expr) (fieldVar, bool) {
	sel, ok := e.(*ast.SelectorExpr)
	if !ok || c.recv == "" {
		return fieldVar{}, false
	}
	id, ok := sel.X.(*ast.Ident)
	if !ok || id.Name != c.recv {
		return fieldVar{}, false
	}
	for _, f := range c.fields {
		if f.goName == sel.Sel.Name {
			return f, true
		}
	}
	return fieldVar{}, false
}

// listCall: `recv.<listfield>.M(args)` with M a method of list.DList.
func (c *lkCtx) listCall(e ast.Expr) (*ast.CallExpr, string, bool) {
	call, ok := e.(*ast.CallExpr)
	if !ok {
		return nil, "", false
	}
	sel, ok := call.Fun.(*ast.SelectorExpr)
	if !ok {
		return nil, "", false
	}
	f, ok := c.fieldOf(sel.X)
	if !ok || f.goName != c.listFld {
		return nil, "", false
	}
	m, ok := c.info.Uses[sel.Sel].(*types.Func)
	if !ok || recvTypeName(m.Origin()) != "DList" {
		return nil, "", false
	}
	return call, sel.Sel.Name, true
}

// initCall: `list.InitDList(e)`.
func (c *lkCtx) initCall(e ast.Expr) (ast.Expr, bool) {
	call, ok := e.(*ast.CallExpr)
	if !ok || len(call.Args) != 1 || call.Ellipsis != token.NoPos {
		return nil, false
	}
	var id *ast.Ident
	switch x := call.Fun.(type) {
	case *ast.SelectorExpr:
		id = x.Sel
	case *ast.IndexExpr:
		if s, ok := x.X.(*ast.SelectorExpr); ok {
			id = s.Sel
		}
	}
	if id == nil {
		return nil, false
	}
	m, ok := c.info.Uses[id].(*types.Func)
	if !ok || m.Name() != "InitDList" || m.Pkg() == nil || !(m.Pkg().Path() == "list" || strings.HasSuffix(m.Pkg().Path(), "/list")) {
		return nil, false
	}
	return call.Args[0], true
}

func (c *lkCtx) isMutexCall(e ast.Expr) bool {
	call, ok := e.(*ast.CallExpr)
	if !ok || len(call.Args) != 0 {
		return false
	}
	sel, ok := call.Fun.(*ast.SelectorExpr)
	if !ok {
		return false
	}
	switch sel.Sel.Name {
	case "Lock", "Unlock", "RLock", "RUnlock":
	default:
		return false
	}
	inner, ok := sel.X.(*ast.SelectorExpr)
	if !ok {
		return false
	}
	id, ok := inner.X.(*ast.Ident)
	if !ok || id.Name != c.recv {
		return false
	}
	return isSyncType(c.info.TypeOf(inner))
}

// pureListCall: the term of a list call that does not change the sequence and has one result.
func (c *lkCtx) pureListCall(call *ast.CallExpr, m string) string {
	op, ok := lkContract[m]
	if !ok {
		return c.fail("list method %s is not in the DSeq contract", m)
	}
	if len(call.Args) != op.nargs || call.Ellipsis != token.NoPos {
		return c.fail("list method %s with %d arguments", m, len(call.Args))
	}
	if op.mut {
		return c.fail("the sequence-changing call %s inside an expression", m)
	}
	if op.res == "find" {
		return c.fail("both results of Find used (the node is not in the DSeq contract)")
	}
	lst := c.listVar()
	if m == "Val" {
		if !lkListNamed(c.info.TypeOf(call.Args[0]), "DoubleNode") {
			return c.fail("Val of something that is not a node")
		}
		return c.expr(call.Args[0])
	}
	parts := []string{op.lean, lst}
	for _, a := range call.Args {
		parts = append(parts, c.expr(a))
	}
	return "(" + strings.Join(parts, " ") + ")"
}

func (c *lkCtx) listVar() string {
	for _, f := range c.fields {
		if f.goName == c.listFld {
			return f.lean
		}
	}
	return c.fail("no list field")
}

func (c *lkCtx) isInt(e ast.Expr) bool {
	b, ok := c.info.TypeOf(e).Underlying().(*types.Basic)
	return ok && b.Info()&types.IsInteger != 0
}

func (c *lkCtx) isBool(e ast.Expr) bool {
	b, ok := c.info.TypeOf(e).Underlying().(*types.Basic)
	return ok && b.Info()&types.IsBoolean != 0
}

func (c *lkCtx) expr(e ast.Expr) string {
	switch x := e.(type) {
	case *ast.ParenExpr:
		return c.expr(x.X)
	case *ast.BasicLit:
		if x.Kind == token.INT {
			if tv, ok := c.info.Types[e]; ok && tv.Value != nil {
				return "(" + tv.Value.ExactString() + " : Int)"
			}
		}
		return c.fail("literal %s", x.Value)
	case *ast.Ident:
		switch obj := c.info.Uses[x].(type) {
		case *types.Const:
			if obj.Pkg() == nil && (x.Name == "true" || x.Name == "false") {
				return x.Name
			}
		case *types.Var:
			if x.Name == c.recv {
				return c.fail("the receiver used as a value")
			}
			if lkListNamed(obj.Type(), "DList") {
				return c.fail("a second name for a list")
			}
			if obj.Pkg() != nil && obj.Parent() == obj.Pkg().Scope() {
				return c.fail("package-level variable %s", x.Name)
			}
			c.leanType(obj.Type())
			return lv(x.Name)
		}
		return c.fail("identifier %s", x.Name)
	case *ast.UnaryExpr:
		switch x.Op {
		case token.NOT:
			return "(!" + c.expr(x.X) + ")"
		case token.SUB:
			if c.isInt(x.X) {
				return "(-" + c.expr(x.X) + ")"
			}
		}
		return c.fail("unary %s", x.Op)
	case *ast.BinaryExpr:
		switch x.Op {
		case token.ADD, token.SUB, token.MUL:
			if c.isInt(x.X) && c.isInt(x.Y) {
				return "(" + c.expr(x.X) + " " + x.Op.String() + " " + c.expr(x.Y) + ")"
			}
		case token.LAND:
			return "(" + c.expr(x.X) + " && " + c.expr(x.Y) + ")"
		case token.LOR:
			return "(" + c.expr(x.X) + " || " + c.expr(x.Y) + ")"
		case token.EQL, token.NEQ:
			_, tp := c.info.TypeOf(x.X).(*types.TypeParam)
			if tp || c.isInt(x.X) || c.isBool(x.X) {
				t := "decide (" + c.expr(x.X) + " = " + c.expr(x.Y) + ")"
				if x.Op == token.NEQ {
					return "(!" + t + ")"
				}
				return "(" + t + ")"
			}
		case token.LSS, token.LEQ, token.GTR, token.GEQ:
			if c.isInt(x.X) && c.isInt(x.Y) {
				op := map[token.Token]string{token.LSS: "<", token.LEQ: "≤", token.GTR: ">", token.GEQ: "≥"}[x.Op]
				return "(decide (" + c.expr(x.X) + " " + op + " " + c.expr(x.Y) + "))"
			}
		}
		return c.fail("binary %s", x.Op)
	case *ast.SelectorExpr:
		if f, ok := c.fieldOf(x); ok {
			if f.goName == c.listFld {
				return c.fail("the list field used other than as the receiver of a list call")
			}
			return f.lean
		}
		if x.Sel.Name == "Value" && lkListNamed(c.info.TypeOf(x.X), "DoubleNode") {
			return c.expr(x.X)
		}
		return c.fail("selector .%s", x.Sel.Name)
	case *ast.CallExpr:
		if call, m, ok := c.listCall(x); ok {
			return c.pureListCall(call, m)
		}
		return c.fail("call outside the fragment")
	}
	return c.fail("expression %T", e)
}

// target: the Lean variable an assignable expression names.
func (c *lkCtx) target(e ast.Expr) (string, bool) {
	if id, ok := e.(*ast.Ident); ok {
		if id.Name == "_" {
			return "_", true
		}
		if id.Name == c.recv {
			return "", false
		}
		return lv(id.Name), true
	}
	if f, ok := c.fieldOf(e); ok && f.goName != c.listFld {
		return f.lean, true
	}
	return "", false
}

// mutCall: the bindings of a sequence-changing list call; `into` receives the node result ("" / "_": dropped).
func (c *lkCtx) mutCall(call *ast.CallExpr, m string, into string) string {
	op, ok := lkContract[m]
	if !ok {
		return c.fail("list method %s is not in the DSeq contract", m)
	}
	if len(call.Args) != op.nargs || call.Ellipsis != token.NoPos {
		return c.fail("list method %s with %d arguments", m, len(call.Args))
	}
	lst := c.listVar()
	parts := []string{op.lean, lst}
	for _, a := range call.Args {
		parts = append(parts, c.expr(a))
	}
	term := strings.Join(parts, " ")
	if op.res == "" {
		if into != "" && into != "_" {
			return c.fail("%s has no result", m)
		}
		return "let " + lst + " := " + term + "\n"
	}
	c.tmp++
	t := fmt.Sprintf("r%d_", c.tmp)
	out := "let " + t + " := " + term + "\nlet " + lst + " := " + t + ".1\n"
	if into != "" && into != "_" {
		out += "let " + into + " := " + t + ".2\n"
	}
	return out
}

func (c *lkCtx) assign(x *ast.AssignStmt) string {
	// _, ok := recv.list.Find(v)
	if len(x.Lhs) == 2 && len(x.Rhs) == 1 {
		if call, m, ok := c.listCall(x.Rhs[0]); ok && m == "Find" && len(call.Args) == 1 && (x.Tok == token.DEFINE || x.Tok == token.ASSIGN) {
			if id, ok := x.Lhs[0].(*ast.Ident); !ok || id.Name != "_" {
				return c.fail("the node result of Find is used (not in the DSeq contract)")
			}
			t, ok := c.target(x.Lhs[1])
			if !ok {
				return c.fail("assignment target")
			}
			if t == "_" {
				return ""
			}
			return "let " + t + " := " + lkContract["Find"].lean + " " + c.listVar() + " " + c.expr(call.Args[0]) + "\n"
		}
	}
	if len(x.Lhs) != 1 || len(x.Rhs) != 1 {
		return c.fail("assignment with %d targets", len(x.Lhs))
	}
	// recv.list = list.InitDList(e)
	if f, ok := c.fieldOf(x.Lhs[0]); ok && f.goName == c.listFld {
		if arg, ok := c.initCall(x.Rhs[0]); ok && x.Tok == token.ASSIGN {
			return "let " + f.lean + " := DSeq.init " + c.expr(arg) + "\n"
		}
		return c.fail("the list field assigned something other than InitDList(…)")
	}
	t, ok := c.target(x.Lhs[0])
	if !ok {
		return c.fail("assignment target")
	}
	if call, m, ok := c.listCall(x.Rhs[0]); ok && lkContract[m].mut {
		if x.Tok != token.DEFINE && x.Tok != token.ASSIGN {
			return c.fail("assignment %s of a list call", x.Tok)
		}
		return c.mutCall(call, m, t)
	}
	switch x.Tok {
	case token.DEFINE, token.ASSIGN:
		c.leanType(c.info.TypeOf(x.Lhs[0]))
		if lkListNamed(c.info.TypeOf(x.Rhs[0]), "DList") {
			return c.fail("a second name for a list")
		}
		if t == "_" {
			c.expr(x.Rhs[0])
			return ""
		}
		return "let " + t + " := " + c.expr(x.Rhs[0]) + "\n"
	case token.ADD_ASSIGN, token.SUB_ASSIGN:
		if !c.isInt(x.Lhs[0]) || t == "_" {
			return c.fail("assignment %s", x.Tok)
		}
		op := "+"
		if x.Tok == token.SUB_ASSIGN {
			op = "-"
		}
		return "let " + t + " := (" + t + " " + op + " " + c.expr(x.Rhs[0]) + ")\n"
	}
	return c.fail("assignment %s", x.Tok)
}

// ctorReturn: `return &T{field: value, …}` — the tuple of the modelled fields.
func (c *lkCtx) ctorReturn(x *ast.ReturnStmt) string {
	if len(x.Results) != 1 {
		return c.fail("constructor return")
	}
	u, ok := x.Results[0].(*ast.UnaryExpr)
	if !ok || u.Op != token.AND {
		return c.fail("constructor does not return &T{…}")
	}
	lit, ok := u.X.(*ast.CompositeLit)
	if !ok {
		return c.fail("constructor does not return &T{…}")
	}
	given := map[string]ast.Expr{}
	for _, el := range lit.Elts {
		kv, ok := el.(*ast.KeyValueExpr)
		if !ok {
			return c.fail("composite literal without field names")
		}
		k, ok := kv.Key.(*ast.Ident)
		if !ok {
			return c.fail("composite literal key")
		}
		given[k.Name] = kv.Value
	}
	var vals []string
	for i := 0; i < c.ctor.NumFields(); i++ {
		fl := c.ctor.Field(i)
		if isSyncType(fl.Type()) {
			continue
		}
		v, ok := given[fl.Name()]
		switch {
		case lkListNamed(fl.Type(), "DList"):
			if !ok {
				return c.fail("constructor leaves the list nil")
			}
			arg, isInit := c.initCall(v)
			if !isInit {
				return c.fail("the list field built by something other than InitDList(…)")
			}
			vals = append(vals, "(DSeq.init "+c.expr(arg)+")")
		case ok:
			vals = append(vals, c.expr(v))
		default:
			vals = append(vals, c.zero(fl.Type()))
		}
	}
	return lkTuple(vals)
}

func (c *lkCtx) ret(x *ast.ReturnStmt) string {
	if c.ctor != nil {
		return c.ctorReturn(x)
	}
	var vals []string
	switch {
	case len(x.Results) == 0:
		if len(c.results) != 0 && len(c.named) == 0 {
			return c.fail("bare return without named results")
		}
		for _, n := range c.named {
			vals = append(vals, lv(n))
		}
	case len(x.Results) == len(c.results):
		for _, e := range x.Results {
			if call, m, ok := c.listCall(e); ok && lkContract[m].mut {
				_ = call
				return c.fail("the sequence-changing call %s inside a return", m)
			}
			vals = append(vals, c.expr(e))
		}
	default:
		return c.fail("return with %d results", len(x.Results))
	}
	return c.retTerm(vals)
}

func lkConcat(a, b []ast.Stmt) []ast.Stmt {
	out := make([]ast.Stmt, 0, len(a)+len(b))
	out = append(out, a...)
	return append(out, b...)
}

// stmts: the term of a statement list (control reaching its end = reaching the end of the function).
func (c *lkCtx) stmts(list []ast.Stmt) string {
	if c.err != "" {
		return "sorryUnsupported"
	}
	if len(list) == 0 {
		if len(c.results) != 0 || c.ctor != nil {
			return c.fail("control reaches the end of a function with results")
		}
		return c.retTerm(nil)
	}
	s, rest := list[0], list[1:]
	switch x := s.(type) {
	case *ast.EmptyStmt:
		return c.stmts(rest)
	case *ast.ExprStmt:
		if c.isMutexCall(x.X) {
			return c.stmts(rest)
		}
		if call, m, ok := c.listCall(x.X); ok {
			if op, known := lkContract[m]; known && !op.mut {
				c.pureListCall(call, m) // a pure call whose value is dropped
				return c.stmts(rest)
			}
			return c.mutCall(call, m, "") + c.stmts(rest)
		}
		return c.fail("expression statement outside the fragment")
	case *ast.DeferStmt:
		if c.isMutexCall(x.Call) {
			return c.stmts(rest)
		}
		return c.fail("defer of something other than an unlock")
	case *ast.DeclStmt:
		gd, ok := x.Decl.(*ast.GenDecl)
		if !ok || gd.Tok != token.VAR {
			return c.fail("declaration")
		}
		out := ""
		for _, sp := range gd.Specs {
			vs := sp.(*ast.ValueSpec)
			if len(vs.Values) != 0 && len(vs.Values) != len(vs.Names) {
				return c.fail("var with a multi-valued initialiser")
			}
			for i, n := range vs.Names {
				t := c.info.TypeOf(n)
				if lkListNamed(t, "DList") || lkListNamed(t, "DoubleNode") {
					return c.fail("a declared list or node variable")
				}
				v := ""
				if len(vs.Values) != 0 {
					v = c.expr(vs.Values[i])
				} else {
					v = c.zero(t)
				}
				if n.Name != "_" {
					out += "let " + lv(n.Name) + " : " + c.leanType(t) + " := " + v + "\n"
				}
			}
		}
		return out + c.stmts(rest)
	case *ast.AssignStmt:
		return c.assign(x) + c.stmts(rest)
	case *ast.IncDecStmt:
		t, ok := c.target(x.X)
		if !ok || t == "_" || !c.isInt(x.X) {
			return c.fail("++/-- target")
		}
		op := "+"
		if x.Tok == token.DEC {
			op = "-"
		}
		return "let " + t + " := (" + t + " " + op + " (1 : Int))\n" + c.stmts(rest)
	case *ast.ReturnStmt:
		return c.ret(x)
	case *ast.BlockStmt:
		return c.stmts(lkConcat(x.List, rest))
	case *ast.IfStmt:
		pre := ""
		if x.Init != nil {
			switch in := x.Init.(type) {
			case *ast.AssignStmt:
				pre = c.assign(in)
			default:
				return c.fail("if-init statement")
			}
		}
		if !c.isBool(x.Cond) {
			return c.fail("condition")
		}
		cond := c.expr(x.Cond)
		var els []ast.Stmt
		switch e := x.Else.(type) {
		case nil:
		case *ast.BlockStmt:
			els = e.List
		case *ast.IfStmt:
			els = []ast.Stmt{e}
		default:
			return c.fail("else form")
		}
		T := c.stmts(lkConcat(x.Body.List, rest))
		E := c.stmts(lkConcat(els, rest))
		return pre + "if " + cond + " then\n" + indent(T, 2) + "\nelse\n" + indent(E, 2)
	}
	return c.fail("statement %T", s)
}

// lkMutates: the body assigns a receiver field or calls a sequence-changing list method on the list field.
func (c *lkCtx) lkMutates() bool {
	mut := false
	ast.Inspect(c.f.decl.Body, func(n ast.Node) bool {
		switch x := n.(type) {
		case *ast.AssignStmt:
			for _, l := range x.Lhs {
				if _, ok := c.fieldOf(l); ok {
					mut = true
				}
			}
		case *ast.IncDecStmt:
			if _, ok := c.fieldOf(x.X); ok {
				mut = true
			}
		case *ast.CallExpr:
			if _, m, ok := c.listCall(x); ok {
				if op, known := lkContract[m]; !known || op.mut {
					mut = true
				}
			}
		}
		return true
	})
	return mut
}

func lkStruct(t types.Type) *types.Struct {
	if p, ok := t.(*types.Pointer); ok {
		t = p.Elem()
	}
	st, _ := t.Underlying().(*types.Struct)
	return st
}

func translateLinkedFunc(key string, f *fn, sb *strings.Builder) string {
	c := &lkCtx{f: f, info: f.pkg.TypesInfo}
	sig := f.obj.Type().(*types.Signature)
	var binders []string
	ntp := 0
	if sig.TypeParams() != nil {
		ntp += sig.TypeParams().Len()
	}
	if sig.RecvTypeParams() != nil {
		ntp += sig.RecvTypeParams().Len()
	}
	if ntp != 1 {
		c.fail("%d type parameters", ntp)
	}
	setFields := func(st *types.Struct, prefix string) {
		for i := 0; i < st.NumFields(); i++ {
			fl := st.Field(i)
			if isSyncType(fl.Type()) {
				continue
			}
			if lkListNamed(fl.Type(), "DList") {
				if c.listFld != "" {
					c.fail("two list fields")
				}
				c.listFld = fl.Name()
			}
			c.fields = append(c.fields, fieldVar{goName: fl.Name(), lean: prefix + "_" + fl.Name(), typ: c.leanType(fl.Type())})
		}
		if c.listFld == "" {
			c.fail("no *list.DList field")
		}
	}
	if r := sig.Recv(); r != nil {
		st := lkStruct(r.Type())
		if _, isPtr := r.Type().(*types.Pointer); !isPtr || st == nil || r.Name() == "" || r.Name() == "_" {
			c.fail("receiver form")
		} else {
			c.recv = r.Name()
			setFields(st, r.Name())
			for _, fv := range c.fields {
				binders = append(binders, "("+fv.lean+" : "+fv.typ+")")
			}
		}
	} else {
		// constructor: one result, a pointer to a struct with a list field
		if sig.Results().Len() != 1 || lkStruct(sig.Results().At(0).Type()) == nil {
			c.fail("neither a method nor a constructor")
		} else if _, isPtr := sig.Results().At(0).Type().(*types.Pointer); !isPtr {
			c.fail("constructor result is not a pointer")
		} else {
			c.ctor = lkStruct(sig.Results().At(0).Type())
			setFields(c.ctor, "new")
			if len(f.decl.Body.List) != 1 {
				c.fail("constructor body is not a single return")
			}
		}
	}
	for i := 0; i < sig.Params().Len(); i++ {
		p := sig.Params().At(i)
		if p.Name() == "" || p.Name() == "_" || (sig.Variadic() && i == sig.Params().Len()-1) {
			c.fail("parameter form")
			continue
		}
		if lkListNamed(p.Type(), "DList") || lkListNamed(p.Type(), "DoubleNode") {
			c.fail("a list or node parameter")
		}
		binders = append(binders, "("+lv(p.Name())+" : "+c.leanType(p.Type())+")")
	}
	pre := ""
	if c.ctor == nil {
		for i := 0; i < sig.Results().Len(); i++ {
			r := sig.Results().At(i)
			if lkListNamed(r.Type(), "DList") || lkListNamed(r.Type(), "DoubleNode") {
				c.fail("a list or node result")
			}
			c.results = append(c.results, c.leanType(r.Type()))
			if r.Name() != "" && r.Name() != "_" {
				c.named = append(c.named, r.Name())
				pre += "let " + lv(r.Name()) + " : " + c.leanType(r.Type()) + " := " + c.zero(r.Type()) + "\n"
			}
		}
		if len(c.named) != 0 && len(c.named) != len(c.results) {
			c.fail("partly named results")
		}
	}
	// every name is defined once; generated names are reserved
	defs := map[string]int{}
	ast.Inspect(f.decl, func(n ast.Node) bool {
		if id, ok := n.(*ast.Ident); ok && id.Name != "_" && c.info.Defs[id] != nil {
			if _, isVar := c.info.Defs[id].(*types.Var); isVar {
				defs[id.Name]++
			}
		}
		switch n.(type) {
		case *ast.FuncLit, *ast.GoStmt, *ast.ForStmt, *ast.RangeStmt, *ast.SwitchStmt, *ast.TypeSwitchStmt, *ast.SelectStmt,
			*ast.LabeledStmt, *ast.BranchStmt, *ast.SendStmt:
			c.fail("statement or expression form %T", n)
		}
		return true
	})
	for n, k := range defs {
		_ = n
		if k > 1 {
			c.fail("a name is defined twice (shadowing)")
		}
	}
	for n := range defs {
		if len(n) > 1 && strings.HasSuffix(n, "_") {
			c.fail("an identifier ends in an underscore (reserved for generated names)")
		}
		if n == "DSeq" || n == "decide" || n == "α" || n == "sorryUnsupported" {
			c.fail("an identifier is reserved")
		}
		for _, fv := range c.fields {
			if n == fv.lean {
				c.fail("a local is named like a field variable")
			}
		}
	}
	body := ""
	rt := ""
	if c.err == "" {
		c.mutates = c.ctor == nil && c.lkMutates()
		body = pre + c.stmts(f.decl.Body.List)
		rt = lkTypeTuple(c.results)
		if c.ctor != nil {
			rt = c.fieldsType()
		} else if c.mutates {
			rt = "(" + rt + " × " + c.fieldsType() + ")"
		}
	}
	if c.err != "" {
		fmt.Fprintf(sb, "-- %s: outside the translated fragment (%s)\n\n", key, c.err)
		return "unsupported: " + c.err
	}
	fmt.Fprintf(sb, "def %s %s %s : %s :=\n%s\n\n", key, lkImplicit, strings.Join(binders, " "), rt, indent(body, 2))
	if c.ctor != nil {
		return "ok (constructor)"
	}
	if c.mutates {
		return "ok (mutating)"
	}
	return "ok (reader)"
}

// linkedFunctions lists what is regenerated, by key `pkg.Type_method` / `pkg.function`, and the file it must come from.
var linkedFunctions = []struct{ key, file string }{
	{"queue.NewLinked", "lqueue.go"}, {"queue.LQueue_Enqueue", "lqueue.go"}, {"queue.LQueue_Dequeue", "lqueue.go"},
	{"queue.LQueue_Peek", "lqueue.go"}, {"queue.LQueue_Search", "lqueue.go"}, {"queue.LQueue_Size", "lqueue.go"},
	{"queue.LQueue_Clear", "lqueue.go"},
	{"stack.NewLinked", "lstack.go"}, {"stack.LStack_Push", "lstack.go"}, {"stack.LStack_Pop", "lstack.go"},
	{"stack.LStack_Peek", "lstack.go"}, {"stack.LStack_Search", "lstack.go"}, {"stack.LStack_Size", "lstack.go"},
}

func translateLinked() (string, map[string]string) {
	status := map[string]string{}
	var sb strings.Builder
	sb.WriteString("import GoguVerif.Model.DSeq\n")
	sb.WriteString("/-! GENERATED by /verif/translator (frag_linked.go) from /repo's current source — do not edit.\n\n")
	sb.WriteString("Mechanical Go → Lean translation of queue/lqueue.go and stack/lstack.go (see translator/frag_linked.go for the\n")
	sb.WriteString("fragment).  The fields of the pointer receiver are variables; the `*list.DList` field is the SEQUENCE the list\n")
	sb.WriteString("holds (`List α`, the state type of `Model/DSeq.lean`) and every call `recv.list.M(args)` is the function of\n")
	sb.WriteString("`Model/DSeq.lean` for M — at this layer an ASSUMED contract of package `list`, discharged by C19\n")
	sb.WriteString("(`Theorems/C19.lean: dlist_realises_dseq`); a node is the value it carries; the mutex calls are skipped.  A method\n")
	sb.WriteString("that changes a field returns `(results, fields)`.  `Theorems/GenTieLinked.lean` proves each definition equal to\n")
	sb.WriteString("`Model.LQueue.step` / `Model.LStack.step`. -/\n")
	sb.WriteString("set_option linter.unusedVariables false\nnamespace GoguVerif.Gen.Linked\nopen GoguVerif.Model\n\n")
	sb.WriteString("/-- placeholder that makes an unsupported function's tie theorem fail to build -/\nopaque sorryUnsupported {α : Type} [Inhabited α] : α\n\n")
	byKey := map[string]*fn{}
	for _, f := range order {
		key := f.pkg.Name + "." + f.obj.Name()
		if f.decl.Recv != nil {
			key = f.pkg.Name + "." + recvTypeName(f.obj) + "_" + f.obj.Name()
		}
		byKey[key+"@"+lkBaseName(f.pkg.Fset.File(f.decl.Pos()).Name())] = f
	}
	for _, lf := range linkedFunctions {
		f := byKey[lf.key+"@"+lf.file]
		if f == nil {
			status[lf.key] = "missing from the source"
			fmt.Fprintf(&sb, "-- %s: missing from the source\n\n", lf.key)
			continue
		}
		status[lf.key] = translateLinkedFunc(lf.key, f, &sb)
	}
	sb.WriteString("end GoguVerif.Gen.Linked\n")
	return sb.String(), status
}

func lkBaseName(p string) string {
	if i := strings.LastIndexAny(p, "/\\"); i >= 0 {
		return p[i+1:]
	}
	return p
}
