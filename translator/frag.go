package main

// Go -> Lean translation of a small fragment of Go, used to REGENERATE the Lean model of simple pure
// helpers from /repo's source on every run (Gen/Funcs.lean).  `Theorems/GenTie.lean` proves that each
// regenerated definition equals the hand-written model the property theorems are about, so for these
// functions the tie between model and code is the translator itself (for every input), not sampling.
//
// Fragment: functions over generic numbers / comparable values (-> Int), bool, slices (-> List) and
// function parameters; statements `var x T`, `x := e`, `x = e`, `x += e`, `return e`, `if` (with the shapes
// listed at trIf), `for k, v := range s`, the canonical `for i := 0; i < len(s); i++` reading only `s[i]`,
// `res = append(res, e)`; `s[0]` only under a `len(s) > 0` / after a `len(s) == 0 { return }` guard.
// Anything else makes the function "unsupported" (reported, and its tie theorem then fails to build).

import (
	"fmt"
	"go/ast"
	"go/token"
	"go/types"
	"sort"
	"strings"
)

type fragCtx struct {
	f         *fn
	name      string
	aux       []string // auxiliary loop definitions
	nloops    int
	params    []string             // lean names of the parameters, in order
	ptypes    []string             // lean types of the parameters
	ret       string               // lean return type
	heads     map[string]string    // slice var -> lean name of its known head element (guarded s[0])
	loopVar   map[string][2]string // index var -> (slice, element name) inside a canonical indexed loop
	inLoopRet string               // non-empty inside a loop body with returns: constructor wrapping a returned value
	err       string
}

var leanReserved = map[string]bool{"end": true, "fun": true, "at": true, "from": true, "in": true, "then": true,
	"do": true, "open": true, "local": true, "show": true, "have": true, "match": true, "with": true, "if": true,
	"else": true, "let": true, "def": true, "instance": true, "structure": true, "where": true, "by": true,
	"type": true, "Type": true, "max": true, "min": true, "default": true, "set": true}

func lv(n string) string {
	if leanReserved[n] {
		return n + "_"
	}
	return n
}

func (c *fragCtx) fail(format string, a ...any) string {
	if c.err == "" {
		c.err = fmt.Sprintf(format, a...)
	}
	return "sorryUnsupported"
}

func (c *fragCtx) leanType(t types.Type) string {
	switch x := t.(type) {
	case *types.TypeParam:
		return "Int"
	case *types.Basic:
		switch {
		case x.Info()&types.IsBoolean != 0:
			return "Bool"
		case x.Info()&types.IsInteger != 0:
			return "Int"
		}
	case *types.Slice:
		return "(List " + c.leanType(x.Elem()) + ")"
	case *types.Array:
		if x.Len() == 2 {
			e := c.leanType(x.Elem())
			return "(" + e + " × " + e + ")"
		}
	case *types.Signature:
		var parts []string
		for i := 0; i < x.Params().Len(); i++ {
			parts = append(parts, c.leanType(x.Params().At(i).Type()))
		}
		if x.Results().Len() != 1 {
			return c.fail("callback with %d results", x.Results().Len())
		}
		parts = append(parts, c.leanType(x.Results().At(0).Type()))
		return "(" + strings.Join(parts, " → ") + ")"
	case *types.Named:
		return c.leanType(x.Underlying())
	case *types.Alias:
		return c.leanType(types.Unalias(x))
	}
	return c.fail("unsupported type %s", t)
}

func (c *fragCtx) zero(t types.Type) string {
	switch c.leanType(t) {
	case "Int":
		return "(0 : Int)"
	case "Bool":
		return "false"
	}
	if strings.HasPrefix(c.leanType(t), "(List") {
		return "([] : " + c.leanType(t) + ")"
	}
	if strings.Contains(c.leanType(t), "×") {
		return "(([], []) : " + c.leanType(t) + ")"
	}
	return c.fail("zero value of %s", t)
}

func (c *fragCtx) typeOf(e ast.Expr) types.Type { return c.f.pkg.TypesInfo.TypeOf(e) }

func (c *fragCtx) isIntLike(e ast.Expr) bool {
	t := c.typeOf(e)
	if t == nil {
		return false
	}
	return c.leanType(t) == "Int"
}

// expr translates an expression.
func (c *fragCtx) expr(e ast.Expr) string {
	switch x := e.(type) {
	case *ast.ParenExpr:
		return c.expr(x.X)
	case *ast.Ident:
		switch x.Name {
		case "true", "false":
			return x.Name
		}
		return lv(x.Name)
	case *ast.BasicLit:
		if x.Kind == token.INT {
			return "(" + x.Value + " : Int)"
		}
		return c.fail("literal %s", x.Value)
	case *ast.UnaryExpr:
		switch x.Op {
		case token.SUB:
			return "(-" + c.expr(x.X) + ")"
		case token.NOT:
			return "(!" + c.expr(x.X) + ")"
		}
		return c.fail("unary %s", x.Op)
	case *ast.BinaryExpr:
		a, b := c.expr(x.X), c.expr(x.Y)
		switch x.Op {
		case token.ADD:
			return "(" + a + " + " + b + ")"
		case token.SUB:
			return "(" + a + " - " + b + ")"
		case token.MUL:
			return "(" + a + " * " + b + ")"
		case token.LSS:
			return "decide (" + a + " < " + b + ")"
		case token.LEQ:
			return "decide (" + a + " ≤ " + b + ")"
		case token.GTR:
			return "decide (" + a + " > " + b + ")"
		case token.GEQ:
			return "decide (" + a + " ≥ " + b + ")"
		case token.EQL:
			if c.isIntLike(x.X) {
				return "decide (" + a + " = " + b + ")"
			}
			return "(" + a + " == " + b + ")"
		case token.NEQ:
			if c.isIntLike(x.X) {
				return "decide (" + a + " ≠ " + b + ")"
			}
			return "(" + a + " != " + b + ")"
		case token.LAND:
			return "(" + a + " && " + b + ")"
		case token.LOR:
			return "(" + a + " || " + b + ")"
		}
		return c.fail("binary %s", x.Op)
	case *ast.CallExpr:
		if id, ok := x.Fun.(*ast.Ident); ok {
			if id.Name == "len" && len(x.Args) == 1 {
				return "(" + c.expr(x.Args[0]) + ".length : Int)"
			}
			// a call of a function-typed parameter
			if obj := c.f.pkg.TypesInfo.Uses[id]; obj != nil {
				if _, isVar := obj.(*types.Var); isVar {
					parts := []string{lv(id.Name)}
					for _, a := range x.Args {
						parts = append(parts, c.expr(a))
					}
					return "(" + strings.Join(parts, " ") + ")"
				}
			}
			return c.fail("call of %s", id.Name)
		}
		return c.fail("call")
	case *ast.IndexExpr:
		// s[i] inside the canonical indexed loop, or s[0] under a length guard
		if sid, ok := x.X.(*ast.Ident); ok {
			if iid, ok := x.Index.(*ast.Ident); ok {
				if lvv, ok := c.loopVar[iid.Name]; ok && lvv[0] == sid.Name {
					return lvv[1]
				}
			}
			if lit, ok := x.Index.(*ast.BasicLit); ok && lit.Value == "0" {
				if h, ok := c.heads[sid.Name]; ok {
					return h
				}
			}
		}
		return c.fail("index expression (unguarded)")
	}
	return c.fail("expression %T", e)
}

// assigned collects the variables (declared outside) assigned in stmts; hasRet reports a return inside.
func assignedIn(stmts []ast.Stmt) (vars []string, hasRet bool) {
	seen := map[string]bool{}
	declared := map[string]bool{}
	var walk func(n ast.Node) bool
	walk = func(n ast.Node) bool {
		switch x := n.(type) {
		case *ast.ReturnStmt:
			hasRet = true
		case *ast.AssignStmt:
			for _, l := range x.Lhs {
				if id, ok := l.(*ast.Ident); ok && id.Name != "_" {
					if x.Tok == token.DEFINE {
						declared[id.Name] = true
					} else if !declared[id.Name] && !seen[id.Name] {
						seen[id.Name] = true
						vars = append(vars, id.Name)
					}
				}
				if ie, ok := l.(*ast.IndexExpr); ok { // result[0] = append(result[0], v)
					if id, ok := ie.X.(*ast.Ident); ok && !declared[id.Name] && !seen[id.Name] {
						seen[id.Name] = true
						vars = append(vars, id.Name)
					}
				}
			}
		case *ast.IncDecStmt:
			if id, ok := x.X.(*ast.Ident); ok && !declared[id.Name] && !seen[id.Name] {
				seen[id.Name] = true
				vars = append(vars, id.Name)
			}
		case *ast.DeclStmt:
			if gd, ok := x.Decl.(*ast.GenDecl); ok {
				for _, sp := range gd.Specs {
					if vs, ok := sp.(*ast.ValueSpec); ok {
						for _, n := range vs.Names {
							declared[n.Name] = true
						}
					}
				}
			}
		}
		return true
	}
	for _, s := range stmts {
		ast.Inspect(s, walk)
	}
	sort.Strings(vars)
	return
}

func alwaysReturns(stmts []ast.Stmt) bool {
	if len(stmts) == 0 {
		return false
	}
	switch x := stmts[len(stmts)-1].(type) {
	case *ast.ReturnStmt:
		return true
	case *ast.IfStmt:
		if x.Else == nil {
			return false
		}
		var els []ast.Stmt
		switch e := x.Else.(type) {
		case *ast.BlockStmt:
			els = e.List
		case *ast.IfStmt:
			els = []ast.Stmt{e}
		}
		return alwaysReturns(x.Body.List) && alwaysReturns(els)
	}
	return false
}

func tuple(vars []string) string {
	if len(vars) == 0 {
		return "()"
	}
	if len(vars) == 1 {
		return lv(vars[0])
	}
	parts := make([]string, len(vars))
	for i, v := range vars {
		parts[i] = lv(v)
	}
	return "(" + strings.Join(parts, ", ") + ")"
}

// lenGuard recognises `len(s) > 0` (kind 1) and `len(s) == 0` (kind 2).
func lenGuard(cond ast.Expr) (slice string, kind int) {
	be, ok := cond.(*ast.BinaryExpr)
	if !ok {
		return "", 0
	}
	call, ok := be.X.(*ast.CallExpr)
	if !ok {
		return "", 0
	}
	id, ok := call.Fun.(*ast.Ident)
	if !ok || id.Name != "len" || len(call.Args) != 1 {
		return "", 0
	}
	sid, ok := call.Args[0].(*ast.Ident)
	lit, ok2 := be.Y.(*ast.BasicLit)
	if !ok || !ok2 || lit.Value != "0" {
		return "", 0
	}
	switch be.Op {
	case token.GTR:
		return sid.Name, 1
	case token.EQL:
		return sid.Name, 2
	}
	return "", 0
}

// stmts translates a statement list; k yields the Lean term for "what follows" (nil: nothing may follow).
func (c *fragCtx) stmts(list []ast.Stmt, k func() string) string {
	if len(list) == 0 {
		if k == nil {
			return c.fail("control reaches the end of the function without return")
		}
		return k()
	}
	rest := func() string { return c.stmts(list[1:], k) }
	switch x := list[0].(type) {
	case *ast.EmptyStmt:
		return rest()
	case *ast.ReturnStmt:
		if len(x.Results) != 1 {
			return c.fail("return with %d results", len(x.Results))
		}
		if c.inLoopRet != "" {
			return "(" + c.inLoopRet + " " + c.expr(x.Results[0]) + ")"
		}
		return c.expr(x.Results[0])
	case *ast.DeclStmt:
		gd, ok := x.Decl.(*ast.GenDecl)
		if !ok || gd.Tok != token.VAR {
			return c.fail("declaration")
		}
		out := ""
		for _, sp := range gd.Specs {
			vs := sp.(*ast.ValueSpec)
			for i, n := range vs.Names {
				t := c.f.pkg.TypesInfo.Defs[n].Type()
				val := c.zero(t)
				if i < len(vs.Values) {
					val = c.rhs(vs.Values[i], t)
				}
				out += "let " + lv(n.Name) + " : " + c.leanType(t) + " := " + val + "\n"
			}
		}
		return out + rest()
	case *ast.AssignStmt:
		if len(x.Lhs) != 1 || len(x.Rhs) != 1 {
			return c.fail("multiple assignment")
		}
		// result[i] = append(result[i], v) on a pair
		if ie, ok := x.Lhs[0].(*ast.IndexExpr); ok {
			id, ok1 := ie.X.(*ast.Ident)
			lit, ok2 := ie.Index.(*ast.BasicLit)
			app, isApp := c.appendOf(x.Rhs[0])
			if ok1 && ok2 && isApp && (lit.Value == "0" || lit.Value == "1") {
				n := lv(id.Name)
				if lit.Value == "0" {
					return "let " + n + " := (" + n + ".1 ++ [" + app + "], " + n + ".2)\n" + rest()
				}
				return "let " + n + " := (" + n + ".1, " + n + ".2 ++ [" + app + "])\n" + rest()
			}
			return c.fail("indexed assignment")
		}
		id, ok := x.Lhs[0].(*ast.Ident)
		if !ok {
			return c.fail("assignment target")
		}
		var val string
		switch x.Tok {
		case token.DEFINE, token.ASSIGN:
			val = c.rhs(x.Rhs[0], c.typeOf(x.Lhs[0]))
		case token.ADD_ASSIGN:
			val = "(" + lv(id.Name) + " + " + c.expr(x.Rhs[0]) + ")"
		case token.SUB_ASSIGN:
			val = "(" + lv(id.Name) + " - " + c.expr(x.Rhs[0]) + ")"
		default:
			return c.fail("assignment operator %s", x.Tok)
		}
		return "let " + lv(id.Name) + " := " + val + "\n" + rest()
	case *ast.IfStmt:
		return c.trIf(x, list[1:], k)
	case *ast.RangeStmt:
		return c.trRange(x, list[1:], k)
	case *ast.ForStmt:
		return c.trFor(x, list[1:], k)
	}
	return c.fail("statement %T", list[0])
}

// appendOf recognises append(X, e) and returns the translation of e.
func (c *fragCtx) appendOf(e ast.Expr) (string, bool) {
	call, ok := e.(*ast.CallExpr)
	if !ok {
		return "", false
	}
	id, ok := call.Fun.(*ast.Ident)
	if !ok || id.Name != "append" || len(call.Args) != 2 || call.Ellipsis != token.NoPos {
		return "", false
	}
	return c.expr(call.Args[1]), true
}

// rhs translates the right-hand side of an assignment (append / make / composite zero values allowed).
func (c *fragCtx) rhs(e ast.Expr, t types.Type) string {
	if call, ok := e.(*ast.CallExpr); ok {
		if id, ok := call.Fun.(*ast.Ident); ok {
			switch id.Name {
			case "append":
				if v, ok := c.appendOf(e); ok {
					return "(" + c.expr(call.Args[0]) + " ++ [" + v + "])"
				}
			case "make":
				if len(call.Args) == 2 {
					if lit, ok := call.Args[1].(*ast.BasicLit); ok && lit.Value == "0" {
						return c.zero(t)
					}
				}
				return c.fail("make with a length")
			}
		}
	}
	if cl, ok := e.(*ast.CompositeLit); ok && len(cl.Elts) == 0 {
		return c.zero(t)
	}
	return c.expr(e)
}

// trIf: shapes  (a) then-branch always returns, no else:  if c then A else REST
//
//	(b) both branches always return:          if c then A else B
//	(c) no return inside:                      let vars := if c then (A; vars) else (B; vars); REST
//	plus the two length guards that give s[0] a name.
func (c *fragCtx) trIf(x *ast.IfStmt, after []ast.Stmt, k func() string) string {
	if x.Init != nil {
		return c.fail("if with init")
	}
	var els []ast.Stmt
	switch e := x.Else.(type) {
	case *ast.BlockStmt:
		els = e.List
	case *ast.IfStmt:
		els = []ast.Stmt{e}
	}
	rest := func() string { return c.stmts(after, k) }
	if s, kind := lenGuard(x.Cond); kind != 0 && x.Else == nil {
		h := lv(s) + "_head"
		withHead := func(f func() string) string {
			old, had := c.heads[s]
			c.heads[s] = h
			out := f()
			if had {
				c.heads[s] = old
			} else {
				delete(c.heads, s)
			}
			return out
		}
		if kind == 1 { // if len(s) > 0 { A }  (A without return)
			vars, hasRet := assignedIn(x.Body.List)
			if hasRet {
				return c.fail("return under len guard")
			}
			body := withHead(func() string { return c.stmts(x.Body.List, func() string { return tuple(vars) }) })
			return "let " + tuple(vars) + " := (match " + lv(s) + " with\n| [] => " + tuple(vars) + "\n| " + h + " :: _ => (" + body + "))\n" + rest()
		}
		if kind == 2 && alwaysReturns(x.Body.List) { // if len(s) == 0 { return … }; REST may use s[0]
			thenB := c.stmts(x.Body.List, nil)
			restH := withHead(rest)
			return "(match " + lv(s) + " with\n| [] => " + thenB + "\n| " + h + " :: _ => (" + restH + "))"
		}
	}
	cond := c.expr(x.Cond)
	thenRet, elsRet := alwaysReturns(x.Body.List), alwaysReturns(els)
	_, thenHas := assignedIn(x.Body.List)
	_, elsHas := assignedIn(els)
	switch {
	case thenRet:
		// the else branch (possibly empty) falls through to what follows
		return "if " + cond + " then (" + c.stmts(x.Body.List, nil) + ") else (" +
			c.stmts(append(append([]ast.Stmt{}, els...), after...), k) + ")"
	case elsRet:
		return "if " + cond + " then (" + c.stmts(append(append([]ast.Stmt{}, x.Body.List...), after...), k) +
			") else (" + c.stmts(els, nil) + ")"
	case !thenHas && !elsHas:
		vars, _ := assignedIn(append(append([]ast.Stmt{}, x.Body.List...), els...))
		k2 := func() string { return tuple(vars) }
		return "let " + tuple(vars) + " := (if " + cond + " then (" + c.stmts(x.Body.List, k2) + ") else (" + c.stmts(els, k2) + "))\n" + rest()
	}
	return c.fail("if with a return on some paths only")
}

// loop emits the auxiliary definition of a loop over a list and returns the call site term.
func (c *fragCtx) loop(slice string, elemType types.Type, keyName, valName string, body []ast.Stmt, after []ast.Stmt, k func() string) string {
	c.nloops++
	aux := fmt.Sprintf("%s.loop%d", c.name, c.nloops)
	vars, hasRet := assignedIn(body)
	// loop-local names must not be treated as state
	var state []string
	for _, v := range vars {
		if v != keyName && v != valName {
			state = append(state, v)
		}
	}
	et := c.leanType(elemType)
	// state types
	stTypes := make([]string, len(state))
	for i, v := range state {
		stTypes[i] = c.varType(v, body)
	}
	stT := "Unit"
	if len(state) == 1 {
		stT = stTypes[0]
	} else if len(state) > 1 {
		stT = "(" + strings.Join(stTypes, " × ") + ")"
	}
	resT := stT
	if hasRet {
		resT = "(" + c.ret + " ⊕ " + stT + ")"
	}
	if keyName == "" || keyName == "_" {
		keyName = "k_"
	}
	if valName == "" || valName == "_" {
		valName = "v_"
	}
	// captured variables: the function's parameters (simple and sufficient for this fragment)
	var capDecl, capUse []string
	for i, p := range c.params {
		capDecl = append(capDecl, "("+p+" : "+c.ptypes[i]+")")
		capUse = append(capUse, p)
	}
	// extra captured locals: variables read in the body, declared before the loop, not state, not params
	extra := c.freeLocals(body, state, keyName, valName)
	for _, e := range extra {
		capDecl = append(capDecl, "("+lv(e.name)+" : "+e.typ+")")
		capUse = append(capUse, lv(e.name))
	}
	oldRet := c.inLoopRet
	if hasRet {
		c.inLoopRet = "Sum.inl"
	}
	cont := func() string {
		call := aux + " " + strings.Join(capUse, " ") + " rest_ (" + lv(keyName) + " + 1) " + tuple(state)
		return "(" + call + ")"
	}
	bodyT := c.stmts(body, cont)
	c.inLoopRet = oldRet
	done := tuple(state)
	if hasRet {
		done = "(Sum.inr " + tuple(state) + ")"
	}
	def := fmt.Sprintf("def %s %s : List %s → Int → %s → %s\n  | [], _, %s => %s\n  | %s :: rest_, %s, %s =>\n%s\n",
		aux, strings.Join(capDecl, " "), et, stT, resT, tupleOrUnder(state), done, lv(valName), lv(keyName), tuple(state), indent(bodyT, 4))
	c.aux = append(c.aux, def)
	call := "(" + aux + " " + strings.Join(capUse, " ") + " " + lv(slice) + " 0 " + tuple(state) + ")"
	restT := func() string { return c.stmts(after, k) }
	if hasRet {
		return "(match " + call + " with\n| Sum.inl r_ => r_\n| Sum.inr " + tupleOrUnder(state) + " => (" + restT() + "))"
	}
	if len(state) == 0 {
		return "let _ := " + call + "\n" + restT()
	}
	return "let " + tuple(state) + " := " + call + "\n" + restT()
}

func tupleOrUnder(vars []string) string {
	if len(vars) == 0 {
		return "_"
	}
	return tuple(vars)
}

type localVar struct{ name, typ string }

// freeLocals: identifiers read in body that are local variables of the function declared outside the body.
func (c *fragCtx) freeLocals(body []ast.Stmt, state []string, keyName, valName string) []localVar {
	skip := map[string]bool{keyName: true, valName: true}
	for _, s := range state {
		skip[s] = true
	}
	for _, p := range c.params {
		skip[p] = true
	}
	seen := map[string]bool{}
	var out []localVar
	inner := map[types.Object]bool{}
	for _, s := range body {
		ast.Inspect(s, func(n ast.Node) bool {
			if id, ok := n.(*ast.Ident); ok {
				if obj := c.f.pkg.TypesInfo.Defs[id]; obj != nil {
					inner[obj] = true
				}
			}
			return true
		})
	}
	for _, s := range body {
		ast.Inspect(s, func(n ast.Node) bool {
			id, ok := n.(*ast.Ident)
			if !ok || skip[lv(id.Name)] || skip[id.Name] || seen[id.Name] {
				return true
			}
			obj := c.f.pkg.TypesInfo.Uses[id]
			v, isVar := obj.(*types.Var)
			if !isVar || inner[obj] || v.Parent() == nil || v.Pkg() == nil || v.Parent() == v.Pkg().Scope() {
				return true
			}
			seen[id.Name] = true
			out = append(out, localVar{id.Name, c.leanType(v.Type())})
			return true
		})
	}
	return out
}

func (c *fragCtx) varType(name string, scope []ast.Stmt) string {
	var t types.Type
	for _, s := range scope {
		ast.Inspect(s, func(n ast.Node) bool {
			if id, ok := n.(*ast.Ident); ok && id.Name == name && t == nil {
				if obj := c.f.pkg.TypesInfo.Uses[id]; obj != nil {
					t = obj.Type()
				}
			}
			return true
		})
	}
	if t == nil {
		return c.fail("type of %s", name)
	}
	return c.leanType(t)
}

func (c *fragCtx) trRange(x *ast.RangeStmt, after []ast.Stmt, k func() string) string {
	sid, ok := x.X.(*ast.Ident)
	if !ok {
		return c.fail("range over an expression")
	}
	sl, ok := c.typeOf(x.X).Underlying().(*types.Slice)
	if !ok {
		return c.fail("range over a non-slice")
	}
	name := func(e ast.Expr) string {
		if e == nil {
			return "_"
		}
		if id, ok := e.(*ast.Ident); ok {
			return id.Name
		}
		return "_"
	}
	return c.loop(sid.Name, sl.Elem(), name(x.Key), name(x.Value), x.Body.List, after, k)
}

// trFor: only `for i := 0; i < len(s); i++ { … s[i] … }`.
func (c *fragCtx) trFor(x *ast.ForStmt, after []ast.Stmt, k func() string) string {
	init, ok1 := x.Init.(*ast.AssignStmt)
	cond, ok2 := x.Cond.(*ast.BinaryExpr)
	post, ok3 := x.Post.(*ast.IncDecStmt)
	if !ok1 || !ok2 || !ok3 || len(init.Lhs) != 1 || cond.Op != token.LSS || post.Tok != token.INC {
		return c.fail("for loop shape")
	}
	iv, ok := init.Lhs[0].(*ast.Ident)
	lit, okl := init.Rhs[0].(*ast.BasicLit)
	if !ok || !okl || lit.Value != "0" {
		return c.fail("for loop init")
	}
	call, ok := cond.Y.(*ast.CallExpr)
	ci, okc := cond.X.(*ast.Ident)
	if !ok || !okc || ci.Name != iv.Name || len(call.Args) != 1 {
		return c.fail("for loop condition")
	}
	if fid, ok := call.Fun.(*ast.Ident); !ok || fid.Name != "len" {
		return c.fail("for loop bound")
	}
	sid, ok := call.Args[0].(*ast.Ident)
	if !ok {
		return c.fail("for loop bound")
	}
	sl, ok := c.typeOf(call.Args[0]).Underlying().(*types.Slice)
	if !ok {
		return c.fail("for loop over a non-slice")
	}
	vars, _ := assignedIn(x.Body.List)
	for _, v := range vars {
		if v == iv.Name || v == sid.Name {
			return c.fail("loop variable or slice assigned in the loop")
		}
	}
	elem := lv(sid.Name) + "_i"
	c.loopVar[iv.Name] = [2]string{sid.Name, elem}
	out := c.loop(sid.Name, sl.Elem(), iv.Name, elem, x.Body.List, after, k)
	delete(c.loopVar, iv.Name)
	return out
}

func indent(s string, n int) string {
	pad := strings.Repeat(" ", n)
	lines := strings.Split(s, "\n")
	for i, l := range lines {
		lines[i] = pad + l
	}
	return strings.Join(lines, "\n")
}

// fragFunctions lists the helpers that are regenerated (root package).
var fragFunctions = []string{"Sum", "SumBy", "IndexOf", "Contains", "Every", "Some", "FindIndex", "Filter", "Partition",
	"FindMin", "FindMax", "FindMinBy", "FindMaxBy", "Min", "Max", "Abs", "Clamp", "InRange", "Compare", "Equal", "Less"}

func translateFrag() (string, map[string]string) {
	status := map[string]string{}
	var sb strings.Builder
	sb.WriteString("/-! GENERATED by /verif/translator (frag.go) from /repo's current source — do not edit.\n\n")
	sb.WriteString("Mechanical Go → Lean translation of simple pure helpers (see translator/frag.go for the fragment).\n")
	sb.WriteString("`Theorems/GenTie.lean` proves each definition equal to the hand-written model. -/\n")
	sb.WriteString("namespace GoguVerif.Gen.Funcs\n\n")
	sb.WriteString("/-- placeholder that makes an unsupported function's tie theorem fail to build -/\nopaque sorryUnsupported {α : Type} [Inhabited α] : α\n\n")
	byName := map[string]*fn{}
	for _, f := range order {
		if f.pkg.Name == "gogu" && f.decl.Recv == nil {
			byName[f.obj.Name()] = f
		}
	}
	for _, name := range fragFunctions {
		f := byName[name]
		if f == nil {
			status[name] = "missing from the source"
			fmt.Fprintf(&sb, "-- %s: missing from the source\n\n", name)
			continue
		}
		c := &fragCtx{f: f, name: name, heads: map[string]string{}, loopVar: map[string][2]string{}}
		sig := f.obj.Type().(*types.Signature)
		for i := 0; i < sig.Params().Len(); i++ {
			p := sig.Params().At(i)
			t := p.Type()
			if sig.Variadic() && i == sig.Params().Len()-1 {
				t = p.Type() // already []T
			}
			c.params = append(c.params, lv(p.Name()))
			c.ptypes = append(c.ptypes, c.leanType(t))
		}
		if sig.Results().Len() != 1 {
			c.fail("%d results", sig.Results().Len())
		} else {
			c.ret = c.leanType(sig.Results().At(0).Type())
		}
		body := ""
		if c.err == "" {
			body = c.stmts(f.decl.Body.List, nil)
		}
		if c.err != "" {
			status[name] = "unsupported: " + c.err
			fmt.Fprintf(&sb, "-- %s: outside the translated fragment (%s)\n\n", name, c.err)
			continue
		}
		status[name] = "ok"
		for _, a := range c.aux {
			sb.WriteString(a + "\n")
		}
		var ps []string
		for i, p := range c.params {
			ps = append(ps, "("+p+" : "+c.ptypes[i]+")")
		}
		fmt.Fprintf(&sb, "def %s %s : %s :=\n%s\n\n", name, strings.Join(ps, " "), c.ret, indent(body, 2))
	}
	sb.WriteString("end GoguVerif.Gen.Funcs\n")
	return sb.String(), status
}
