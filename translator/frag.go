package main

// Go -> Lean translation of a small fragment of Go, used to REGENERATE the Lean model of simple pure
// helpers from /repo's source on every run (Gen/Funcs.lean).  `Theorems/GenTie.lean` proves that each
// regenerated definition equals the hand-written model the property theorems are about, so for these
// functions the tie between model and code is the translator itself (for every input), not sampling.
//
// THE FRAGMENT AND ITS ASSUMED SEMANTICS (this text is part of the trusted base).
//
// Types.  Go integer types and type parameters -> `Int` (unbounded: wrap-around is NOT modelled; conversions
// between integer types `T(e)` are the identity); `bool` -> `Bool`; `string` and type parameters whose
// constraint is `~string` -> `List UInt8` (the bytes); `[]T` -> `List T` (values only: no aliasing, no spare
// capacity); `[2][]T` -> a pair of lists; `map[K]V` -> `List (K × V)`, an association list without duplicate
// keys, used through `mapHas` / `mapGet` / `mapSet` / `mapDel` and `len` (= the number of entries); `for k, v := range m`
// is the recursion over that list: the list order of a map PARAMETER stands for the order in which this call's
// iteration visits the entries, which Go leaves open -- the tie theorems hold for every list, i.e. for every order
// (see mapLoop for the conditions on the loop body); ranging over a LOCAL map visits its entries in the order in
// which the function inserted them -- ONE of the orders Go may choose (the models of such functions make the same
// choice and their theorems then quantify over every order separately); `func` parameters -> pure Lean functions (a callback
// has no side effects and does not panic); `strings.Builder` -> the list of bytes written so far.
//
// Two modes.  A function is first translated in PURE mode (result type = the Lean type of the Go result).
// If it contains a construct that can panic or return an error it is translated again in RES mode: the
// result type is `Res T = Except Exc T` with `Exc.panic` (a Go run-time panic or a call of `panic`) and
// `Exc.err` (a non-nil `error` result).  Partial operations, each bound in evaluation order before the
// statement that contains it (callbacks being pure, only WHETHER one of them fails is observable):
//   s[e]                 `goIdx s e`        fails unless 0 ≤ e < len(s)
//   s[a:b], s[a:], s[:b] `goSlice s a b`    fails unless 0 ≤ a ≤ b ≤ len(s)   (for a slice Go checks b against
//                                           cap(s); spare capacity is not modelled, as in the hand-written models)
//   s[i] = e             `goSet s i e`      fails unless 0 ≤ i < len(s)
//   a / b, a % b         `goDiv`, `goMod`   truncated division; fails when b = 0 (a non-zero literal divisor: pure)
//   make([]T, n, c)      `goMake n c zero`  fails unless 0 ≤ n ≤ c  (pure `[]` / `List.replicate` when n is the literal 0
//                                           or `len(e)` and c is absent, `len(e)` or, for n = 0, an integer literal)
//   strings.Repeat(s, n) `goRepeat s n`     fails when n < 0 (overflow of the result length is not modelled)
//   F(args)              call of another translated function that itself is in RES mode
//   panic(e)             `Except.error Exc.panic` (the argument is not evaluated: it must be free of calls that matter)
// A partial operation in the right operand of `&&` / `||` is outside the fragment.
// Results `(T, error)`: `return e, nil` is `ok e`; `return e, <anything else>` is `Exc.err` (the value
// returned next to a non-nil error and the error's text are not modelled).
//
// Statements: `var x T`, `x := e`, `x = e`, `x += e`, `x -= e`, `x++`, `x--`, `return`, `if` (with the shapes listed
// at trIf, optionally with an init statement whose names are unique in the function), `res = append(res, e…)`
// (snoc), `append(a, b...)` (concatenation), `m[k] = v` on a map (`mapSet`), `_, ok := m[k]` (`mapHas`), `m[k]` as a
// value (`mapGet`: the zero value when absent),
// `sb.WriteString(e)` on a strings.Builder, calls of other root-package functions of the fragment (generic
// callees are re-translated for the Lean types of their type arguments), composite literals of slices.
// Loops, all as structural recursion (so every translated loop terminates by construction):
//   `for k, v := range s`                          recursion over the list s (evaluated once, as in Go)
//   `for i := 0; i < len(s); i++`                  the same, with `s[i]` = the head; s and i not assigned in the body
//   `for i := E; i >= 0; i--`                      recursion over the counter `(E+1).toNat`; i not assigned in the body
//   `for i, j := E, F; i >= 0; i, j = i-1, G`      the same with one auxiliary variable j updated after each iteration
//   `for i := A; i < B; i++`                       recursion over `(B-A).toNat`; i and the variables of B not assigned
//                                                  in the body, B free of partial operations
// `return` inside a loop makes the loop function return `Sum.inl value`; running to the end is `Sum.inr state`.
// In a loop with `break` or `continue L` (L = the directly enclosing labelled loop) the jump is `Sum.inl state`
// and running to the end is `Sum.inr state`; after a `break` both go on with what follows the loop, after a
// `continue L` the jump goes on with the next iteration of L.  A loop with both a `return` and such a jump is
// outside the fragment.  Plain `continue` is the recursive call (after the auxiliary variable's update).
// An `if` that leaves (return / panic / break / continue) on some paths only: the statements that follow it are
// translated once per branch (names declared in the branches must be unique in the function, so nothing is captured).
// Inside a RES-mode function a loop or an `if` without partial operations keeps its PURE form.
// Go identifiers ending in `_` are refused (such names are generated: `rest_`, `t1_`, `st_`, …).  `s[0]` without a bounds check only under a `len(s) > 0` / after a `len(s) == 0 { return }` guard.
// Structs with n ≥ 2 fields -> the product of the field types (composite literal = tuple, `x.f` = projection); a
// method with a value receiver -> a function whose first parameter is the receiver (`Recv_Method`).
// METHOD mode (the slice-backed containers, Gen/Containers.lean): a method with a POINTER receiver on a struct.  The
// fields of the receiver (other than `sync.*` fields) are variables `<recv>_<field>`, parameters of the Lean function;
// `recv.f` reads and `recv.f = e` / `recv.f[i] = e` assigns that variable.  A method that assigns no field (neither
// itself nor through a method it calls) is a READER and returns its results; any other returns `(results, fields)`.
// Results are a tuple in which a result of type `error` is a `Bool` (non-nil); `()` when there are none.  Named results
// are variables initialised with their zero values; a bare `return` returns them.  `recv.mu.Lock()` / `Unlock()` /
// `RLock()` / `RUnlock()` and their `defer` forms are SKIPPED: what is translated is the body as executed by one
// goroutine alone (atomicity of the critical sections is what C01/C02 establish).  A call `recv.m(args)` of a READER of
// the same type is a call of its translation on the current fields; calls of mutating methods are outside the fragment.
// A callback WITHOUT result (`fn func(T)`) is an effect: it becomes a state transformer `T → σ_ → σ_` for an
// arbitrary type σ_, the function takes the initial state as an extra last parameter `st_`, every call statement
// `fn(e)` is `st_ := fn e st_`, and a function without results returns the final state.  (So the ORDER of the
// calls is part of the translated meaning.)  Calls of such a function from another function are outside the fragment.
// `delete(m, k)` -> `mapDel`; the exact statement `sort.Slice(xs, func(i, j int) bool { return xs[i] < xs[j] })` ->
// `goSortAsc xs`; a function literal whose body is one `return e` -> a Lean lambda.
// Library calls with assumed semantics: `len`, `strings.HasPrefix(s, p)` = `p.isPrefixOf s`,
// `strings.HasSuffix(s, p)` = `p.isSuffixOf s`, `strings.Repeat`, `(*strings.Builder).WriteString/String`.
// Anything else makes the function "unsupported" (reported in facts.json: regeneratedFunctions; its tie theorem
// then fails to build).  There is no per-function special case anywhere in this translator.

import (
	"fmt"
	"go/ast"
	"go/types"
	"sort"
	"strings"
)

type binding struct{ name, term string }

// loopFrame describes the innermost enclosing translated loop.
type loopFrame struct {
	label    string
	state    []string
	hasRet   bool          // the loop result is  ρ ⊕ S
	hasJump  bool          // the loop result is  S ⊕ S  (inl = left through break / continue Outer)
	cont     func() string // the recursive call (plain continue / end of body)
	jumpKind string        // "break" or "continue:<label>" once one was seen
}

type fragCtx struct {
	f       *fn
	name    string   // Lean name of the definition
	aux     []string // auxiliary loop definitions
	nloops  int
	params  []string // lean names of the parameters, in order
	ptypes  []string // lean types of the parameters
	ret     string   // lean type of the (first) result
	retErr  bool     // results are (T, error)
	heads   map[string]string
	loopVar map[string][2]string
	frames  []*loopFrame
	res     bool // RES mode
	needRes bool // the PURE attempt met a partial construct
	pre     []binding
	ntmp    int
	tsubst  map[*types.TypeParam]types.Type // type arguments of this instance
	effect  bool                            // a callback without result is a state transformer σ_ → σ_; the function threads `st_`
	noRes   bool                            // the Go function has no result: the Lean result is the final state `st_`
	err     string
	// METHOD mode (a method with a pointer receiver on a struct): the fields of the receiver are variables
	method  bool
	recv    string     // Go name of the receiver
	fields  []fieldVar // the fields that are modelled (sync.* fields are not)
	mutates bool       // the method (or a method it calls) assigns a field: the result is paired with the final fields
	named   []namedRes // named results
	results []string   // Lean types of the results (error -> Bool)
	key     string     // key of this function in fragByName
}

type fieldVar struct {
	goName, lean, typ string
}

type namedRes struct {
	goName, typ string
	isErr       bool
}

var leanReserved = map[string]bool{"end": true, "fun": true, "at": true, "from": true, "in": true, "then": true,
	"do": true, "open": true, "local": true, "show": true, "have": true, "match": true, "with": true, "if": true,
	"else": true, "let": true, "def": true, "instance": true, "structure": true, "where": true, "by": true,
	"type": true, "Type": true, "max": true, "min": true, "default": true, "set": true}

func lv(n string) string {
	if leanReserved[n] {
		return n + "_"
	}
	return n
}

func (c *fragCtx) fail(format string, a ...any) string {
	if c.err == "" {
		c.err = fmt.Sprintf(format, a...)
	}
	return "sorryUnsupported"
}

// partial registers a partial operation; the result is the name of the temporary holding its value.
func (c *fragCtx) partial(term string) string {
	if !c.res {
		c.needRes = true
		return c.fail("partial operation in PURE mode")
	}
	c.ntmp++
	n := fmt.Sprintf("t%d_", c.ntmp)
	c.pre = append(c.pre, binding{n, term})
	return n
}

func (c *fragCtx) takePre() []binding {
	p := c.pre
	c.pre = nil
	return p
}

// withPre binds the partial operations collected for a statement in front of its translation.
func (c *fragCtx) withPre(pre []binding, body string) string {
	for i := len(pre) - 1; i >= 0; i-- {
		body = "(match " + pre[i].term + " with\n| Except.error e_ => Except.error e_\n| Except.ok " + pre[i].name + " =>\n" + body + ")"
	}
	return body
}

const strT = "(List UInt8)"

// coreIsString: a type parameter whose constraint is a union of ~string terms only.
func coreIsString(tp *types.TypeParam) bool {
	iface, ok := tp.Constraint().Underlying().(*types.Interface)
	if !ok || iface.NumEmbeddeds() == 0 {
		return false
	}
	for i := 0; i < iface.NumEmbeddeds(); i++ {
		et := iface.EmbeddedType(i)
		u, ok := et.(*types.Union)
		if !ok {
			return false
		}
		for j := 0; j < u.Len(); j++ {
			b, ok := u.Term(j).Type().Underlying().(*types.Basic)
			if !ok || b.Info()&types.IsString == 0 {
				return false
			}
		}
	}
	return true
}

func (c *fragCtx) leanType(t types.Type) string {
	if fz, ok := t.(frozen); ok {
		return fz.lean
	}
	switch x := t.(type) {
	case *types.TypeParam:
		if c.tsubst != nil {
			if a, ok := c.tsubst[x]; ok {
				return c.leanTypeNoSubst(a)
			}
		}
		if coreIsString(x) {
			return strT
		}
		return "Int"
	case *types.Basic:
		switch {
		case x.Info()&types.IsBoolean != 0:
			return "Bool"
		case x.Info()&types.IsInteger != 0:
			return "Int"
		case x.Info()&types.IsString != 0:
			return strT
		}
	case *types.Slice:
		return "(List " + c.leanType(x.Elem()) + ")"
	case *types.Map:
		return "(List (" + c.leanType(x.Key()) + " × " + c.leanType(x.Elem()) + "))"
	case *types.Array:
		if x.Len() == 2 {
			e := c.leanType(x.Elem())
			return "(" + e + " × " + e + ")"
		}
	case *types.Signature:
		var parts []string
		for i := 0; i < x.Params().Len(); i++ {
			parts = append(parts, c.leanType(x.Params().At(i).Type()))
		}
		switch x.Results().Len() {
		case 0: // an effect on the caller's state
			parts = append(parts, "σ_", "σ_")
		case 1:
			parts = append(parts, c.leanType(x.Results().At(0).Type()))
		default:
			return c.fail("callback with %d results", x.Results().Len())
		}
		return "(" + strings.Join(parts, " → ") + ")"
	case *types.Named:
		if isBuilder(x) {
			return strT
		}
		return c.leanType(x.Underlying())
	case *types.Struct:
		if x.NumFields() < 2 {
			return c.fail("struct with fewer than two fields")
		}
		parts := make([]string, x.NumFields())
		for i := range parts {
			parts[i] = c.leanType(x.Field(i).Type())
		}
		return "(" + strings.Join(parts, " × ") + ")"
	case *types.Alias:
		return c.leanType(types.Unalias(x))
	}
	return c.fail("unsupported type %s", t)
}

// leanTypeNoSubst translates a type argument (which lives in the CALLER's context: its own type parameters
// take their default translation).
func (c *fragCtx) leanTypeNoSubst(t types.Type) string {
	saved := c.tsubst
	c.tsubst = nil
	out := c.leanType(t)
	c.tsubst = saved
	return out
}

func isBuilder(t types.Type) bool {
	n, ok := t.(*types.Named)
	return ok && n.Obj().Pkg() != nil && n.Obj().Pkg().Path() == "strings" && n.Obj().Name() == "Builder"
}

func (c *fragCtx) zero(t types.Type) string {
	lt := c.leanType(t)
	switch lt {
	case "Int":
		return "(0 : Int)"
	case "Bool":
		return "false"
	}
	if strings.HasPrefix(lt, "(List") {
		return "([] : " + lt + ")"
	}
	if st, ok := t.Underlying().(*types.Struct); ok {
		parts := make([]string, st.NumFields())
		for i := range parts {
			parts[i] = c.zero(st.Field(i).Type())
		}
		return "((" + strings.Join(parts, ", ") + ") : " + lt + ")"
	}
	if strings.Contains(lt, "×") {
		return "(([], []) : " + lt + ")"
	}
	return c.fail("zero value of %s", t)
}

func (c *fragCtx) typeOf(e ast.Expr) types.Type { return c.f.pkg.TypesInfo.TypeOf(e) }

func (c *fragCtx) leanTypeOf(e ast.Expr) string {
	t := c.typeOf(e)
	if t == nil {
		return ""
	}
	saved := c.err
	out := c.leanType(t)
	c.err = saved // a query, not a use
	return out
}

func (c *fragCtx) isIntLike(e ast.Expr) bool { return c.leanTypeOf(e) == "Int" }

func tuple(vars []string) string {
	if len(vars) == 0 {
		return "()"
	}
	if len(vars) == 1 {
		return lv(vars[0])
	}
	parts := make([]string, len(vars))
	for i, v := range vars {
		parts[i] = lv(v)
	}
	return "(" + strings.Join(parts, ", ") + ")"
}

func tupleOrUnder(vars []string) string {
	if len(vars) == 0 {
		return "_"
	}
	return tuple(vars)
}

func indent(s string, n int) string {
	pad := strings.Repeat(" ", n)
	lines := strings.Split(s, "\n")
	for i, l := range lines {
		lines[i] = pad + l
	}
	return strings.Join(lines, "\n")
}

// ok wraps a value that ends the current computation normally.
func (c *fragCtx) ok(t string) string {
	if c.res {
		return "(Except.ok " + t + ")"
	}
	return t
}

// bindTerm: `pat` := term (a value in PURE mode, a `Res` in RES mode); then body.
func (c *fragCtx) bindTerm(term, pat, body string) string {
	if c.res {
		return "(match " + term + " with\n| Except.error e_ => Except.error e_\n| Except.ok " + pat + " =>\n" + body + ")"
	}
	return "let " + pat + " := " + term + "\n" + body
}

// fragFunctions lists the helpers that are regenerated (root package).
var fragFunctions = []string{"Sum", "SumBy", "IndexOf", "Contains", "Every", "Some", "FindIndex", "Filter", "Partition",
	"FindMin", "FindMax", "FindMinBy", "FindMaxBy", "Min", "Max", "Abs", "Clamp", "InRange", "Compare", "Equal", "Less",
	// second batch
	"Mean", "LastIndexOf", "FindLastIndex", "Reduce", "Map", "Drop", "DropWhile", "DropRightWhile", "Merge", "Chunk",
	"Nth", "FindAll",
	"Unique", "UniqueBy", "Without", "Difference", "DifferenceBy", "Duplicate", "Intersection",
	"Substr", "SplitAtIndex", "Wrap", "Unwrap", "PadLeft", "PadRight", "Pad",
	"Reverse", "Reject", "Range", "ForEach", "ForEachRight", "Zip", "Unzip", "GroupBy",
	// map.go, filter.go (C14)
	"Keys", "Values", "MapValues", "MapKeys", "MapEvery", "MapSome", "MapContains", "MapUnique", "MapCollection",
	"Find", "FindKey", "FindByKey", "Invert", "Pluck", "Pick", "PickBy", "Omit", "OmitBy", "PartitionMap", "SliceToMap",
	"FilterMap", "FilterMapCollection", "Filter2DMapCollection",
	// find.go: the by-key extrema over slices of maps (C13)
	"FindMinByKey", "FindMaxByKey", "ToSlice", "DuplicateWithIndex", "IntersectionBy", "Union", "Flatten"}

type fragResult struct {
	method   bool
	mutates  bool
	leanName string
	status   string // "ok" or "unsupported: …"
	res      bool
	effect   bool
	text     string
}

var fragByName map[string]*fn
var fragDone map[string]*fragResult
var fragBusy map[string]bool
var fragOut *strings.Builder

// instanceName: the Lean name of the instance of a generic function for given type arguments ("" = default).
func (c *fragCtx) instanceSuffix(sig *types.Signature, targs []types.Type) (string, map[*types.TypeParam]types.Type) {
	tps := sig.TypeParams()
	if tps == nil || len(targs) == 0 {
		return "", nil
	}
	sub := map[*types.TypeParam]types.Type{}
	suffix := ""
	special := false
	for i := 0; i < tps.Len() && i < len(targs); i++ {
		lt := c.leanType(targs[i])
		def := "Int"
		if coreIsString(tps.At(i)) {
			def = strT
		}
		if lt != def {
			special = true
			sub[tps.At(i)] = targs[i]
		}
		switch lt {
		case "Int":
			suffix += "_Int"
		case strT:
			suffix += "_Str"
		case "Bool":
			suffix += "_Bool"
		default:
			suffix += "_X"
			if lt != def {
				c.fail("type argument %s", targs[i])
			}
		}
	}
	if !special {
		return "", nil
	}
	// the substituted types are translated in the caller's context now: freeze them as Lean-type witnesses
	return suffix, sub
}

// translateFunc translates the root-package function `goName` (memoised per instance) and emits it.
func translateFunc(goName, suffix string, tsubst map[*types.TypeParam]types.Type, caller *fragCtx) *fragResult {
	leanName := goName + suffix
	if r, ok := fragDone[leanName]; ok {
		return r
	}
	if fragBusy[leanName] {
		return &fragResult{leanName: leanName, status: "unsupported: recursion"}
	}
	f := fragByName[goName]
	if f == nil {
		r := &fragResult{leanName: leanName, status: "missing from the source"}
		fragDone[leanName] = r
		fmt.Fprintf(fragOut, "-- %s: missing from the source\n\n", leanName)
		return r
	}
	fragBusy[leanName] = true
	defer delete(fragBusy, leanName)
	var c *fragCtx
	var body string
	for _, mode := range []bool{false, true} {
		c = &fragCtx{f: f, name: leanName, heads: map[string]string{}, loopVar: map[string][2]string{}, res: mode}
		if tsubst != nil {
			// freeze the type arguments as types of the caller's context
			c.tsubst = map[*types.TypeParam]types.Type{}
			for k, v := range tsubst {
				c.tsubst[k] = frozen{v, caller.leanType(v)}
			}
		}
		sig := f.obj.Type().(*types.Signature)
		c.key = goName
		if r := sig.Recv(); r != nil { // a method with a value receiver: the receiver is the first parameter
			if ptr, isPtr := r.Type().(*types.Pointer); isPtr && r.Name() != "" && r.Name() != "_" {
				c.methodSetup(r.Name(), ptr.Elem())
			} else if isPtr || r.Name() == "" || r.Name() == "_" {
				c.fail("unnamed receiver")
			} else {
				c.params = append(c.params, lv(r.Name()))
				c.ptypes = append(c.ptypes, c.leanType(r.Type()))
			}
		}
		for i := 0; i < sig.Params().Len(); i++ {
			p := sig.Params().At(i)
			if ps, ok := p.Type().Underlying().(*types.Signature); ok && ps.Results().Len() == 0 {
				c.effect = true
			}
			c.params = append(c.params, lv(p.Name()))
			c.ptypes = append(c.ptypes, c.leanType(p.Type()))
		}
		switch {
		case c.method:
			c.methodResults(sig, f.decl)
		case sig.Results().Len() == 0 && c.effect:
			c.ret = "σ_"
			c.noRes = true
		case c.effect:
			c.fail("effectful callback in a function with results")
		case sig.Results().Len() == 1:
			c.ret = c.leanType(sig.Results().At(0).Type())
		case sig.Results().Len() == 2 && sig.Results().At(1).Type().String() == "error":
			c.ret = c.leanType(sig.Results().At(0).Type())
			c.retErr = true
			if !mode {
				c.needRes = true
				c.fail("error result in PURE mode")
			}
		default:
			c.fail("%d results", sig.Results().Len())
		}
		ast.Inspect(f.decl, func(n ast.Node) bool {
			if id, ok := n.(*ast.Ident); ok && len(id.Name) > 1 && strings.HasSuffix(id.Name, "_") {
				if c.f.pkg.TypesInfo.Defs[id] != nil {
					c.fail("identifier %s ends in an underscore (reserved for generated names)", id.Name)
				}
			}
			return true
		})
		body = ""
		if c.err == "" {
			body = c.namedInit() + c.stmts(f.decl.Body.List, nil)
		}
		if c.err == "" || !c.needRes {
			break
		}
	}
	r := &fragResult{leanName: leanName, res: c.res, effect: c.effect, method: c.method, mutates: c.mutates}
	if c.err != "" {
		r.status = "unsupported: " + c.err
		fmt.Fprintf(fragOut, "-- %s: outside the translated fragment (%s)\n\n", leanName, c.err)
		fragDone[leanName] = r
		return r
	}
	r.status = "ok"
	if c.res {
		r.status = "ok (RES mode)"
	}
	for _, a := range c.aux {
		fragOut.WriteString(a + "\n")
	}
	var ps []string
	for i, p := range c.params {
		ps = append(ps, "("+p+" : "+c.ptypes[i]+")")
	}
	rt := c.ret
	if c.res {
		rt = "Res " + c.ret
	}
	if c.effect {
		ps = append([]string{"{σ_ : Type}"}, ps...)
		ps = append(ps, "(st_ : σ_)")
	}
	fmt.Fprintf(fragOut, "def %s %s : %s :=\n%s\n\n", leanName, strings.Join(ps, " "), rt, indent(body, 2))
	fragDone[leanName] = r
	return r
}

// recvTypeName: the name of the named type a method is declared on.
func recvTypeName(m *types.Func) string {
	sig, ok := m.Type().(*types.Signature)
	if !ok || sig.Recv() == nil {
		return ""
	}
	t := sig.Recv().Type()
	if p, ok := t.(*types.Pointer); ok {
		t = p.Elem()
	}
	if n, ok := t.(*types.Named); ok {
		return n.Obj().Name()
	}
	return ""
}

// frozen is a type argument together with its Lean translation in the caller's context.
type frozen struct {
	types.Type
	lean string
}

const fragPrelude = `/-- placeholder that makes an unsupported function's tie theorem fail to build -/
opaque sorryUnsupported {α : Type} [Inhabited α] : α

/-- how a call can fail: a non-nil ` + "`error`" + ` result, or a Go panic -/
inductive Exc where
  | err
  | panic
deriving DecidableEq, Repr

/-- result of a function translated in RES mode -/
abbrev Res (α : Type) := Except Exc α

/-- ` + "`s[i]`" + ` -/
def goIdx {α : Type} (s : List α) (i : Int) : Res α :=
  if i < 0 then Except.error Exc.panic
  else match s[i.toNat]? with
    | some v => Except.ok v
    | none => Except.error Exc.panic

/-- ` + "`s[lo:hi]`" + ` (bounds checked against the length) -/
def goSlice {α : Type} (s : List α) (lo hi : Int) : Res (List α) :=
  if 0 ≤ lo ∧ lo ≤ hi ∧ hi ≤ (s.length : Int) then Except.ok ((s.take hi.toNat).drop lo.toNat) else Except.error Exc.panic

/-- ` + "`s[i] = v`" + ` -/
def goSet {α : Type} (s : List α) (i : Int) (v : α) : Res (List α) :=
  if 0 ≤ i ∧ i < (s.length : Int) then Except.ok (s.set i.toNat v) else Except.error Exc.panic

/-- ` + "`a / b`" + ` on integers -/
def goDiv (a b : Int) : Res Int := if b = 0 then Except.error Exc.panic else Except.ok (a.tdiv b)

/-- ` + "`a % b`" + ` on integers -/
def goMod (a b : Int) : Res Int := if b = 0 then Except.error Exc.panic else Except.ok (a.tmod b)

/-- ` + "`make([]T, n, c)`" + ` -/
def goMake {α : Type} (n c : Int) (z : α) : Res (List α) :=
  if 0 ≤ n ∧ n ≤ c then Except.ok (List.replicate n.toNat z) else Except.error Exc.panic

/-- ` + "`strings.Repeat(s, n)`" + ` -/
def goRepeat (s : List UInt8) (n : Int) : Res (List UInt8) :=
  if n < 0 then Except.error Exc.panic else Except.ok (List.replicate n.toNat s).flatten

/-- ` + "`_, ok := m[k]`" + ` -/
def mapHas {κ β : Type} [DecidableEq κ] (m : List (κ × β)) (k : κ) : Bool :=
  match m with
  | [] => false
  | e :: rest => if e.1 = k then true else mapHas rest k

/-- ` + "`m[k]`" + ` as a value (z = the zero value of the element type) -/
def mapGet {κ β : Type} [DecidableEq κ] (m : List (κ × β)) (k : κ) (z : β) : β :=
  match m with
  | [] => z
  | e :: rest => if e.1 = k then e.2 else mapGet rest k z

/-- ` + "`m[k] = v`" + `: overwrite the entry of k, or add one at the end -/
def mapSet {κ β : Type} [DecidableEq κ] (m : List (κ × β)) (k : κ) (v : β) : List (κ × β) :=
  match m with
  | [] => [(k, v)]
  | e :: rest => if e.1 = k then (k, v) :: rest else e :: mapSet rest k v

/-- ` + "`delete(m, k)`" + ` -/
def mapDel {κ β : Type} [DecidableEq κ] (m : List (κ × β)) (k : κ) : List (κ × β) :=
  match m with
  | [] => []
  | e :: rest => if e.1 = k then rest else e :: mapDel rest k

/-- insertion into an ascending list -/
def goInsertAsc (x : Int) : List Int → List Int
  | [] => [x]
  | y :: r => if x ≤ y then x :: y :: r else y :: goInsertAsc x r

/-- ` + "`sort.Slice(xs, func(i, j int) bool { return xs[i] < xs[j] })`" + `: xs in ascending order (assumed semantics of sort.Slice) -/
def goSortAsc (xs : List Int) : List Int := xs.foldr goInsertAsc []

`

func translateFrag() (string, map[string]string) {
	status := map[string]string{}
	var sb strings.Builder
	sb.WriteString("/-! GENERATED by /verif/translator (frag.go) from /repo's current source — do not edit.\n\n")
	sb.WriteString("Mechanical Go → Lean translation of simple pure helpers (see translator/frag.go for the fragment).\n")
	sb.WriteString("`Theorems/GenTie.lean` proves each definition equal to the hand-written model. -/\n")
	sb.WriteString("set_option linter.unusedVariables false\nnamespace GoguVerif.Gen.Funcs\n\n")
	sb.WriteString(fragPrelude)
	fragByName = map[string]*fn{}
	fragDone = map[string]*fragResult{}
	fragBusy = map[string]bool{}
	fragOut = &sb
	for _, f := range order {
		if f.pkg.Name == "gogu" && f.decl.Recv == nil {
			fragByName[f.obj.Name()] = f
		}
		if f.pkg.Name == "gogu" && f.decl.Recv != nil {
			if n := recvTypeName(f.obj); n != "" {
				fragByName[n+"_"+f.obj.Name()] = f
			}
		}
	}
	for _, f := range order {
		if containerPkgs[f.pkg.Name] && f.decl.Recv != nil {
			if n := recvTypeName(f.obj); n != "" {
				fragByName[f.pkg.Name+"."+n+"_"+f.obj.Name()] = f
			}
		}
	}
	for _, name := range fragFunctions {
		r := translateFunc(name, "", nil, nil)
		status[name] = r.status
	}
	// instances and dependencies that were pulled in
	var extra []string
	for n, r := range fragDone {
		if _, listed := status[n]; !listed {
			extra = append(extra, n)
			status[n] = r.status + " (dependency)"
		}
	}
	sort.Strings(extra)
	sb.WriteString("end GoguVerif.Gen.Funcs\n")
	return sb.String(), status
}

// containerPkgs: packages whose pointer-receiver methods are translated in METHOD mode (Gen/Containers.lean).
var containerPkgs = map[string]bool{"queue": true, "stack": true}

// containerMethods lists the methods that are regenerated, by key `pkg.Type_method`.
var containerMethods = []string{
	"queue.Queue_Enqueue", "queue.Queue_Dequeue", "queue.Queue_Peek", "queue.Queue_Search", "queue.Queue_Size", "queue.Queue_Clear",
	"stack.Stack_Push", "stack.Stack_Pop", "stack.Stack_Peek", "stack.Stack_Search", "stack.Stack_Size",
}

// translateContainers: must run after translateFrag (shares its tables).
func translateContainers() (string, map[string]string) {
	status := map[string]string{}
	var sb strings.Builder
	sb.WriteString("import GoguVerif.Gen.Funcs\n")
	sb.WriteString("/-! GENERATED by /verif/translator (frag*.go, METHOD mode) from /repo's current source — do not edit.\n\n")
	sb.WriteString("Mechanical Go → Lean translation of the methods of the slice-backed containers: the fields of the pointer\n")
	sb.WriteString("receiver are variables (a mutating method returns its results paired with the final fields); the mutex\n")
	sb.WriteString("calls are skipped (locking is the business of C01/C02).  `Theorems/GenTieQS.lean` proves each definition\n")
	sb.WriteString("equal to the hand-written model. -/\n")
	sb.WriteString("set_option linter.unusedVariables false\nnamespace GoguVerif.Gen.Containers\n")
	sb.WriteString("open GoguVerif.Gen.Funcs (Res Exc goIdx goSlice goSet goDiv goMod goMake mapHas mapGet mapSet mapDel sorryUnsupported)\n\n")
	fragOut = &sb
	for _, name := range containerMethods {
		r := translateFunc(name, "", nil, nil)
		status[name] = r.status
	}
	for n, r := range fragDone {
		if _, listed := status[n]; !listed && strings.Contains(n, ".") {
			status[n] = r.status + " (dependency)"
		}
	}
	sb.WriteString("end GoguVerif.Gen.Containers\n")
	return sb.String(), status
}
