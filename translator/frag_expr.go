package main

import (
	"fmt"
	"go/ast"
	"go/token"
	"go/types"
	"strconv"
	"strings"
)

func isLit(e ast.Expr, v string) bool {
	for {
		p, ok := e.(*ast.ParenExpr)
		if !ok {
			break
		}
		e = p.X
	}
	lit, ok := e.(*ast.BasicLit)
	return ok && lit.Kind == token.INT && lit.Value == v
}

func isIntLit(e ast.Expr) bool {
	lit, ok := e.(*ast.BasicLit)
	return ok && lit.Kind == token.INT
}

func nonZeroIntLit(e ast.Expr) bool {
	lit, ok := e.(*ast.BasicLit)
	if !ok || lit.Kind != token.INT {
		return false
	}
	n, err := strconv.ParseInt(lit.Value, 0, 64)
	return err == nil && n != 0
}

func isLenCall(e ast.Expr) bool {
	call, ok := e.(*ast.CallExpr)
	if !ok || len(call.Args) != 1 {
		return false
	}
	id, ok := call.Fun.(*ast.Ident)
	return ok && id.Name == "len"
}

func bytesLit(s string) string {
	if len(s) == 0 {
		return "([] : " + strT + ")"
	}
	parts := make([]string, len(s))
	for i := 0; i < len(s); i++ {
		parts[i] = fmt.Sprint(s[i])
	}
	return "([" + strings.Join(parts, ", ") + "] : " + strT + ")"
}

// expr translates an expression; partial operations inside it are pushed on c.pre.
func (c *fragCtx) expr(e ast.Expr) string {
	switch x := e.(type) {
	case *ast.ParenExpr:
		return c.expr(x.X)
	case *ast.Ident:
		switch x.Name {
		case "true", "false":
			return x.Name
		}
		if _, isVar := c.f.pkg.TypesInfo.Uses[x].(*types.Var); !isVar {
			if _, isDef := c.f.pkg.TypesInfo.Defs[x].(*types.Var); !isDef {
				return c.fail("identifier %s is not a variable", x.Name)
			}
		}
		return lv(x.Name)
	case *ast.BasicLit:
		switch x.Kind {
		case token.INT:
			return "(" + x.Value + " : Int)"
		case token.STRING:
			s, err := strconv.Unquote(x.Value)
			if err != nil {
				return c.fail("literal %s", x.Value)
			}
			return bytesLit(s)
		}
		return c.fail("literal %s", x.Value)
	case *ast.UnaryExpr:
		switch x.Op {
		case token.SUB:
			if !c.isIntLike(x.X) {
				return c.fail("unary - on a non-integer")
			}
			return "(-" + c.expr(x.X) + ")"
		case token.NOT:
			return "(!" + c.expr(x.X) + ")"
		}
		return c.fail("unary %s", x.Op)
	case *ast.BinaryExpr:
		return c.binary(x)
	case *ast.CallExpr:
		return c.call(x)
	case *ast.IndexExpr:
		// s[i] inside the canonical indexed loop, or s[0] under a length guard
		if sid, ok := x.X.(*ast.Ident); ok {
			if iid, ok := x.Index.(*ast.Ident); ok {
				if lvv, ok := c.loopVar[iid.Name]; ok && lvv[0] == sid.Name {
					return lvv[1]
				}
			}
			if lit, ok := x.Index.(*ast.BasicLit); ok && lit.Value == "0" {
				if h, ok := c.heads[sid.Name]; ok {
					return h
				}
			}
		}
		if mt, isMap := c.typeOf(x.X).Underlying().(*types.Map); isMap {
			// m[k] as a value: the entry, or the zero value when there is none (m: any expression of map type)
			return "(mapGet " + c.expr(x.X) + " " + c.expr(x.Index) + " " + c.zero(mt.Elem()) + ")"
		}
		if _, isSlice := c.typeOf(x.X).Underlying().(*types.Slice); !isSlice {
			return c.fail("index expression on a non-slice")
		}
		if !c.res {
			c.needRes = true
			return c.fail("index expression (unguarded)")
		}
		s := c.expr(x.X)
		i := c.expr(x.Index)
		return c.partial("goIdx " + s + " " + i)
	case *ast.SliceExpr:
		if x.Slice3 {
			return c.fail("3-index slice")
		}
		lt := c.leanTypeOf(x.X)
		if !strings.HasPrefix(lt, "(List") {
			return c.fail("slice expression on %s", lt)
		}
		if !c.res {
			c.needRes = true
			return c.fail("slice expression")
		}
		s := c.expr(x.X)
		lo, hi := "(0 : Int)", "("+s+".length : Int)"
		if x.Low != nil {
			lo = c.expr(x.Low)
		}
		if x.High != nil {
			hi = c.expr(x.High)
		}
		return c.partial("goSlice " + s + " " + lo + " " + hi)
	case *ast.CompositeLit:
		if _, isSlice := c.typeOf(x).Underlying().(*types.Slice); isSlice {
			if len(x.Elts) == 0 {
				return c.zero(c.typeOf(x))
			}
			parts := make([]string, len(x.Elts))
			for i, el := range x.Elts {
				if _, kv := el.(*ast.KeyValueExpr); kv {
					return c.fail("keyed composite literal")
				}
				parts[i] = c.expr(el)
			}
			return "([" + strings.Join(parts, ", ") + "] : " + c.leanType(c.typeOf(x)) + ")"
		}
		if len(x.Elts) == 0 {
			return c.zero(c.typeOf(x))
		}
		if st, ok := c.typeOf(x).Underlying().(*types.Struct); ok && len(x.Elts) == st.NumFields() && st.NumFields() >= 2 {
			parts := make([]string, st.NumFields())
			for i, el := range x.Elts {
				if kv, isKV := el.(*ast.KeyValueExpr); isKV {
					kid, ok := kv.Key.(*ast.Ident)
					if !ok {
						return c.fail("composite literal key")
					}
					idx := -1
					for j := 0; j < st.NumFields(); j++ {
						if st.Field(j).Name() == kid.Name {
							idx = j
						}
					}
					if idx < 0 || parts[idx] != "" {
						return c.fail("composite literal key")
					}
					parts[idx] = c.expr(kv.Value)
				} else {
					parts[i] = c.expr(el)
				}
			}
			return "((" + strings.Join(parts, ", ") + ") : " + c.leanType(c.typeOf(x)) + ")"
		}
		return c.fail("composite literal")
	case *ast.FuncLit:
		// a closure whose body is a single `return e` with e free of partial operations: a Lean lambda
		if len(x.Body.List) != 1 || x.Type.Results == nil || len(x.Type.Results.List) != 1 {
			return c.fail("function literal shape")
		}
		ret, ok := x.Body.List[0].(*ast.ReturnStmt)
		if !ok || len(ret.Results) != 1 {
			return c.fail("function literal shape")
		}
		var binders []string
		for _, f := range x.Type.Params.List {
			if len(f.Names) == 0 {
				return c.fail("function literal with an unnamed parameter")
			}
			for _, n := range f.Names {
				if c.countDefs(n.Name) != 1 {
					return c.fail("function literal parameter %s re-declared", n.Name)
				}
				binders = append(binders, "("+lv(n.Name)+" : "+c.leanType(c.typeOf(f.Type))+")")
			}
		}
		n := len(c.pre)
		body := c.expr(ret.Results[0])
		if len(c.pre) != n {
			return c.fail("partial operation in a function literal")
		}
		return "(fun " + strings.Join(binders, " ") + " => " + body + ")"
	case *ast.SelectorExpr:
		if fv, ok := c.fieldOf(x); ok {
			return fv
		}
		// a field of a struct value
		if selInfo, ok := c.f.pkg.TypesInfo.Selections[x]; ok && selInfo.Kind() == types.FieldVal && len(selInfo.Index()) == 1 {
			if st, ok := c.typeOf(x.X).Underlying().(*types.Struct); ok && st.NumFields() >= 2 {
				i, n := selInfo.Index()[0], st.NumFields()
				proj := strings.Repeat(".2", i)
				if i < n-1 {
					proj += ".1"
				}
				return c.expr(x.X) + proj
			}
		}
		return c.fail("selector %s", x.Sel.Name)
	}
	return c.fail("expression %T", e)
}

func (c *fragCtx) binary(x *ast.BinaryExpr) string {
	if x.Op == token.LAND || x.Op == token.LOR {
		a := c.expr(x.X)
		n := len(c.pre)
		b := c.expr(x.Y)
		if len(c.pre) != n {
			return c.fail("partial operation in the right operand of %s", x.Op)
		}
		if x.Op == token.LAND {
			return "(" + a + " && " + b + ")"
		}
		return "(" + a + " || " + b + ")"
	}
	lt := c.leanTypeOf(x.X)
	a, b := c.expr(x.X), c.expr(x.Y)
	switch x.Op {
	case token.ADD:
		if lt == strT {
			return "(" + a + " ++ " + b + ")"
		}
	case token.EQL:
		if lt == "Int" {
			return "decide (" + a + " = " + b + ")"
		}
		if lt == "Bool" || lt == strT {
			return "(" + a + " == " + b + ")"
		}
		return c.fail("== on %s", lt)
	case token.NEQ:
		if lt == "Int" {
			return "decide (" + a + " ≠ " + b + ")"
		}
		if lt == "Bool" || lt == strT {
			return "(" + a + " != " + b + ")"
		}
		return c.fail("!= on %s", lt)
	}
	if lt != "Int" {
		return c.fail("binary %s on %s", x.Op, lt)
	}
	switch x.Op {
	case token.ADD:
		return "(" + a + " + " + b + ")"
	case token.SUB:
		return "(" + a + " - " + b + ")"
	case token.MUL:
		return "(" + a + " * " + b + ")"
	case token.QUO:
		if nonZeroIntLit(x.Y) {
			return "(Int.tdiv " + a + " " + b + ")"
		}
		return c.partial("goDiv " + a + " " + b)
	case token.REM:
		if nonZeroIntLit(x.Y) {
			return "(Int.tmod " + a + " " + b + ")"
		}
		return c.partial("goMod " + a + " " + b)
	case token.LSS:
		return "decide (" + a + " < " + b + ")"
	case token.LEQ:
		return "decide (" + a + " ≤ " + b + ")"
	case token.GTR:
		return "decide (" + a + " > " + b + ")"
	case token.GEQ:
		return "decide (" + a + " ≥ " + b + ")"
	}
	return c.fail("binary %s", x.Op)
}

// call translates a call expression used as a value.
func (c *fragCtx) call(x *ast.CallExpr) string {
	info := c.f.pkg.TypesInfo
	// conversion T(e)
	if tv, ok := info.Types[x.Fun]; ok && tv.IsType() {
		if len(x.Args) != 1 {
			return c.fail("conversion")
		}
		from, to := c.leanTypeOf(x.Args[0]), c.leanType(tv.Type)
		if from != to || from == "" {
			return c.fail("conversion from %s to %s", from, to)
		}
		return c.expr(x.Args[0])
	}
	fun := x.Fun
	var targsFromIndex bool
	switch ie := fun.(type) {
	case *ast.IndexExpr:
		fun, targsFromIndex = ie.X, true
	case *ast.IndexListExpr:
		fun, targsFromIndex = ie.X, true
	}
	_ = targsFromIndex
	if sel, ok := fun.(*ast.SelectorExpr); ok {
		return c.selectorCall(x, sel)
	}
	id, ok := fun.(*ast.Ident)
	if !ok {
		return c.fail("call")
	}
	obj := info.Uses[id]
	switch o := obj.(type) {
	case *types.Builtin:
		if id.Name == "len" && len(x.Args) == 1 {
			lt := c.leanTypeOf(x.Args[0])
			// for a map: the number of entries (the keys of the association list are unique)
			if !strings.HasPrefix(lt, "(List") {
				return c.fail("len of %s", lt)
			}
			return "(" + c.expr(x.Args[0]) + ".length : Int)"
		}
		return c.fail("call of %s", id.Name)
	case *types.Var: // a call of a function-typed parameter
		parts := []string{lv(id.Name)}
		for _, a := range x.Args {
			parts = append(parts, c.expr(a))
		}
		return "(" + strings.Join(parts, " ") + ")"
	case *types.Func:
		if o.Pkg() == nil || o.Pkg() != c.f.obj.Pkg() || fragByName[o.Name()] == nil {
			return c.fail("call of %s", id.Name)
		}
		sig := o.Type().(*types.Signature)
		var targs []types.Type
		if inst, ok := info.Instances[id]; ok && inst.TypeArgs != nil {
			for i := 0; i < inst.TypeArgs.Len(); i++ {
				targs = append(targs, inst.TypeArgs.At(i))
			}
		}
		suffix, sub := c.instanceSuffix(sig, targs)
		if c.err != "" {
			return "sorryUnsupported"
		}
		r := translateFunc(o.Name(), suffix, sub, c)
		if !strings.HasPrefix(r.status, "ok") || r.effect {
			return c.fail("call of %s, which is %s", r.leanName, r.status)
		}
		parts := []string{r.leanName}
		if x.Ellipsis != token.NoPos {
			return c.fail("call with ...")
		}
		np := sig.Params().Len()
		if sig.Variadic() {
			// the variadic arguments become one list
			for i := 0; i < np-1; i++ {
				parts = append(parts, c.expr(x.Args[i]))
			}
			var vs []string
			for i := np - 1; i < len(x.Args); i++ {
				vs = append(vs, c.expr(x.Args[i]))
			}
			parts = append(parts, "["+strings.Join(vs, ", ")+"]")
		} else {
			for _, a := range x.Args {
				parts = append(parts, c.expr(a))
			}
		}
		term := strings.Join(parts, " ")
		if r.res {
			return c.partial(term)
		}
		return "(" + term + ")"
	}
	return c.fail("call of %s", id.Name)
}

// selectorCall: library functions with assumed semantics, and strings.Builder methods.
func (c *fragCtx) selectorCall(x *ast.CallExpr, sel *ast.SelectorExpr) string {
	info := c.f.pkg.TypesInfo
	if t, ok := c.readerCall(x, sel); ok {
		return t
	}
	if pid, ok := sel.X.(*ast.Ident); ok {
		if pn, ok := info.Uses[pid].(*types.PkgName); ok && pn.Imported().Path() == "strings" {
			switch sel.Sel.Name {
			case "HasPrefix", "HasSuffix":
				if len(x.Args) == 2 {
					s, p := c.expr(x.Args[0]), c.expr(x.Args[1])
					if sel.Sel.Name == "HasPrefix" {
						return "(List.isPrefixOf " + p + " " + s + ")"
					}
					return "(List.isSuffixOf " + p + " " + s + ")"
				}
			case "Repeat":
				if len(x.Args) == 2 {
					s, n := c.expr(x.Args[0]), c.expr(x.Args[1])
					return c.partial("goRepeat " + s + " " + n)
				}
			}
			return c.fail("call of strings.%s", sel.Sel.Name)
		}
		if v, ok := info.Uses[pid].(*types.Var); ok && isBuilder(v.Type()) && sel.Sel.Name == "String" && len(x.Args) == 0 {
			return lv(pid.Name)
		}
	}
	// a method (value receiver) of a root-package type
	if m, ok := info.Uses[sel.Sel].(*types.Func); ok && m.Pkg() == c.f.obj.Pkg() {
		if selInfo, ok := info.Selections[sel]; ok && selInfo.Kind() == types.MethodVal && !selInfo.Indirect() {
			key := recvTypeName(m.Origin()) + "_" + m.Name()
			if recvTypeName(m.Origin()) != "" && fragByName[key] != nil {
				// type arguments of the receiver must have the default translation
				if named, ok := c.typeOf(sel.X).(*types.Named); ok && named.TypeArgs() != nil {
					for i := 0; i < named.TypeArgs().Len(); i++ {
						if c.leanType(named.TypeArgs().At(i)) != "Int" {
							return c.fail("method of an instance with a non-default type argument")
						}
					}
				}
				r := translateFunc(key, "", nil, c)
				if !strings.HasPrefix(r.status, "ok") || r.effect {
					return c.fail("call of %s, which is %s", r.leanName, r.status)
				}
				parts := []string{r.leanName, c.expr(sel.X)}
				if x.Ellipsis != token.NoPos || m.Type().(*types.Signature).Variadic() {
					return c.fail("variadic method call")
				}
				for _, a := range x.Args {
					parts = append(parts, c.expr(a))
				}
				term := strings.Join(parts, " ")
				if r.res {
					return c.partial(term)
				}
				return "(" + term + ")"
			}
		}
	}
	return c.fail("method or package call %s", sel.Sel.Name)
}

// appendOf recognises append(X, e1, …, en) / append(X, Y...) and returns the term appended to X.
func (c *fragCtx) appendOf(e ast.Expr) (base ast.Expr, tail string, ok bool) {
	call, isCall := e.(*ast.CallExpr)
	if !isCall {
		return nil, "", false
	}
	id, isId := call.Fun.(*ast.Ident)
	if !isId || id.Name != "append" || len(call.Args) < 2 {
		return nil, "", false
	}
	if _, isB := c.f.pkg.TypesInfo.Uses[id].(*types.Builtin); !isB {
		return nil, "", false
	}
	if call.Ellipsis != token.NoPos {
		if len(call.Args) != 2 {
			return nil, "", false
		}
		if c.leanTypeOf(call.Args[1]) != c.leanTypeOf(call.Args[0]) {
			return nil, "", false // append([]byte, string...)
		}
		return call.Args[0], c.expr(call.Args[1]), true
	}
	parts := make([]string, len(call.Args)-1)
	for i, a := range call.Args[1:] {
		parts[i] = c.expr(a)
	}
	return call.Args[0], "[" + strings.Join(parts, ", ") + "]", true
}

// rhs translates the right-hand side of an assignment (append / make / composite literals allowed).
func (c *fragCtx) rhs(e ast.Expr, t types.Type) string {
	if id, ok := e.(*ast.Ident); ok && id.Name == "nil" && t != nil {
		if _, isNil := c.f.pkg.TypesInfo.Uses[id].(*types.Nil); isNil {
			switch t.Underlying().(type) {
			case *types.Slice, *types.Map:
				return c.zero(t) // a nil slice / map is the empty one (values only)
			}
		}
	}
	if call, ok := e.(*ast.CallExpr); ok {
		if id, ok := call.Fun.(*ast.Ident); ok {
			if _, isB := c.f.pkg.TypesInfo.Uses[id].(*types.Builtin); isB {
				switch id.Name {
				case "append":
					// evaluate the base first, then the appended values (Go's order for calls; all pure here)
					if base, _, ok := c.appendOfProbe(e); ok {
						b := c.expr(base)
						_, tail, _ := c.appendOf(e)
						return "(" + b + " ++ " + tail + ")"
					}
					return c.fail("append shape")
				case "make":
					return c.makeExpr(call, t)
				}
			}
		}
	}
	return c.expr(e)
}

// appendOfProbe: shape check only (no translation side effects).
func (c *fragCtx) appendOfProbe(e ast.Expr) (ast.Expr, string, bool) {
	savedPre, savedErr, savedTmp, savedNeed := c.pre, c.err, c.ntmp, c.needRes
	base, _, ok := c.appendOf(e)
	c.pre, c.err, c.ntmp, c.needRes = savedPre, savedErr, savedTmp, savedNeed
	return base, "", ok
}

func (c *fragCtx) makeExpr(call *ast.CallExpr, t types.Type) string {
	mt := c.typeOf(call.Args[0])
	if _, isMap := mt.Underlying().(*types.Map); isMap {
		// the size hint is evaluated but has no effect; it must be free of partial operations
		if len(call.Args) == 2 && !isLenCall(call.Args[1]) && !isLit(call.Args[1], "0") {
			return c.fail("make(map, hint)")
		}
		return c.zero(mt)
	}
	sl, isSlice := mt.Underlying().(*types.Slice)
	if !isSlice || len(call.Args) < 2 {
		return c.fail("make")
	}
	n := call.Args[1]
	capOK := len(call.Args) == 2 || (isLit(n, "0") && (isLenCall(call.Args[2]) || isIntLit(call.Args[2])))
	if len(call.Args) == 3 && isLenCall(n) && isLenCall(call.Args[2]) {
		capOK = false
	}
	switch {
	case isLit(n, "0") && capOK:
		return c.zero(mt)
	case isLenCall(n) && capOK:
		arg := n.(*ast.CallExpr).Args[0]
		lt := c.leanTypeOf(arg)
		if !strings.HasPrefix(lt, "(List") {
			return c.fail("len of %s", lt)
		}
		return "(List.replicate " + c.expr(arg) + ".length " + c.zero(sl.Elem()) + ")"
	}
	nn := c.expr(n)
	cc := nn
	if len(call.Args) == 3 {
		cc = c.expr(call.Args[2])
	}
	return c.partial("goMake " + nn + " " + cc + " " + c.zero(sl.Elem()))
}
