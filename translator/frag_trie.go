package main

// Go -> Lean translation of trie/trie.go (Gen/Trie.lean), in the style of frag_bst.go (read its header first): an
// unshared `*node` is a value of a generated inductive type, a method that assigns through its receiver hands back the
// updated receiver after its results, recursion on a field of the opened receiver is structural recursion.
// `Theorems/GenTieTrie.lean` proves each regenerated definition equal to the definition of `Model/Trie.lean`.
//
// WHAT IS DIFFERENT FROM frag_bst.go (assumed semantics, part of the trusted base):
//   * A type parameter with constraint `~string` is `Str := List UInt8` (a Go string is its bytes); `len(s)` is
//     `(s.length : Int)`; `c := s[i]` is `match byteAt s i with | none => Out.panic | some c => …` (index out of range
//     panics; `byteAt` is `none` for i < 0 or i ≥ len); `byte` is `UInt8`, `<`/`>` on bytes the unsigned order.
//   * Every translated function returns `Out _`; a call is `Out.bind`.  Conditions are decidable propositions.
//   * `if n == nil { n = <fresh node>; n.F = … }` on the receiver: in the nil branch the receiver is a KNOWN node, its
//     fields are known terms (partial evaluation): a comparison `a < a` / `a > a` of two syntactically identical terms
//     is `False` and `if False then A else B` is B; a self-call whose receiver is a field known to be `nil` is a call of
//     `<f>_nil`, the same body specialised to a nil receiver (emitted first, recursion on `len(key) - d`, each such
//     call standing under a condition `d < len(key) - 1`, checked by Lean's termination checker, not assumed).
//   * A node-typed local `x` (result of a call) is a copy.  `x.F` under the right operand of `x == nil || …` is the
//     projection `node.F_ x` (never evaluated when x is nil, by short-circuit); any other `x.F` first opens x:
//     `match x with | .nil => Out.panic | .node … => …`.
//   * The handle `*Trie`: assumed non-nil, fields are variables `t_root`, `t_n`, `t_q`; a function takes the fields it
//     (or a callee) reads and hands back the fields it (or a callee) assigns, in field order, after the results and
//     the updated receiver.
//   * ASSUMED CONTRACT of the interface-typed field `t.q` (`Queuer`): its state is the list of enqueued keys, oldest
//     first; `t.q.Enqueue(k)` is `t_q ++ [k]`, `t.q.Clear()` is `[]`, returning `t.q` returns that list.  The concrete
//     queue behind the interface is NOT translated here (queue/lqueue.go is, in Gen/Linked.lean).
//   * `fmt.Errorf(…)` is `some "fmt.Errorf"` (an error that is not nil; the text is not modelled).
//   * Mutex calls are skipped (METHOD mode).  `K([]byte{b})` is `[b]`, `+` on strings is `++`, `s[:n]` is
//     `if n < 0 ∨ n > len(s) then panic else s.take n.toNat`.
// Anything else: the function is omitted with a comment and reported in facts.json.

import (
	"fmt"
	"go/ast"
	"go/token"
	"go/types"
	"strings"
)

type tsum struct {
	f        *fn
	key      string
	recvNode bool
	recvW    bool
	hUsed    map[string]bool
	hWritten map[string]bool
	nres     int
}

type tnode struct { // state of a node-typed variable
	opened bool
	known  map[string]string
	fresh  bool
}

type tctx struct {
	f       *fn
	s       *tsum
	info    *types.Info
	err     string
	nodes   map[types.Object]*tnode
	guarded map[types.Object]bool
	ntmp    int
	spec    bool
	needNil bool
	hyp     int
}

var tSums map[*types.Func]*tsum
var tNodeNamed *types.Named
var tNodeStruct *types.Struct
var tHandleStruct *types.Struct

func (c *tctx) fail(format string, a ...any) string {
	if c.err == "" {
		c.err = fmt.Sprintf(format, a...)
	}
	return "sorryUnsupported"
}

func tIsStrParam(t types.Type) bool {
	tp, ok := types.Unalias(t).(*types.TypeParam)
	if !ok {
		return false
	}
	b, ok := tp.Underlying().(*types.Interface)
	if !ok {
		return false
	}
	for i := 0; i < b.NumEmbeddeds(); i++ {
		if u, ok := b.EmbeddedType(i).(*types.Union); ok && u.Len() == 1 {
			if bt, ok := u.Term(0).Type().Underlying().(*types.Basic); ok && bt.Info()&types.IsString != 0 {
				return true
			}
		}
	}
	return false
}

func tIsStr(t types.Type) bool {
	if tIsStrParam(t) {
		return true
	}
	b, ok := types.Unalias(t).Underlying().(*types.Basic)
	return ok && b.Info()&types.IsString != 0
}

func tIsNodePtr(t types.Type) bool { return bKind(t) == bkNode }
func tIsHandle(t types.Type) bool  { return bKind(t) == bkHandle }

func (c *tctx) leanType(t types.Type) string {
	t = types.Unalias(t)
	if tIsStr(t) {
		return "Str"
	}
	switch u := t.(type) {
	case *types.TypeParam:
		return "ν"
	case *types.Basic:
		switch {
		case u.Kind() == types.Uint8:
			return "UInt8"
		case u.Info()&types.IsInteger != 0:
			return "Int"
		case u.Info()&types.IsBoolean != 0:
			return "Bool"
		}
	case *types.Pointer:
		if tIsNodePtr(u) {
			return "(node ν)"
		}
	case *types.Named:
		if isErrorType(u) {
			return "Err"
		}
		if _, ok := u.Underlying().(*types.Struct); ok && !isSyncType(u) {
			return "(" + u.Obj().Name() + " ν)"
		}
		if _, ok := u.Underlying().(*types.Interface); ok && u.Obj().Name() == "Queuer" {
			return "(List Str)"
		}
	}
	return c.fail("type %s", t.String())
}

func (c *tctx) zero(t types.Type) string {
	t = types.Unalias(t)
	if tIsStr(t) {
		return "[]"
	}
	switch u := t.(type) {
	case *types.TypeParam:
		return "default"
	case *types.Basic:
		if u.Info()&types.IsBoolean != 0 {
			return "false"
		}
		if u.Info()&types.IsInteger != 0 {
			return "0"
		}
	case *types.Pointer:
		if tIsNodePtr(u) {
			return "node.nil"
		}
	case *types.Named:
		if isErrorType(u) {
			return "none"
		}
		if st, ok := u.Underlying().(*types.Struct); ok {
			return c.structLit(u, st, map[string]string{})
		}
	}
	return c.fail("zero value of %s", t.String())
}

func (c *tctx) structLit(n *types.Named, st *types.Struct, vals map[string]string) string {
	var fs []string
	for _, i := range bFields(st) {
		if v, ok := vals[st.Field(i).Name()]; ok {
			fs = append(fs, v)
		} else {
			fs = append(fs, c.zero(st.Field(i).Type()))
		}
	}
	if bIsNodeStruct(n, st) {
		return "(node.cons " + strings.Join(fs, " ") + ")"
	}
	return "(" + n.Obj().Name() + ".mk " + strings.Join(fs, " ") + ")"
}

func (c *tctx) tmp() string {
	c.ntmp++
	return fmt.Sprintf("r%d_", c.ntmp)
}

// ---------- node variables ----------

func (c *tctx) nodeVar(e ast.Expr) (types.Object, *tnode) {
	id, ok := e.(*ast.Ident)
	if !ok {
		return nil, nil
	}
	obj := c.info.ObjectOf(id)
	if obj == nil || !tIsNodePtr(obj.Type()) {
		return nil, nil
	}
	st := c.nodes[obj]
	if st == nil {
		st = &tnode{}
		c.nodes[obj] = st
	}
	return obj, st
}

func (c *tctx) fieldTerm(obj types.Object, st *tnode, name string) string {
	if v, ok := st.known[name]; ok {
		return v
	}
	return tlv(obj.Name()) + "_" + name
}

func (c *tctx) whole(obj types.Object, st *tnode) string {
	if !st.opened {
		return tlv(obj.Name())
	}
	var fs []string
	for _, i := range bFields(tNodeStruct) {
		fs = append(fs, c.fieldTerm(obj, st, tNodeStruct.Field(i).Name()))
	}
	return "(node.cons " + strings.Join(fs, " ") + ")"
}

func (c *tctx) saveNodes() func() {
	old := map[types.Object]*tnode{}
	for k, v := range c.nodes {
		cp := *v
		cp.known = map[string]string{}
		for a, b := range v.known {
			cp.known[a] = b
		}
		old[k] = &cp
	}
	return func() { c.nodes = old }
}

// path of a selector on a node: field names from the node struct downwards (through the embedded Item)
func (c *tctx) selPath(x *ast.SelectorExpr) []string {
	sel := c.info.Selections[x]
	if sel == nil {
		return nil
	}
	t := sel.Recv()
	var path []string
	for _, i := range sel.Index() {
		_, st := bNamedStruct(t)
		if st == nil {
			return nil
		}
		path = append(path, st.Field(i).Name())
		t = st.Field(i).Type()
	}
	return path
}

// ---------- expressions ----------

func (c *tctx) isNilE(e ast.Expr) bool {
	id, ok := e.(*ast.Ident)
	if !ok || id.Name != "nil" {
		return false
	}
	_, isNil := c.info.Uses[id].(*types.Nil)
	return isNil
}

func (c *tctx) expr(e ast.Expr) string {
	switch x := e.(type) {
	case *ast.ParenExpr:
		return c.expr(x.X)
	case *ast.Ident:
		if x.Name == "true" || x.Name == "false" {
			return x.Name
		}
		if obj, st := c.nodeVar(x); obj != nil {
			return c.whole(obj, st)
		}
		if c.isNilE(x) {
			t := c.info.TypeOf(x)
			if t != nil && tIsNodePtr(t) {
				return "node.nil"
			}
			return "none"
		}
		obj := c.info.ObjectOf(x)
		if v, ok := obj.(*types.Var); ok && v.Pkg() != nil && v.Parent() == v.Pkg().Scope() && isErrorType(v.Type()) {
			return "(some \"" + v.Name() + "\")"
		}
		return tlv(x.Name)
	case *ast.BasicLit:
		if x.Kind == token.INT {
			return x.Value
		}
		if x.Kind == token.STRING && (x.Value == `""` || x.Value == "``") {
			return "[]"
		}
		return c.fail("literal %s", x.Value)
	case *ast.SelectorExpr:
		if id, ok := x.X.(*ast.Ident); ok {
			obj := c.info.ObjectOf(id)
			if obj != nil && tIsHandle(obj.Type()) {
				return tlv(id.Name) + "_" + x.Sel.Name
			}
			if nobj, st := c.nodeVar(id); nobj != nil {
				path := c.selPath(x)
				if len(path) == 0 {
					return c.fail("selector")
				}
				var base string
				switch {
				case st.opened:
					base = c.fieldTerm(nobj, st, path[0])
				case c.guarded[nobj]:
					base = "(node." + path[0] + "_ " + tlv(id.Name) + ")"
				default:
					return c.fail("field read of a node variable that is neither opened nor guarded")
				}
				for _, p := range path[1:] {
					base += "." + p
				}
				return base
			}
		}
		return c.fail("selector expression")
	case *ast.UnaryExpr:
		if x.Op == token.SUB {
			return "(-" + c.expr(x.X) + ")"
		}
		if x.Op == token.NOT {
			return "(!" + c.expr(x.X) + ")"
		}
		if cl, ok := x.X.(*ast.CompositeLit); ok && x.Op == token.AND {
			if n, st := bNamedStruct(c.info.TypeOf(cl)); n != nil && bIsNodeStruct(n, st) {
				return c.structLit(n, st, c.compositeVals(cl, map[string]string{}))
			}
		}
	case *ast.BinaryExpr:
		switch x.Op {
		case token.ADD:
			if tIsStr(c.info.TypeOf(x)) {
				return "(" + c.expr(x.X) + " ++ " + c.expr(x.Y) + ")"
			}
			return "(" + c.expr(x.X) + " + " + c.expr(x.Y) + ")"
		case token.SUB:
			return "(" + c.expr(x.X) + " - " + c.expr(x.Y) + ")"
		}
		return "(decide " + c.prop(x) + ")"
	case *ast.CallExpr:
		if id, ok := x.Fun.(*ast.Ident); ok && id.Name == "len" && len(x.Args) == 1 {
			if _, isB := c.info.Uses[id].(*types.Builtin); isB && tIsStr(c.info.TypeOf(x.Args[0])) {
				return "(" + c.expr(x.Args[0]) + ".length : Int)"
			}
		}
		if sel, ok := x.Fun.(*ast.SelectorExpr); ok {
			if f, ok := c.info.Uses[sel.Sel].(*types.Func); ok && f.FullName() == "fmt.Errorf" {
				return "(some \"fmt.Errorf\")"
			}
		}
		// conversion K([]byte{b})
		if tv, ok := c.info.Types[x.Fun]; ok && tv.IsType() && len(x.Args) == 1 && tIsStr(tv.Type) {
			if cl, ok := x.Args[0].(*ast.CompositeLit); ok {
				if sl, ok := c.info.TypeOf(cl).Underlying().(*types.Slice); ok {
					if b, ok := sl.Elem().Underlying().(*types.Basic); ok && b.Kind() == types.Uint8 {
						var es []string
						for _, el := range cl.Elts {
							es = append(es, c.expr(el))
						}
						return "[" + strings.Join(es, ", ") + "]"
					}
				}
			}
			if tIsStr(c.info.TypeOf(x.Args[0])) {
				return c.expr(x.Args[0])
			}
		}
		return c.fail("call in an expression")
	}
	return c.fail("expression %T", e)
}

// prop: a Go boolean expression as a decidable proposition
func (c *tctx) prop(e ast.Expr) string {
	switch x := e.(type) {
	case *ast.ParenExpr:
		return c.prop(x.X)
	case *ast.UnaryExpr:
		if x.Op == token.NOT {
			p := c.prop(x.X)
			if p == "False" {
				return "True"
			}
			return "(¬ " + p + ")"
		}
	case *ast.BinaryExpr:
		switch x.Op {
		case token.LOR:
			a := c.prop(x.X)
			var added []types.Object
			for _, o := range c.nilTests(x.X) {
				if !c.guarded[o] {
					c.guarded[o] = true
					added = append(added, o)
				}
			}
			b := c.prop(x.Y)
			for _, o := range added {
				delete(c.guarded, o)
			}
			return "(" + a + " ∨ " + b + ")"
		case token.LAND:
			return "(" + c.prop(x.X) + " ∧ " + c.prop(x.Y) + ")"
		case token.EQL, token.NEQ:
			var p string
			other := x.X
			if c.isNilE(x.X) {
				other = x.Y
			}
			if c.isNilE(x.X) || c.isNilE(x.Y) {
				if tIsNodePtr(c.info.TypeOf(other)) {
					if obj, st := c.nodeVar(other); obj != nil && st.opened {
						p = "False"
					} else {
						p = "(node.isNil " + c.expr(other) + " = true)"
					}
				} else if isErrorType(c.info.TypeOf(other)) {
					p = "(" + c.expr(other) + " = none)"
				} else {
					return c.fail("comparison with nil")
				}
			} else {
				p = "(" + c.expr(x.X) + " = " + c.expr(x.Y) + ")"
			}
			if x.Op == token.NEQ {
				if p == "False" {
					return "True"
				}
				return "(¬ " + p + ")"
			}
			return p
		case token.LSS, token.GTR, token.LEQ, token.GEQ:
			a, b := c.expr(x.X), c.expr(x.Y)
			if a == b && (x.Op == token.LSS || x.Op == token.GTR) {
				return "False"
			}
			op := map[token.Token]string{token.LSS: "<", token.GTR: ">", token.LEQ: "≤", token.GEQ: "≥"}[x.Op]
			return "(" + a + " " + op + " " + b + ")"
		}
	}
	return "(" + c.expr(e) + " = true)"
}

// nilTests: the node variables x with a disjunct `x == nil` in e
func (c *tctx) nilTests(e ast.Expr) []types.Object {
	switch x := e.(type) {
	case *ast.ParenExpr:
		return c.nilTests(x.X)
	case *ast.BinaryExpr:
		if x.Op == token.LOR {
			return append(c.nilTests(x.X), c.nilTests(x.Y)...)
		}
		if x.Op == token.EQL && c.isNilE(x.Y) {
			if obj, _ := c.nodeVar(x.X); obj != nil {
				return []types.Object{obj}
			}
		}
	}
	return nil
}

// opensFor: node locals read by field in es, not opened and not guarded there
func (c *tctx) opensFor(es []ast.Expr) []types.Object {
	var r []types.Object
	seen := map[types.Object]bool{}
	var walk func(e ast.Node, guarded map[types.Object]bool)
	walk = func(e ast.Node, guarded map[types.Object]bool) {
		switch x := e.(type) {
		case nil:
			return
		case *ast.BinaryExpr:
			if x.Op == token.LOR {
				walk(x.X, guarded)
				g := map[types.Object]bool{}
				for k := range guarded {
					g[k] = true
				}
				for _, o := range c.nilTests(x.X) {
					g[o] = true
				}
				walk(x.Y, g)
				return
			}
			walk(x.X, guarded)
			walk(x.Y, guarded)
		case *ast.SelectorExpr:
			if obj, st := c.nodeVar(x.X); obj != nil {
				if !st.opened && !guarded[obj] && !seen[obj] {
					seen[obj] = true
					r = append(r, obj)
				}
				return
			}
			walk(x.X, guarded)
		case *ast.ParenExpr:
			walk(x.X, guarded)
		case *ast.UnaryExpr:
			walk(x.X, guarded)
		case *ast.CallExpr:
			walk(x.Fun, guarded)
			for _, a := range x.Args {
				walk(a, guarded)
			}
		case *ast.CompositeLit:
			for _, a := range x.Elts {
				walk(a, guarded)
			}
		case *ast.IndexExpr:
			walk(x.X, guarded)
			walk(x.Index, guarded)
		case *ast.SliceExpr:
			walk(x.X, guarded)
		}
	}
	for _, e := range es {
		if e != nil {
			walk(e, map[types.Object]bool{})
		}
	}
	return r
}

func (c *tctx) openPattern(obj types.Object) string {
	var fs []string
	for _, i := range bFields(tNodeStruct) {
		fs = append(fs, tlv(obj.Name())+"_"+tNodeStruct.Field(i).Name())
	}
	return ".cons " + strings.Join(fs, " ")
}

// withOpens: open (nil ↦ panic) the node locals that es read by field, then body
func (c *tctx) withOpens(es []ast.Expr, body func() string) string {
	objs := c.opensFor(es)
	if len(objs) == 0 {
		return body()
	}
	obj := objs[0]
	st := c.nodes[obj]
	name := tlv(obj.Name())
	st.opened = true
	st.known = map[string]string{}
	inner := c.withOpens(es, body)
	return "match " + name + " with\n| .nil => Out.panic\n| " + c.openPattern(obj) + " =>\n" + indent(inner, 2)
}

// ---------- calls ----------

func (c *tctx) callee(call *ast.CallExpr) *tsum {
	var id *ast.Ident
	switch f := call.Fun.(type) {
	case *ast.Ident:
		id = f
	case *ast.SelectorExpr:
		id = f.Sel
	case *ast.IndexExpr:
		if i, ok := f.X.(*ast.Ident); ok {
			id = i
		}
	}
	if id == nil {
		return nil
	}
	fo, _ := c.info.Uses[id].(*types.Func)
	if fo == nil {
		return nil
	}
	return tSums[fo.Origin()]
}

func tHandleFields(m map[string]bool) []string {
	var r []string
	for _, i := range bFields(tHandleStruct) {
		if m[tHandleStruct.Field(i).Name()] {
			r = append(r, tHandleStruct.Field(i).Name())
		}
	}
	return r
}

// queueCall: t.q.Enqueue(x) / t.q.Clear()
func (c *tctx) queueCall(call *ast.CallExpr) (string, string, bool) {
	sel, ok := call.Fun.(*ast.SelectorExpr)
	if !ok {
		return "", "", false
	}
	in, ok := sel.X.(*ast.SelectorExpr)
	if !ok {
		return "", "", false
	}
	id, ok := in.X.(*ast.Ident)
	if !ok || !tIsHandle(c.info.TypeOf(id)) {
		return "", "", false
	}
	if _, isI := c.info.TypeOf(in).Underlying().(*types.Interface); !isI {
		return "", "", false
	}
	v := tlv(id.Name) + "_" + in.Sel.Name
	switch sel.Sel.Name {
	case "Enqueue":
		if len(call.Args) == 1 {
			return v, "(" + v + " ++ [" + c.expr(call.Args[0]) + "])", true
		}
	case "Clear":
		if len(call.Args) == 0 {
			return v, "[]", true
		}
	}
	c.fail("method %s of the queue interface", sel.Sel.Name)
	return v, "sorryUnsupported", true
}

// callThen: bind a call of a translated function; after receives the Go results
func (c *tctx) callThen(call *ast.CallExpr, after func(res []string) string) string {
	cs := c.callee(call)
	if cs == nil {
		return c.fail("call of a function outside trie.go")
	}
	var args []string
	var recvField func(val string) // rebind the receiver location
	hname := ""
	name := cs.key
	if cs.f.decl.Recv != nil {
		sel := call.Fun.(*ast.SelectorExpr)
		if cs.recvNode {
			// receiver: a field of an opened node variable, or a handle field
			in, ok := sel.X.(*ast.SelectorExpr)
			if !ok {
				return c.fail("node method called on something that is not a field")
			}
			if obj, st := c.nodeVar(in.X); obj != nil {
				if !st.opened {
					return c.fail("method call on a field of an unopened node")
				}
				path := c.selPath(in)
				if len(path) != 1 {
					return c.fail("receiver path")
				}
				fname := path[0]
				cur := c.fieldTerm(obj, st, fname)
				if cur == "node.nil" && cs == c.s {
					name = cs.key + "_nil"
					c.needNil = true
				} else {
					if st.fresh {
						return c.fail("method call on a non-nil field of a fresh node")
					}
					if cs == c.s && c.spec {
						return c.fail("self-call on an unknown node in the nil specialisation")
					}
					args = append(args, cur)
				}
				recvField = func(val string) {
					delete(st.known, fname)
				}
				_ = recvField
				hname = tlv(obj.Name()) + "_" + fname
			} else if id, ok := in.X.(*ast.Ident); ok && tIsHandle(c.info.TypeOf(id)) {
				args = append(args, tlv(id.Name)+"_"+in.Sel.Name)
				hname = tlv(id.Name) + "_" + in.Sel.Name
			} else {
				return c.fail("receiver of a node method")
			}
		} else {
			id, ok := sel.X.(*ast.Ident)
			if !ok || !tIsHandle(c.info.TypeOf(id)) {
				return c.fail("receiver of a handle method")
			}
		}
	}
	// the handle variable in scope (receiver or argument): its name prefixes the field variables
	hv := ""
	if cs.f.decl.Recv != nil && !cs.recvNode {
		hv = tlv(call.Fun.(*ast.SelectorExpr).X.(*ast.Ident).Name)
	}
	var plain []string
	for _, a := range call.Args {
		if tIsHandle(c.info.TypeOf(a)) {
			id, ok := a.(*ast.Ident)
			if !ok {
				return c.fail("handle argument")
			}
			hv = tlv(id.Name)
			continue
		}
		plain = append(plain, c.exprAs(a))
	}
	for _, f := range tHandleFields(cs.hUsed) {
		if hv == "" {
			return c.fail("no handle in scope for the callee's fields")
		}
		args = append(args, hv+"_"+f)
	}
	args = append(args, plain...)
	r := c.tmp()
	n := cs.nres
	if cs.recvW {
		n++
	}
	hw := tHandleFields(cs.hWritten)
	n += len(hw)
	var res []string
	for i := 0; i < cs.nres; i++ {
		res = append(res, bProj(r, i, n))
	}
	body := ""
	k := cs.nres
	if cs.recvW {
		// the updated receiver goes back to the location it came from
		if in, ok := call.Fun.(*ast.SelectorExpr).X.(*ast.SelectorExpr); ok {
			if obj, st := c.nodeVar(in.X); obj != nil {
				delete(st.known, c.selPath(in)[0])
			}
		}
		body += "let " + hname + " := " + bProj(r, k, n) + "\n"
		k++
	}
	for _, f := range hw {
		body += "let " + hv + "_" + f + " := " + bProj(r, k, n) + "\n"
		k++
	}
	call_ := name
	for _, a := range args {
		call_ += " " + a
	}
	return "Out.bind (" + call_ + ") fun " + r + " =>\n" + indent(body+after(res), 2)
}

func (c *tctx) exprAs(e ast.Expr) string {
	s := c.expr(e)
	if lit, ok := e.(*ast.BasicLit); ok && lit.Kind == token.INT {
		return "(" + s + " : Int)"
	}
	return s
}

// ---------- statements ----------

func (c *tctx) isMutex(e ast.Expr) bool {
	return (&bctx{info: c.info}).isMutexCall(e)
}

func (c *tctx) writes() []string {
	var ws []string
	if c.s.recvW {
		rv := c.f.params[0]
		ws = append(ws, c.whole(rv, c.nodes[rv]))
	}
	hv := c.handleName()
	for _, f := range tHandleFields(c.s.hWritten) {
		ws = append(ws, hv+"_"+f)
	}
	return ws
}

func (c *tctx) handleName() string {
	for _, p := range c.f.params {
		if tIsHandle(p.Type()) {
			return tlv(p.Name())
		}
	}
	return ""
}

func (c *tctx) retTerm(vals []string) string {
	return "Out.ok " + bTupleOf(append(vals, c.writes()...))
}

func tLeaves(list []ast.Stmt) bool {
	if len(list) == 0 {
		return false
	}
	switch x := list[len(list)-1].(type) {
	case *ast.ReturnStmt:
		return true
	case *ast.IfStmt:
		if x.Else == nil {
			return false
		}
		if !tLeaves(x.Body.List) {
			return false
		}
		switch e := x.Else.(type) {
		case *ast.BlockStmt:
			return tLeaves(e.List)
		case *ast.IfStmt:
			return tLeaves([]ast.Stmt{e})
		}
	}
	return false
}

func (c *tctx) assign(lhs ast.Expr, val string, define bool, body func() string) string {
	switch x := lhs.(type) {
	case *ast.Ident:
		if x.Name == "_" {
			return body()
		}
		obj := c.info.ObjectOf(x)
		if obj != nil && tIsNodePtr(obj.Type()) {
			_, st := c.nodeVar(x)
			if !define && c.s.recvNode && obj == c.f.params[0] {
				return c.fail("assignment to the receiver outside `if n == nil`")
			}
			st.opened = false
			st.known = map[string]string{}
			st.fresh = false
		}
		return "let " + tlv(x.Name) + " := " + val + "\n" + body()
	case *ast.SelectorExpr:
		if id, ok := x.X.(*ast.Ident); ok {
			if tIsHandle(c.info.TypeOf(id)) {
				return "let " + tlv(id.Name) + "_" + x.Sel.Name + " := " + val + "\n" + body()
			}
			if obj, st := c.nodeVar(id); obj != nil {
				if !(c.s.recvNode && obj == c.f.params[0]) {
					return c.fail("write through a node variable that is not the receiver")
				}
				if !st.opened {
					return c.fail("write to a field of an unopened node")
				}
				path := c.selPath(x)
				switch len(path) {
				case 1:
					if st.fresh {
						st.known[path[0]] = val
						return body()
					}
					delete(st.known, path[0])
					return "let " + tlv(id.Name) + "_" + path[0] + " := " + val + "\n" + body()
				case 2:
					cur := c.fieldTerm(obj, st, path[0])
					nv := "{ " + cur + " with " + path[1] + " := " + val + " }"
					if st.fresh {
						st.known[path[0]] = nv
						return body()
					}
					return "let " + tlv(id.Name) + "_" + path[0] + " := " + nv + "\n" + body()
				}
			}
		}
	}
	return c.fail("assignment target")
}

func (c *tctx) stmts(list []ast.Stmt, k func() string) string {
	if c.err != "" {
		return "sorryUnsupported"
	}
	if len(list) == 0 {
		return k()
	}
	rest := func() string { return c.stmts(list[1:], k) }
	switch x := list[0].(type) {
	case *ast.DeferStmt:
		if c.isMutex(x.Call) {
			return rest()
		}
		return c.fail("defer")
	case *ast.ExprStmt:
		if c.isMutex(x.X) {
			return rest()
		}
		call, ok := x.X.(*ast.CallExpr)
		if !ok {
			return c.fail("expression statement")
		}
		if v, val, ok := c.queueCall(call); ok {
			return c.withOpens(call.Args, func() string { return "let " + v + " := " + val + "\n" + rest() })
		}
		return c.withOpens([]ast.Expr{call}, func() string {
			return c.callThen(call, func([]string) string { return rest() })
		})
	case *ast.DeclStmt:
		gd, ok := x.Decl.(*ast.GenDecl)
		if !ok || gd.Tok != token.VAR {
			return c.fail("declaration")
		}
		out := ""
		for _, sp := range gd.Specs {
			vs := sp.(*ast.ValueSpec)
			if len(vs.Values) != 0 {
				return c.fail("var with a value")
			}
			for _, n := range vs.Names {
				out += "let " + tlv(n.Name) + " : " + c.leanType(c.info.TypeOf(n)) + " := " + c.zero(c.info.TypeOf(n)) + "\n"
			}
		}
		return out + rest()
	case *ast.IncDecStmt:
		op := " + 1"
		if x.Tok == token.DEC {
			op = " - 1"
		}
		return c.withOpens([]ast.Expr{x.X}, func() string {
			return c.assign(x.X, "("+c.expr(x.X)+op+")", false, rest)
		})
	case *ast.AssignStmt:
		define := x.Tok == token.DEFINE
		if x.Tok != token.DEFINE && x.Tok != token.ASSIGN {
			return c.fail("assignment operator")
		}
		if len(x.Rhs) == 1 {
			if ix, ok := x.Rhs[0].(*ast.IndexExpr); ok && len(x.Lhs) == 1 && tIsStr(c.info.TypeOf(ix.X)) {
				id, ok := x.Lhs[0].(*ast.Ident)
				if !ok {
					return c.fail("index assignment target")
				}
				return c.withOpens([]ast.Expr{ix}, func() string {
					return "match byteAt " + c.expr(ix.X) + " " + c.exprAs(ix.Index) + " with\n| none => Out.panic\n| some " + tlv(id.Name) + " =>\n" + indent(rest(), 2)
				})
			}
			if call, ok := x.Rhs[0].(*ast.CallExpr); ok && c.callee(call) != nil {
				return c.withOpens([]ast.Expr{call}, func() string {
					return c.callThen(call, func(res []string) string {
						if len(res) != len(x.Lhs) {
							return c.fail("assignment count")
						}
						// a fresh node assigned to the receiver under `n == nil`
						var f func(i int) string
						f = func(i int) string {
							if i == len(x.Lhs) {
								return rest()
							}
							return c.assign(x.Lhs[i], res[i], define, func() string { return f(i + 1) })
						}
						return f(0)
					})
				})
			}
		}
		if len(x.Lhs) != len(x.Rhs) {
			return c.fail("assignment shape")
		}
		if len(x.Lhs) != 1 {
			return c.fail("parallel assignment")
		}
		return c.withOpens(append([]ast.Expr{}, x.Rhs...), func() string {
			return c.assign(x.Lhs[0], c.exprAs(x.Rhs[0]), define, rest)
		})
	case *ast.ReturnStmt:
		if len(x.Results) == 1 {
			if call, ok := x.Results[0].(*ast.CallExpr); ok && c.callee(call) != nil {
				cs := c.callee(call)
				return c.withOpens([]ast.Expr{call}, func() string {
					if cs == c.s && len(c.writes()) == 0 && !cs.recvW && len(cs.hWritten) == 0 {
						// tail self-call without writes: the call itself
						s := c.callThen(call, func(res []string) string { return "" })
						i := strings.Index(s, ") fun ")
						return strings.TrimPrefix(s[:i], "Out.bind (")
					}
					return c.callThen(call, func(res []string) string { return c.retTerm(res) })
				})
			}
		}
		return c.withOpens(x.Results, func() string {
			var vals []string
			sig := c.f.obj.Type().(*types.Signature)
			for i, r := range x.Results {
				if c.isNilE(r) && i < sig.Results().Len() {
					vals = append(vals, c.zero(sig.Results().At(i).Type()))
					continue
				}
				vals = append(vals, c.exprAs(r))
			}
			return c.retTerm(vals)
		})
	case *ast.IfStmt:
		if x.Init != nil {
			return c.stmts([]ast.Stmt{x.Init, &ast.IfStmt{If: x.If, Cond: x.Cond, Body: x.Body, Else: x.Else}}, rest)
		}
		return c.ifStmt(x, rest)
	case *ast.BlockStmt:
		return c.stmts(x.List, rest)
	}
	return c.fail("statement %T", list[0])
}

func (c *tctx) ifStmt(x *ast.IfStmt, rest func() string) string {
	// `if n == nil { … }` on an unopened node variable: the match
	if be, ok := x.Cond.(*ast.BinaryExpr); ok && be.Op == token.EQL && c.isNilE(be.Y) && x.Else == nil {
		if obj, st := c.nodeVar(be.X); obj != nil && !st.opened {
			isRecv := c.s.recvNode && obj == c.f.params[0]
			nilBranch := func() string {
				restore := c.saveNodes()
				defer restore()
				return c.nilBody(obj, x.Body.List, rest)
			}
			if isRecv && c.spec {
				return nilBranch()
			}
			a := nilBranch()
			restore := c.saveNodes()
			c.nodes[obj].opened = true
			c.nodes[obj].known = map[string]string{}
			b := rest()
			restore()
			return "match " + tlv(obj.Name()) + " with\n| .nil =>\n" + indent(a, 2) + "\n| " + c.openPattern(obj) + " =>\n" + indent(b, 2)
		}
	}
	return c.withOpens([]ast.Expr{x.Cond}, func() string {
		p := c.prop(x.Cond)
		thenB := func() string {
			restore := c.saveNodes()
			defer restore()
			if tLeaves(x.Body.List) {
				return c.stmts(x.Body.List, func() string { return c.fail("unreachable") })
			}
			return c.stmts(x.Body.List, rest)
		}
		elseB := func() string {
			restore := c.saveNodes()
			defer restore()
			switch e := x.Else.(type) {
			case nil:
				return rest()
			case *ast.BlockStmt:
				return c.stmts(e.List, rest)
			case *ast.IfStmt:
				return c.stmts([]ast.Stmt{e}, rest)
			}
			return c.fail("else")
		}
		switch p {
		case "False":
			return elseB()
		case "True":
			return thenB()
		}
		h := ""
		if c.spec {
			c.hyp++
			h = fmt.Sprintf("h%d_ : ", c.hyp)
		}
		return "if " + h + p + " then\n" + indent(thenB(), 2) + "\nelse\n" + indent(elseB(), 2)
	})
}

// nilBody: the body of `if n == nil {…}` with n known to be nil; `n = <call of a constructor>` makes n a fresh node
func (c *tctx) nilBody(obj types.Object, list []ast.Stmt, rest func() string) string {
	st := c.nodes[obj]
	if len(list) > 0 {
		if as, ok := list[0].(*ast.AssignStmt); ok && as.Tok == token.ASSIGN && len(as.Lhs) == 1 && len(as.Rhs) == 1 {
			if id, ok := as.Lhs[0].(*ast.Ident); ok && c.info.ObjectOf(id) == obj {
				call, ok := as.Rhs[0].(*ast.CallExpr)
				if !ok {
					return c.fail("receiver assigned something that is not a constructor call")
				}
				vals, ok := c.inlineCtor(call)
				if !ok {
					return c.fail("receiver assigned a call that is not a plain node constructor")
				}
				st.opened = true
				st.fresh = true
				st.known = vals
				return c.stmts(list[1:], rest)
			}
		}
	}
	if !tLeaves(list) {
		return c.fail("`if n == nil` body neither leaves nor assigns a fresh node")
	}
	// n is nil here: the whole value is node.nil
	body := c.stmts(list, func() string { return c.fail("unreachable") })
	return body
}

// inlineCtor: `newNode(a, b)` whose body is `return &node{…}`: the field terms of the fresh node
func (c *tctx) inlineCtor(call *ast.CallExpr) (map[string]string, bool) {
	cs := c.callee(call)
	if cs == nil || cs.f.decl.Recv != nil || len(cs.f.decl.Body.List) != 1 {
		return nil, false
	}
	ret, ok := cs.f.decl.Body.List[0].(*ast.ReturnStmt)
	if !ok || len(ret.Results) != 1 {
		return nil, false
	}
	ue, ok := ret.Results[0].(*ast.UnaryExpr)
	if !ok || ue.Op != token.AND {
		return nil, false
	}
	cl, ok := ue.X.(*ast.CompositeLit)
	if !ok {
		return nil, false
	}
	// substitute the arguments for the parameters
	sub := map[string]string{}
	sig := cs.f.obj.Type().(*types.Signature)
	for i := 0; i < sig.Params().Len(); i++ {
		sub[sig.Params().At(i).Name()] = c.exprAs(call.Args[i])
	}
	cc := &tctx{f: cs.f, s: cs, info: cs.f.pkg.TypesInfo, nodes: map[types.Object]*tnode{}, guarded: map[types.Object]bool{}}
	vals := cc.compositeVals(cl, sub)
	if cc.err != "" {
		c.fail("%s", cc.err)
		return nil, false
	}
	all := map[string]string{}
	for _, i := range bFields(tNodeStruct) {
		fl := tNodeStruct.Field(i)
		if v, ok := vals[fl.Name()]; ok {
			all[fl.Name()] = v
		} else {
			all[fl.Name()] = c.zero(fl.Type())
		}
	}
	return all, true
}

func (c *tctx) compositeVals(cl *ast.CompositeLit, sub map[string]string) map[string]string {
	vals := map[string]string{}
	for _, el := range cl.Elts {
		kv, ok := el.(*ast.KeyValueExpr)
		if !ok {
			c.fail("positional composite literal")
			return vals
		}
		name := kv.Key.(*ast.Ident).Name
		switch v := kv.Value.(type) {
		case *ast.CompositeLit:
			n, st := bNamedStruct(c.info.TypeOf(v))
			if n == nil {
				c.fail("composite literal type")
				return vals
			}
			vals[name] = c.structLit(n, st, c.compositeVals(v, sub))
		case *ast.Ident:
			if s, ok := sub[v.Name]; ok {
				vals[name] = s
			} else {
				vals[name] = c.expr(v)
			}
		default:
			vals[name] = c.expr(v)
		}
	}
	return vals
}

// ---------- summaries and driver ----------

func buildTrieSummaries(list []*fn) {
	tSums = map[*types.Func]*tsum{}
	for _, f := range list {
		s := &tsum{f: f, hUsed: map[string]bool{}, hWritten: map[string]bool{}}
		s.key = f.obj.Name()
		if f.decl.Recv != nil && len(f.params) > 0 {
			if n, _ := bNamedStruct(f.params[0].Type()); n != nil {
				s.key = n.Obj().Name() + "_" + f.obj.Name()
			}
			s.recvNode = tIsNodePtr(f.params[0].Type())
		}
		s.nres = f.obj.Type().(*types.Signature).Results().Len()
		tSums[f.obj] = s
	}
	info := list[0].pkg.TypesInfo
	isH := func(e ast.Expr) bool {
		id, ok := e.(*ast.Ident)
		return ok && info.TypeOf(id) != nil && tIsHandle(info.TypeOf(id))
	}
	for changed := true; changed; {
		changed = false
		set := func(m map[string]bool, k string) {
			if !m[k] {
				m[k] = true
				changed = true
			}
		}
		for _, f := range list {
			s := tSums[f.obj]
			cx := &tctx{info: info}
			ast.Inspect(f.decl.Body, func(n ast.Node) bool {
				switch x := n.(type) {
				case *ast.SelectorExpr:
					if isH(x.X) && !isSyncType(info.TypeOf(x)) {
						if _, isF := info.Uses[x.Sel].(*types.Var); isF {
							set(s.hUsed, x.Sel.Name)
						}
					}
				case *ast.AssignStmt:
					for _, l := range x.Lhs {
						if sel, ok := l.(*ast.SelectorExpr); ok {
							if isH(sel.X) {
								set(s.hWritten, sel.Sel.Name)
							} else if id, ok := sel.X.(*ast.Ident); ok && s.recvNode && info.ObjectOf(id) == f.params[0] && !s.recvW {
								s.recvW = true
								changed = true
							}
						}
						if id, ok := l.(*ast.Ident); ok && s.recvNode && info.ObjectOf(id) == f.params[0] && !s.recvW {
							s.recvW = true
							changed = true
						}
					}
				case *ast.IncDecStmt:
					if sel, ok := x.X.(*ast.SelectorExpr); ok && isH(sel.X) {
						set(s.hWritten, sel.Sel.Name)
					}
				case *ast.CallExpr:
					if sel, ok := x.Fun.(*ast.SelectorExpr); ok {
						if in, ok := sel.X.(*ast.SelectorExpr); ok && isH(in.X) {
							if _, isI := info.TypeOf(in).Underlying().(*types.Interface); isI {
								set(s.hWritten, in.Sel.Name)
							}
						}
					}
					if cs := cx.callee(x); cs != nil {
						for k := range cs.hUsed {
							set(s.hUsed, k)
						}
						for k := range cs.hWritten {
							set(s.hWritten, k)
						}
					}
				}
				return true
			})
			for k := range s.hWritten {
				set(s.hUsed, k)
			}
		}
	}
}

func translateTrieFunc(sb *strings.Builder, s *tsum, status map[string]string) {
	f := s.f
	sig := f.obj.Type().(*types.Signature)
	gen := func(spec bool) (string, *tctx) {
		c := &tctx{f: f, s: s, info: f.pkg.TypesInfo, nodes: map[types.Object]*tnode{}, guarded: map[types.Object]bool{}, spec: spec}
		var binders []string
		for i, p := range f.params {
			switch {
			case tIsHandle(p.Type()):
				for _, fl := range tHandleFields(s.hUsed) {
					var ft types.Type
					for _, j := range bFields(tHandleStruct) {
						if tHandleStruct.Field(j).Name() == fl {
							ft = tHandleStruct.Field(j).Type()
						}
					}
					binders = append(binders, "("+tlv(p.Name())+"_"+fl+" : "+c.leanType(ft)+")")
				}
			case tIsNodePtr(p.Type()):
				c.nodes[p] = &tnode{known: map[string]string{}}
				if i == 0 && s.recvNode && spec {
					continue
				}
				binders = append(binders, "("+tlv(p.Name())+" : (node ν))")
			default:
				binders = append(binders, "("+tlv(p.Name())+" : "+c.leanType(p.Type())+")")
			}
		}
		var ts []string
		for i := 0; i < sig.Results().Len(); i++ {
			if sig.Results().At(i).Name() != "" {
				// named results: variables initialised to the zero value
				continue
			}
			ts = append(ts, c.leanType(sig.Results().At(i).Type()))
		}
		pre := ""
		ts = nil
		for i := 0; i < sig.Results().Len(); i++ {
			r := sig.Results().At(i)
			ts = append(ts, c.leanType(r.Type()))
			if r.Name() != "" && r.Name() != "_" {
				pre += "let " + tlv(r.Name()) + " : " + c.leanType(r.Type()) + " := " + c.zero(r.Type()) + "\n"
			}
		}
		if s.recvW {
			ts = append(ts, "(node ν)")
		}
		for _, fl := range tHandleFields(s.hWritten) {
			for _, j := range bFields(tHandleStruct) {
				if tHandleStruct.Field(j).Name() == fl {
					ts = append(ts, c.leanType(tHandleStruct.Field(j).Type()))
				}
			}
		}
		body := pre + c.stmts(f.decl.Body.List, func() string {
			if sig.Results().Len() != 0 {
				return c.fail("control reaches the end of a function with results")
			}
			return c.retTerm(nil)
		})
		name := s.key
		tail := ""
		if spec {
			name += "_nil"
			tail = "\ntermination_by ((key.length : Int) - d).toNat\ndecreasing_by all_goals (simp_wf; omega)"
		}
		rt := bTypeTuple(ts)
		doc := "`" + f.obj.FullName() + "`"
		if spec {
			doc += " specialised to a nil receiver"
		}
		return fmt.Sprintf("/-- %s -/\ndef %s {ν : Type} [Inhabited ν] %s : Out %s :=\n%s%s\n\n", doc, name, strings.Join(binders, " "), rt, indent(body, 2), tail), c
	}
	text, c := gen(false)
	if c.err == "" && c.needNil {
		st, cn := gen(true)
		if cn.err != "" {
			c.err = "nil specialisation: " + cn.err
		} else {
			text = st + text
		}
	}
	if c.err != "" {
		fmt.Fprintf(sb, "-- %s: outside the translated fragment (%s)\n\n", s.key, c.err)
		status["trie."+s.key] = "unsupported: " + c.err
		return
	}
	sb.WriteString(text)
	status["trie."+s.key] = "ok"
}

const triePrelude = `/-- a Go string (type parameter ` + "`K ~string`" + `): its bytes -/
abbrev Str := List UInt8

/-- ` + "`s[i]`" + `: none = index out of range (Go panics) -/
def byteAt (s : Str) (i : Int) : Option UInt8 :=
  if i < 0 then none else s[i.toNat]?

`

func translateTrie() (string, map[string]string) {
	status := map[string]string{}
	var sb strings.Builder
	sb.WriteString("/-! GENERATED by /verif/translator (frag_trie.go) from /repo's current source — do not edit.\n\n")
	sb.WriteString("Mechanical Go → Lean translation of trie/trie.go; see translator/frag_trie.go for the fragment (frag_bst.go's\n")
	sb.WriteString("treatment of an unshared pointer structure as an inductive value, plus: `K ~string` is `Str = List UInt8`,\n")
	sb.WriteString("`key[d]` is `byteAt` with `none ↦ Out.panic`; the receiver assigned a fresh node under `if n == nil` is a known\n")
	sb.WriteString("node (partial evaluation; `<f>_nil` is the body specialised to a nil receiver, recursion on `len(key) - d`);\n")
	sb.WriteString("`x.F` to the right of `x == nil ||` is the projection `node.F_`; the `*Trie` handle is its fields `t_root`, `t_n`,\n")
	sb.WriteString("`t_q`.  ASSUMED CONTRACT for the interface-typed result queue `t.q`: its state is the list of enqueued keys,\n")
	sb.WriteString("`Enqueue(k)` is snoc, `Clear()` is `[]`.  `fmt.Errorf(…)` is `some \"fmt.Errorf\"`.  Mutex calls are skipped\n")
	sb.WriteString("(METHOD mode).  `Theorems/GenTieTrie.lean` proves each definition equal to `Model/Trie.lean`. -/\n")
	sb.WriteString("set_option linter.unusedVariables false\nnamespace GoguVerif.Gen.Trie\n\n")
	sb.WriteString("/-- placeholder that makes an unsupported function's tie theorem fail to build -/\nopaque sorryUnsupported {α : Type} [Inhabited α] : α\n\n")
	sb.WriteString(bstPrelude)
	sb.WriteString(triePrelude)
	var list []*fn
	var file *ast.File
	for _, f := range order {
		if f.pkg.Name != "trie" {
			continue
		}
		fname := f.pkg.Fset.File(f.decl.Pos()).Name()
		if !strings.HasSuffix(fname, "trie.go") {
			continue
		}
		if file == nil {
			for _, sf := range f.pkg.Syntax {
				if f.pkg.Fset.File(sf.Pos()).Name() == fname {
					file = sf
				}
			}
		}
		list = append(list, f)
	}
	tNodeStruct, tHandleStruct = nil, nil
	if file != nil {
		info := list[0].pkg.TypesInfo
		for _, d := range file.Decls {
			gd, ok := d.(*ast.GenDecl)
			if !ok || gd.Tok != token.TYPE {
				continue
			}
			for _, sp := range gd.Specs {
				obj, _ := info.Defs[sp.(*ast.TypeSpec).Name].(*types.TypeName)
				if obj == nil {
					continue
				}
				n, _ := types.Unalias(obj.Type()).(*types.Named)
				if n == nil {
					continue
				}
				st, ok := n.Underlying().(*types.Struct)
				if !ok {
					continue
				}
				c := &tctx{info: info}
				hasSync := false
				for i := 0; i < st.NumFields(); i++ {
					hasSync = hasSync || isSyncType(st.Field(i).Type())
				}
				var fns, fts []string
				for _, i := range bFields(st) {
					fns = append(fns, st.Field(i).Name())
					fts = append(fts, c.leanType(st.Field(i).Type()))
				}
				switch {
				case bIsNodeStruct(n, st):
					tNodeNamed, tNodeStruct = n, st
					// emitted after the plain structs it contains (below)
				case hasSync:
					tHandleStruct = st
				default:
					fmt.Fprintf(&sb, "/-- `%s` -/\nstructure %s (ν : Type) where\n", obj.Name(), obj.Name())
					for i := range fns {
						fmt.Fprintf(&sb, "  %s : %s\n", fns[i], fts[i])
					}
					sb.WriteString("\n")
				}
				if c.err != "" {
					fmt.Fprintf(&sb, "-- type %s: outside the translated fragment (%s)\n\n", obj.Name(), c.err)
				}
			}
		}
	}
	if file == nil || tNodeStruct == nil || tHandleStruct == nil {
		sb.WriteString("-- trie/trie.go: missing from the source (or no node / handle type)\n\nend GoguVerif.Gen.Trie\n")
		status["trie"] = "missing from the source"
		return sb.String(), status
	}
	{
		c := &tctx{info: list[0].pkg.TypesInfo}
		var fns, fts []string
		for _, i := range bFields(tNodeStruct) {
			fns = append(fns, tNodeStruct.Field(i).Name())
			fts = append(fts, c.leanType(tNodeStruct.Field(i).Type()))
		}
		name := tNodeNamed.Obj().Name()
		fmt.Fprintf(&sb, "/-- `*%s`: `nil`, or a node with the fields %s (in this order) -/\ninductive %s (ν : Type) where\n  | nil\n  | cons : %s → %s ν\n\n",
			name, strings.Join(fns, ", "), name, strings.Join(fts, " → "), name)
		fmt.Fprintf(&sb, "/-- `p == nil` -/\ndef %s.isNil {ν : Type} : %s ν → Bool\n  | .nil => true\n  | .cons .. => false\n\n", name, name)
		for k, i := range bFields(tNodeStruct) {
			pat := make([]string, len(fns))
			for j := range pat {
				pat[j] = "_"
			}
			pat[k] = "x"
			fmt.Fprintf(&sb, "/-- `p.%s` where p is known to be non-nil (the value on nil is never used) -/\ndef %s.%s_ {ν : Type} [Inhabited ν] : %s ν → %s\n  | .nil => %s\n  | .cons %s => x\n\n",
				fns[k], name, fns[k], name, fts[k], c.zero(tNodeStruct.Field(i).Type()), strings.Join(pat, " "))
		}
		var hf []string
		for _, i := range bFields(tHandleStruct) {
			hf = append(hf, tHandleStruct.Field(i).Name())
		}
		fmt.Fprintf(&sb, "-- type Trie: a handle; a `*Trie` is assumed non-nil and its fields %s are variables of the functions below\n\n", strings.Join(hf, ", "))
	}
	buildTrieSummaries(list)
	// callees first (a function is emitted once the other functions of the file it calls have been), else source order
	var sorted []*fn
	emitted := map[*fn]bool{}
	for len(sorted) < len(list) {
		progress := false
		for _, f := range list {
			if emitted[f] {
				continue
			}
			ready := true
			for _, g := range list {
				if g != f && !emitted[g] && tCalls(f, g) {
					ready = false
				}
			}
			if ready {
				emitted[f] = true
				sorted = append(sorted, f)
				progress = true
				break
			}
		}
		if !progress {
			for _, f := range list {
				if !emitted[f] {
					emitted[f] = true
					sorted = append(sorted, f)
				}
			}
		}
	}
	for _, f := range sorted {
		s := tSums[f.obj]
		sig := f.obj.Type().(*types.Signature)
		bad := ""
		for i := 0; i < sig.Results().Len(); i++ {
			if tIsHandle(sig.Results().At(i).Type()) {
				bad = "result of handle type"
			}
		}
		if bad != "" {
			fmt.Fprintf(&sb, "-- %s: outside the translated fragment (%s)\n\n", s.key, bad)
			status["trie."+s.key] = "unsupported: " + bad
			continue
		}
		translateTrieFunc(&sb, s, status)
	}
	sb.WriteString("end GoguVerif.Gen.Trie\n")
	return sb.String(), status
}

func tCalls(a, b *fn) bool {
	found := false
	cx := &tctx{info: a.pkg.TypesInfo}
	ast.Inspect(a.decl.Body, func(n ast.Node) bool {
		if call, ok := n.(*ast.CallExpr); ok {
			if cs := cx.callee(call); cs != nil && cs.f == b {
				found = true
			}
		}
		return true
	})
	return found
}

// tlv: lv, and the Lean command keywords lv does not know become «…»
func tlv(n string) string {
	switch n {
	case "prefix", "infix", "infixl", "infixr", "postfix", "notation", "macro", "syntax", "elab", "open", "end", "section", "namespace", "universe", "variable", "example", "theorem", "def", "instance", "structure", "inductive", "class", "abbrev", "opaque", "axiom", "deriving", "mutual", "attribute", "export", "private", "protected", "local", "scoped", "set_option":
		return "«" + n + "»"
	}
	return lv(n)
}
