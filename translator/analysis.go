// Command translator re-extracts facts from /repo's current source into Lean tables:
//
//	Gen/LockTable.lean  per exported method of the lock-guarded containers: its paths, each a list of
//	                    sections (lock mode + accesses to guarded fields), plus flags (C01, C02)
//	Gen/Effects.lean    per exported helper: which parameters it writes through and which
//	                    parameters its result may alias (C16)
//	Gen/Consts.lean     constants the models depend on (C08, C10)
//	facts.json          the same facts for the Go-side engines
//
// Analysis: go/packages + go/types; flow-insensitive alias sets per function; callee summaries are
// spliced at call sites; paths are enumerated with loops taken 0 or 1 times.
package main

import (
	"fmt"
	"go/ast"
	"go/token"
	"go/types"
	"sort"
	"strings"

	"golang.org/x/tools/go/packages"
)

// ---- effects ------------------------------------------------------------------------------

// An Origin says: storage reachable from parameter P (index in the function's param list, receiver
// = 0), entered through field F of P ("" = P itself / unknown field).
type Origin struct {
	P int
	F string
}

type Access struct {
	O Origin
	W bool
}

type Sect struct {
	Mode map[int]string // param index -> "", "r", "w"  (lock of that instance)
	Accs map[Access]bool
	Send bool // channel send while here
	Ext  bool // call through interface
	// AtomW counts the writing operations (Add, Store, Swap, CompareAndSwap, And, Or) this section performs on
	// fields of sync/atomic types: two of them inside ONE locked section are two separately visible steps for a
	// method that reads the field without the lock (flag `twoAtomicWritesInLock`, C02)
	AtomW int
}

type Path struct {
	Sects  []Sect
	Flags  map[string]bool
	Escape map[Origin]bool
}

type Summary struct {
	Paths []Path
	done  bool
	busy  bool
}

type fn struct {
	pkg    *packages.Package
	decl   *ast.FuncDecl
	obj    *types.Func
	params []*types.Var // receiver first
	sum    *Summary
}

var funcs = map[*types.Func]*fn{}

// fields assigned somewhere other than a composite literal (by field object)
var mutableField = map[string]bool{}

func modeKey(m map[int]string) string {
	ks := []string{}
	for k, v := range m {
		if v != "" {
			ks = append(ks, fmt.Sprint(k, v))
		}
	}
	sort.Strings(ks)
	return strings.Join(ks, ",")
}

func (s Sect) key() string {
	as := []string{}
	for a := range s.Accs {
		as = append(as, fmt.Sprint(a))
	}
	sort.Strings(as)
	return modeKey(s.Mode) + "|" + strings.Join(as, ";") + fmt.Sprint(s.Send, s.Ext)
}

// ---- walker state -------------------------------------------------------------------------

type state struct {
	sects    []Sect
	cur      Sect
	deferred []func(*state)
	returned bool
	flags    map[string]bool
	escape   map[Origin]bool
}

func newSect(mode map[int]string) Sect {
	m := map[int]string{}
	for k, v := range mode {
		m[k] = v
	}
	return Sect{Mode: m, Accs: map[Access]bool{}}
}

func (s *state) clone() *state {
	c := &state{returned: s.returned, flags: map[string]bool{}, escape: map[Origin]bool{}}
	for k := range s.flags {
		c.flags[k] = true
	}
	for k := range s.escape {
		c.escape[k] = true
	}
	for _, x := range s.sects {
		n := newSect(x.Mode)
		for a := range x.Accs {
			n.Accs[a] = true
		}
		n.Send, n.Ext, n.AtomW = x.Send, x.Ext, x.AtomW
		c.sects = append(c.sects, n)
	}
	c.cur = newSect(s.cur.Mode)
	for a := range s.cur.Accs {
		c.cur.Accs[a] = true
	}
	c.cur.Send, c.cur.Ext, c.cur.AtomW = s.cur.Send, s.cur.Ext, s.cur.AtomW
	c.deferred = append(c.deferred, s.deferred...)
	return c
}

func (s *state) key() string {
	ks := []string{}
	for _, x := range s.sects {
		ks = append(ks, x.key())
	}
	fl := []string{}
	for k := range s.flags {
		fl = append(fl, k)
	}
	sort.Strings(fl)
	return strings.Join(ks, "//") + "##" + s.cur.key() + fmt.Sprint(s.returned, len(s.deferred), fl)
}

func (s *state) setMode(p int, m string) {
	if len(s.cur.Accs) > 0 || s.cur.Send || s.cur.Ext || modeKey(s.cur.Mode) != "" {
		s.sects = append(s.sects, s.cur)
	}
	n := newSect(s.cur.Mode)
	n.Mode[p] = m
	s.cur = n
}

func (s *state) acquire(p int, m string) {
	if s.cur.Mode[p] != "" {
		s.flags["nestedAcquire"] = true
	}
	for q, v := range s.cur.Mode {
		if q != p && v != "" {
			s.flags["holdsTwo"] = true
		}
	}
	s.setMode(p, m)
}

func (s *state) release(p int, m string) {
	if s.cur.Mode[p] != m {
		s.flags["unbalanced"] = true
	}
	s.setMode(p, "")
}

// ---- analysis of one function -------------------------------------------------------------

type analyzer struct {
	f       *fn
	info    *types.Info
	origins map[types.Object]map[Origin]bool // locals
	pidx    map[types.Object]int
}

func carriesRefs(t types.Type) bool {
	if _, ok := types.Unalias(t).(*types.TypeParam); ok {
		return false // element types of the containers: treated as values
	}
	if b, ok := t.Underlying().(*types.Basic); ok && b.Info()&types.IsString != 0 {
		return false
	}
	switch u := t.Underlying().(type) {
	case *types.Pointer, *types.Slice, *types.Map, *types.Chan, *types.Interface, *types.Signature:
		return true
	case *types.Struct:
		for i := 0; i < u.NumFields(); i++ {
			if carriesRefs(u.Field(i).Type()) {
				return true
			}
		}
	case *types.Array:
		return carriesRefs(u.Elem())
	case *types.TypeParam:
		return false // element types of the containers: treated as values
	}
	return false
}

// roots returns the origins of the storage denoted by (or referenced by) e.
func (a *analyzer) roots(e ast.Expr) map[Origin]bool {
	out := map[Origin]bool{}
	switch x := e.(type) {
	case *ast.Ident:
		obj := a.info.Uses[x]
		if obj == nil {
			obj = a.info.Defs[x]
		}
		if i, ok := a.pidx[obj]; ok {
			out[Origin{i, ""}] = true
		}
		for o := range a.origins[obj] {
			out[o] = true
		}
	case *ast.SelectorExpr:
		if sel := a.info.Selections[x]; sel != nil && sel.Kind() == types.FieldVal {
			for o := range a.roots(x.X) {
				if o.F == "" {
					// first field entered from the parameter itself
					out[Origin{o.P, fieldPathName(sel)}] = true
				} else {
					out[o] = true
				}
			}
		} else if sel != nil { // method value
			for o := range a.roots(x.X) {
				out[o] = true
			}
		}
	case *ast.IndexExpr:
		return a.roots(x.X)
	case *ast.StarExpr:
		return a.roots(x.X)
	case *ast.ParenExpr:
		return a.roots(x.X)
	case *ast.SliceExpr:
		return a.roots(x.X)
	case *ast.UnaryExpr:
		if x.Op == token.AND {
			return a.roots(x.X)
		}
	case *ast.CallExpr:
		// append: the result's storage is the first argument's (or fresh)
		if id, ok := x.Fun.(*ast.Ident); ok {
			if _, isB := a.info.Uses[id].(*types.Builtin); isB {
				if id.Name == "append" && len(x.Args) > 0 {
					return a.roots(x.Args[0])
				}
				return out
			}
		}
		// analysed callee: use what its returned value derives from
		if cf := a.calleeOf(x); cf != nil && (cf.sum.done || cf.sum.busy) {
			actuals := a.actualsOf(x, cf)
			for _, p := range cf.sum.Paths {
				for o := range p.Escape {
					if o.P < len(actuals) && actuals[o.P] != nil {
						for r := range a.roots(actuals[o.P]) {
							out[r] = true
						}
					}
				}
			}
			return out
		}
		if tv, ok := a.info.Types[x]; ok && tv.Type != nil && carriesRefs(tv.Type) {
			if se, ok := x.Fun.(*ast.SelectorExpr); ok {
				if sel := a.info.Selections[se]; sel != nil {
					for o := range a.roots(se.X) {
						out[o] = true
					}
				}
			}
			for _, arg := range x.Args {
				if t := a.info.TypeOf(arg); t != nil && isPSM(t) {
					for o := range a.roots(arg) {
						out[o] = true
					}
				}
			}
		}
	}
	return out
}

func (a *analyzer) calleeOf(c *ast.CallExpr) *fn {
	var callee *types.Func
	switch f := c.Fun.(type) {
	case *ast.Ident:
		callee, _ = a.info.Uses[f].(*types.Func)
	case *ast.SelectorExpr:
		if sel := a.info.Selections[f]; sel != nil {
			callee, _ = sel.Obj().(*types.Func)
		} else {
			callee, _ = a.info.Uses[f.Sel].(*types.Func)
		}
	case *ast.IndexExpr:
		if id, ok := f.X.(*ast.Ident); ok {
			callee, _ = a.info.Uses[id].(*types.Func)
		}
	}
	if callee == nil {
		return nil
	}
	return funcs[callee.Origin()]
}

func (a *analyzer) actualsOf(c *ast.CallExpr, cf *fn) []ast.Expr {
	var actuals []ast.Expr
	if se, ok := c.Fun.(*ast.SelectorExpr); ok && a.info.Selections[se] != nil {
		actuals = append(actuals, se.X)
	} else if cf.decl.Recv != nil {
		actuals = append(actuals, nil)
	}
	return append(actuals, c.Args...)
}

func isPSM(t types.Type) bool {
	switch t.Underlying().(type) {
	case *types.Pointer, *types.Slice, *types.Map:
		return true
	}
	return false
}

func fieldPathName(sel *types.Selection) string {
	// name of the first (outermost struct) field on the path, so that embedded promotion maps
	// to the embedded field name
	t := sel.Recv()
	idx := sel.Index()
	for {
		if p, ok := t.Underlying().(*types.Pointer); ok {
			t = p.Elem()
			continue
		}
		break
	}
	for _, i := range idx {
		for {
			if p, ok := t.Underlying().(*types.Pointer); ok {
				t = p.Elem()
				continue
			}
			break
		}
		st, ok := t.Underlying().(*types.Struct)
		if !ok {
			break
		}
		f := st.Field(i)
		if !f.Embedded() {
			return f.Name()
		}
		t = f.Type()
	}
	return sel.Obj().Name()
}

// hasIndirection reports whether evaluating the location e passes through a pointer, slice or
// map between its root identifier and the final location.
func (a *analyzer) hasIndirection(e ast.Expr) bool {
	switch x := e.(type) {
	case *ast.Ident:
		return false
	case *ast.ParenExpr:
		return a.hasIndirection(x.X)
	case *ast.StarExpr:
		return true
	case *ast.IndexExpr:
		t := a.info.TypeOf(x.X)
		if t != nil {
			switch t.Underlying().(type) {
			case *types.Slice, *types.Map, *types.Pointer:
				return true
			}
		}
		return a.hasIndirection(x.X)
	case *ast.SelectorExpr:
		t := a.info.TypeOf(x.X)
		if t != nil {
			if _, ok := t.Underlying().(*types.Pointer); ok {
				return true
			}
		}
		return a.hasIndirection(x.X)
	}
	return false
}

func isMuSel(info *types.Info, e ast.Expr) (ast.Expr, bool) {
	// e is X.mu where mu's type is (pointer to) sync.RWMutex / sync.Mutex
	se, ok := e.(*ast.SelectorExpr)
	if !ok {
		return nil, false
	}
	t := info.TypeOf(se)
	if t == nil {
		return nil, false
	}
	s := t.String()
	if strings.HasSuffix(s, "sync.RWMutex") || strings.HasSuffix(s, "sync.Mutex") {
		return se.X, true
	}
	return nil, false
}

func isAtomicType(t types.Type) bool {
	if p, ok := t.(*types.Pointer); ok {
		t = p.Elem()
	}
	n, ok := t.(*types.Named)
	return ok && n.Obj().Pkg() != nil && n.Obj().Pkg().Path() == "sync/atomic"
}

// ifaceObserver: methods of an interface-typed guarded field that only observe the object behind it
var ifaceObserver = map[string]bool{"Size": true, "Len": true, "IsEmpty": true, "Peek": true, "Search": true, "String": true}

func (a *analyzer) note(s *state, e ast.Expr, write bool) {
	for o := range a.roots(e) {
		if o.F == "mu" {
			continue
		}
		if o.P < len(a.f.params) && !carriesRefs(a.f.params[o.P].Type()) {
			continue
		}
		s.cur.Accs[Access{o, write}] = true
	}
}

// reads: record every field selection / index rooted at a parameter inside e; process calls.
func (a *analyzer) expr(states []*state, e ast.Expr) []*state {
	if e == nil {
		return states
	}
	switch x := e.(type) {
	case *ast.CallExpr:
		return a.call(states, x)
	case *ast.FuncLit:
		return a.block(states, x.Body.List)
	case *ast.SelectorExpr:
		if _, ok := isMuSel(a.info, x); ok {
			return states
		}
		if sel := a.info.Selections[x]; sel != nil && sel.Kind() == types.FieldVal {
			if isAtomicType(sel.Obj().Type()) {
				// a field of a sync/atomic type: every access goes through its atomic methods, so it never races
				// (C01 ignores it); but an atomic step on shared state OUTSIDE the critical section is a separate
				// step of the operation (C02: flag `atomicOutsideLock`)
				for _, s := range states {
					if modeKey(s.cur.Mode) == "" {
						s.flags["atomicOutsideLock"] = true
					}
				}
				return a.expr(states, x.X)
			}
			for _, s := range states {
				a.note(s, x, false)
			}
		}
		return a.expr(states, x.X)
	case *ast.IndexExpr:
		for _, s := range states {
			a.note(s, x, false)
		}
		states = a.expr(states, x.X)
		return a.expr(states, x.Index)
	case *ast.StarExpr:
		for _, s := range states {
			a.note(s, x, false)
		}
		return a.expr(states, x.X)
	case *ast.ParenExpr:
		return a.expr(states, x.X)
	case *ast.UnaryExpr:
		return a.expr(states, x.X)
	case *ast.BinaryExpr:
		states = a.expr(states, x.X)
		return a.expr(states, x.Y)
	case *ast.SliceExpr:
		for _, s := range states {
			a.note(s, x, false)
		}
		states = a.expr(states, x.X)
		states = a.expr(states, x.Low)
		states = a.expr(states, x.High)
		return a.expr(states, x.Max)
	case *ast.CompositeLit:
		for _, el := range x.Elts {
			if kv, ok := el.(*ast.KeyValueExpr); ok {
				states = a.expr(states, kv.Value)
			} else {
				states = a.expr(states, el)
			}
		}
		return states
	case *ast.TypeAssertExpr:
		return a.expr(states, x.X)
	case *ast.KeyValueExpr:
		return a.expr(states, x.Value)
	}
	return states
}

func (a *analyzer) writeTo(states []*state, lhs ast.Expr) []*state {
	// bare identifier: local rebinding
	if _, ok := lhs.(*ast.Ident); ok {
		return states
	}
	if a.hasIndirection(lhs) {
		for _, s := range states {
			a.note(s, lhs, true)
		}
	}
	// index expressions etc. inside the lhs are also evaluated (reads)
	switch x := lhs.(type) {
	case *ast.IndexExpr:
		states = a.expr(states, x.Index)
		states = a.expr(states, x.X)
	case *ast.SelectorExpr:
		states = a.expr(states, x.X)
	case *ast.StarExpr:
		states = a.expr(states, x.X)
	}
	return states
}

func (a *analyzer) bind(lhs ast.Expr, rhs ast.Expr) {
	id, ok := lhs.(*ast.Ident)
	if !ok || rhs == nil {
		return
	}
	obj := a.info.Defs[id]
	if obj == nil {
		obj = a.info.Uses[id]
	}
	if obj == nil {
		return
	}
	if t := obj.Type(); t == nil || !carriesRefs(t) {
		return
	}
	if _, isParam := a.pidx[obj]; isParam {
		// parameter rebinding (n = n.Left): keep the parameter's own identity
		return
	}
	if a.origins[obj] == nil {
		a.origins[obj] = map[Origin]bool{}
	}
	for o := range a.roots(rhs) {
		a.origins[obj][o] = true
	}
}

func (a *analyzer) call(states []*state, c *ast.CallExpr) []*state {
	// lock operations
	if se, ok := c.Fun.(*ast.SelectorExpr); ok {
		if recv, ok := isMuSel(a.info, se.X); ok {
			p := -1
			for o := range a.roots(recv) {
				p = o.P
			}
			for _, s := range states {
				switch se.Sel.Name {
				case "Lock":
					s.acquire(p, "w")
				case "RLock":
					s.acquire(p, "r")
				case "Unlock":
					s.release(p, "w")
				case "RUnlock":
					s.release(p, "r")
				}
			}
			return states
		}
	}
	// arguments are evaluated first
	for _, arg := range c.Args {
		states = a.expr(states, arg)
	}
	// builtins
	if id, ok := c.Fun.(*ast.Ident); ok {
		if _, isB := a.info.Uses[id].(*types.Builtin); isB {
			switch id.Name {
			case "delete", "copy", "clear", "append":
				if len(c.Args) > 0 {
					for _, s := range states {
						a.note(s, c.Args[0], true)
					}
				}
			}
			return states
		}
	}
	// resolve callee
	var callee *types.Func
	var recvExpr ast.Expr
	switch f := c.Fun.(type) {
	case *ast.Ident:
		callee, _ = a.info.Uses[f].(*types.Func)
	case *ast.SelectorExpr:
		if sel := a.info.Selections[f]; sel != nil {
			callee, _ = sel.Obj().(*types.Func)
			recvExpr = f.X
			states = a.expr(states, f.X)
			// <field of a sync/atomic type>.<writing method>(…): count the writes a locked section performs
			if inner, ok := f.X.(*ast.SelectorExpr); ok {
				if isel := a.info.Selections[inner]; isel != nil && isel.Kind() == types.FieldVal && isAtomicType(isel.Obj().Type()) {
					switch f.Sel.Name {
					case "Add", "Store", "Swap", "CompareAndSwap", "And", "Or":
						for _, s := range states {
							if modeKey(s.cur.Mode) != "" {
								s.cur.AtomW++
								if s.cur.AtomW >= 2 {
									s.flags["twoAtomicWritesInLock"] = true
								}
							}
						}
					}
				}
			}
			if _, isIface := sel.Recv().Underlying().(*types.Interface); isIface {
				// a call through an interface-typed field (the trie's result queue `t.q`): the object behind it is
				// part of the guarded state (properties.jsonl lists Trie.q as guarded by Trie.mu), so the call is an
				// access to that field's location -- a WRITE unless the method is one of the pure observers
				write := !ifaceObserver[f.Sel.Name]
				for _, s := range states {
					s.cur.Ext = true
					a.note(s, f.X, write)
				}
				return states
			}
		} else {
			callee, _ = a.info.Uses[f.Sel].(*types.Func)
		}
	case *ast.IndexExpr: // generic instantiation f[T](...)
		if id, ok := f.X.(*ast.Ident); ok {
			callee, _ = a.info.Uses[id].(*types.Func)
		}
	case *ast.FuncLit:
		return a.block(states, f.Body.List)
	}
	if callee == nil {
		// call of a function value (callback): opaque
		return states
	}
	callee = callee.Origin()
	cf := funcs[callee]
	if cf == nil {
		return states // outside the analysed packages (std lib etc.)
	}
	sum := summarize(cf)
	actuals := []ast.Expr{}
	if recvExpr != nil {
		actuals = append(actuals, recvExpr)
	} else if cf.decl.Recv != nil {
		actuals = append(actuals, nil)
	}
	actuals = append(actuals, c.Args...)
	mapO := func(o Origin) []Origin {
		if o.P >= len(actuals) || actuals[o.P] == nil {
			return nil
		}
		var out []Origin
		for r := range a.roots(actuals[o.P]) {
			if r.F == "" {
				out = append(out, Origin{r.P, o.F})
			} else {
				out = append(out, r)
			}
		}
		return out
	}
	var res []*state
	for _, s := range states {
		for _, p := range sum.Paths {
			n := s.clone()
			for k := range p.Flags {
				n.flags[k] = true
			}
			for _, sec := range p.Sects {
				// lock transitions of the callee on objects that map to our parameters
				for q := range cf.params {
					m := sec.Mode[q]
					for _, o := range mapO(Origin{q, ""}) {
						if o.F != "" {
							continue
						}
						want := m
						if want == "" {
							want = s.cur.Mode[o.P] // what the caller held before the call
						} else if s.cur.Mode[o.P] != "" {
							n.flags["nestedAcquire"] = true
							continue
						}
						if n.cur.Mode[o.P] != want || (want != "" && sec.Mode[q] != "") {
							if n.cur.Mode[o.P] != "" && n.cur.Mode[o.P] != s.cur.Mode[o.P] || (n.cur.Mode[o.P] != "" && want == "") {
								n.release(o.P, n.cur.Mode[o.P])
							}
							if want != "" && n.cur.Mode[o.P] == "" {
								n.acquire(o.P, want)
							}
						}
					}
				}
				// callee sections with all of its locks released while we think one is held are fine
				for q := range n.cur.Mode {
					held := false
					for cq, m := range sec.Mode {
						for _, o := range mapO(Origin{cq, ""}) {
							if o.P == q && o.F == "" && m != "" {
								held = true
							}
						}
					}
					_ = held
				}
				for acc := range sec.Accs {
					for _, o := range mapO(acc.O) {
						if o.F == "mu" {
							continue
						}
						n.cur.Accs[Access{o, acc.W}] = true
					}
				}
				n.cur.Send = n.cur.Send || sec.Send
				n.cur.Ext = n.cur.Ext || sec.Ext
			}
			// after the callee returns all its own lock holdings are released again
			for q, m := range n.cur.Mode {
				if m != "" && s.cur.Mode[q] == "" {
					n.release(q, m)
				}
			}
			res = append(res, n)
		}
	}
	return dedupe(res)
}

func dedupe(states []*state) []*state {
	seen := map[string]bool{}
	var out []*state
	for _, s := range states {
		k := s.key()
		if !seen[k] {
			seen[k] = true
			out = append(out, s)
		}
	}
	return out
}

func (a *analyzer) block(states []*state, stmts []ast.Stmt) []*state {
	for _, st := range stmts {
		var live, dead []*state
		for _, s := range states {
			if s.returned {
				dead = append(dead, s)
			} else {
				live = append(live, s)
			}
		}
		live = a.stmt(live, st)
		states = dedupe(append(dead, live...))
	}
	return states
}

func cloneAll(ss []*state) []*state {
	var out []*state
	for _, s := range ss {
		out = append(out, s.clone())
	}
	return out
}

func (a *analyzer) stmt(states []*state, st ast.Stmt) []*state {
	if len(states) == 0 {
		return states
	}
	switch x := st.(type) {
	case *ast.ExprStmt:
		return a.expr(states, x.X)
	case *ast.AssignStmt:
		for _, r := range x.Rhs {
			states = a.expr(states, r)
		}
		for i, l := range x.Lhs {
			if x.Tok == token.DEFINE || x.Tok == token.ASSIGN {
				if len(x.Rhs) == len(x.Lhs) {
					a.bind(l, x.Rhs[i])
				} else if len(x.Rhs) == 1 {
					a.bind(l, x.Rhs[0])
				}
			}
			states = a.writeTo(states, l)
			if x.Tok != token.DEFINE && x.Tok != token.ASSIGN { // += etc. also read
				states = a.expr(states, l)
			}
		}
		return states
	case *ast.IncDecStmt:
		states = a.expr(states, x.X)
		return a.writeTo(states, x.X)
	case *ast.DeclStmt:
		if gd, ok := x.Decl.(*ast.GenDecl); ok {
			for _, sp := range gd.Specs {
				if vs, ok := sp.(*ast.ValueSpec); ok {
					for i, v := range vs.Values {
						states = a.expr(states, v)
						if i < len(vs.Names) {
							a.bind(vs.Names[i], v)
						}
					}
				}
			}
		}
		return states
	case *ast.DeferStmt:
		if se, ok := x.Call.Fun.(*ast.SelectorExpr); ok {
			if recv, ok := isMuSel(a.info, se.X); ok {
				p := -1
				for o := range a.roots(recv) {
					p = o.P
				}
				m := "w"
				if se.Sel.Name == "RUnlock" {
					m = "r"
				}
				for _, s := range states {
					s.deferred = append(s.deferred, func(s *state) { s.release(p, m) })
				}
				return states
			}
		}
		return states
	case *ast.GoStmt:
		return a.call(states, x.Call)
	case *ast.SendStmt:
		states = a.expr(states, x.Value)
		for _, s := range states {
			s.cur.Send = true
		}
		return states
	case *ast.ReturnStmt:
		for _, r := range x.Results {
			states = a.expr(states, r)
			if t := a.info.TypeOf(r); t != nil {
				switch t.Underlying().(type) {
				case *types.Slice, *types.Map, *types.Pointer:
					for _, s := range states {
						for o := range a.roots(r) {
							s.escape[o] = true
						}
					}
				}
			}
		}
		for _, s := range states {
			for i := len(s.deferred) - 1; i >= 0; i-- {
				s.deferred[i](s)
			}
			s.deferred = nil
			s.returned = true
		}
		return states
	case *ast.BlockStmt:
		return a.block(states, x.List)
	case *ast.IfStmt:
		if x.Init != nil {
			states = a.stmt(states, x.Init)
		}
		states = a.expr(states, x.Cond)
		thenS := a.block(cloneAll(states), x.Body.List)
		var elseS []*state
		if x.Else != nil {
			elseS = a.stmt(cloneAll(states), x.Else)
		} else {
			elseS = states
		}
		return dedupe(append(thenS, elseS...))
	case *ast.ForStmt:
		if x.Init != nil {
			states = a.stmt(states, x.Init)
		}
		states = a.expr(states, x.Cond)
		body := a.block(cloneAll(states), x.Body.List)
		if x.Post != nil {
			body = a.stmt(body, x.Post)
		}
		// a second pass so that aliases bound in the body are seen by its earlier statements
		body2 := a.block(cloneAll(states), x.Body.List)
		return dedupe(append(append(states, body...), body2...))
	case *ast.RangeStmt:
		states = a.expr(states, x.X)
		if x.Key != nil {
			a.bind(x.Key, x.X)
		}
		if x.Value != nil {
			a.bind(x.Value, x.X)
		}
		body := a.block(cloneAll(states), x.Body.List)
		return dedupe(append(states, body...))
	case *ast.SwitchStmt:
		if x.Init != nil {
			states = a.stmt(states, x.Init)
		}
		states = a.expr(states, x.Tag)
		out := append([]*state{}, states...)
		for _, cl := range x.Body.List {
			cc := cl.(*ast.CaseClause)
			out = append(out, a.block(cloneAll(states), cc.Body)...)
		}
		return dedupe(out)
	case *ast.TypeSwitchStmt:
		out := append([]*state{}, states...)
		for _, cl := range x.Body.List {
			cc := cl.(*ast.CaseClause)
			out = append(out, a.block(cloneAll(states), cc.Body)...)
		}
		return dedupe(out)
	case *ast.SelectStmt:
		out := []*state{}
		for _, cl := range x.Body.List {
			cc := cl.(*ast.CommClause)
			ss := cloneAll(states)
			if cc.Comm != nil {
				ss = a.stmt(ss, cc.Comm)
			}
			out = append(out, a.block(ss, cc.Body)...)
		}
		return dedupe(out)
	case *ast.LabeledStmt:
		return a.stmt(states, x.Stmt)
	}
	return states
}

func summarize(f *fn) *Summary {
	if f.sum.done {
		return f.sum
	}
	if f.sum.busy {
		// recursion: use what has been accumulated so far (fixpoint driven by the caller loop)
		return f.sum
	}
	f.sum.busy = true
	a := &analyzer{f: f, info: f.pkg.TypesInfo, origins: map[types.Object]map[Origin]bool{}, pidx: map[types.Object]int{}}
	for i, p := range f.params {
		a.pidx[p] = i
	}
	var paths []Path
	for iter := 0; iter < 3; iter++ { // alias sets and recursive summaries stabilise quickly
		init := &state{cur: newSect(nil), flags: map[string]bool{}, escape: map[Origin]bool{}}
		out := a.block([]*state{init}, f.decl.Body.List)
		paths = nil
		for _, s := range out {
			if !s.returned {
				for i := len(s.deferred) - 1; i >= 0; i-- {
					s.deferred[i](s)
				}
			}
			if len(s.cur.Accs) > 0 || s.cur.Send || s.cur.Ext || modeKey(s.cur.Mode) != "" {
				s.sects = append(s.sects, s.cur)
			}
			for q, m := range s.cur.Mode {
				if m != "" {
					s.flags["unbalanced"] = true
					_ = q
				}
			}
			paths = append(paths, Path{Sects: s.sects, Flags: s.flags, Escape: s.escape})
		}
		f.sum.Paths = paths
	}
	f.sum.busy = false
	f.sum.done = true
	return f.sum
}

func keys(m map[int]bool) []int {
	var k []int
	for i := range m {
		k = append(k, i)
	}
	sort.Ints(k)
	return k
}
