package main

import (
	"fmt"
	"go/ast"
	"go/token"
	"go/types"
	"strings"
)

// loopSpec: the recursion scheme of one translated loop.
type loopSpec struct {
	label    string
	argTypes []string // types of the recursion arguments in front of the state
	basePat  []string // patterns of the base case
	stepPat  []string // patterns of the step case
	stepPre  string   // lets at the start of the step case
	recArgs  string   // arguments of the recursive call (without the state)
	initArgs string   // arguments of the first call (without the state)
	bound    []string // names bound by the loop header (not state, not captured)
	auxVars  []string // auxiliary header variables (state of the loop, gone after it)
	auxInit  []string // their initial values (translated)
	auxPost  []ast.Expr
	body     []ast.Stmt
}

type localVar struct{ name, typ string }

// jumpsOf lists break / continue statements of `body` that leave or restart the loop whose body this is:
// own = plain break (or break Label) of this loop; outer = `continue L` for another label.
func jumpsOf(body []ast.Stmt, label string) (ownBreak bool, outer []string, bad string) {
	var walk func(n ast.Node, depth int, inner map[string]bool)
	walk = func(n ast.Node, depth int, inner map[string]bool) {
		ast.Inspect(n, func(m ast.Node) bool {
			switch x := m.(type) {
			case *ast.FuncLit:
				return false
			case *ast.LabeledStmt:
				in2 := map[string]bool{x.Label.Name: true}
				for k := range inner {
					in2[k] = true
				}
				switch l := x.Stmt.(type) {
				case *ast.ForStmt:
					walk(l.Body, depth+1, in2)
					return false
				case *ast.RangeStmt:
					walk(l.Body, depth+1, in2)
					return false
				}
			case *ast.ForStmt:
				walk(x.Body, depth+1, inner)
				return false
			case *ast.RangeStmt:
				walk(x.Body, depth+1, inner)
				return false
			case *ast.SwitchStmt, *ast.TypeSwitchStmt, *ast.SelectStmt:
				bad = "switch/select"
			case *ast.BranchStmt:
				switch {
				case x.Tok == token.GOTO || x.Tok == token.FALLTHROUGH:
					bad = x.Tok.String()
				case x.Label == nil:
					if depth == 0 && x.Tok == token.BREAK {
						ownBreak = true
					}
				case inner[x.Label.Name]:
					// stays inside a nested loop
				case x.Label.Name == label:
					if x.Tok == token.BREAK {
						if depth > 0 {
							bad = "break " + label + " from a nested loop"
						}
						ownBreak = true
					} else if depth > 0 {
						// `continue label` from a nested loop: that loop's business (it sees it as outer)
					}
				default:
					if x.Tok == token.CONTINUE {
						outer = append(outer, x.Label.Name)
					} else {
						bad = "break to an outer label"
					}
				}
			}
			return true
		})
	}
	for _, s := range body {
		walk(s, 0, map[string]bool{})
	}
	return
}

// branch translates break / continue.
func (c *fragCtx) branch(x *ast.BranchStmt) string {
	fr := c.top()
	if fr == nil {
		return c.fail("%s outside a loop", x.Tok)
	}
	own := x.Label == nil || x.Label.Name == fr.label
	switch {
	case x.Tok == token.CONTINUE && own:
		return fr.cont()
	case x.Tok == token.BREAK && own:
		if !fr.hasJump {
			return c.fail("break (internal)")
		}
		fr.jumpKind = "break"
		return c.ok("(Sum.inl " + tuple(fr.state) + ")")
	case x.Tok == token.CONTINUE && !own:
		if len(c.frames) < 2 || c.frames[len(c.frames)-2].label != x.Label.Name || !fr.hasJump {
			return c.fail("continue %s: not the directly enclosing loop", x.Label.Name)
		}
		fr.jumpKind = "continue:" + x.Label.Name
		return c.ok("(Sum.inl " + tuple(fr.state) + ")")
	}
	return c.fail("%s", x.Tok)
}

// emitLoop emits the auxiliary definition of a loop and returns the term for the loop followed by `after`.
func (c *fragCtx) emitLoop(sp loopSpec, after []ast.Stmt, k func() string) string {
	c.nloops++
	aux := fmt.Sprintf("%s.loop%d", c.name, c.nloops)
	body := sp.body
	vars, hasRet := c.assignedIn(body)
	ownBreak, outer, bad := jumpsOf(body, sp.label)
	if bad != "" {
		return c.fail("loop body contains %s", bad)
	}
	hasJump := ownBreak || len(outer) > 0
	if hasJump && hasRet {
		return c.fail("loop with both a return and a break / continue to an outer loop")
	}
	if ownBreak && len(outer) > 0 {
		return c.fail("loop with both a break and a continue to an outer loop")
	}
	isBound := map[string]bool{}
	for _, b := range sp.bound {
		isBound[b] = true
	}
	var state []string
	for _, v := range vars {
		if !isBound[v] {
			state = append(state, v)
		}
	}
	for _, a := range sp.auxVars {
		for _, v := range state {
			if v == a {
				return c.fail("auxiliary loop variable %s assigned in the body", a)
			}
		}
	}
	// the auxiliary variables come last in the state
	bodyState := append([]string{}, state...)
	state = append(state, sp.auxVars...)
	stTypes := make([]string, len(state))
	for i, v := range bodyState {
		stTypes[i] = c.varType(v, body)
	}
	for i := range sp.auxVars {
		stTypes[len(bodyState)+i] = "Int"
	}
	stT := "Unit"
	if len(state) == 1 {
		stT = stTypes[0]
	} else if len(state) > 1 {
		stT = "(" + strings.Join(stTypes, " × ") + ")"
	}
	// captured variables: the function's parameters, then the locals read in the body
	var capDecl, capUse []string
	if c.effect {
		capDecl = append(capDecl, "{σ_ : Type}")
	}
	for i, p := range c.params {
		capDecl = append(capDecl, "("+p+" : "+c.ptypes[i]+")")
		capUse = append(capUse, p)
	}
	skip := append(append([]string{}, sp.bound...), state...)
	extra := c.freeLocals(body, sp.auxPost, skip)
	for _, e := range extra {
		capDecl = append(capDecl, "("+lv(e.name)+" : "+e.typ+")")
		capUse = append(capUse, lv(e.name))
	}
	var fr *loopFrame
	// build emits the definition in the current mode
	build := func() {
		resT := stT
		if hasRet {
			resT = "(" + c.ret + " ⊕ " + stT + ")"
		} else if hasJump {
			resT = "(" + stT + " ⊕ " + stT + ")"
		}
		if c.res {
			resT = "(Res " + resT + ")"
		}
		fr = &loopFrame{label: sp.label, state: state, hasRet: hasRet, hasJump: hasJump}
		fr.cont = func() string {
			post := ""
			for i, a := range sp.auxVars {
				post += "let " + lv(a) + " := " + c.expr(sp.auxPost[i]) + "\n"
			}
			call := aux + " " + strings.Join(capUse, " ") + " " + sp.recArgs + " " + tuple(state)
			return post + "(" + call + ")"
		}
		c.frames = append(c.frames, fr)
		bodyT := c.stmts(body, fr.cont)
		c.frames = c.frames[:len(c.frames)-1]
		if len(c.pre) != 0 {
			c.pre = nil
			c.fail("partial operation in a loop update")
			return
		}
		done := tuple(state)
		if hasRet || hasJump {
			done = "(Sum.inr " + tuple(state) + ")"
		}
		done = c.ok(done)
		def := fmt.Sprintf("def %s %s : %s → %s → %s\n  | %s, %s => %s\n  | %s, %s =>\n%s\n",
			aux, strings.Join(capDecl, " "), strings.Join(sp.argTypes, " → "), stT, resT,
			strings.Join(sp.basePat, ", "), tupleOrUnder(state), done,
			strings.Join(sp.stepPat, ", "), tuple(state), indent(sp.stepPre+bodyT, 4))
		c.aux = append(c.aux, def)
	}
	lr := c.res // the loop function is in RES mode
	if c.res && c.err == "" {
		// a loop without partial operations stays pure inside a RES-mode function
		ok := c.tryPure(build)
		if ok {
			lr = false
		} else {
			build()
		}
	} else {
		build()
	}
	bind := func(term, pat, rest string) string {
		if lr {
			return c.bindTerm(term, pat, rest)
		}
		return "let " + pat + " := " + term + "\n" + rest
	}
	initLets := ""
	for i, a := range sp.auxVars {
		initLets += "let " + lv(a) + " : Int := " + sp.auxInit[i] + "\n"
	}
	call := "(" + aux + " " + strings.Join(capUse, " ") + " " + sp.initArgs + " " + tuple(state) + ")"
	restT := func() string { return c.stmts(after, k) }
	afterPat := tupleOrUnder(state)
	switch {
	case hasRet:
		if lr {
			return initLets + "(match " + call + " with\n| Except.error e_ => Except.error e_\n| Except.ok (Sum.inl r_) => " + c.retValue("r_") +
				"\n| Except.ok (Sum.inr " + afterPat + ") => (" + restT() + "))"
		}
		return initLets + "(match " + call + " with\n| Sum.inl r_ => " + c.retValue("r_") + "\n| Sum.inr " + afterPat + " => (" + restT() + "))"
	case hasJump && strings.HasPrefix(fr.jumpKind, "continue:"):
		outerFr := c.top()
		if outerFr == nil {
			return c.fail("continue to an outer loop (internal)")
		}
		jump := outerFr.cont()
		if lr {
			return initLets + "(match " + call + " with\n| Except.error e_ => Except.error e_\n| Except.ok (Sum.inl " + afterPat + ") => (" + jump +
				")\n| Except.ok (Sum.inr " + afterPat + ") => (" + restT() + "))"
		}
		return initLets + "(match " + call + " with\n| Sum.inl " + afterPat + " => (" + jump + ")\n| Sum.inr " + afterPat + " => (" + restT() + "))"
	case hasJump: // break: both ways of leaving the loop go on with what follows
		merged := "(match " + call + " with\n| Sum.inl s_ => s_\n| Sum.inr s_ => s_)"
		if lr {
			merged = "(match " + call + " with\n| Except.error e_ => Except.error e_\n| Except.ok (Sum.inl s_) => Except.ok s_\n| Except.ok (Sum.inr s_) => Except.ok s_)"
		}
		return initLets + bind(merged, tupleLoop(state), restT())
	}
	return initLets + bind(call, tupleLoop(state), restT())
}

// tryPure runs a piece of the translation in PURE mode inside a RES-mode function; when it meets a partial
// construct everything it did is undone and false is returned.
func (c *fragCtx) tryPure(f func()) bool {
	savedErr, savedNeed, savedAux, savedLoops, savedTmp, savedPre := c.err, c.needRes, len(c.aux), c.nloops, c.ntmp, c.pre
	c.res = false
	c.pre = nil
	f()
	c.res = true
	if c.err == "" {
		c.pre = savedPre
		return true
	}
	failedForRes := c.needRes
	c.err, c.needRes, c.aux, c.nloops, c.ntmp, c.pre = savedErr, savedNeed, c.aux[:savedAux], savedLoops, savedTmp, savedPre
	if !failedForRes {
		// a genuine failure: it will fail again in RES mode and be reported from there
		return false
	}
	return false
}

// tupleLoop: the pattern that receives a loop's final state (`_` when there is none).
func tupleLoop(state []string) string {
	if len(state) == 0 {
		return "_"
	}
	return tuple(state)
}

// freeLocals: identifiers read in body that are local variables of the function declared outside the body.
func (c *fragCtx) freeLocals(body []ast.Stmt, more []ast.Expr, skipNames []string) []localVar {
	skip := map[string]bool{}
	for _, s := range skipNames {
		skip[s] = true
		skip[lv(s)] = true
	}
	for _, p := range c.params {
		skip[p] = true
	}
	if c.method {
		skip[c.recv] = true
	}
	seen := map[string]bool{}
	var out []localVar
	inner := map[types.Object]bool{}
	var nodes []ast.Node
	for _, s := range body {
		nodes = append(nodes, s)
	}
	for _, e := range more {
		nodes = append(nodes, e)
	}
	for _, s := range nodes {
		ast.Inspect(s, func(n ast.Node) bool {
			if id, ok := n.(*ast.Ident); ok {
				if obj := c.f.pkg.TypesInfo.Defs[id]; obj != nil {
					inner[obj] = true
				}
			}
			return true
		})
	}
	for _, s := range nodes {
		ast.Inspect(s, func(n ast.Node) bool {
			id, ok := n.(*ast.Ident)
			if !ok || skip[lv(id.Name)] || skip[id.Name] || seen[id.Name] {
				return true
			}
			obj := c.f.pkg.TypesInfo.Uses[id]
			v, isVar := obj.(*types.Var)
			if !isVar || inner[obj] || v.Parent() == nil || v.Pkg() == nil || v.Parent() == v.Pkg().Scope() {
				return true
			}
			seen[id.Name] = true
			out = append(out, localVar{id.Name, c.leanType(v.Type())})
			return true
		})
	}
	return out
}

func (c *fragCtx) varType(name string, scope []ast.Stmt) string {
	if name == "st_" && c.effect {
		return "σ_"
	}
	var t types.Type
	for _, s := range scope {
		ast.Inspect(s, func(n ast.Node) bool {
			if id, ok := n.(*ast.Ident); ok && id.Name == name && t == nil {
				if obj := c.f.pkg.TypesInfo.Uses[id]; obj != nil {
					t = obj.Type()
				}
			}
			return true
		})
	}
	if t == nil {
		return c.fail("type of %s", name)
	}
	return c.leanType(t)
}

func identName(e ast.Expr) string {
	if e == nil {
		return "_"
	}
	if id, ok := e.(*ast.Ident); ok {
		return id.Name
	}
	return "_"
}

// listLoop: recursion over the list `slice` with index variable keyName and element variable valName.
func (c *fragCtx) listLoop(label, slice string, elemType types.Type, keyName, valName string, body []ast.Stmt, after []ast.Stmt, k func() string) string {
	if keyName == "" || keyName == "_" {
		keyName = "k_"
	}
	if valName == "" || valName == "_" {
		valName = "v_"
	}
	sp := loopSpec{
		label:    label,
		argTypes: []string{"List " + c.leanType(elemType), "Int"},
		basePat:  []string{"[]", "_"},
		stepPat:  []string{lv(valName) + " :: rest_", lv(keyName)},
		recArgs:  "rest_ (" + lv(keyName) + " + 1)",
		initArgs: slice + " 0",
		bound:    []string{keyName, valName},
		body:     body,
	}
	return c.emitLoop(sp, after, k)
}

func (c *fragCtx) trRange(x *ast.RangeStmt, label string, after []ast.Stmt, k func() string) string {
	if x.Tok != token.DEFINE && (x.Key != nil || x.Value != nil) {
		return c.fail("range assigning to existing variables")
	}
	if mt, isMap := c.typeOf(x.X).Underlying().(*types.Map); isMap {
		return c.mapLoop(x, mt, label, after, k)
	}
	sl, ok := c.typeOf(x.X).Underlying().(*types.Slice)
	if !ok {
		return c.fail("range over a non-slice")
	}
	var slice string
	if sid, ok := x.X.(*ast.Ident); ok {
		slice = lv(sid.Name)
	} else {
		// any expression of slice type, evaluated once
		slice = c.expr(x.X)
		pre := c.takePre()
		if !strings.HasPrefix(slice, "t") && !strings.HasPrefix(slice, "(") {
			slice = "(" + slice + ")"
		}
		return c.withPre(pre, c.listLoop(label, slice, sl.Elem(), identName(x.Key), identName(x.Value), x.Body.List, after, k))
	}
	return c.listLoop(label, slice, sl.Elem(), identName(x.Key), identName(x.Value), x.Body.List, after, k)
}

// mapLoop: `for k, v := range m` over a map.  The map is the association list of its entries IN THE ORDER THIS
// ITERATION VISITS THEM (Go leaves the order open: every statement proved about the translation is proved for every
// list, hence for every order).  The loop is the recursion over that list, taken once when the loop starts.  This is
// Go's meaning provided the body adds no entry to m and removes none that has not been visited yet; the only mutations
// of m accepted in the body are therefore `delete(m, k)` and `m[k] = e` with k the range key itself (removing or
// overwriting the entry being visited), anything else is outside the fragment.
func (c *fragCtx) mapLoop(x *ast.RangeStmt, mt *types.Map, label string, after []ast.Stmt, k func() string) string {
	mid, ok := x.X.(*ast.Ident)
	if !ok {
		return c.fail("range over a map expression")
	}
	keyName, valName := identName(x.Key), identName(x.Value)
	bad := ""
	ast.Inspect(x.Body, func(n ast.Node) bool {
		switch s := n.(type) {
		case *ast.AssignStmt:
			for _, l := range s.Lhs {
				if id, ok := l.(*ast.Ident); ok && id.Name == mid.Name && s.Tok != token.DEFINE {
					bad = "the ranged map is assigned in the loop"
				}
				if ie, ok := l.(*ast.IndexExpr); ok {
					if id, ok := ie.X.(*ast.Ident); ok && id.Name == mid.Name {
						if kid, ok := ie.Index.(*ast.Ident); !ok || kid.Name != keyName || keyName == "_" {
							bad = "the ranged map is stored to under a key other than the range key"
						}
					}
				}
			}
		case *ast.IncDecStmt:
			if ie, ok := s.X.(*ast.IndexExpr); ok {
				if id, ok := ie.X.(*ast.Ident); ok && id.Name == mid.Name {
					bad = "the ranged map is updated in the loop"
				}
			}
		case *ast.CallExpr:
			if id, ok := s.Fun.(*ast.Ident); ok && id.Name == "delete" && len(s.Args) == 2 {
				if m2, ok := s.Args[0].(*ast.Ident); ok && m2.Name == mid.Name {
					if kid, ok := s.Args[1].(*ast.Ident); !ok || kid.Name != keyName || keyName == "_" {
						bad = "delete from the ranged map under a key other than the range key"
					}
				}
			}
		}
		return true
	})
	if bad != "" {
		return c.fail("%s", bad)
	}
	// the range key must not be reassigned in the body (it designates the visited entry)
	asgd, _ := c.assignedIn(x.Body.List)
	for _, v := range asgd {
		if v == keyName || v == valName {
			return c.fail("range variable assigned in the loop")
		}
	}
	kn, vn := keyName, valName
	if kn == "" || kn == "_" {
		kn = "k_"
	}
	if vn == "" || vn == "_" {
		vn = "v_"
	}
	sp := loopSpec{
		label:    label,
		argTypes: []string{"List (" + c.leanType(mt.Key()) + " × " + c.leanType(mt.Elem()) + ")"},
		basePat:  []string{"[]"},
		stepPat:  []string{"(" + lv(kn) + ", " + lv(vn) + ") :: rest_"},
		recArgs:  "rest_",
		initArgs: lv(mid.Name),
		bound:    []string{kn, vn},
		body:     x.Body.List,
	}
	return c.emitLoop(sp, after, k)
}

func mentions(e ast.Node, names map[string]bool) bool {
	found := false
	ast.Inspect(e, func(n ast.Node) bool {
		if id, ok := n.(*ast.Ident); ok && names[id.Name] {
			found = true
		}
		return true
	})
	return found
}

// trFor: the counting loops listed in the header of frag.go.
func (c *fragCtx) trFor(x *ast.ForStmt, label string, after []ast.Stmt, k func() string) string {
	init, ok1 := x.Init.(*ast.AssignStmt)
	cond, ok2 := x.Cond.(*ast.BinaryExpr)
	if !ok1 || !ok2 || init.Tok != token.DEFINE || len(init.Lhs) != len(init.Rhs) || len(init.Lhs) == 0 || len(init.Lhs) > 2 {
		return c.fail("for loop shape")
	}
	iv, ok := init.Lhs[0].(*ast.Ident)
	ci, okc := cond.X.(*ast.Ident)
	if !ok || !okc || ci.Name != iv.Name || !c.isIntLike(iv) {
		return c.fail("for loop condition")
	}
	assigned, _ := c.assignedIn(x.Body.List)
	asg := map[string]bool{}
	for _, v := range assigned {
		asg[v] = true
	}
	if asg[iv.Name] {
		return c.fail("loop variable assigned in the loop")
	}
	// the step of the counter, and the auxiliary variable if there is one
	var auxVars []string
	var auxInit []string
	var auxPost []ast.Expr
	step := 0
	switch p := x.Post.(type) {
	case *ast.IncDecStmt:
		if id, ok := p.X.(*ast.Ident); !ok || id.Name != iv.Name || len(init.Lhs) != 1 {
			return c.fail("for loop post")
		}
		step = 1
		if p.Tok == token.DEC {
			step = -1
		}
	case *ast.AssignStmt:
		if p.Tok != token.ASSIGN || len(p.Lhs) != len(init.Lhs) || len(p.Rhs) != len(p.Lhs) {
			return c.fail("for loop post")
		}
		l0, ok := p.Lhs[0].(*ast.Ident)
		be, okb := p.Rhs[0].(*ast.BinaryExpr)
		if !ok || !okb || l0.Name != iv.Name {
			return c.fail("for loop post")
		}
		bx, okx := be.X.(*ast.Ident)
		if !okx || bx.Name != iv.Name || !isLit(be.Y, "1") {
			return c.fail("for loop post")
		}
		switch be.Op {
		case token.ADD:
			step = 1
		case token.SUB:
			step = -1
		default:
			return c.fail("for loop post")
		}
		if len(p.Lhs) == 2 {
			av, ok := init.Lhs[1].(*ast.Ident)
			pv, ok2 := p.Lhs[1].(*ast.Ident)
			if !ok || !ok2 || av.Name != pv.Name || !c.isIntLike(av) {
				return c.fail("for loop auxiliary variable")
			}
			auxVars = []string{av.Name}
			auxPost = []ast.Expr{p.Rhs[1]}
		}
	default:
		return c.fail("for loop post")
	}
	if len(auxVars) != len(init.Lhs)-1 {
		return c.fail("for loop auxiliary variable")
	}
	// canonical loop over a slice: for i := 0; i < len(s); i++
	if step == 1 && len(auxVars) == 0 && cond.Op == token.LSS && isLit(init.Rhs[0], "0") && isLenCall(cond.Y) {
		if sid, ok := cond.Y.(*ast.CallExpr).Args[0].(*ast.Ident); ok {
			if sl, ok := c.typeOf(sid).Underlying().(*types.Slice); ok && !asg[sid.Name] {
				elem := lv(sid.Name) + "_i"
				c.loopVar[iv.Name] = [2]string{sid.Name, elem}
				out := c.listLoop(label, lv(sid.Name), sl.Elem(), iv.Name, elem, x.Body.List, after, k)
				delete(c.loopVar, iv.Name)
				return out
			}
		}
	}
	start := c.expr(init.Rhs[0])
	for i := range auxVars {
		if mentions(init.Rhs[1+i], map[string]bool{iv.Name: true}) {
			return c.fail("for loop init")
		}
		auxInit = append(auxInit, c.expr(init.Rhs[1+i]))
	}
	pre := c.takePre()
	switch {
	case step == -1 && cond.Op == token.GEQ && isLit(cond.Y, "0"):
		// i = E, E-1, …, 0: recursion over (E+1).toNat; the counter is i+1
		sp := loopSpec{
			label:    label,
			argTypes: []string{"Nat"},
			basePat:  []string{"0"},
			stepPat:  []string{"n_ + 1"},
			stepPre:  "let " + lv(iv.Name) + " : Int := (n_ : Int)\n",
			recArgs:  "n_",
			initArgs: "(" + start + " + 1).toNat",
			bound:    []string{iv.Name},
			auxVars:  auxVars, auxInit: auxInit, auxPost: auxPost,
			body: x.Body.List,
		}
		return c.withPre(pre, c.emitLoop(sp, after, k))
	case step == 1 && cond.Op == token.LSS:
		// i = A, A+1, …, B-1 with B invariant
		if mentions(cond.Y, asg) || mentions(cond.Y, map[string]bool{iv.Name: true}) {
			return c.fail("for loop bound changes in the loop")
		}
		if c.method && mentions(cond.Y, map[string]bool{c.recv: true}) {
			for _, f := range c.fields {
				if asg[f.lean] {
					return c.fail("for loop bound reads the receiver, whose fields change in the loop")
				}
			}
		}
		n := len(c.pre)
		bound := c.expr(cond.Y)
		if len(c.pre) != n {
			return c.fail("partial operation in a loop bound")
		}
		sp := loopSpec{
			label:    label,
			argTypes: []string{"Nat", "Int"},
			basePat:  []string{"0", "_"},
			stepPat:  []string{"n_ + 1", lv(iv.Name)},
			recArgs:  "n_ (" + lv(iv.Name) + " + 1)",
			initArgs: "(" + bound + " - " + start + ").toNat " + start,
			bound:    []string{iv.Name},
			auxVars:  auxVars, auxInit: auxInit, auxPost: auxPost,
			body: x.Body.List,
		}
		return c.withPre(pre, c.emitLoop(sp, after, k))
	}
	return c.fail("for loop shape")
}
