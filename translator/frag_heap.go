package main

// Go -> Lean translation of heap/heap.go (Gen/Heap.lean).  A second, self-contained fragment next to frag.go, for code
// that frag.go cannot express: loops and recursion whose termination is not structural, slices written through a
// callee, calls of mutating methods on the receiver, calls through a function-typed field.
// `Theorems/GenTieHeap.lean` proves each regenerated definition equal to the definition of `Model/Heap.lean`.
//
// THE FRAGMENT AND ITS ASSUMED SEMANTICS (part of the trusted base).
//
// Types.  The single type parameter of the package's generic types/functions -> a Lean type variable `α` with
// `[Inhabited α]` (`default` = the zero value, written by `var t T`) and `[DecidableEq α]` (`==` of a comparable
// type); Go integer types -> `Int` (unbounded: wrap-around is NOT modelled); `bool` -> `Bool`; `[]T` -> `Array T`
// (a value: no aliasing between DIFFERENT slices, no spare capacity; a slice that a callee writes through is handed
// back by the callee, see below); function types -> pure total Lean functions (a callback neither panics nor has
// effects); `sync.*` values are not modelled and every `Lock/Unlock/RLock/RUnlock` call (also deferred) is skipped:
// what is translated is the body as one goroutine executes it alone.
//
// Outcome.  A function that contains a partial operation, needs fuel, or calls such a function returns `Out ρ` with the
// three outcomes `ok v`, `panic` (a Go run-time panic), `hang` (the fuel ran out); sequencing is `Out.bind` (panic and
// hang propagate; a tuple is taken apart by projections).  Partial operations, bound in
// evaluation order in front of the statement (or of the operand of `&&`/`||`/`!` — short-circuit evaluation is
// respected: the right operand's operations run only when Go evaluates it):
//   s[e]            `hIdx s e`      panics unless 0 ≤ e < len(s)
//   s[i] = e        `hSet s i e`    panics unless 0 ≤ i < len(s)
//   s[a:b] s[:b] s[a:]  `hSlice s a b`  panics unless 0 ≤ a ≤ b ≤ len(s)  (Go checks b against cap(s); spare capacity is not modelled)
//   make([]T, n)    `hMake n`       panics when n < 0
//   a / b, a % b    only with a non-zero literal divisor: `Int.tdiv`, `Int.tmod` (total)
//   a[i], b[j] = x, y   the right-hand sides (in order), then the assignments left to right
// FUEL.  A function takes a first parameter `fuel : Nat` iff it contains a loop whose termination is not structural
// (`for { … }`, `for cond { … }`, `for init; cond; post { … }`), calls itself, or calls a function that takes fuel.
//   * a loop becomes an auxiliary definition, structurally recursive on fuel: `0 => hang`, `fuel+1 =>` one iteration,
//     the next iteration running on `fuel`; `break` ends it with the current values of the variables it assigns;
//   * a self-recursive function is `match fuel with | 0 => hang | fuel+1 => body`, the recursive call running on `fuel`;
//   * every other call of a function that takes fuel hands on the caller's current `fuel`.
//   So fuel bounds the nesting depth of iterations/recursive calls, not their total number; a run that ends with
//   `ok`/`panic` is independent of the amount of fuel (proved for moveUp / moveDown in the tie module).
// `for _, v := range s` is structural recursion over the elements of s (s evaluated once); no `break` inside it.
// `return` INSIDE A LOOP (fuel loop or range loop): the loop's result is `Option ρ × S` — `(some r, _)` = the function
// returned r (its results, then its writes) from inside the loop, `(none, s)` = the loop ended normally with state s;
// after the loop the function returns r or goes on with s.  `continue` = the post statement, then the next iteration.
// Further constructs shared with frag_more.go (documented there): tag `switch` as an if-chain, `append(a, b...)`,
// `nil`/`[]T{}` as the empty array, `err != nil`, conversions between identical types, a writing call inside an
// expression, function literals without parameters, `return &S{f: e, …}` as the tuple of S's modelled fields.
// METHODS.  The modelled fields of the pointer receiver (all but `sync.*`) are variables `<recv>_<field>` and
// parameters of every method.  WRITES: a function hands back, after its results, the receiver fields it (or a callee)
// assigns — `h.f = e`, `h.f[i] = e`, `h.f` passed to a function that writes through that parameter — and the slice
// PARAMETERS it writes through (`data[i] = e`); the caller rebinds the corresponding variables.  An argument in such a
// position must be a variable or a receiver field.  Results and writes form one tuple (`()` when empty).
// An `if` none of whose branches leaves (return/break) is the VALUE of the variables its branches assign; an `if`
// that leaves on some path has the statements that follow it translated once per branch.
// Anything else makes the function "outside the translated fragment": it is omitted with a comment (and reported in
// facts.json); a tie theorem that mentions it then fails to build.  No per-function special case.

import (
	"fmt"
	"go/ast"
	"go/token"
	"go/types"
	"sort"
	"strings"
)

const heapPrelude = `/-- outcome of a translated call: a value, a Go run-time panic, or fuel exhausted -/
inductive Out (β : Type) where
  | ok (b : β)
  | panic
  | hang
deriving Repr

/-- sequencing: panic and hang propagate -/
def Out.bind {β γ : Type} (x : Out β) (f : β → Out γ) : Out γ :=
  match x with
  | .ok b => f b
  | .panic => .panic
  | .hang => .hang

/-- ` + "`s[i]`" + ` -/
def hIdx {α : Type} (s : Array α) (i : Int) : Out α :=
  if i < 0 then .panic
  else match s[i.toNat]? with
    | some v => .ok v
    | none => .panic

/-- ` + "`s[i] = v`" + ` -/
def hSet {α : Type} (s : Array α) (i : Int) (v : α) : Out (Array α) :=
  if i < 0 then .panic
  else if h : i.toNat < s.size then .ok (s.set i.toNat v h) else .panic

/-- ` + "`s[lo:hi]`" + ` (bounds checked against the length) -/
def hSlice {α : Type} (s : Array α) (lo hi : Int) : Out (Array α) :=
  if 0 ≤ lo ∧ lo ≤ hi ∧ hi ≤ (s.size : Int) then .ok (s.extract lo.toNat hi.toNat) else .panic

/-- ` + "`make([]T, n)`" + ` -/
def hMake {α : Type} [Inhabited α] (n : Int) : Out (Array α) :=
  if n < 0 then .panic else .ok (Array.replicate n.toNat default)

/-- ` + "`copy(dst, src)`" + `: the first min(len dst, len src) elements of dst are overwritten -/
def hCopy {α : Type} (dst src : Array α) : Array α :=
  (src.extract 0 dst.size) ++ (dst.extract src.size dst.size)

`

type hvar struct{ name, typ string }

type hloop struct {
	breakTerm string        // "" = break is not available (range loop)
	cont      func() string // term for `continue` (the post statement, then the next iteration)
	hasRet    bool          // the loop contains a `return`: its result is  Option ρ × S
	state     []hvar
}

// hinfo: what a caller needs to know about a translated function
type hinfo struct {
	lean     string
	status   string
	ok       bool
	out      bool     // result is Out ρ
	fuel     bool     // first parameter is fuel
	nres     int      // number of Go results
	wfields  []string // receiver fields handed back (Go names, in field order)
	wparams  []int    // indices of the slice parameters handed back
	isMethod bool
}

type hctx struct {
	f        *fn
	info     *types.Info
	name     string
	recv     string
	fields   []fieldVar
	out      bool
	needOut  bool
	fuel     bool
	selfRec  bool
	err      string
	aux      []string
	nloop    int
	ntmp     int
	pre      []binding
	scope    []hvar
	loop     *hloop
	inLoop   int
	sum      *hsum
	results  []string
	closure  *hclosure
	hooks    *hhooks
	closures map[string]*ast.FuncLit // parameterless function literals bound to a local (frag_more.go)
}

// hclosure: set while the body of a parameterless function literal is translated in place (frag_more.go)
type hclosure struct {
	typ string // Lean type of its result
}

// hsum: the static summary of a function of the package
type hsum struct {
	f       *fn
	key     string
	wfields map[string]bool
	wparams map[int]bool
	fuel    bool
	calls   []*hsum
}

var hSums map[*types.Func]*hsum
var hDone map[string]*hinfo
var hBusy map[string]bool
var hOut *strings.Builder

func (c *hctx) fail(format string, a ...any) string {
	if c.err == "" {
		c.err = fmt.Sprintf(format, a...)
	}
	return "sorryUnsupported"
}

func hKey(f *fn) string {
	if f.decl.Recv != nil {
		return recvTypeName(f.obj) + "_" + f.obj.Name()
	}
	return f.obj.Name()
}

// ---------- static summaries (writes, fuel) ----------

func recvName(f *fn) string {
	if f.decl.Recv == nil || len(f.decl.Recv.List) == 0 || len(f.decl.Recv.List[0].Names) == 0 {
		return ""
	}
	return f.decl.Recv.List[0].Names[0].Name
}

// rootOf: for `x`, `x[i]`, `h.f`, `h.f[i]` the kind ("field"/"var") and name of what is assigned
func rootOf(e ast.Expr, recv string) (kind, name string, indexed bool) {
	for {
		switch x := e.(type) {
		case *ast.ParenExpr:
			e = x.X
			continue
		case *ast.IndexExpr:
			e = x.X
			indexed = true
			continue
		case *ast.Ident:
			return "var", x.Name, indexed
		case *ast.SelectorExpr:
			if id, ok := x.X.(*ast.Ident); ok && recv != "" && id.Name == recv {
				return "field", x.Sel.Name, indexed
			}
		}
		return "", "", indexed
	}
}

func paramIndex(f *fn, name string) int {
	sig := f.obj.Type().(*types.Signature)
	for i := 0; i < sig.Params().Len(); i++ {
		if sig.Params().At(i).Name() == name {
			return i
		}
	}
	return -1
}

func calleeOf(f *fn, call *ast.CallExpr) *types.Func {
	switch fun := call.Fun.(type) {
	case *ast.Ident:
		if m, ok := f.pkg.TypesInfo.Uses[fun].(*types.Func); ok {
			return m.Origin()
		}
	case *ast.SelectorExpr:
		if m, ok := f.pkg.TypesInfo.Uses[fun.Sel].(*types.Func); ok {
			return m.Origin()
		}
	case *ast.IndexExpr: // explicit instantiation f[T](…)
		if id, ok := fun.X.(*ast.Ident); ok {
			if m, ok := f.pkg.TypesInfo.Uses[id].(*types.Func); ok {
				return m.Origin()
			}
		}
	}
	return nil
}

func buildHeapSummaries(pkgName string) {
	hSums = map[*types.Func]*hsum{}
	var list []*hsum
	for _, f := range order {
		if f.pkg.Name != pkgName {
			continue
		}
		s := &hsum{f: f, key: hKey(f), wfields: map[string]bool{}, wparams: map[int]bool{}}
		hSums[f.obj] = s
		list = append(list, s)
	}
	// direct facts
	for _, s := range list {
		f := s.f
		recv := recvName(f)
		note := func(e ast.Expr) {
			kind, name, indexed := rootOf(e, recv)
			switch kind {
			case "field":
				s.wfields[name] = true
			case "var":
				if indexed {
					if i := paramIndex(f, name); i >= 0 {
						if _, isSlice := f.obj.Type().(*types.Signature).Params().At(i).Type().Underlying().(*types.Slice); isSlice {
							s.wparams[i] = true
						}
					}
				}
			}
		}
		ast.Inspect(f.decl.Body, func(n ast.Node) bool {
			switch x := n.(type) {
			case *ast.AssignStmt:
				if x.Tok != token.DEFINE {
					for _, l := range x.Lhs {
						note(l)
					}
				}
			case *ast.IncDecStmt:
				note(x.X)
			case *ast.ForStmt:
				s.fuel = true
			case *ast.CallExpr:
				if g := calleeOf(f, x); g != nil {
					if t := hSums[g]; t != nil {
						s.calls = append(s.calls, t)
						if t == s {
							s.fuel = true
						}
					}
				}
			}
			return true
		})
	}
	// transitive closure: fuel, and writes through callees
	for changed := true; changed; {
		changed = false
		for _, s := range list {
			f := s.f
			recv := recvName(f)
			ast.Inspect(f.decl.Body, func(n ast.Node) bool {
				call, ok := n.(*ast.CallExpr)
				if !ok {
					return true
				}
				g := calleeOf(f, call)
				if g == nil || hSums[g] == nil {
					return true
				}
				t := hSums[g]
				if t.fuel && !s.fuel {
					s.fuel, changed = true, true
				}
				// a method of the receiver that writes fields
				if sel, ok := call.Fun.(*ast.SelectorExpr); ok {
					if id, ok := sel.X.(*ast.Ident); ok && id.Name == recv && recv != "" {
						for fld := range t.wfields {
							if !s.wfields[fld] {
								s.wfields[fld], changed = true, true
							}
						}
					}
				}
				// arguments in written positions
				for i := range t.wparams {
					if i >= len(call.Args) {
						continue
					}
					kind, name, indexed := rootOf(call.Args[i], recv)
					if indexed {
						continue
					}
					switch kind {
					case "field":
						if !s.wfields[name] {
							s.wfields[name], changed = true, true
						}
					case "var":
						if j := paramIndex(f, name); j >= 0 && !s.wparams[j] {
							if _, isSlice := f.obj.Type().(*types.Signature).Params().At(j).Type().Underlying().(*types.Slice); isSlice {
								s.wparams[j], changed = true, true
							}
						}
					}
				}
				return true
			})
		}
	}
	// mutual recursion (a cycle through another function) is outside the fragment: detected at translation time (hBusy)
}

// ---------- types ----------

func (c *hctx) leanType(t types.Type) string {
	switch x := t.(type) {
	case *types.TypeParam:
		if c.hooks != nil && isNumericParam(x) {
			return "Int" // instantiated at int (frag_more.go)
		}
		return "α"
	case *types.Pointer:
		if ts, ok := c.structFieldTypes(x); ok {
			return typeTuple(ts) // a NEW object of a struct type of the package: the tuple of its modelled fields
		}
	case *types.Basic:
		switch {
		case x.Info()&types.IsBoolean != 0:
			return "Bool"
		case x.Info()&types.IsInteger != 0:
			return "Int"
		}
	case *types.Slice:
		return "(Array " + c.leanType(x.Elem()) + ")"
	case *types.Signature:
		if x.Results().Len() != 1 {
			return c.fail("function value with %d results", x.Results().Len())
		}
		var parts []string
		for i := 0; i < x.Params().Len(); i++ {
			parts = append(parts, c.leanType(x.Params().At(i).Type()))
		}
		parts = append(parts, c.leanType(x.Results().At(0).Type()))
		return "(" + strings.Join(parts, " → ") + ")"
	case *types.Named:
		if _, isStruct := x.Underlying().(*types.Struct); !isStruct {
			return c.leanType(x.Underlying())
		}
	case *types.Alias:
		return c.leanType(types.Unalias(x))
	}
	return c.fail("unsupported type %s", t)
}

func (c *hctx) zero(t types.Type) string {
	lt := c.leanType(t)
	switch {
	case lt == "Int":
		return "(0 : Int)"
	case lt == "Bool":
		return "false"
	case lt == "α":
		return "(default : α)"
	case strings.HasPrefix(lt, "(Array"):
		return "(#[] : " + lt + ")"
	}
	return c.fail("zero value of %s", t)
}

func (c *hctx) typeOf(e ast.Expr) types.Type { return c.info.TypeOf(e) }

func (c *hctx) declare(name, typ string) {
	if name == "_" {
		return
	}
	for i, v := range c.scope {
		if v.name == name {
			c.scope[i].typ = typ
			return
		}
	}
	c.scope = append(c.scope, hvar{name, typ})
}

func (c *hctx) typeOfVar(name string) string {
	for _, v := range c.scope {
		if v.name == name {
			return v.typ
		}
	}
	return c.fail("variable %s is not in scope", name)
}

// ---------- partial operations ----------

func (c *hctx) partial(term string) string {
	if !c.out {
		c.needOut = true
		return c.fail("partial operation in a function translated without outcomes")
	}
	c.ntmp++
	n := fmt.Sprintf("t%d_", c.ntmp)
	c.pre = append(c.pre, binding{n, term})
	return n
}

func (c *hctx) takePre() []binding {
	p := c.pre
	c.pre = nil
	return p
}

// outMatch: bind the value of an Out term to `pat` (a name, `_`, or a tuple of names: bound through projections, so
// that the generated text contains no pattern-matching lambda), go on with body; panic and hang propagate (Out.bind).
func outMatch(term, pat, body string) string {
	if strings.HasPrefix(pat, "(") && strings.HasSuffix(pat, ")") {
		ns := strings.Split(pat[1:len(pat)-1], ", ")
		lets := ""
		for i, n := range ns {
			if n == "_" {
				continue
			}
			proj := "r_" + strings.Repeat(".2", i)
			if i < len(ns)-1 {
				proj += ".1"
			}
			lets += "let " + n + " := " + proj + "\n"
		}
		pat, body = "r_", lets+body
	}
	return "(Out.bind (" + term + ") fun " + pat + " =>\n" + indent(body, 2) + ")"
}

func (c *hctx) withPre(pre []binding, body string) string {
	for i := len(pre) - 1; i >= 0; i-- {
		body = outMatch(pre[i].term, pre[i].name, body)
	}
	return body
}

// bind: `pat` := term, where term is a plain value (isOut = false) or an Out
func (c *hctx) bind(term string, isOut bool, pat, body string) string {
	if isOut {
		return outMatch(term, pat, body)
	}
	return "let " + pat + " := " + term + "\n" + body
}

func (c *hctx) okv(t string) string {
	if c.out {
		return "(Out.ok " + t + ")"
	}
	return t
}

// ---------- expressions ----------

func (c *hctx) fieldOf(e ast.Expr) (fieldVar, bool) {
	sel, ok := e.(*ast.SelectorExpr)
	if !ok || c.recv == "" {
		return fieldVar{}, false
	}
	id, ok := sel.X.(*ast.Ident)
	if !ok || id.Name != c.recv {
		return fieldVar{}, false
	}
	for _, f := range c.fields {
		if f.goName == sel.Sel.Name {
			return f, true
		}
	}
	return fieldVar{}, false
}

// varOf: the Lean variable an assignable expression names
func (c *hctx) varOf(e ast.Expr) (string, bool) {
	if p, ok := e.(*ast.ParenExpr); ok {
		return c.varOf(p.X)
	}
	if id, ok := e.(*ast.Ident); ok {
		if _, isVar := c.info.ObjectOf(id).(*types.Var); isVar {
			return lv(id.Name), true
		}
		return "", false
	}
	if f, ok := c.fieldOf(e); ok {
		return f.lean, true
	}
	return "", false
}

func intLit(e ast.Expr) (string, bool) {
	if p, ok := e.(*ast.ParenExpr); ok {
		return intLit(p.X)
	}
	if b, ok := e.(*ast.BasicLit); ok && b.Kind == token.INT {
		return b.Value, true
	}
	return "", false
}

func (c *hctx) isInt(e ast.Expr) bool {
	t := c.typeOf(e)
	if t == nil {
		return false
	}
	if tp, ok := t.(*types.TypeParam); ok {
		return c.hooks != nil && isNumericParam(tp)
	}
	b, ok := t.Underlying().(*types.Basic)
	return ok && b.Info()&types.IsInteger != 0
}

// prop: a condition as a Lean proposition / Bool usable after `if` (no partial operations are bound here: they go to c.pre)
func (c *hctx) cond(e ast.Expr) string {
	if p, ok := e.(*ast.ParenExpr); ok {
		return c.cond(p.X)
	}
	if b, ok := e.(*ast.BinaryExpr); ok {
		switch b.Op {
		case token.LSS, token.LEQ, token.GTR, token.GEQ, token.EQL, token.NEQ:
			if b.Op == token.EQL || b.Op == token.NEQ {
				// err != nil / err == nil: an error value is the flag "non-nil"
				if id, ok := b.Y.(*ast.Ident); ok && id.Name == "nil" && c.typeOf(b.X) != nil && c.typeOf(b.X).String() == "error" {
					if b.Op == token.NEQ {
						return c.expr(b.X) + " = true"
					}
					return c.expr(b.X) + " = false"
				}
			}
			op := map[token.Token]string{token.LSS: "<", token.LEQ: "≤", token.GTR: ">", token.GEQ: "≥", token.EQL: "=", token.NEQ: "≠"}[b.Op]
			if (b.Op == token.EQL || b.Op == token.NEQ) || (c.isInt(b.X) && c.isInt(b.Y)) {
				l := c.expr(b.X)
				r := c.expr(b.Y)
				return l + " " + op + " " + r
			}
		}
	}
	return c.expr(e) + " = true"
}

func (c *hctx) expr(e ast.Expr) string {
	switch x := e.(type) {
	case *ast.ParenExpr:
		return c.expr(x.X)
	case *ast.BasicLit:
		if x.Kind == token.INT {
			return "(" + x.Value + " : Int)"
		}
		return c.fail("literal %s", x.Value)
	case *ast.Ident:
		switch x.Name {
		case "true", "false":
			if _, isConst := c.info.ObjectOf(x).(*types.Const); isConst {
				return x.Name
			}
		}
		if _, isNil := c.info.ObjectOf(x).(*types.Nil); isNil {
			if _, isSlice := c.typeOf(x).Underlying().(*types.Slice); isSlice {
				return c.zero(c.typeOf(x)) // a nil slice is the empty slice (len 0); nil-ness itself is not modelled
			}
		}
		if _, isVar := c.info.ObjectOf(x).(*types.Var); isVar {
			if len(x.Name) > 1 && strings.HasSuffix(x.Name, "_") {
				return c.fail("identifier %s ends in an underscore (reserved for generated names)", x.Name)
			}
			if isSyncType(c.typeOf(x)) {
				return c.fail("use of a sync value")
			}
			return lv(x.Name)
		}
		return c.fail("identifier %s", x.Name)
	case *ast.SelectorExpr:
		if f, ok := c.fieldOf(x); ok {
			return f.lean
		}
		return c.fail("selector .%s", x.Sel.Name)
	case *ast.UnaryExpr:
		switch x.Op {
		case token.NOT:
			return "(!" + c.expr(x.X) + ")"
		case token.SUB:
			if c.isInt(x.X) {
				return "(-" + c.expr(x.X) + ")"
			}
		}
		return c.fail("unary operator %s", x.Op)
	case *ast.BinaryExpr:
		switch x.Op {
		case token.ADD, token.SUB, token.MUL:
			if c.isInt(x.X) && c.isInt(x.Y) {
				return "(" + c.expr(x.X) + " " + x.Op.String() + " " + c.expr(x.Y) + ")"
			}
		case token.QUO, token.REM:
			if lit, ok := intLit(x.Y); ok && c.isInt(x.X) && strings.Trim(lit, "0_xXbBoO") != "" {
				fn := "Int.tdiv"
				if x.Op == token.REM {
					fn = "Int.tmod"
				}
				return "(" + fn + " " + c.expr(x.X) + " (" + lit + " : Int))"
			}
			return c.fail("division by a non-literal")
		case token.LAND, token.LOR:
			l := c.expr(x.X)
			n := len(c.pre)
			r := c.expr(x.Y)
			if len(c.pre) != n {
				return c.fail("partial operation in the right operand of %s outside a condition", x.Op)
			}
			op := "&&"
			if x.Op == token.LOR {
				op = "||"
			}
			return "(" + l + " " + op + " " + r + ")"
		case token.LSS, token.LEQ, token.GTR, token.GEQ, token.EQL, token.NEQ:
			return "(decide (" + c.cond(x) + "))"
		}
		return c.fail("binary operator %s", x.Op)
	case *ast.IndexExpr:
		if _, isSlice := c.typeOf(x.X).Underlying().(*types.Slice); isSlice {
			s := c.expr(x.X)
			i := c.expr(x.Index)
			return c.partial("hIdx " + s + " " + i)
		}
		return c.fail("index expression on a non-slice")
	case *ast.SliceExpr:
		if _, isSlice := c.typeOf(x.X).Underlying().(*types.Slice); !isSlice || x.Slice3 {
			return c.fail("slice expression")
		}
		s := c.expr(x.X)
		lo := "(0 : Int)"
		if x.Low != nil {
			lo = c.expr(x.Low)
		}
		hi := "(" + s + ".size : Int)"
		if x.High != nil {
			hi = c.expr(x.High)
		}
		return c.partial("hSlice " + s + " " + lo + " " + hi)
	case *ast.CompositeLit:
		if _, isSlice := c.typeOf(x).Underlying().(*types.Slice); isSlice && len(x.Elts) == 0 {
			return c.zero(c.typeOf(x)) // []T{}
		}
		return c.fail("composite literal")
	case *ast.CallExpr:
		if tv, ok := c.info.Types[x.Fun]; ok && tv.IsType() && len(x.Args) == 1 {
			// conversion T(e): the identity when both sides are the same Lean type (integer ↔ integer: wrap-around is not modelled)
			if from, to := c.leanType(c.typeOf(x.Args[0])), c.leanType(tv.Type); from == to && (to == "Int" || to == "α") {
				return c.expr(x.Args[0])
			}
			return c.fail("conversion")
		}
		if id, ok := x.Fun.(*ast.Ident); ok && c.closures[id.Name] != nil && len(x.Args) == 0 {
			return c.callClosure(id.Name)
		}
		term, isOut, info := c.call(x)
		if c.err != "" {
			return "sorryUnsupported"
		}
		if info != nil && info.nres == 1 && len(info.wfields)+len(info.wparams) != 0 && isOut {
			// a call that writes, inside an expression: the written variables are rebound where Go evaluates the call
			c.ntmp++
			n := fmt.Sprintf("t%d_", c.ntmp)
			c.pre = append(c.pre, binding{c.callPattern(x, info, []string{n}), term})
			return n
		}
		if info != nil && (info.nres != 1 || len(info.wfields)+len(info.wparams) != 0) {
			return c.fail("call of %s (results %d, writes) inside an expression", info.lean, info.nres)
		}
		if isOut {
			return c.partial(term)
		}
		return "(" + term + ")"
	}
	return c.fail("expression %T", e)
}

// call translates a call; info is nil for builtins and calls through function values.
func (c *hctx) call(x *ast.CallExpr) (term string, isOut bool, info *hinfo) {
	if x.Ellipsis != token.NoPos {
		// append(a, b...) = a ++ b (value level);  f(xs...) with f variadic hands the slice xs on as it is
		if id, ok := x.Fun.(*ast.Ident); ok && id.Name == "append" && len(x.Args) == 2 {
			if _, isBuiltin := c.info.ObjectOf(id).(*types.Builtin); isBuiltin {
				a := c.expr(x.Args[0])
				b := c.expr(x.Args[1])
				return "(" + a + " ++ " + b + ")", false, nil
			}
		}
		if g := calleeOf(c.f, x); g == nil || hSums[g] == nil || !g.Type().(*types.Signature).Variadic() {
			return c.fail("call with ..."), false, nil
		}
	} else if g := calleeOf(c.f, x); g != nil && hSums[g] != nil && g.Type().(*types.Signature).Variadic() {
		return c.fail("call of a variadic function with listed arguments"), false, nil
	}
	// builtins
	if id, ok := x.Fun.(*ast.Ident); ok {
		if _, isBuiltin := c.info.ObjectOf(id).(*types.Builtin); isBuiltin {
			switch id.Name {
			case "len":
				if _, isSlice := c.typeOf(x.Args[0]).Underlying().(*types.Slice); isSlice {
					return "(" + c.expr(x.Args[0]) + ".size : Int)", false, nil
				}
			case "append":
				if _, isSlice := c.typeOf(x.Args[0]).Underlying().(*types.Slice); isSlice {
					t := c.expr(x.Args[0])
					for _, a := range x.Args[1:] {
						t = "(" + t + ".push " + c.expr(a) + ")"
					}
					return t, false, nil
				}
			case "make":
				if len(x.Args) == 2 {
					if sl, isSlice := c.typeOf(x.Args[0]).Underlying().(*types.Slice); isSlice && c.leanType(sl.Elem()) == "α" {
						return "hMake (α := α) " + c.expr(x.Args[1]), true, nil
					}
				}
			}
			return c.fail("builtin %s", id.Name), false, nil
		}
	}
	// a function value: a parameter/local, or a field of the receiver
	if _, isSig := c.typeOf(x.Fun).Underlying().(*types.Signature); isSig {
		fv := ""
		if id, ok := x.Fun.(*ast.Ident); ok {
			if _, isVar := c.info.ObjectOf(id).(*types.Var); isVar {
				fv = lv(id.Name)
			}
		} else if f, ok := c.fieldOf(x.Fun); ok {
			fv = f.lean
		}
		if fv != "" {
			parts := []string{fv}
			for _, a := range x.Args {
				parts = append(parts, c.expr(a))
			}
			return strings.Join(parts, " "), false, nil
		}
	}
	g := calleeOf(c.f, x)
	if g == nil || hSums[g] == nil {
		return c.fail("call of a function outside the package"), false, nil
	}
	s := hSums[g]
	isMethod := s.f.decl.Recv != nil
	if isMethod {
		sel, ok := x.Fun.(*ast.SelectorExpr)
		if !ok {
			return c.fail("method expression"), false, nil
		}
		id, ok := sel.X.(*ast.Ident)
		if !ok || c.recv == "" || id.Name != c.recv {
			return c.fail("method call on something other than the receiver"), false, nil
		}
	}
	var inf *hinfo
	if s == c.sum {
		// self-recursive call: Out mode, fuel, same writes
		c.selfRec = true
		if !c.out {
			c.needOut = true
			return c.fail("recursion in a function translated without outcomes"), false, nil
		}
		inf = c.selfInfo()
	} else {
		inf = translateHeapFunc(s)
		if !inf.ok {
			return c.fail("call of %s, which is %s", inf.lean, inf.status), false, nil
		}
	}
	parts := []string{inf.lean}
	if inf.fuel {
		if !c.fuel {
			return c.fail("internal: callee takes fuel, caller does not"), false, nil
		}
		parts = append(parts, "fuel")
	}
	if isMethod {
		for _, f := range c.fields {
			parts = append(parts, f.lean)
		}
	}
	for i, a := range x.Args {
		if s.wparams[i] {
			if _, ok := c.varOf(a); !ok {
				return c.fail("argument written by %s is not a variable", inf.lean), false, nil
			}
		}
		parts = append(parts, c.expr(a))
	}
	return strings.Join(parts, " "), inf.out, inf
}

func (c *hctx) selfInfo() *hinfo {
	inf := &hinfo{lean: c.name, ok: true, out: true, fuel: true, nres: len(c.results), isMethod: c.recv != ""}
	inf.wfields, inf.wparams = c.sum.writeLists()
	return inf
}

func (s *hsum) writeLists() ([]string, []int) {
	var wf []string
	if st := recvStruct(s.f); st != nil {
		for i := 0; i < st.NumFields(); i++ {
			if s.wfields[st.Field(i).Name()] {
				wf = append(wf, st.Field(i).Name())
			}
		}
	}
	var wp []int
	for i := range s.wparams {
		wp = append(wp, i)
	}
	sort.Ints(wp)
	return wf, wp
}

func recvStruct(f *fn) *types.Struct {
	sig := f.obj.Type().(*types.Signature)
	if sig.Recv() == nil {
		return nil
	}
	t := sig.Recv().Type()
	if p, ok := t.(*types.Pointer); ok {
		t = p.Elem()
	}
	st, _ := t.Underlying().(*types.Struct)
	return st
}

// ---------- statements ----------

// writeVars: the Lean variables (with types) this function hands back
func (c *hctx) writeVars() []hvar {
	var out []hvar
	wf, wp := c.sum.writeLists()
	for _, n := range wf {
		for _, f := range c.fields {
			if f.goName == n {
				out = append(out, hvar{f.lean, f.typ})
			}
		}
	}
	sig := c.f.obj.Type().(*types.Signature)
	for _, i := range wp {
		p := sig.Params().At(i)
		out = append(out, hvar{lv(p.Name()), c.leanType(p.Type())})
	}
	return out
}

func tupleOf(vals []string) string {
	switch len(vals) {
	case 0:
		return "()"
	case 1:
		return vals[0]
	}
	return "(" + strings.Join(vals, ", ") + ")"
}

func typeTuple(ts []string) string {
	switch len(ts) {
	case 0:
		return "Unit"
	case 1:
		return ts[0]
	}
	return "(" + strings.Join(ts, " × ") + ")"
}

func (c *hctx) retTerm(vals []string) string {
	for _, w := range c.writeVars() {
		vals = append(vals, w.name)
	}
	return c.returnTerm(tupleOf(vals))
}

// retType: the type ρ of what the function hands back (results, then writes), without `Out`
func (c *hctx) retType() string {
	if c.closure != nil {
		return c.closure.typ
	}
	ts := append([]string{}, c.results...)
	for _, w := range c.writeVars() {
		ts = append(ts, w.typ)
	}
	return typeTuple(ts)
}

// returnTerm: the function returns the tuple v.  Inside a loop the iteration ends with `(some v, state)`.
func (c *hctx) returnTerm(v string) string {
	if c.loop != nil {
		if !c.loop.hasRet {
			return c.fail("internal: return inside a loop not marked as returning")
		}
		return c.okv("(some " + v + ", " + tupleOf(names(c.loop.state)) + ")")
	}
	return c.okv(v)
}

// loopEnd: the loop ends normally (condition false, break, end of the ranged slice) with the current state
func (c *hctx) loopEnd(state []hvar, hasRet bool) string {
	if hasRet {
		return c.okv("(none, " + tupleOf(names(state)) + ")")
	}
	return c.okv(tupleOf(names(state)))
}

func (c *hctx) loopType(state []hvar, hasRet bool) string {
	t := typeTuple(typesOf(state))
	if hasRet {
		t = "(Option " + c.retType() + " × " + t + ")"
	}
	return t
}

// afterLoop: run the loop `call`, rebind its state, go on with rest; a loop that returned ends the function
func (c *hctx) afterLoop(call string, state []hvar, hasRet bool, rest func() string) string {
	pat := tupleOf(names(state))
	if len(state) == 0 {
		pat = "_"
	}
	if !hasRet {
		return c.bind(call, c.out, pat, rest())
	}
	lets := ""
	for i, v := range state {
		proj := "r_.2" + strings.Repeat(".2", i)
		if i < len(state)-1 {
			proj += ".1"
		}
		lets += "let " + v.name + " := " + proj + "\n"
	}
	body := "match r_.1 with\n| some ret_ => " + c.returnTerm("ret_") + "\n| none =>\n" + indent(lets+rest(), 2)
	if c.out {
		return "(Out.bind (" + call + ") fun r_ =>\n" + indent(body, 2) + ")"
	}
	return "let r_ := " + call + "\n" + body
}

func containsReturn(n ast.Node) bool {
	found := false
	ast.Inspect(n, func(m ast.Node) bool {
		switch m.(type) {
		case *ast.FuncLit:
			return false
		case *ast.ReturnStmt:
			found = true
		}
		return true
	})
	return found
}

// callPattern: the pattern that binds the result of a call with writes: result names, then the written variables
func (c *hctx) callPattern(x *ast.CallExpr, inf *hinfo, resNames []string) string {
	pat := append([]string{}, resNames...)
	for _, fn := range inf.wfields {
		for _, f := range c.fields {
			if f.goName == fn {
				pat = append(pat, f.lean)
			}
		}
	}
	for _, i := range inf.wparams {
		v, _ := c.varOf(x.Args[i])
		pat = append(pat, v)
	}
	if len(pat) == 0 {
		return "_"
	}
	return tupleOf(pat)
}

func (c *hctx) isMutexCall(e ast.Expr) bool {
	call, ok := e.(*ast.CallExpr)
	if !ok || len(call.Args) != 0 {
		return false
	}
	sel, ok := call.Fun.(*ast.SelectorExpr)
	if !ok {
		return false
	}
	switch sel.Sel.Name {
	case "Lock", "Unlock", "RLock", "RUnlock":
		return isSyncType(c.typeOf(sel.X))
	}
	return false
}

// leaves: the statements contain a return / break / continue that leaves them
func leaves(list []ast.Stmt) bool {
	found := false
	for _, s := range list {
		ast.Inspect(s, func(n ast.Node) bool {
			switch x := n.(type) {
			case *ast.ReturnStmt:
				found = true
			case *ast.BranchStmt:
				found = true
			case *ast.ForStmt, *ast.RangeStmt, *ast.FuncLit:
				_ = x
				// a break inside a nested loop does not leave; a return does
				ast.Inspect(n, func(m ast.Node) bool {
					if _, ok := m.(*ast.ReturnStmt); ok {
						found = true
					}
					return true
				})
				return false
			}
			return true
		})
	}
	return found
}

// assigned: the variables (Lean names, in scope order) assigned by the statements and declared outside them
func (c *hctx) assigned(list []ast.Stmt) []hvar {
	set := map[string]bool{}
	local := map[string]bool{}
	var note func(e ast.Expr)
	note = func(e ast.Expr) {
		kind, name, _ := rootOf(e, c.recv)
		switch kind {
		case "var":
			if !local[name] {
				set[lv(name)] = true
			}
		case "field":
			for _, f := range c.fields {
				if f.goName == name {
					set[f.lean] = true
				}
			}
		}
	}
	for _, s := range list {
		ast.Inspect(s, func(n ast.Node) bool {
			switch x := n.(type) {
			case *ast.AssignStmt:
				for _, l := range x.Lhs {
					if x.Tok == token.DEFINE {
						if id, ok := l.(*ast.Ident); ok && c.info.Defs[id] != nil {
							local[id.Name] = true
							continue
						}
					}
					note(l)
				}
			case *ast.DeclStmt:
				if gd, ok := x.Decl.(*ast.GenDecl); ok {
					for _, sp := range gd.Specs {
						if vs, ok := sp.(*ast.ValueSpec); ok {
							for _, id := range vs.Names {
								local[id.Name] = true
							}
						}
					}
				}
			case *ast.IncDecStmt:
				note(x.X)
			case *ast.RangeStmt:
				if x.Tok == token.DEFINE {
					for _, e := range []ast.Expr{x.Key, x.Value} {
						if id, ok := e.(*ast.Ident); ok {
							local[id.Name] = true
						}
					}
				}
			case *ast.CallExpr:
				g := calleeOf(c.f, x)
				if g == nil || hSums[g] == nil {
					return true
				}
				t := hSums[g]
				if t.f.decl.Recv != nil {
					for _, f := range c.fields {
						if t.wfields[f.goName] {
							set[f.lean] = true
						}
					}
				}
				for i := range t.wparams {
					if i < len(x.Args) {
						note(x.Args[i])
					}
				}
			}
			return true
		})
	}
	var out []hvar
	for _, v := range c.scope {
		if set[v.name] {
			out = append(out, v)
		}
	}
	return out
}

func names(vs []hvar) []string {
	out := make([]string, len(vs))
	for i, v := range vs {
		out[i] = v.name
	}
	return out
}

func typesOf(vs []hvar) []string {
	out := make([]string, len(vs))
	for i, v := range vs {
		out[i] = v.typ
	}
	return out
}

// condSplit: `if e then T else E` with the partial operations of e bound where Go evaluates them
func (c *hctx) condSplit(e ast.Expr, T, E string) string {
	if p, ok := e.(*ast.ParenExpr); ok {
		return c.condSplit(p.X, T, E)
	}
	if c.hasPartial(e) {
		switch x := e.(type) {
		case *ast.BinaryExpr:
			if x.Op == token.LAND {
				return c.condSplit(x.X, c.condSplit(x.Y, T, E), E)
			}
			if x.Op == token.LOR {
				return c.condSplit(x.X, T, c.condSplit(x.Y, T, E))
			}
		case *ast.UnaryExpr:
			if x.Op == token.NOT {
				return c.condSplit(x.X, E, T)
			}
		}
	}
	saved := c.takePre()
	cd := c.cond(e)
	pre := c.takePre()
	c.pre = saved
	return c.withPre(pre, "if "+cd+" then\n"+indent(T, 2)+"\nelse\n"+indent(E, 2))
}

// hasPartial: translating e registers a partial operation (tried on a scratch copy of the counters)
func (c *hctx) hasPartial(e ast.Expr) bool {
	savedPre, savedTmp, savedErr, savedNeed, savedOut := c.pre, c.ntmp, c.err, c.needOut, c.out
	savedAux, savedNloop := c.aux, c.nloop
	c.pre = nil
	c.out = true
	c.expr(e)
	has := len(c.pre) != 0
	c.pre, c.ntmp, c.err, c.needOut, c.out = savedPre, savedTmp, savedErr, savedNeed, savedOut
	c.aux, c.nloop = savedAux[:len(savedAux):len(savedAux)], savedNloop
	if has && !c.out {
		c.needOut = true
	}
	return has
}

// stmts translates a statement list; k is the term for "control reaches the end of the list".
func (c *hctx) stmts(list []ast.Stmt, k string) string {
	if c.err != "" {
		return "sorryUnsupported"
	}
	if len(list) == 0 {
		return k
	}
	s, rest := list[0], list[1:]
	switch x := s.(type) {
	case *ast.EmptyStmt:
		return c.stmts(rest, k)
	case *ast.DeferStmt:
		if c.isMutexCall(x.Call) {
			return c.stmts(rest, k)
		}
		return c.fail("defer")
	case *ast.BlockStmt:
		return c.fail("nested block")
	case *ast.DeclStmt:
		gd, ok := x.Decl.(*ast.GenDecl)
		if !ok || gd.Tok != token.VAR {
			return c.fail("declaration")
		}
		out := ""
		for _, sp := range gd.Specs {
			vs := sp.(*ast.ValueSpec)
			if len(vs.Values) != 0 {
				return c.fail("var with initialiser")
			}
			for _, id := range vs.Names {
				t := c.info.TypeOf(id)
				lt := c.leanType(t)
				out += "let " + lv(id.Name) + " : " + lt + " := " + c.zero(t) + "\n"
				c.declare(lv(id.Name), lt)
			}
		}
		return out + c.stmts(rest, k)
	case *ast.ReturnStmt:
		var vals []string
		if c.closure != nil {
			if len(x.Results) != 1 {
				return c.fail("return form in a function literal")
			}
			v := c.expr(x.Results[0])
			pre := c.takePre()
			return c.withPre(pre, c.returnTerm(v))
		}
		sig := c.f.obj.Type().(*types.Signature)
		if len(x.Results) != sig.Results().Len() {
			return c.fail("return with %d values for %d results", len(x.Results), sig.Results().Len())
		}
		for i, e := range x.Results {
			if sig.Results().At(i).Type().String() == "error" {
				if id, ok := e.(*ast.Ident); ok && id.Name == "nil" {
					vals = append(vals, "false")
				} else {
					vals = append(vals, "true") // a non-nil error; its text is not modelled
				}
				continue
			}
			if id, ok := e.(*ast.Ident); ok && id.Name == "nil" {
				if _, isSlice := sig.Results().At(i).Type().Underlying().(*types.Slice); isSlice {
					vals = append(vals, c.zero(sig.Results().At(i).Type())) // a nil slice is the empty slice
					continue
				}
			}
			if fv, ok := c.newStruct(e); ok {
				vals = append(vals, fv...)
				continue
			}
			vals = append(vals, c.expr(e))
		}
		pre := c.takePre()
		return c.withPre(pre, c.retTerm(vals))
	case *ast.BranchStmt:
		if x.Tok == token.BREAK && x.Label == nil && c.loop != nil && c.loop.breakTerm != "" {
			return c.loop.breakTerm
		}
		if x.Tok == token.CONTINUE && x.Label == nil && c.loop != nil && c.loop.cont != nil {
			return c.loop.cont()
		}
		return c.fail("%s", x.Tok)
	case *ast.ExprStmt:
		if c.isMutexCall(x.X) {
			return c.stmts(rest, k)
		}
		call, ok := x.X.(*ast.CallExpr)
		if !ok {
			return c.fail("expression statement")
		}
		if id, ok := call.Fun.(*ast.Ident); ok && id.Name == "copy" && len(call.Args) == 2 {
			if _, isB := c.info.ObjectOf(id).(*types.Builtin); isB {
				dst, okv := c.varOf(call.Args[0])
				if !okv {
					return c.fail("copy into something that is not a variable")
				}
				src := c.expr(call.Args[1])
				pre := c.takePre()
				return c.withPre(pre, "let "+dst+" := hCopy "+dst+" "+src+"\n"+c.stmts(rest, k))
			}
		}
		term, isOut, inf := c.call(call)
		if c.err != "" {
			return "sorryUnsupported"
		}
		if inf == nil {
			return c.fail("call of a function value as a statement")
		}
		var resNames []string
		for i := 0; i < inf.nres; i++ {
			resNames = append(resNames, "_")
		}
		pat := c.callPattern(call, inf, resNames)
		pre := c.takePre()
		return c.withPre(pre, c.bind(term, isOut, pat, c.stmts(rest, k)))
	case *ast.IncDecStmt:
		v, ok := c.varOf(x.X)
		if !ok || !c.isInt(x.X) {
			return c.fail("++/-- on something that is not an integer variable")
		}
		op := "+"
		if x.Tok == token.DEC {
			op = "-"
		}
		return "let " + v + " := " + v + " " + op + " 1\n" + c.stmts(rest, k)
	case *ast.AssignStmt:
		return c.assign(x, rest, k)
	case *ast.IfStmt:
		return c.ifStmt(x, rest, k)
	case *ast.SwitchStmt:
		d := c.switchAsIf(x)
		if d == nil {
			return "sorryUnsupported"
		}
		return c.stmts(append([]ast.Stmt{d}, rest...), k)
	case *ast.ForStmt:
		return c.forStmt(x, rest, k)
	case *ast.RangeStmt:
		return c.rangeStmt(x, rest, k)
	}
	return c.fail("statement %T", s)
}

func (c *hctx) assign(x *ast.AssignStmt, rest []ast.Stmt, k string) string {
	// x op= e
	if x.Tok == token.ADD_ASSIGN || x.Tok == token.SUB_ASSIGN {
		v, ok := c.varOf(x.Lhs[0])
		if !ok || !c.isInt(x.Lhs[0]) {
			return c.fail("op-assignment")
		}
		op := "+"
		if x.Tok == token.SUB_ASSIGN {
			op = "-"
		}
		r := c.expr(x.Rhs[0])
		pre := c.takePre()
		return c.withPre(pre, "let "+v+" := "+v+" "+op+" "+r+"\n"+c.stmts(rest, k))
	}
	if x.Tok != token.ASSIGN && x.Tok != token.DEFINE {
		return c.fail("assignment operator %s", x.Tok)
	}
	if y := c.assignHook(x); y != nil {
		if y == x {
			return c.stmts(rest, k)
		}
		x = y
	}
	// values of sync types are not modelled
	if len(x.Lhs) == 1 && len(x.Rhs) == 1 && isSyncType(c.typeOf(x.Lhs[0])) {
		return c.stmts(rest, k)
	}
	// a, b := f(…)   /   x = f(…) where f has writes
	if len(x.Rhs) == 1 {
		if call, ok := x.Rhs[0].(*ast.CallExpr); ok {
			if g := calleeOf(c.f, call); g != nil && hSums[g] != nil {
				wf, wp := hSums[g].writeLists()
				if len(x.Lhs) > 1 || len(wf)+len(wp) > 0 {
					term, isOut, inf := c.call(call)
					if c.err != "" {
						return "sorryUnsupported"
					}
					if inf.nres != len(x.Lhs) {
						return c.fail("assignment count")
					}
					var resNames []string
					for _, l := range x.Lhs {
						id, ok := l.(*ast.Ident)
						if !ok {
							return c.fail("call result assigned to something that is not a variable")
						}
						if id.Name == "_" {
							resNames = append(resNames, "_")
							continue
						}
						resNames = append(resNames, lv(id.Name))
					}
					pre := c.takePre()
					for i, l := range x.Lhs {
						if id := l.(*ast.Ident); id.Name != "_" {
							t := c.typeOf(l)
							lt := "Bool"
							if t.String() != "error" {
								lt = c.leanType(t)
							}
							_ = i
							c.declare(lv(id.Name), lt)
						}
					}
					pat := c.callPattern(call, inf, resNames)
					return c.withPre(pre, c.bind(term, isOut, pat, c.stmts(rest, k)))
				}
			}
		}
	}
	if len(x.Lhs) != len(x.Rhs) {
		return c.fail("assignment %d := %d", len(x.Lhs), len(x.Rhs))
	}
	// right-hand sides in order
	var vals []string
	for _, r := range x.Rhs {
		vals = append(vals, c.expr(r))
	}
	type target struct {
		v, idx string
		plain  bool
	}
	var tg []target
	for _, l := range x.Lhs {
		if p, ok := l.(*ast.ParenExpr); ok {
			l = p.X
		}
		if id, ok := l.(*ast.Ident); ok && id.Name == "_" {
			tg = append(tg, target{v: "_", plain: true})
			continue
		}
		if v, ok := c.varOf(l); ok {
			tg = append(tg, target{v: v, plain: true})
			continue
		}
		if ix, ok := l.(*ast.IndexExpr); ok {
			if _, isSlice := c.typeOf(ix.X).Underlying().(*types.Slice); isSlice {
				if v, ok := c.varOf(ix.X); ok {
					tg = append(tg, target{v: v, idx: c.expr(ix.Index)})
					continue
				}
			}
		}
		return c.fail("assignment target")
	}
	pre := c.takePre()
	// declare new names
	for i, l := range x.Lhs {
		if tg[i].plain && tg[i].v != "_" {
			if _, isField := c.fieldOf(l); !isField {
				c.declare(tg[i].v, c.leanType(c.typeOf(l)))
			}
		}
	}
	// with several targets the values are fixed first (temporaries), then assigned left to right
	body := ""
	if len(tg) > 1 {
		for i := range vals {
			c.ntmp++
			n := fmt.Sprintf("t%d_", c.ntmp)
			body += "let " + n + " := " + vals[i] + "\n"
			vals[i] = n
		}
	}
	var closers []func(string) string
	for i, t := range tg {
		if t.plain {
			v, val := t.v, vals[i]
			closers = append(closers, func(b string) string { return "let " + v + " := " + val + "\n" + b })
		} else {
			if !c.out {
				c.needOut = true
				return c.fail("index assignment in a function translated without outcomes")
			}
			v, idx, val := t.v, t.idx, vals[i]
			closers = append(closers, func(b string) string { return outMatch("hSet "+v+" "+idx+" "+val, v, b) })
		}
	}
	tail := c.stmts(rest, k)
	for i := len(closers) - 1; i >= 0; i-- {
		tail = closers[i](tail)
	}
	return c.withPre(pre, body+tail)
}

func (c *hctx) block(list []ast.Stmt, k string) string {
	saved := append([]hvar{}, c.scope...)
	out := c.stmts(list, k)
	c.scope = saved
	return out
}

func (c *hctx) ifStmt(x *ast.IfStmt, rest []ast.Stmt, k string) string {
	if x.Init != nil {
		return c.fail("if with an init statement")
	}
	var els []ast.Stmt
	switch e := x.Else.(type) {
	case nil:
	case *ast.BlockStmt:
		els = e.List
	default:
		return c.fail("else if")
	}
	if leaves(x.Body.List) || leaves(els) {
		// the statements that follow are translated once per branch
		thenT := c.block(append(append([]ast.Stmt{}, x.Body.List...), rest...), k)
		elseT := c.block(append(append([]ast.Stmt{}, els...), rest...), k)
		return c.condSplit(x.Cond, thenT, elseT)
	}
	// the if is the value of the variables its branches assign
	vars := c.assigned(append(append([]ast.Stmt{}, x.Body.List...), els...))
	if !c.out {
		// an if without outcomes: plain value
		val := tupleOf(names(vars))
		thenT := c.block(x.Body.List, val)
		elseT := c.block(els, val)
		n := len(c.pre)
		cd := c.cond(x.Cond)
		if len(c.pre) != n || c.err != "" {
			c.needOut = true
			return c.fail("partial operation in a condition of a function translated without outcomes")
		}
		pat := tupleOf(names(vars))
		if len(vars) == 0 {
			pat = "_"
		}
		return "let " + pat + " := (if " + cd + " then\n" + indent(thenT, 2) + "\nelse\n" + indent(elseT, 2) + ")\n" + c.stmts(rest, k)
	}
	val := "(Out.ok " + tupleOf(names(vars)) + ")"
	thenT := c.block(x.Body.List, val)
	elseT := c.block(els, val)
	pat := tupleOf(names(vars))
	if len(vars) == 0 {
		pat = "_"
	}
	return outMatch("("+c.condSplit(x.Cond, thenT, elseT)+" : Out "+typeTuple(typesOf(vars))+")", pat, c.stmts(rest, k))
}

// fixedVars: the variables in scope that are not in `state`
func (c *hctx) fixedVars(state []hvar) []hvar {
	in := map[string]bool{}
	for _, v := range state {
		in[v.name] = true
	}
	var out []hvar
	for _, v := range c.scope {
		if !in[v.name] {
			out = append(out, v)
		}
	}
	return out
}

func binders(vs []hvar) string {
	var ps []string
	for _, v := range vs {
		ps = append(ps, "("+v.name+" : "+v.typ+")")
	}
	return strings.Join(ps, " ")
}

const hImplicit = "{α : Type} [Inhabited α] [DecidableEq α]"

// forStmt: a loop on fuel.
func (c *hctx) forStmt(x *ast.ForStmt, rest []ast.Stmt, k string) string {
	if !c.out {
		c.needOut = true
		return c.fail("fuel loop in a function translated without outcomes")
	}
	if !c.fuel {
		return c.fail("internal: loop in a function without fuel")
	}
	if x.Init != nil {
		// the init statement runs once, in front of the loop
		loop := *x
		loop.Init = nil
		return c.stmts(append([]ast.Stmt{x.Init, &loop}, rest...), k)
	}
	body := append([]ast.Stmt{}, x.Body.List...)
	if x.Post != nil {
		body = append(body, x.Post)
	}
	state := c.assigned(body)
	fixed := c.fixedVars(state)
	hasRet := containsReturn(x.Body)
	c.nloop++
	lname := fmt.Sprintf("%s_loop%d", c.name, c.nloop)
	stateT := c.loopType(state, hasRet)
	recCall := strings.TrimSpace(lname + " " + strings.Join(names(fixed), " ") + " fuel " + strings.Join(names(state), " "))
	savedLoop, savedScope := c.loop, append([]hvar{}, c.scope...)
	c.loop = &hloop{breakTerm: c.loopEnd(state, hasRet), hasRet: hasRet, state: state}
	post := x.Post
	c.loop.cont = func() string {
		if post != nil {
			return c.block([]ast.Stmt{post}, recCall)
		}
		return recCall
	}
	c.inLoop++
	var iter string
	if x.Cond != nil {
		iter = c.condSplit(x.Cond, c.block(body, recCall), c.loop.breakTerm)
	} else {
		iter = c.block(body, recCall)
	}
	c.inLoop--
	c.loop, c.scope = savedLoop, savedScope
	if c.err != "" {
		return "sorryUnsupported"
	}
	def := fmt.Sprintf("def %s %s %s (fuel : Nat) %s : Out %s :=\n  match fuel with\n  | 0 => Out.hang\n  | fuel + 1 =>\n%s\n",
		lname, c.implicits(), binders(fixed), binders(state), stateT, indent(iter, 4))
	c.aux = append(c.aux, def)
	return c.afterLoop(recCall, state, hasRet, func() string { return c.stmts(rest, k) })
}

// rangeStmt: `for _, v := range s` as structural recursion over the elements.
func (c *hctx) rangeStmt(x *ast.RangeStmt, rest []ast.Stmt, k string) string {
	if x.Tok != token.DEFINE || x.Value == nil {
		return c.fail("range form")
	}
	if id, ok := x.Key.(*ast.Ident); !ok || id.Name != "_" {
		return c.fail("range with a key variable")
	}
	vid, ok := x.Value.(*ast.Ident)
	if !ok {
		return c.fail("range value")
	}
	sl, isSlice := c.typeOf(x.X).Underlying().(*types.Slice)
	if !isSlice {
		return c.fail("range over a non-slice")
	}
	hasRet := containsReturn(x.Body)
	seq := c.expr(x.X)
	pre := c.takePre()
	elemT := c.leanType(sl.Elem())
	state := c.assigned(x.Body.List)
	fixed := c.fixedVars(state)
	c.nloop++
	lname := fmt.Sprintf("%s_loop%d", c.name, c.nloop)
	fuelArg, fuelBinder := "", ""
	if c.fuel {
		fuelArg, fuelBinder = " fuel", " (fuel : Nat)"
	}
	call := func(xs string) string {
		parts := []string{lname}
		parts = append(parts, names(fixed)...)
		s := strings.Join(parts, " ") + fuelArg
		if len(state) > 0 {
			s += " " + strings.Join(names(state), " ")
		}
		return s + " " + xs
	}
	savedScope := append([]hvar{}, c.scope...)
	savedLoop := c.loop
	c.loop = &hloop{hasRet: hasRet, state: state, cont: func() string { return call("rest_") }}
	c.inLoop++
	c.declare(lv(vid.Name), elemT)
	iter := c.block(x.Body.List, call("rest_"))
	c.inLoop--
	c.loop, c.scope = savedLoop, savedScope
	if c.err != "" {
		return "sorryUnsupported"
	}
	stateT := c.loopType(state, hasRet)
	resT := stateT
	if c.out {
		resT = "Out " + stateT
	}
	def := fmt.Sprintf("def %s %s %s%s %s (xs_ : List %s) : %s :=\n  match xs_ with\n  | [] => %s\n  | %s :: rest_ =>\n%s\n",
		lname, c.implicits(), binders(fixed), fuelBinder, binders(state), elemT, resT, c.loopEnd(state, hasRet), lv(vid.Name), indent(iter, 4))
	c.aux = append(c.aux, def)
	return c.withPre(pre, c.afterLoop(call(seq+".toList"), state, hasRet, func() string { return c.stmts(rest, k) }))
}

// ---------- functions ----------

func translateHeapFunc(s *hsum) *hinfo {
	if r, ok := hDone[s.key]; ok {
		return r
	}
	if hBusy[s.key] {
		return &hinfo{lean: s.key, status: "unsupported: mutual recursion"}
	}
	hBusy[s.key] = true
	defer delete(hBusy, s.key)
	f := s.f
	var c *hctx
	body := ""
	for _, mode := range []bool{false, true} {
		c = &hctx{f: f, info: f.pkg.TypesInfo, name: s.key, sum: s, out: mode, fuel: s.fuel, hooks: hHooks, closures: map[string]*ast.FuncLit{}}
		if s.fuel && !mode {
			continue
		}
		sig := f.obj.Type().(*types.Signature)
		if tps := sig.TypeParams(); tps != nil && tps.Len() > 1 {
			c.fail("more than one type parameter")
		}
		if r := sig.Recv(); r != nil {
			st := recvStruct(f)
			if _, isPtr := r.Type().(*types.Pointer); !isPtr || st == nil || r.Name() == "" || r.Name() == "_" {
				c.fail("receiver form")
			} else {
				c.recv = r.Name()
				for i := 0; i < st.NumFields(); i++ {
					fl := st.Field(i)
					if isSyncType(fl.Type()) {
						continue
					}
					fv := fieldVar{goName: fl.Name(), lean: r.Name() + "_" + fl.Name(), typ: c.leanType(fl.Type())}
					c.fields = append(c.fields, fv)
					c.declare(fv.lean, fv.typ)
				}
			}
		}
		for i := 0; i < sig.Params().Len(); i++ {
			p := sig.Params().At(i)
			if p.Name() == "" || p.Name() == "_" {
				c.fail("unnamed parameter")
				continue
			}
			if sig.Variadic() && i == sig.Params().Len()-1 {
				// `val ...T` is the slice of the values
			}
			c.declare(lv(p.Name()), c.leanType(p.Type()))
		}
		c.results = nil
		for i := 0; i < sig.Results().Len(); i++ {
			r := sig.Results().At(i)
			if r.Name() != "" {
				c.fail("named results")
			}
			if r.Type().String() == "error" {
				c.results = append(c.results, "Bool")
			} else if ts, ok := c.structFieldTypes(r.Type()); ok {
				c.results = append(c.results, ts...)
			} else {
				c.results = append(c.results, c.leanType(r.Type()))
			}
		}
		ast.Inspect(f.decl, func(n ast.Node) bool {
			if id, ok := n.(*ast.Ident); ok && len(id.Name) > 1 && strings.HasSuffix(id.Name, "_") && c.info.Defs[id] != nil {
				c.fail("identifier %s ends in an underscore (reserved for generated names)", id.Name)
			}
			if id, ok := n.(*ast.Ident); ok && id.Name == "fuel" && c.info.Defs[id] != nil {
				c.fail("identifier fuel is reserved")
			}
			return true
		})
		params := append([]hvar{}, c.scope...)
		body = ""
		if c.err == "" {
			body = c.stmts(f.decl.Body.List, c.retTermEnd())
		}
		if c.err == "" || !c.needOut {
			c.scope = params
			break
		}
	}
	r := &hinfo{lean: s.key, out: c.out, fuel: s.fuel, nres: len(c.results), isMethod: c.recv != ""}
	r.wfields, r.wparams = s.writeLists()
	if c.err != "" {
		r.status = "unsupported: " + c.err
		fmt.Fprintf(hOut, "-- %s: outside the translated fragment (%s)\n\n", s.key, c.err)
		hDone[s.key] = r
		return r
	}
	r.ok = true
	r.status = "ok"
	if c.out {
		r.status = "ok (OUT mode)"
	}
	if s.fuel {
		r.status = "ok (OUT mode, fuel)"
	}
	for _, a := range c.aux {
		hOut.WriteString(a + "\n")
	}
	var ts []string
	ts = append(ts, c.results...)
	for _, w := range c.writeVars() {
		ts = append(ts, w.typ)
	}
	rt := typeTuple(ts)
	if c.out {
		rt = "Out " + rt
	}
	fuelB := ""
	if s.fuel {
		fuelB = " (fuel : Nat)"
	}
	if c.selfRec {
		body = "match fuel with\n| 0 => Out.hang\n| fuel + 1 =>\n" + indent(body, 2)
	}
	fmt.Fprintf(hOut, "def %s %s%s %s : %s :=\n%s\n\n", s.key, c.implicits(), fuelB, binders(c.scope), rt, indent(body, 2))
	hDone[s.key] = r
	return r
}

// retTermEnd: control reaches the end of a function without results
func (c *hctx) retTermEnd() string {
	if len(c.results) != 0 {
		return "sorryUnsupported" // unreachable in type-correct Go (a missing return does not compile)
	}
	return c.retTerm(nil)
}

// heapFunctions lists what is regenerated from heap/heap.go, by key (`Type_method` or function name).
var heapFunctions = []string{"swap", "Heap_parent", "Heap_leftChild", "Heap_rightChild", "Heap_size", "Heap_Size", "Heap_IsEmpty",
	"Heap_Clear", "Heap_peek", "Heap_Peek", "Heap_GetValues", "Heap_moveUp", "Heap_moveDown", "Heap_Push", "Heap_Pop",
	"Heap_getIndex", "Heap_Delete", "Heap_Convert", "FromSlice", "Heap_Merge", "Heap_Meld"}

func translateHeap() (string, map[string]string) {
	status := map[string]string{}
	var sb strings.Builder
	sb.WriteString("/-! GENERATED by /verif/translator (frag_heap.go) from /repo's current source — do not edit.\n\n")
	sb.WriteString("Mechanical Go → Lean translation of heap/heap.go (see translator/frag_heap.go for the fragment: outcomes\n")
	sb.WriteString("ok/panic/hang, fuel for loops and recursion that are not structural, receiver fields and written slices\n")
	sb.WriteString("handed back).  `Theorems/GenTieHeap.lean` proves each definition equal to `Model/Heap.lean`. -/\n")
	sb.WriteString("set_option linter.unusedVariables false\nnamespace GoguVerif.Gen.Heap\n\n")
	sb.WriteString("/-- placeholder that makes an unsupported function's tie theorem fail to build -/\nopaque sorryUnsupported {α : Type} [Inhabited α] : α\n\n")
	sb.WriteString(heapPrelude)
	buildHeapSummaries("heap")
	hDone = map[string]*hinfo{}
	hBusy = map[string]bool{}
	hOut = &sb
	byKey := map[string]*hsum{}
	for _, s := range hSums {
		if strings.HasSuffix(s.f.pkg.Fset.File(s.f.decl.Pos()).Name(), "heap.go") {
			byKey[s.key] = s
		}
	}
	for _, name := range heapFunctions {
		s := byKey[name]
		if s == nil {
			status["heap."+name] = "missing from the source"
			fmt.Fprintf(&sb, "-- %s: missing from the source\n\n", name)
			continue
		}
		r := translateHeapFunc(s)
		status["heap."+name] = r.status
	}
	sb.WriteString("end GoguVerif.Gen.Heap\n")
	return sb.String(), status
}
