package main

// Go -> Lean translation of the call-count wrappers of func.go: After, Before, Once, RType.Retry, RType.RetryWithDelay,
// and of cache.Item.Val (which frag_cache.go leaves out) -> Gen/FuncWrap.lean (namespace GoguVerif.Gen.FuncWrap).
// `Theorems/GenTieFunc.lean` proves each regenerated wrapper equal to the step of the hand-written models
// `Model/Funcs.lean` / `Model/FuncsMore.lean`.  Purely syntactic (go/parser, no type checker): the kinds of the
// variables are read off the declarations.
//
// MODELLING DECISIONS (part of the trusted base).
//
// THE CALLER-OWNED COUNTER.  A parameter `n *V` with V a type parameter is an unbounded `Int` VALUE threaded in and out
// (no wrap-around, no aliasing, non-nil): `*n` reads it, `*n--` / `*n++` / `*n = e` rebind it, and the function returns
// the new value after its Go results.
// THE USER CALLBACK.  A parameter `fn func(A…) R` is a STATE TRANSFORMER over a world `W` (a type variable of the
// generated definition): `fn : A… → W → R × W` (`W → W` without a result).  The world `w_` is threaded through the
// function in Go's evaluation order (calls inside an argument list are hoisted to `let`s, left to right) and returned
// last.  What the callback does (count its runs, consume a script of outcomes, take time) is in W: the tie theorems
// instantiate it.  The callback does not touch the counter or the cache, and does not panic.
// THE CACHE ARGUMENT.  A parameter `c *cache.Cache[S, T]` is the modelled fields of the REGENERATED cache
// (`Gen/Cache.lean`, imported): `c_items c_expTime c_cleanupInt`; `c.Get(k)`, `c.Set(k, v, d)`, `c.SetDefault(k, v)`,
// `c.Update`, `c.Delete` are calls of the regenerated `Cache_Get`, `Cache_Set`, … (NOT of Model/Cache.lean) with their
// calling convention (results, then the new `c_items`).  The signature table of these five methods is `fwCacheMethods`
// below — it repeats what frag_cache.go derives; if cache.go changes a signature, Gen/FuncWrap.lean stops compiling.
// `memo.Val()` is `Item_Val`, translated here from cache/cache.go (`*Item` = `Option (Item V)`; `if it != nil { … }`
// is a `match`).  An untyped string constant converted to the key type S is `lit_S bytes` (parameter
// `lit_S : List UInt8 → S`, the conversion `S("…")`).  The type switch inside `store` needs `strOf_T` (frag_cache.go).
// THE CLOCK.  In a function that only reaches the clock through the cache (Before, Once) it is the parameter
// `clock_ : Int`, ONE instant per call (the callback takes no time; same simplification as Gen/Cache.lean and the
// hand-written model).  A function that itself calls `time.Now` / `time.Since` / `time.After` (RetryWithDelay) has the
// clock inside the world: parameters `now_ : W → Int` (read the clock) and `after_ : Int → W → W` (`<-time.After(d)` /
// `time.Sleep(d)`: block, i.e. advance the world); `time.Now()` is `now_ w_`, `time.Since(t)` is `now_ w_ - t`; the
// callback advances the clock by transforming the world.
// TYPES.  Go integer types, `time.Duration`, `time.Time` -> `Int`; `error` -> `Bool` (non-nil; `fmt.Errorf(…)` = true,
// arguments not evaluated); `*cache.Item[T]` -> `Option (Item T)`; a value receiver `v RType[T]` -> its fields `v_Input`.
// STATEMENTS.  `var`, `:=`, `=`, `++/--`, expression statements (callback, cache method, `<-time.After`), `return`,
// `if` (init, else), `for cond { … }`.  An `if` is translated with the statements that follow it repeated in both
// branches.  A `for cond` loop is an auxiliary definition on `fuel : Nat` over ALL variables in scope, whose result is
// the result of the enclosing function: `0 => none` (fuel ran out), `fuel+1 =>` if cond then one iteration and the
// next on `fuel`, else the statements after the loop; `return` inside the body just returns.  A function with a loop
// takes `fuel` first and returns `Option ρ`.  `break`/`continue` are outside the fragment.
// Anything else: the function is omitted with a comment (and reported in facts.json); its tie theorem fails to build.

import (
	"fmt"
	"go/ast"
	"go/parser"
	"go/token"
	"path/filepath"
	"strconv"
	"strings"
)

var fwFunctions = []string{"Item_Val", "After", "Before", "Once", "RType_Retry", "RType_RetryWithDelay"}

type fwCacheM struct {
	strOf, clock, writes bool
	nres                 int // Go results
}

var fwCacheMethods = map[string]fwCacheM{
	"Get":        {false, true, false, 2},
	"Set":        {true, true, true, 1},
	"SetDefault": {true, true, true, 1},
	"Update":     {true, true, true, 1},
	"Delete":     {false, false, true, 1},
}

type fwVar struct {
	name, typ, kind string // kind: int, err, opt, val, fn, other
}

type fwCtx struct {
	name      string
	vars      []fwVar // parameters and locals in scope, declaration order (loop state)
	kinds     map[string]string
	ptrs      map[string]bool // counter parameters
	cache     string          // name of the cache parameter
	cacheK    string
	cacheV    string
	fnRes     map[string]string // callback -> result Lean type ("" = none)
	recv      string
	results   []string // Lean types of the Go results
	written   []string // extra results: counters, c_items, w_
	hasLoop   bool
	hasWorld  bool
	ownClock  bool
	usesClock bool
	usesStrOf bool
	deref     map[string]string
	tmp       int
	loops     []string
	nloops    int
	implicits string
	oracleNms []string
	err       string
}

func (c *fwCtx) fail(format string, a ...any) string {
	if c.err == "" {
		c.err = fmt.Sprintf(format, a...)
	}
	return "sorry_"
}

func fwType(c *fwCtx, e ast.Expr) (string, string) {
	switch t := e.(type) {
	case *ast.Ident:
		switch t.Name {
		case "int", "int64", "int32", "int16", "int8", "uint", "uint64", "uint32":
			return "Int", "int"
		case "error":
			return "Bool", "err"
		case "bool":
			return "Bool", "other"
		}
		return t.Name, "val"
	case *ast.SelectorExpr:
		if x, ok := t.X.(*ast.Ident); ok && x.Name == "time" && (t.Sel.Name == "Duration" || t.Sel.Name == "Time") {
			return "Int", "int"
		}
	case *ast.StarExpr:
		if ix, ok := t.X.(*ast.IndexExpr); ok {
			if s, ok := ix.X.(*ast.SelectorExpr); ok && s.Sel.Name == "Item" {
				a, _ := fwType(c, ix.Index)
				return "(Option (Item " + a + "))", "opt"
			}
			if s, ok := ix.X.(*ast.Ident); ok && s.Name == "Item" {
				a, _ := fwType(c, ix.Index)
				return "(Option (Item " + a + "))", "opt"
			}
		}
	}
	return c.fail("type outside the fragment"), "other"
}

func (c *fwCtx) addVar(name, typ, kind string) {
	if name == "_" {
		return
	}
	for _, v := range c.vars {
		if v.name == name {
			return
		}
	}
	c.vars = append(c.vars, fwVar{name, typ, kind})
	c.kinds[name] = kind
}

func (c *fwCtx) fresh() string { c.tmp++; return "a" + strconv.Itoa(c.tmp) + "_" }

func fwBytes(s string) string {
	var p []string
	for _, b := range []byte(s) {
		p = append(p, strconv.Itoa(int(b)))
	}
	return "[" + strings.Join(p, ", ") + "]"
}

func (c *fwCtx) cacheArgs(m fwCacheM) string {
	var p []string
	if m.strOf {
		p = append(p, "strOf_"+c.cacheV)
		c.usesStrOf = true
	}
	if m.clock {
		p = append(p, c.clock())
	}
	p = append(p, c.cache+"_items", c.cache+"_expTime", c.cache+"_cleanupInt")
	return strings.Join(p, " ")
}

func (c *fwCtx) clock() string {
	c.usesClock = true
	if c.ownClock {
		return "(now_ w_)"
	}
	return "clock_"
}

// call: a callback or cache-method call; returns prefix lets and the names bound to its Go results
func (c *fwCtx) call(e *ast.CallExpr, pre *[]string) ([]string, bool) {
	if id, ok := e.Fun.(*ast.Ident); ok {
		if res, isFn := c.fnRes[id.Name]; isFn {
			var args []string
			for _, a := range e.Args {
				args = append(args, c.expr(a, pre, ""))
			}
			args = append(args, "w_")
			if res == "" {
				*pre = append(*pre, fmt.Sprintf("let w_ := (%s %s);", id.Name, strings.Join(args, " ")))
				return nil, true
			}
			t := c.fresh()
			*pre = append(*pre, fmt.Sprintf("let (%s, w_) := (%s %s);", t, id.Name, strings.Join(args, " ")))
			return []string{t}, true
		}
	}
	if s, ok := e.Fun.(*ast.SelectorExpr); ok {
		if x, ok := s.X.(*ast.Ident); ok && c.cache != "" && x.Name == c.cache {
			m, ok := fwCacheMethods[s.Sel.Name]
			if !ok {
				c.fail("cache method %s outside the fragment", s.Sel.Name)
				return nil, true
			}
			var args []string
			for _, a := range e.Args {
				args = append(args, c.expr(a, pre, ""))
			}
			var rs []string
			for i := 0; i < m.nres; i++ {
				rs = append(rs, c.fresh())
			}
			bind := append([]string{}, rs...)
			if m.writes {
				bind = append(bind, c.cache+"_items")
			}
			pat := "(" + strings.Join(bind, ", ") + ")"
			if len(bind) == 1 {
				pat = bind[0]
			}
			*pre = append(*pre, fmt.Sprintf("let %s := (Cache_%s %s %s);", pat, s.Sel.Name, c.cacheArgs(m), strings.Join(args, " ")))
			return rs, true
		}
	}
	return nil, false
}

// expr: want = "err"/"opt" for the expected kind of a nil
func (c *fwCtx) expr(e ast.Expr, pre *[]string, want string) string {
	switch x := e.(type) {
	case *ast.ParenExpr:
		return c.expr(x.X, pre, want)
	case *ast.BasicLit:
		if x.Kind == token.INT {
			return "(" + x.Value + " : Int)"
		}
		if x.Kind == token.STRING && c.cacheK != "" {
			s, _ := strconv.Unquote(x.Value)
			return "(lit_" + c.cacheK + " " + fwBytes(s) + ")"
		}
	case *ast.Ident:
		if x.Name == "nil" {
			switch want {
			case "err":
				return "false"
			case "opt":
				return "none"
			}
			return c.fail("nil of unknown type")
		}
		if d, ok := c.deref[x.Name]; ok {
			return d
		}
		if _, ok := c.kinds[x.Name]; ok && !c.ptrs[x.Name] {
			return x.Name
		}
		return c.fail("identifier %s outside the fragment", x.Name)
	case *ast.StarExpr:
		if id, ok := x.X.(*ast.Ident); ok && c.ptrs[id.Name] {
			return id.Name
		}
	case *ast.SelectorExpr:
		if id, ok := x.X.(*ast.Ident); ok {
			if id.Name == "cache" && (x.Sel.Name == "DefaultExpiration" || x.Sel.Name == "NoExpiration") {
				return x.Sel.Name
			}
			if id.Name == c.recv && c.recv != "" {
				return c.recv + "_" + x.Sel.Name
			}
			if d, ok := c.deref[id.Name]; ok {
				return "(" + d + "." + x.Sel.Name + ")"
			}
		}
	case *ast.BinaryExpr:
		op := x.Op.String()
		switch x.Op {
		case token.LSS, token.GTR, token.LEQ, token.GEQ, token.EQL, token.NEQ:
			lean := map[string]string{"<": "<", ">": ">", "<=": "≤", ">=": "≥", "==": "=", "!=": "≠"}[op]
			if id, ok := x.Y.(*ast.Ident); ok && id.Name == "nil" {
				l, isId := x.X.(*ast.Ident)
				if !isId {
					return c.fail("nil comparison outside the fragment")
				}
				switch c.kinds[l.Name] {
				case "err":
					if x.Op == token.EQL {
						return "(!" + l.Name + ")"
					}
					return l.Name
				case "opt":
					if x.Op == token.EQL {
						return "(" + l.Name + ".isNone)"
					}
					return "(" + l.Name + ".isSome)"
				}
				return c.fail("nil comparison outside the fragment")
			}
			return "(decide (" + c.expr(x.X, pre, "") + " " + lean + " " + c.expr(x.Y, pre, "") + "))"
		case token.ADD, token.SUB, token.MUL:
			return "(" + c.expr(x.X, pre, "") + " " + op + " " + c.expr(x.Y, pre, "") + ")"
		case token.LAND, token.LOR:
			var p2 []string
			r := c.expr(x.Y, &p2, "")
			if len(p2) > 0 {
				return c.fail("call under a short-circuit operator")
			}
			return "(" + c.expr(x.X, pre, "") + " " + op + " " + r + ")"
		}
	case *ast.UnaryExpr:
		if x.Op == token.NOT {
			return "(!" + c.expr(x.X, pre, "") + ")"
		}
		if x.Op == token.SUB {
			return "(-" + c.expr(x.X, pre, "") + ")"
		}
	case *ast.CallExpr:
		if s, ok := x.Fun.(*ast.SelectorExpr); ok {
			if id, ok := s.X.(*ast.Ident); ok {
				if id.Name == "fmt" && s.Sel.Name == "Errorf" {
					for _, a := range x.Args[1:] {
						if _, ok := a.(*ast.Ident); !ok {
							return c.fail("fmt.Errorf argument outside the fragment")
						}
					}
					return "true"
				}
				if id.Name == "time" && s.Sel.Name == "Now" && len(x.Args) == 0 && c.ownClock {
					return c.clock()
				}
				if id.Name == "time" && s.Sel.Name == "Since" && len(x.Args) == 1 && c.ownClock {
					a := c.expr(x.Args[0], pre, "")
					return "(" + c.clock() + " - " + a + ")"
				}
				if s.Sel.Name == "Val" && len(x.Args) == 0 && c.kinds[id.Name] == "opt" {
					return "(Item_Val " + id.Name + ")"
				}
			}
		}
		if rs, ok := c.call(x, pre); ok {
			if len(rs) != 1 {
				return c.fail("call with %d results used as a value", len(rs))
			}
			return rs[0]
		}
	}
	return c.fail("expression outside the fragment")
}

func (c *fwCtx) ret(vals []string) string {
	all := append(append([]string{}, vals...), c.written...)
	s := "()"
	if len(all) == 1 {
		s = all[0]
	} else if len(all) > 1 {
		s = "(" + strings.Join(all, ", ") + ")"
	}
	if c.hasLoop {
		return "(some " + s + ")"
	}
	return s
}

func (c *fwCtx) resultType() string {
	all := append([]string{}, c.results...)
	for _, w := range c.written {
		for _, v := range c.vars {
			if v.name == w {
				all = append(all, v.typ)
			}
		}
	}
	s := "Unit"
	if len(all) == 1 {
		s = all[0]
	} else if len(all) > 1 {
		s = "(" + strings.Join(all, " × ") + ")"
	}
	if c.hasLoop {
		return "(Option " + s + ")"
	}
	return s
}

func fwJoin(pre []string, body string) string {
	if len(pre) == 0 {
		return body
	}
	return strings.Join(pre, "\n") + "\n" + body
}

func fwIndent(s string) string { return "  " + strings.ReplaceAll(s, "\n", "\n  ") }

func (c *fwCtx) assign(lhs ast.Expr, val string, define bool, typ, kind string, pre *[]string) {
	switch l := lhs.(type) {
	case *ast.Ident:
		if l.Name == "_" {
			return
		}
		if define {
			if _, ok := c.kinds[l.Name]; ok {
				c.fail("variable %s declared twice", l.Name)
			}
			c.addVar(l.Name, typ, kind)
		} else if _, ok := c.kinds[l.Name]; !ok || c.ptrs[l.Name] || c.kinds[l.Name] == "fn" {
			c.fail("assignment to %s outside the fragment", l.Name)
		}
		*pre = append(*pre, fmt.Sprintf("let %s := %s;", l.Name, val))
		return
	case *ast.StarExpr:
		if id, ok := l.X.(*ast.Ident); ok && c.ptrs[id.Name] {
			*pre = append(*pre, fmt.Sprintf("let %s := %s;", id.Name, val))
			return
		}
	}
	c.fail("assignment target outside the fragment")
}

// kind/type of the value of a right-hand side (for `:=`)
func (c *fwCtx) rhsKind(e ast.Expr, i int) (string, string) {
	if call, ok := e.(*ast.CallExpr); ok {
		if id, ok := call.Fun.(*ast.Ident); ok {
			if r, ok := c.fnRes[id.Name]; ok {
				if r == "Bool" {
					return "Bool", "err"
				}
				return r, "val"
			}
		}
		if s, ok := call.Fun.(*ast.SelectorExpr); ok {
			if id, ok := s.X.(*ast.Ident); ok {
				if id.Name == c.cache && c.cache != "" {
					if s.Sel.Name == "Get" && i == 0 {
						return "(Option (Item " + c.cacheV + "))", "opt"
					}
					return "Bool", "err"
				}
				if id.Name == "time" {
					return "Int", "int"
				}
			}
		}
	}
	return "Int", "int"
}

func (c *fwCtx) stmts(list []ast.Stmt, k func() string) string {
	if len(list) == 0 {
		return k()
	}
	rest := func() string { return c.stmts(list[1:], k) }
	var pre []string
	switch s := list[0].(type) {
	case *ast.DeclStmt:
		gd, ok := s.Decl.(*ast.GenDecl)
		if !ok || gd.Tok != token.VAR {
			return c.fail("declaration outside the fragment")
		}
		for _, sp := range gd.Specs {
			vs := sp.(*ast.ValueSpec)
			if vs.Type == nil || len(vs.Values) != 0 {
				return c.fail("var with initialiser outside the fragment")
			}
			t, kind := fwType(c, vs.Type)
			zero := map[string]string{"int": "(0 : Int)", "err": "false", "opt": "none", "val": "default", "other": "false"}[kind]
			for _, n := range vs.Names {
				c.addVar(n.Name, t, kind)
				pre = append(pre, fmt.Sprintf("let %s : %s := %s;", n.Name, t, zero))
			}
		}
		return fwJoin(pre, rest())
	case *ast.AssignStmt:
		define := s.Tok == token.DEFINE
		if s.Tok != token.DEFINE && s.Tok != token.ASSIGN {
			return c.fail("assignment operator outside the fragment")
		}
		if len(s.Rhs) == 1 && len(s.Lhs) > 1 {
			call, ok := s.Rhs[0].(*ast.CallExpr)
			if !ok {
				return c.fail("multi-assignment outside the fragment")
			}
			rs, ok := c.call(call, &pre)
			if !ok || len(rs) != len(s.Lhs) {
				return c.fail("multi-assignment outside the fragment")
			}
			for i, l := range s.Lhs {
				t, kind := c.rhsKind(call, i)
				c.assign(l, rs[i], define, t, kind, &pre)
			}
			return fwJoin(pre, rest())
		}
		if len(s.Rhs) != 1 || len(s.Lhs) != 1 {
			return c.fail("parallel assignment outside the fragment")
		}
		want := ""
		if id, ok := s.Lhs[0].(*ast.Ident); ok {
			want = c.kinds[id.Name]
		}
		v := c.expr(s.Rhs[0], &pre, want)
		t, kind := c.rhsKind(s.Rhs[0], 0)
		c.assign(s.Lhs[0], v, define, t, kind, &pre)
		return fwJoin(pre, rest())
	case *ast.IncDecStmt:
		op := "+"
		if s.Tok == token.DEC {
			op = "-"
		}
		v := c.expr(s.X, &pre, "")
		c.assign(s.X, "("+v+" "+op+" (1 : Int))", false, "", "", &pre)
		return fwJoin(pre, rest())
	case *ast.ExprStmt:
		if u, ok := s.X.(*ast.UnaryExpr); ok && u.Op == token.ARROW {
			if call, ok := u.X.(*ast.CallExpr); ok && c.ownClock {
				if sel, ok := call.Fun.(*ast.SelectorExpr); ok && len(call.Args) == 1 {
					if id, ok := sel.X.(*ast.Ident); ok && id.Name == "time" && sel.Sel.Name == "After" {
						d := c.expr(call.Args[0], &pre, "")
						pre = append(pre, fmt.Sprintf("let w_ := (after_ %s w_);", d))
						return fwJoin(pre, rest())
					}
				}
			}
			return c.fail("receive outside the fragment")
		}
		call, ok := s.X.(*ast.CallExpr)
		if !ok {
			return c.fail("expression statement outside the fragment")
		}
		if sel, ok := call.Fun.(*ast.SelectorExpr); ok && c.ownClock && len(call.Args) == 1 {
			if id, ok := sel.X.(*ast.Ident); ok && id.Name == "time" && sel.Sel.Name == "Sleep" {
				d := c.expr(call.Args[0], &pre, "")
				pre = append(pre, fmt.Sprintf("let w_ := (after_ %s w_);", d))
				return fwJoin(pre, rest())
			}
		}
		if _, ok := c.call(call, &pre); !ok {
			return c.fail("call outside the fragment")
		}
		return fwJoin(pre, rest())
	case *ast.ReturnStmt:
		if len(s.Results) != len(c.results) {
			return c.fail("return with %d operands", len(s.Results))
		}
		var vals []string
		for i, r := range s.Results {
			want := ""
			if c.results[i] == "Bool" {
				want = "err"
			} else if strings.HasPrefix(c.results[i], "(Option") {
				want = "opt"
			}
			v := c.expr(r, &pre, want)
			vals = append(vals, v)
		}
		return fwJoin(pre, c.ret(vals))
	case *ast.IfStmt:
		saved := len(c.vars)
		if s.Init != nil {
			// the init statement, then the if without it
			s2 := *s
			s2.Init = nil
			return c.stmts([]ast.Stmt{s.Init, &s2}, func() string { return c.stmts(list[1:], k) })
		}
		_ = saved
		// `x != nil` on an optional pointer: a match that binds the pointee
		if be, ok := s.Cond.(*ast.BinaryExpr); ok && be.Op == token.NEQ {
			if id, ok := be.X.(*ast.Ident); ok && c.kinds[id.Name] == "opt" {
				if y, ok := be.Y.(*ast.Ident); ok && y.Name == "nil" {
					d := id.Name + "_v_"
					c.deref[id.Name+"."] = d
					c.deref2(id.Name, d)
					thenS := c.block(s.Body.List, rest)
					c.undoDeref(id.Name)
					elseS := c.elseBranch(s.Else, rest)
					return fmt.Sprintf("(match %s with\n| some %s =>\n%s\n| none =>\n%s)", id.Name, d, fwIndent(thenS), fwIndent(elseS))
				}
			}
		}
		cond := c.expr(s.Cond, &pre, "")
		thenS := c.block(s.Body.List, rest)
		elseS := c.elseBranch(s.Else, rest)
		return fwJoin(pre, fmt.Sprintf("(if %s then (\n%s)\nelse (\n%s))", cond, fwIndent(thenS), fwIndent(elseS)))
	case *ast.ForStmt:
		if s.Init != nil || s.Post != nil || s.Cond == nil {
			return c.fail("for loop shape outside the fragment")
		}
		if !c.hasLoop {
			return c.fail("internal: loop not announced")
		}
		c.nloops++
		lname := fmt.Sprintf("%s_loop%d", c.name, c.nloops)
		state := append([]fwVar{}, c.vars...)
		var bind, args []string
		for _, v := range state {
			bind = append(bind, fmt.Sprintf("(%s : %s)", v.name, v.typ))
			args = append(args, v.name)
		}
		recCall := fmt.Sprintf("(%s fuel %s)", strings.Join(append([]string{lname}, c.oracleNms...), " "), strings.Join(args, " "))
		var cpre []string
		cond := c.expr(s.Cond, &cpre, "")
		if len(cpre) > 0 {
			return c.fail("call in a loop condition")
		}
		body := c.block(s.Body.List, func() string { return recCall })
		after := c.block(nil, rest)
		c.loops = append(c.loops, fmt.Sprintf("/-- the `for` loop %d of %s: all variables in scope; the result is the enclosing function's -/\ndef %s %s (fuel : Nat) %s : %s :=\n  match fuel with\n  | 0 => none\n  | fuel + 1 =>\n    (if %s then (\n%s)\n    else (\n%s))\n",
			c.nloops, c.name, lname, c.implicits, strings.Join(bind, " "), c.resultType(), cond, fwIndent(fwIndent(fwIndent(body))), fwIndent(fwIndent(fwIndent(after)))))
		return recCall
	}
	return c.fail("statement outside the fragment")
}

func (c *fwCtx) deref2(name, d string) { c.deref[name] = d }
func (c *fwCtx) undoDeref(name string) { delete(c.deref, name); delete(c.deref, name+".") }

// block: a nested statement list; variables declared inside go out of scope afterwards
func (c *fwCtx) block(list []ast.Stmt, k func() string) string {
	n := len(c.vars)
	saved := map[string]string{}
	for key, v := range c.kinds {
		saved[key] = v
	}
	out := c.stmts(list, func() string {
		// the continuation runs in the OUTER scope
		inner, innerK := c.vars, c.kinds
		c.vars, c.kinds = append([]fwVar{}, c.vars[:n]...), saved
		r := k()
		c.vars, c.kinds = inner, innerK
		return r
	})
	c.vars = c.vars[:n]
	c.kinds = saved
	return out
}

func (c *fwCtx) elseBranch(e ast.Stmt, k func() string) string {
	switch b := e.(type) {
	case nil:
		return c.block(nil, k)
	case *ast.BlockStmt:
		return c.block(b.List, k)
	case *ast.IfStmt:
		return c.block([]ast.Stmt{b}, k)
	}
	return c.fail("else outside the fragment")
}

func fwHasLoop(b *ast.BlockStmt) (loop, ownClock, writesCache bool) {
	ast.Inspect(b, func(n ast.Node) bool {
		switch x := n.(type) {
		case *ast.ForStmt, *ast.RangeStmt:
			loop = true
		case *ast.SelectorExpr:
			if id, ok := x.X.(*ast.Ident); ok && id.Name == "time" && (x.Sel.Name == "Now" || x.Sel.Name == "Since" || x.Sel.Name == "After" || x.Sel.Name == "Sleep") {
				ownClock = true
			}
		}
		return true
	})
	return
}

func fwTranslate(fd *ast.FuncDecl, key string) (string, string) {
	c := &fwCtx{name: key, kinds: map[string]string{}, ptrs: map[string]bool{}, fnRes: map[string]string{}, deref: map[string]string{}}
	if fd.Body == nil {
		return "", "no body"
	}
	c.hasLoop, c.ownClock, _ = fwHasLoop(fd.Body)
	// type parameters
	type tp struct {
		name string
		eq   bool
	}
	var tps []tp
	addTP := func(fl *ast.FieldList) {
		if fl == nil {
			return
		}
		for _, f := range fl.List {
			eq := false
			switch t := f.Type.(type) {
			case *ast.UnaryExpr:
				eq = t.Op == token.TILDE
			case *ast.Ident:
				eq = t.Name == "comparable"
			}
			for _, n := range f.Names {
				tps = append(tps, tp{n.Name, eq})
			}
		}
	}
	addTP(fd.Type.TypeParams)
	var binders []string
	if fd.Recv != nil && len(fd.Recv.List) == 1 && len(fd.Recv.List[0].Names) == 1 {
		r := fd.Recv.List[0]
		rname := r.Names[0].Name
		switch t := r.Type.(type) {
		case *ast.StarExpr: // *Item[V]
			typ, kind := fwType(c, t)
			if ix, ok := t.X.(*ast.IndexExpr); ok {
				if id, ok := ix.Index.(*ast.Ident); ok {
					tps = append(tps, tp{id.Name, false})
				}
			}
			c.addVar(rname, typ, kind)
			binders = append(binders, fmt.Sprintf("(%s : %s)", rname, typ))
		case *ast.IndexExpr: // RType[T]: the field Input T
			id, ok := t.Index.(*ast.Ident)
			rt, ok2 := t.X.(*ast.Ident)
			if !ok || !ok2 || rt.Name != "RType" {
				return "", "receiver outside the fragment"
			}
			tps = append(tps, tp{id.Name, false})
			c.recv = rname
			c.addVar(rname+"_Input", id.Name, "val")
			binders = append(binders, fmt.Sprintf("(%s_Input : %s)", rname, id.Name))
		default:
			return "", "receiver outside the fragment"
		}
	}
	used := map[string]bool{}
	for _, f := range fd.Type.Params.List {
		for _, n := range f.Names {
			switch t := f.Type.(type) {
			case *ast.StarExpr:
				if id, ok := t.X.(*ast.Ident); ok { // counter
					isTP := false
					for _, p := range tps {
						isTP = isTP || p.name == id.Name
					}
					if !isTP {
						return "", "pointer parameter outside the fragment"
					}
					c.ptrs[n.Name] = true
					c.addVar(n.Name, "Int", "int")
					c.written = append(c.written, n.Name)
					binders = append(binders, fmt.Sprintf("(%s : Int)", n.Name))
					continue
				}
				ix, ok := t.X.(*ast.IndexListExpr)
				if !ok {
					return "", "pointer parameter outside the fragment"
				}
				sel, ok := ix.X.(*ast.SelectorExpr)
				if !ok || sel.Sel.Name != "Cache" || len(ix.Indices) != 2 || c.cache != "" {
					return "", "pointer parameter outside the fragment"
				}
				c.cache = n.Name
				c.cacheK = ix.Indices[0].(*ast.Ident).Name
				c.cacheV = ix.Indices[1].(*ast.Ident).Name
				used[c.cacheK], used[c.cacheV] = true, true
				it := fmt.Sprintf("(List (%s × (Item %s)))", c.cacheK, c.cacheV)
				c.addVar(n.Name+"_items", it, "other")
				c.addVar(n.Name+"_expTime", "Int", "int")
				c.addVar(n.Name+"_cleanupInt", "Int", "int")
				binders = append(binders, fmt.Sprintf("(%s_items : %s) (%s_expTime : Int) (%s_cleanupInt : Int)", n.Name, it, n.Name, n.Name))
			case *ast.FuncType:
				var parts []string
				for _, a := range t.Params.List {
					at, _ := fwType(c, a.Type)
					k := len(a.Names)
					if k == 0 {
						k = 1
					}
					for i := 0; i < k; i++ {
						parts = append(parts, at)
					}
				}
				res := ""
				if t.Results != nil && len(t.Results.List) == 1 {
					res, _ = fwType(c, t.Results.List[0].Type)
				} else if t.Results != nil && len(t.Results.List) > 1 {
					return "", "callback with several results"
				}
				parts = append(parts, "W")
				rt := "W"
				if res != "" {
					rt = "(" + res + " × W)"
				}
				typ := "(" + strings.Join(parts, " → ") + " → " + rt + ")"
				c.fnRes[n.Name] = res
				c.hasWorld = true
				c.addVar(n.Name, typ, "fn")
				binders = append(binders, fmt.Sprintf("(%s : %s)", n.Name, typ))
			default:
				typ, kind := fwType(c, f.Type)
				c.addVar(n.Name, typ, kind)
				binders = append(binders, fmt.Sprintf("(%s : %s)", n.Name, typ))
			}
		}
	}
	if fd.Type.Results != nil {
		for _, f := range fd.Type.Results.List {
			typ, _ := fwType(c, f.Type)
			k := len(f.Names)
			if k == 0 {
				k = 1
			}
			for i := 0; i < k; i++ {
				c.results = append(c.results, typ)
			}
		}
	}
	if c.ownClock && !c.hasWorld {
		return "", "clock without a world"
	}
	// does the body write the cache?
	if c.cache != "" {
		w := false
		ast.Inspect(fd.Body, func(n ast.Node) bool {
			if s, ok := n.(*ast.SelectorExpr); ok {
				if id, ok := s.X.(*ast.Ident); ok && id.Name == c.cache && fwCacheMethods[s.Sel.Name].writes {
					w = true
				}
			}
			return true
		})
		if w {
			c.written = append(c.written, c.cache+"_items")
		}
	}
	if c.hasWorld {
		c.addVar("w_", "W", "other")
		c.written = append(c.written, "w_")
		binders = append(binders, "(w_ : W)")
	}
	// implicits: every type parameter that is not only a counter type
	var imp []string
	for _, p := range tps {
		onlyCounter := true
		ast.Inspect(fd.Type.Params, func(n ast.Node) bool {
			if st, ok := n.(*ast.StarExpr); ok {
				if id, ok := st.X.(*ast.Ident); ok && id.Name == p.name {
					return false
				}
			}
			if id, ok := n.(*ast.Ident); ok && id.Name == p.name {
				onlyCounter = false
			}
			return true
		})
		if fd.Recv != nil {
			onlyCounter = false
		}
		if onlyCounter {
			continue
		}
		imp = append(imp, fmt.Sprintf("{%s : Type}", p.name))
		if p.eq || p.name == c.cacheK {
			imp = append(imp, fmt.Sprintf("[DecidableEq %s]", p.name))
		}
		imp = append(imp, fmt.Sprintf("[Inhabited %s]", p.name))
	}
	if c.hasWorld {
		imp = append(imp, "{W : Type}")
	}
	// oracle parameters are fixed before the body is translated (they are loop state too)
	var oracles []string
	if c.cache != "" {
		needStr := false
		needLit := false
		ast.Inspect(fd.Body, func(n ast.Node) bool {
			if s, ok := n.(*ast.SelectorExpr); ok {
				if id, ok := s.X.(*ast.Ident); ok && id.Name == c.cache && fwCacheMethods[s.Sel.Name].strOf {
					needStr = true
				}
			}
			if b, ok := n.(*ast.BasicLit); ok && b.Kind == token.STRING {
				needLit = true
			}
			return true
		})
		if needStr {
			oracles = append(oracles, fmt.Sprintf("(strOf_%s : %s → Option (List UInt8))", c.cacheV, c.cacheV))
		}
		if needLit {
			oracles = append(oracles, fmt.Sprintf("(lit_%s : List UInt8 → %s)", c.cacheK, c.cacheK))
		}
		oracles = append(oracles, "(clock_ : Int)")
	}
	if c.ownClock {
		oracles = append(oracles, "(now_ : W → Int)", "(after_ : Int → W → W)")
	}
	for _, o := range oracles {
		c.oracleNms = append(c.oracleNms, strings.TrimPrefix(strings.SplitN(o, " ", 2)[0], "("))
	}
	c.implicits = strings.Join(append(imp, oracles...), " ")
	body := c.stmts(fd.Body.List, func() string {
		if len(c.results) != 0 {
			return c.fail("missing return")
		}
		return c.ret(nil)
	})
	if c.err != "" {
		return "", c.err
	}
	var sb strings.Builder
	for _, l := range c.loops {
		sb.WriteString(l + "\n")
	}
	fuel := ""
	if c.hasLoop {
		fuel = "(fuel : Nat) "
	}
	var ps []string
	for _, f := range fd.Type.Params.List {
		for _, n := range f.Names {
			ps = append(ps, n.Name)
		}
	}
	fmt.Fprintf(&sb, "/-- `func %s(%s)` -/\ndef %s %s %s%s : %s :=\n%s\n", strings.ReplaceAll(key, "_", "."), strings.Join(ps, ", "), key, c.implicits, fuel, strings.Join(binders, " "), c.resultType(), fwIndent(body))
	return sb.String(), "ok"
}

func translateFuncWrap(dir string) (string, map[string]string) {
	status := map[string]string{}
	decls := map[string]*ast.FuncDecl{}
	fset := token.NewFileSet()
	for _, p := range []string{"func.go", filepath.Join("cache", "cache.go")} {
		f, err := parser.ParseFile(fset, filepath.Join(dir, p), nil, 0)
		if err != nil {
			continue
		}
		for _, d := range f.Decls {
			fd, ok := d.(*ast.FuncDecl)
			if !ok {
				continue
			}
			key := fd.Name.Name
			if fd.Recv != nil && len(fd.Recv.List) == 1 {
				t := fd.Recv.List[0].Type
				if st, ok := t.(*ast.StarExpr); ok {
					t = st.X
				}
				if ix, ok := t.(*ast.IndexExpr); ok {
					t = ix.X
				}
				if ix, ok := t.(*ast.IndexListExpr); ok {
					t = ix.X
				}
				if id, ok := t.(*ast.Ident); ok {
					key = id.Name + "_" + key
				}
			}
			decls[key] = fd
		}
	}
	var sb strings.Builder
	sb.WriteString("import GoguVerif.Gen.Cache\n")
	sb.WriteString("/-! GENERATED by /verif/translator (frag_func.go) from /repo's current source — do not edit.\n\n")
	sb.WriteString("Mechanical Go → Lean translation of the call-count wrappers of func.go and of cache.Item.Val (see\n")
	sb.WriteString("translator/frag_func.go for the fragment and its assumed semantics).  Decisions: the caller-owned counter `*n` is an\n")
	sb.WriteString("`Int` threaded in and out; a callback `fn` is a state transformer over a world `W` (`fn : A… → W → R × W`), the world\n")
	sb.WriteString("`w_` is threaded in Go's evaluation order and returned last; the `*cache.Cache` argument is the fields of the\n")
	sb.WriteString("REGENERATED cache and its methods are the definitions of Gen/Cache.lean; `S(\"…\")` is `lit_S bytes`; Before/Once read\n")
	sb.WriteString("the clock through the cache only: parameter `clock_`, one instant per call; RetryWithDelay has the clock in the world\n")
	sb.WriteString("(`now_ w_`; `<-time.After(d)` = `after_ d w_`); a `for cond` loop runs on `fuel` (`none` = fuel ran out) and its\n")
	sb.WriteString("result is the enclosing function's.  A function returns its Go results, then the counters, then `c_items` if it\n")
	sb.WriteString("writes the cache, then the world.  `Theorems/GenTieFunc.lean` ties each definition to Model/Funcs.lean / FuncsMore.lean. -/\n")
	sb.WriteString("set_option linter.unusedVariables false\nnamespace GoguVerif.Gen.FuncWrap\nopen GoguVerif.Gen.Cache\n\n")
	for _, name := range fwFunctions {
		fd := decls[name]
		if fd == nil {
			status["funcwrap."+name] = "missing from the source"
			fmt.Fprintf(&sb, "-- %s: missing from the source\n\n", name)
			continue
		}
		src, st := fwTranslate(fd, name)
		status["funcwrap."+name] = st
		if st != "ok" {
			fmt.Fprintf(&sb, "-- %s: outside the translated fragment (%s)\n\n", name, st)
			continue
		}
		sb.WriteString(src + "\n")
	}
	sb.WriteString("end GoguVerif.Gen.FuncWrap\n")
	return sb.String(), status
}
