package main

// Go -> Lean translation of the pure helpers that frag.go cannot express (Gen/Funcs2.lean): `Reverse`, `Reject`,
// `Range`, `RangeRight`, `Intersection`, `IntersectionBy` (and what they call: `Abs`, `Contains`).
// `Theorems/GenTieMore2.lean` proves each regenerated definition equal to the hand-written model (C11, C12, C13).
//
// The fragment is the one of frag_heap.go (outcomes ok/panic/hang, fuel for loops that are not structural, slices as
// `Array` values, a slice parameter written through `s[i] = e` handed back after the results), with these additions,
// all implemented in frag_heap.go / this file as general constructs (no per-function case except the one marked ASSUMED):
//   * `return` inside a loop (fuel loop or `range` loop): the loop's result is `Option ρ × S` — `some r` = the function
//     returned r from inside the loop, `none` = the loop ended normally with state S; after the loop the function
//     returns r or goes on.  `continue` = the post statement, then the next iteration.
//   * `switch tag { case a: … case b, c: … default: … }` without init, with a tag free of partial operations, without
//     `break`/`fallthrough`: the chain `if tag == a {…} else { if tag == b || tag == c {…} else {…} }`.
//   * `append(a, b...)` = `a ++ b` (VALUE level: that `append(s[:i], s[i+1:]...)` shifts the elements inside the
//     caller's backing array is C16's business, not modelled here); `f(xs...)` hands the slice on; `nil` / `[]T{}` of
//     slice type = the empty array; `err != nil` on an `error` value = its flag; `T(e)` between identical Lean types = e.
//   * a call that writes a slice argument may appear inside an expression (`return Reverse(ran), nil`): the written
//     variable is rebound where Go evaluates the call.
//   * a parameterless function literal bound once to a local (`has := func() bool { … }`) and called as `has()`: the body is
//     translated in place at the call (it reads the captured variables at the time of the call, as Go's by-reference
//     capture does; a body that assigns a captured variable is outside the fragment).
//   * NUMERIC type parameters (a constraint that admits `int` but neither `string` nor `bool`, e.g. `Number`): the
//     function is translated at the instance `int`, i.e. with `Int` (unbounded; floats and wrap-around are outside).
//   * ASSUMED library semantics: the exact shape `n, _ := N[T](NumToString(e))` with T numeric is `n := e` — formatting an
//     integer with `%v` and parsing it back in base 10 at the same width is the identity (`N`, `NumToString` use
//     `reflect`, `fmt`, `strconv` and are not translated).
//   * a result of type pointer-to-struct of the package built by `return &S{f: e, …}` is the tuple of the modelled
//     (non-`sync`) fields in declaration order (used by heap.FromSlice).

import (
	"fmt"
	"go/ast"
	"go/token"
	"go/types"
	"strings"
)

// hhooks marks the translation of the gogu package's helpers (numeric type parameters at `int`)
type hhooks struct{}

var hHooks *hhooks

func isNumericParam(tp *types.TypeParam) bool {
	iface, ok := tp.Constraint().Underlying().(*types.Interface)
	if !ok {
		return false
	}
	return types.Satisfies(types.Typ[types.Int], iface) && !types.Satisfies(types.Typ[types.String], iface) &&
		!types.Satisfies(types.Typ[types.Bool], iface)
}

// implicits: the implicit binders of a generated definition; a function all of whose type parameters are numeric has none
func (c *hctx) implicits() string {
	if c.hooks == nil {
		return hImplicit
	}
	sig := c.f.obj.Type().(*types.Signature)
	tps := sig.TypeParams()
	if tps == nil || tps.Len() == 0 {
		return hImplicit
	}
	for i := 0; i < tps.Len(); i++ {
		if !isNumericParam(tps.At(i)) {
			return hImplicit
		}
	}
	return ""
}

// structFieldTypes: for a pointer to a struct type of the translated function's package, the Lean types of its
// modelled (non-sync) fields
func (c *hctx) structFieldTypes(t types.Type) ([]string, bool) {
	p, ok := t.(*types.Pointer)
	if !ok {
		return nil, false
	}
	n, ok := p.Elem().(*types.Named)
	if !ok || n.Obj().Pkg() == nil || n.Obj().Pkg() != c.f.obj.Pkg() {
		return nil, false
	}
	st, ok := n.Underlying().(*types.Struct)
	if !ok {
		return nil, false
	}
	var ts []string
	for i := 0; i < st.NumFields(); i++ {
		if isSyncType(st.Field(i).Type()) {
			continue
		}
		ts = append(ts, c.leanType(st.Field(i).Type()))
	}
	return ts, true
}

// newStruct: `&S{f: e, …}` with every modelled field given by name -> the values in declaration order
func (c *hctx) newStruct(e ast.Expr) ([]string, bool) {
	u, ok := e.(*ast.UnaryExpr)
	if !ok || u.Op != token.AND {
		return nil, false
	}
	cl, ok := u.X.(*ast.CompositeLit)
	if !ok {
		return nil, false
	}
	t := c.typeOf(e)
	if _, ok := c.structFieldTypes(t); !ok {
		return nil, false
	}
	st := t.(*types.Pointer).Elem().Underlying().(*types.Struct)
	byName := map[string]ast.Expr{}
	for _, el := range cl.Elts {
		kv, ok := el.(*ast.KeyValueExpr)
		if !ok {
			c.fail("struct literal without field names")
			return nil, true
		}
		byName[kv.Key.(*ast.Ident).Name] = kv.Value
	}
	var vals []string
	for i := 0; i < st.NumFields(); i++ {
		f := st.Field(i)
		if isSyncType(f.Type()) {
			continue
		}
		v, ok := byName[f.Name()]
		if !ok {
			vals = append(vals, c.zero(f.Type()))
			continue
		}
		vals = append(vals, c.expr(v))
	}
	return vals, true
}

// switchAsIf: the if-chain a tag switch stands for (nil + c.err when outside the fragment)
func (c *hctx) switchAsIf(x *ast.SwitchStmt) ast.Stmt {
	if x.Init != nil || x.Tag == nil {
		c.fail("switch form")
		return nil
	}
	if c.hasPartial(x.Tag) {
		c.fail("switch on an expression with partial operations")
		return nil
	}
	bad := false
	ast.Inspect(x.Body, func(n ast.Node) bool {
		switch y := n.(type) {
		case *ast.ForStmt, *ast.RangeStmt, *ast.FuncLit:
			return false
		case *ast.BranchStmt:
			if y.Tok == token.BREAK || y.Tok == token.FALLTHROUGH {
				bad = true
			}
		}
		return true
	})
	if bad {
		c.fail("break/fallthrough inside a switch")
		return nil
	}
	var cases []*ast.CaseClause
	var deflt *ast.CaseClause
	for _, s := range x.Body.List {
		cc := s.(*ast.CaseClause)
		if cc.List == nil {
			deflt = cc
			continue
		}
		cases = append(cases, cc)
	}
	var tail ast.Stmt
	if deflt != nil {
		tail = &ast.BlockStmt{List: deflt.Body}
	}
	for i := len(cases) - 1; i >= 0; i-- {
		cc := cases[i]
		var cond ast.Expr
		for _, e := range cc.List {
			if c.hasPartial(e) {
				c.fail("case expression with partial operations")
				return nil
			}
			eq := &ast.BinaryExpr{X: x.Tag, Op: token.EQL, Y: e}
			if cond == nil {
				cond = eq
			} else {
				cond = &ast.BinaryExpr{X: cond, Op: token.LOR, Y: eq}
			}
		}
		ifs := &ast.IfStmt{Cond: cond, Body: &ast.BlockStmt{List: cc.Body}}
		if tail != nil {
			if b, ok := tail.(*ast.BlockStmt); ok {
				ifs.Else = b
			} else {
				ifs.Else = &ast.BlockStmt{List: []ast.Stmt{tail}}
			}
		}
		tail = ifs
	}
	if tail == nil {
		return &ast.EmptyStmt{}
	}
	return tail
}

// assignHook: nil = no special form; x itself = the statement is consumed; another statement = translate that instead
func (c *hctx) assignHook(x *ast.AssignStmt) *ast.AssignStmt {
	// name := func() T { … }
	if len(x.Lhs) == 1 && len(x.Rhs) == 1 && x.Tok == token.DEFINE {
		if lit, ok := x.Rhs[0].(*ast.FuncLit); ok {
			id, isId := x.Lhs[0].(*ast.Ident)
			if !isId || lit.Type.Params.NumFields() != 0 || lit.Type.Results.NumFields() != 1 {
				c.fail("function literal form")
				return x
			}
			// bound once: no other assignment to the name in the function
			n := 0
			ast.Inspect(c.f.decl.Body, func(m ast.Node) bool {
				if a, ok := m.(*ast.AssignStmt); ok {
					for _, l := range a.Lhs {
						if li, ok := l.(*ast.Ident); ok && li.Name == id.Name {
							n++
						}
					}
				}
				return true
			})
			if n != 1 {
				c.fail("function literal bound more than once")
				return x
			}
			c.closures[id.Name] = lit
			return x
		}
	}
	// ASSUMED: n, _ := N[T](NumToString(e))  is  n := e   (T numeric)
	if c.hooks != nil && len(x.Lhs) == 2 && len(x.Rhs) == 1 {
		if blank, ok := x.Lhs[1].(*ast.Ident); ok && blank.Name == "_" {
			if outer, ok := x.Rhs[0].(*ast.CallExpr); ok && len(outer.Args) == 1 {
				if inner, ok := outer.Args[0].(*ast.CallExpr); ok && len(inner.Args) == 1 {
					g, h := calleeOf(c.f, outer), calleeOf(c.f, inner)
					if g != nil && h != nil && g.Pkg() == c.f.obj.Pkg() && h.Pkg() == c.f.obj.Pkg() &&
						g.Name() == "N" && h.Name() == "NumToString" && c.isInt(inner.Args[0]) && c.isInt(x.Lhs[0]) {
						return &ast.AssignStmt{Lhs: x.Lhs[:1], Tok: x.Tok, TokPos: x.TokPos, Rhs: []ast.Expr{inner.Args[0]}}
					}
				}
			}
		}
	}
	return nil
}

// callClosure: the body of the function literal bound to `name`, translated in place; its value is bound like a
// partial operation
func (c *hctx) callClosure(name string) string {
	lit := c.closures[name]
	if !c.out {
		c.needOut = true
		return c.fail("call of a function literal in a function translated without outcomes")
	}
	if c.closure != nil {
		return c.fail("nested function literals")
	}
	if len(c.assigned(lit.Body.List)) != 0 {
		return c.fail("function literal that assigns a captured variable")
	}
	rt := c.info.TypeOf(lit.Type.Results.List[0].Type)
	lt := c.leanType(rt)
	savedLoop, savedIn, savedPre, savedScope := c.loop, c.inLoop, c.pre, append([]hvar{}, c.scope...)
	c.loop, c.inLoop, c.pre = nil, 0, nil
	c.closure = &hclosure{typ: lt}
	body := c.stmts(lit.Body.List, "sorryUnsupported")
	c.closure = nil
	c.loop, c.inLoop, c.pre, c.scope = savedLoop, savedIn, savedPre, savedScope
	if c.err != "" {
		return "sorryUnsupported"
	}
	return c.partial("(" + body + " : Out " + lt + ")")
}

// moreFunctions lists what is regenerated into Gen/Funcs2.lean, by name
var moreFunctions = []string{"Abs", "Contains", "Reverse", "Reject", "Range", "RangeRight", "Intersection", "IntersectionBy"}

func translateMore() (string, map[string]string) {
	status := map[string]string{}
	var sb strings.Builder
	sb.WriteString("/-! GENERATED by /verif/translator (frag_more.go, on the machinery of frag_heap.go) from /repo's current source — do not edit.\n\n")
	sb.WriteString("Mechanical Go → Lean translation of the helpers outside the fragment of frag.go (see translator/frag_more.go:\n")
	sb.WriteString("outcomes ok/panic/hang, fuel for loops that are not structural, `return` inside a loop as `Option ρ × S`,\n")
	sb.WriteString("numeric type parameters at `int`).  `Theorems/GenTieMore2.lean` proves each definition equal to its model. -/\n")
	sb.WriteString("set_option linter.unusedVariables false\nnamespace GoguVerif.Gen.Funcs2\n\n")
	sb.WriteString("/-- placeholder that makes an unsupported function's tie theorem fail to build -/\nopaque sorryUnsupported {α : Type} [Inhabited α] : α\n\n")
	sb.WriteString(heapPrelude)
	buildHeapSummaries("gogu")
	hDone = map[string]*hinfo{}
	hBusy = map[string]bool{}
	hOut = &sb
	hHooks = &hhooks{}
	defer func() { hHooks = nil }()
	byKey := map[string]*hsum{}
	for _, s := range hSums {
		if s.f.decl.Recv == nil {
			byKey[s.key] = s
		}
	}
	for _, name := range moreFunctions {
		s := byKey[name]
		if s == nil {
			status["gogu2."+name] = "missing from the source"
			fmt.Fprintf(&sb, "-- %s: missing from the source\n\n", name)
			continue
		}
		r := translateHeapFunc(s)
		status["gogu2."+name] = r.status
	}
	sb.WriteString("end GoguVerif.Gen.Funcs2\n")
	return sb.String(), status
}
