package main

import (
	"go/ast"
	"go/token"
	"go/types"
	"sort"
	"strings"
)

func (c *fragCtx) isBuilderIdent(e ast.Expr) (string, bool) {
	id, ok := e.(*ast.Ident)
	if !ok {
		return "", false
	}
	if v, ok := c.f.pkg.TypesInfo.Uses[id].(*types.Var); ok && isBuilder(v.Type()) {
		return id.Name, true
	}
	return "", false
}

// builderWrite recognises `sb.WriteString(e)`.
func (c *fragCtx) builderWrite(s ast.Stmt) (name string, arg ast.Expr, ok bool) {
	es, isE := s.(*ast.ExprStmt)
	if !isE {
		return "", nil, false
	}
	call, isC := es.X.(*ast.CallExpr)
	if !isC || len(call.Args) != 1 {
		return "", nil, false
	}
	sel, isS := call.Fun.(*ast.SelectorExpr)
	if !isS || sel.Sel.Name != "WriteString" {
		return "", nil, false
	}
	n, isB := c.isBuilderIdent(sel.X)
	if !isB {
		return "", nil, false
	}
	return n, call.Args[0], true
}

// effectCall recognises the call statement `fn(args)` of a callback parameter without result.
func (c *fragCtx) effectCall(s ast.Stmt) (string, []ast.Expr, bool) {
	es, ok := s.(*ast.ExprStmt)
	if !ok || !c.effect {
		return "", nil, false
	}
	call, ok := es.X.(*ast.CallExpr)
	if !ok {
		return "", nil, false
	}
	id, ok := call.Fun.(*ast.Ident)
	if !ok {
		return "", nil, false
	}
	v, ok := c.f.pkg.TypesInfo.Uses[id].(*types.Var)
	if !ok {
		return "", nil, false
	}
	sig, ok := v.Type().Underlying().(*types.Signature)
	if !ok || sig.Results().Len() != 0 {
		return "", nil, false
	}
	return id.Name, call.Args, true
}

// deleteCall recognises the statement `delete(m, k)` on a map variable m.
func (c *fragCtx) deleteCall(s ast.Stmt) (string, ast.Expr, bool) {
	es, ok := s.(*ast.ExprStmt)
	if !ok {
		return "", nil, false
	}
	call, ok := es.X.(*ast.CallExpr)
	if !ok || len(call.Args) != 2 {
		return "", nil, false
	}
	id, ok := call.Fun.(*ast.Ident)
	if !ok || id.Name != "delete" {
		return "", nil, false
	}
	if _, isB := c.f.pkg.TypesInfo.Uses[id].(*types.Builtin); !isB {
		return "", nil, false
	}
	m, ok := call.Args[0].(*ast.Ident)
	if !ok {
		return "", nil, false
	}
	if _, isMap := c.typeOf(m).Underlying().(*types.Map); !isMap {
		return "", nil, false
	}
	return m.Name, call.Args[1], true
}

// sortCall recognises exactly `sort.Slice(X, func(i, j int) bool { return X[i] < X[j] })` for a slice variable X of
// integers: X sorted in ascending order (assumed semantics of the library call: `goSortAsc`).
func (c *fragCtx) sortCall(s ast.Stmt) (string, bool) {
	es, ok := s.(*ast.ExprStmt)
	if !ok {
		return "", false
	}
	call, ok := es.X.(*ast.CallExpr)
	if !ok || len(call.Args) != 2 {
		return "", false
	}
	sel, ok := call.Fun.(*ast.SelectorExpr)
	if !ok || sel.Sel.Name != "Slice" {
		return "", false
	}
	pid, ok := sel.X.(*ast.Ident)
	if !ok {
		return "", false
	}
	pn, ok := c.f.pkg.TypesInfo.Uses[pid].(*types.PkgName)
	if !ok || pn.Imported().Path() != "sort" {
		return "", false
	}
	xs, ok := call.Args[0].(*ast.Ident)
	fl, ok2 := call.Args[1].(*ast.FuncLit)
	if !ok || !ok2 || c.leanTypeOf(xs) != "(List Int)" {
		return "", false
	}
	var names []string
	for _, f := range fl.Type.Params.List {
		for _, n := range f.Names {
			names = append(names, n.Name)
		}
	}
	if len(names) != 2 || len(fl.Body.List) != 1 {
		return "", false
	}
	ret, ok := fl.Body.List[0].(*ast.ReturnStmt)
	if !ok || len(ret.Results) != 1 {
		return "", false
	}
	be, ok := ret.Results[0].(*ast.BinaryExpr)
	if !ok || be.Op != token.LSS {
		return "", false
	}
	isAt := func(e ast.Expr, i string) bool {
		ie, ok := e.(*ast.IndexExpr)
		if !ok {
			return false
		}
		a, ok1 := ie.X.(*ast.Ident)
		b, ok2 := ie.Index.(*ast.Ident)
		return ok1 && ok2 && a.Name == xs.Name && b.Name == i
	}
	if !isAt(be.X, names[0]) || !isAt(be.Y, names[1]) {
		return "", false
	}
	return xs.Name, true
}

func (c *fragCtx) isPanicCall(s ast.Stmt) bool {
	es, ok := s.(*ast.ExprStmt)
	if !ok {
		return false
	}
	call, ok := es.X.(*ast.CallExpr)
	if !ok {
		return false
	}
	id, ok := call.Fun.(*ast.Ident)
	if !ok || id.Name != "panic" {
		return false
	}
	_, isB := c.f.pkg.TypesInfo.Uses[id].(*types.Builtin)
	return isB
}

// assignedIn collects the variables (declared outside) assigned in stmts; hasRet reports a return inside.
func (c *fragCtx) assignedIn(stmts []ast.Stmt) (vars []string, hasRet bool) {
	seen := map[string]bool{}
	declared := map[string]bool{}
	add := func(id *ast.Ident) {
		if id.Name != "_" && !declared[id.Name] && !seen[id.Name] {
			seen[id.Name] = true
			vars = append(vars, id.Name)
		}
	}
	var walk func(n ast.Node) bool
	walk = func(n ast.Node) bool {
		switch x := n.(type) {
		case *ast.FuncLit:
			return false
		case *ast.ReturnStmt:
			hasRet = true
		case *ast.AssignStmt:
			for _, l := range x.Lhs {
				if id, ok := l.(*ast.Ident); ok && id.Name != "_" {
					if x.Tok == token.DEFINE {
						declared[id.Name] = true
					} else {
						add(id)
					}
				}
				if ie, ok := l.(*ast.IndexExpr); ok { // result[0] = append(result[0], v);  m[k] = v
					if id, ok := ie.X.(*ast.Ident); ok {
						add(id)
					}
					if fv, ok := c.fieldOf(ie.X); ok {
						add(&ast.Ident{Name: fv})
					}
					if inner, ok := ie.X.(*ast.IndexExpr); ok {
						if id, ok := inner.X.(*ast.Ident); ok {
							add(id)
						}
					}
				}
				if fv, ok := c.fieldOf(l); ok {
					add(&ast.Ident{Name: fv})
				}
			}
		case *ast.IncDecStmt:
			if id, ok := x.X.(*ast.Ident); ok {
				add(id)
			}
			if ie, ok := x.X.(*ast.IndexExpr); ok {
				if id, ok := ie.X.(*ast.Ident); ok {
					add(id)
				}
			}
		case *ast.ExprStmt:
			if name, _, ok := c.builderWrite(x); ok {
				add(&ast.Ident{Name: name})
			}
			if _, _, ok := c.effectCall(x); ok {
				add(&ast.Ident{Name: "st_"})
			}
			if m, _, ok := c.deleteCall(x); ok {
				add(&ast.Ident{Name: m})
			}
			if name, ok := c.sortCall(x); ok {
				add(&ast.Ident{Name: name})
			}
		case *ast.RangeStmt:
			if x.Tok == token.DEFINE {
				for _, e := range []ast.Expr{x.Key, x.Value} {
					if id, ok := e.(*ast.Ident); ok {
						declared[id.Name] = true
					}
				}
			}
		case *ast.DeclStmt:
			if gd, ok := x.Decl.(*ast.GenDecl); ok {
				for _, sp := range gd.Specs {
					if vs, ok := sp.(*ast.ValueSpec); ok {
						for _, n := range vs.Names {
							declared[n.Name] = true
						}
					}
				}
			}
		}
		return true
	}
	for _, s := range stmts {
		ast.Inspect(s, walk)
	}
	sort.Strings(vars)
	return
}

// alwaysExits: the statement list always ends in return / panic / break / continue.
func (c *fragCtx) alwaysExits(stmts []ast.Stmt) bool {
	if len(stmts) == 0 {
		return false
	}
	switch x := stmts[len(stmts)-1].(type) {
	case *ast.ReturnStmt:
		return true
	case *ast.BranchStmt:
		return x.Tok == token.BREAK || x.Tok == token.CONTINUE
	case *ast.ExprStmt:
		return c.isPanicCall(x)
	case *ast.IfStmt:
		if x.Else == nil {
			return false
		}
		var els []ast.Stmt
		switch e := x.Else.(type) {
		case *ast.BlockStmt:
			els = e.List
		case *ast.IfStmt:
			els = []ast.Stmt{e}
		}
		return c.alwaysExits(x.Body.List) && c.alwaysExits(els)
	}
	return false
}

// hasExit: some return / panic / break / continue occurs in the statements (loops nested inside keep their own
// plain break / continue).
func (c *fragCtx) hasExit(stmts []ast.Stmt) bool {
	found := false
	var walk func(n ast.Node, depth int)
	walk = func(n ast.Node, depth int) {
		ast.Inspect(n, func(m ast.Node) bool {
			switch x := m.(type) {
			case *ast.FuncLit:
				return false
			case *ast.ReturnStmt:
				found = true
			case *ast.ExprStmt:
				if c.isPanicCall(x) {
					found = true
				}
			case *ast.BranchStmt:
				if x.Label != nil || depth == 0 {
					found = true
				}
			case *ast.ForStmt:
				if m != n {
					walk(x.Body, depth+1)
					return false
				}
			case *ast.RangeStmt:
				if m != n {
					walk(x.Body, depth+1)
					return false
				}
			}
			return true
		})
	}
	for _, s := range stmts {
		switch x := s.(type) {
		case *ast.ForStmt:
			walk(x.Body, 1)
		case *ast.RangeStmt:
			walk(x.Body, 1)
		case *ast.LabeledStmt:
			walk(x.Stmt, 1)
		default:
			walk(s, 0)
		}
	}
	return found
}

// lenGuard recognises `len(s) > 0` (kind 1) and `len(s) == 0` (kind 2).
func lenGuard(cond ast.Expr) (slice string, kind int) {
	be, ok := cond.(*ast.BinaryExpr)
	if !ok {
		return "", 0
	}
	call, ok := be.X.(*ast.CallExpr)
	if !ok {
		return "", 0
	}
	id, ok := call.Fun.(*ast.Ident)
	if !ok || id.Name != "len" || len(call.Args) != 1 {
		return "", 0
	}
	sid, ok := call.Args[0].(*ast.Ident)
	lit, ok2 := be.Y.(*ast.BasicLit)
	if !ok || !ok2 || lit.Value != "0" {
		return "", 0
	}
	switch be.Op {
	case token.GTR:
		return sid.Name, 1
	case token.EQL:
		return sid.Name, 2
	}
	return "", 0
}

func (c *fragCtx) top() *loopFrame {
	if len(c.frames) == 0 {
		return nil
	}
	return c.frames[len(c.frames)-1]
}

// retValue: the term for `return v` (v already translated) in the current context.
func (c *fragCtx) retValue(v string) string {
	if fr := c.top(); fr != nil {
		return c.ok("(Sum.inl " + v + ")")
	}
	return c.ok(v)
}

func (c *fragCtx) excTerm(kind string) string {
	if !c.res {
		c.needRes = true
		return c.fail("%s in PURE mode", kind)
	}
	return "(Except.error Exc." + kind + ")"
}

// stmts translates a statement list; k yields the Lean term for "what follows" (nil: nothing may follow).
func (c *fragCtx) stmts(list []ast.Stmt, k func() string) string {
	if len(list) == 0 {
		if k == nil {
			if c.noRes && len(c.frames) == 0 {
				return c.ok("st_")
			}
			if c.method && len(c.results) == 0 && len(c.frames) == 0 {
				return c.ok(c.methodReturn(&ast.ReturnStmt{}))
			}
			return c.fail("control reaches the end of the function without return")
		}
		return k()
	}
	rest := func() string { return c.stmts(list[1:], k) }
	// emit: a `let` built from terms that may have pushed partial operations
	emit := func(line string) string {
		pre := c.takePre()
		return c.withPre(pre, line+rest())
	}
	switch x := list[0].(type) {
	case *ast.EmptyStmt:
		return rest()
	case *ast.ReturnStmt:
		var v string
		switch {
		case c.method:
			v = c.retValue(c.methodReturn(x))
		case !c.retErr && len(x.Results) == 1:
			v = c.retValue(c.rhs(x.Results[0], c.typeOf(x.Results[0])))
		case c.retErr && len(x.Results) == 2:
			if id, ok := x.Results[1].(*ast.Ident); ok && id.Name == "nil" {
				v = c.retValue(c.rhs(x.Results[0], c.typeOf(x.Results[0])))
			} else {
				v = c.excTerm("err")
			}
		default:
			return c.fail("return with %d results", len(x.Results))
		}
		return c.withPre(c.takePre(), v)
	case *ast.BranchStmt:
		return c.branch(x)
	case *ast.LabeledStmt:
		switch l := x.Stmt.(type) {
		case *ast.RangeStmt:
			return c.trRange(l, x.Label.Name, list[1:], k)
		case *ast.ForStmt:
			return c.trFor(l, x.Label.Name, list[1:], k)
		}
		return c.fail("label on a non-loop")
	case *ast.DeferStmt:
		if c.isMutexCall(x.Call) {
			return rest()
		}
		return c.fail("defer")
	case *ast.ExprStmt:
		if c.isMutexCall(x.X) {
			return rest()
		}
		if c.isPanicCall(x) {
			return c.excTerm("panic")
		}
		if name, arg, ok := c.builderWrite(x); ok {
			if c.leanTypeOf(arg) != strT {
				return c.fail("WriteString of a non-string")
			}
			return emit("let " + lv(name) + " := (" + lv(name) + " ++ " + c.expr(arg) + ")\n")
		}
		if fnName, args, ok := c.effectCall(x); ok {
			parts := []string{lv(fnName)}
			for _, a := range args {
				parts = append(parts, c.expr(a))
			}
			return emit("let st_ := (" + strings.Join(parts, " ") + " st_)\n")
		}
		if m, key, ok := c.deleteCall(x); ok {
			return emit("let " + lv(m) + " := (mapDel " + lv(m) + " " + c.expr(key) + ")\n")
		}
		if name, ok := c.sortCall(x); ok {
			return emit("let " + lv(name) + " := (goSortAsc " + lv(name) + ")\n")
		}
		return c.fail("expression statement")
	case *ast.IncDecStmt:
		if ie, isIdx := x.X.(*ast.IndexExpr); isIdx { // m[k]++ on a map of integers
			if mt, isMap := c.typeOf(ie.X).Underlying().(*types.Map); isMap && c.leanType(mt.Elem()) == "Int" {
				if mid, ok := ie.X.(*ast.Ident); ok {
					op := " + "
					if x.Tok == token.DEC {
						op = " - "
					}
					n, key := lv(mid.Name), c.expr(ie.Index)
					return emit("let " + n + " := (mapSet " + n + " " + key + " ((mapGet " + n + " " + key + " (0 : Int))" + op + "(1 : Int)))\n")
				}
			}
			return c.fail("++/-- target")
		}
		id, ok := x.X.(*ast.Ident)
		if !ok || !c.isIntLike(x.X) {
			return c.fail("++/-- target")
		}
		op := " + "
		if x.Tok == token.DEC {
			op = " - "
		}
		return "let " + lv(id.Name) + " := (" + lv(id.Name) + op + "(1 : Int))\n" + rest()
	case *ast.DeclStmt:
		gd, ok := x.Decl.(*ast.GenDecl)
		if !ok || gd.Tok != token.VAR {
			return c.fail("declaration")
		}
		out := ""
		for _, sp := range gd.Specs {
			vs := sp.(*ast.ValueSpec)
			for i, n := range vs.Names {
				t := c.f.pkg.TypesInfo.Defs[n].Type()
				val := c.zero(t)
				if i < len(vs.Values) {
					val = c.rhs(vs.Values[i], t)
				}
				out += "let " + lv(n.Name) + " : " + c.leanType(t) + " := " + val + "\n"
			}
		}
		return emit(out)
	case *ast.AssignStmt:
		return c.assign(x, rest)
	case *ast.IfStmt:
		return c.trIf(x, list[1:], k)
	case *ast.RangeStmt:
		return c.trRange(x, "", list[1:], k)
	case *ast.ForStmt:
		return c.trFor(x, "", list[1:], k)
	}
	return c.fail("statement %T", list[0])
}

func (c *fragCtx) assign(x *ast.AssignStmt, rest func() string) string {
	emit := func(line string) string {
		pre := c.takePre()
		return c.withPre(pre, line+rest())
	}
	// _, ok := m[k]
	if len(x.Lhs) == 2 && len(x.Rhs) == 1 {
		ie, isIdx := x.Rhs[0].(*ast.IndexExpr)
		u, okid := x.Lhs[0].(*ast.Ident)
		okv, okid2 := x.Lhs[1].(*ast.Ident)
		if isIdx && okid && okid2 && u.Name == "_" && x.Tok == token.DEFINE {
			if _, isMap := c.typeOf(ie.X).Underlying().(*types.Map); isMap {
				return emit("let " + lv(okv.Name) + " := (mapHas " + c.expr(ie.X) + " " + c.expr(ie.Index) + ")\n")
			}
		}
		return c.fail("multiple assignment")
	}
	if len(x.Lhs) != 1 || len(x.Rhs) != 1 {
		return c.fail("multiple assignment")
	}
	if ie, ok := x.Lhs[0].(*ast.IndexExpr); ok {
		if inner, isNested := ie.X.(*ast.IndexExpr); isNested && x.Tok == token.ASSIGN {
			// a[i][j] = v on a slice of slices: row := a[i]; row[j] = v; a[i] = row  (values only: rows are not shared)
			vn, okv := c.varOf(inner.X)
			outer, isSl := c.typeOf(inner.X).Underlying().(*types.Slice)
			if okv && isSl {
				if rowT, isSl2 := outer.Elem().Underlying().(*types.Slice); isSl2 {
					n := lv(vn)
					i, j := c.expr(inner.Index), c.expr(ie.Index)
					v := c.rhs(x.Rhs[0], rowT.Elem())
					row := c.partial("goIdx " + n + " " + i)
					row2 := c.partial("goSet " + row + " " + j + " " + v)
					out := c.partial("goSet " + n + " " + i + " " + row2)
					return emit("let " + n + " := " + out + "\n")
				}
			}
			return c.fail("indexed assignment")
		}
		vn, ok1 := c.varOf(ie.X)
		if !ok1 || x.Tok != token.ASSIGN {
			return c.fail("indexed assignment")
		}
		id := &ast.Ident{Name: vn}
		n := lv(id.Name)
		switch t := c.typeOf(ie.X).Underlying().(type) {
		case *types.Array: // result[i] = append(result[i], v) on a pair
			lit, ok2 := ie.Index.(*ast.BasicLit)
			base, _, isApp := c.appendOfProbe(x.Rhs[0])
			if ok2 && isApp && (lit.Value == "0" || lit.Value == "1") && t.Len() == 2 {
				if bie, ok := base.(*ast.IndexExpr); ok {
					bid, ok3 := bie.X.(*ast.Ident)
					blit, ok4 := bie.Index.(*ast.BasicLit)
					if ok3 && ok4 && bid.Name == id.Name && blit.Value == lit.Value {
						_, tail, _ := c.appendOf(x.Rhs[0])
						if lit.Value == "0" {
							return emit("let " + n + " := (" + n + ".1 ++ " + tail + ", " + n + ".2)\n")
						}
						return emit("let " + n + " := (" + n + ".1, " + n + ".2 ++ " + tail + ")\n")
					}
				}
			}
		case *types.Map:
			return emit("let " + n + " := (mapSet " + n + " " + c.expr(ie.Index) + " " + c.rhs(x.Rhs[0], t.Elem()) + ")\n")
		case *types.Slice:
			i := c.expr(ie.Index)
			v := c.rhs(x.Rhs[0], t.Elem())
			tmp := c.partial("goSet " + n + " " + i + " " + v)
			return emit("let " + n + " := " + tmp + "\n")
		}
		return c.fail("indexed assignment")
	}
	var id *ast.Ident
	if vn, isVar := c.varOf(x.Lhs[0]); isVar {
		id = &ast.Ident{Name: vn}
	} else {
		return c.fail("assignment target")
	}
	if _, isField := c.fieldOf(x.Lhs[0]); isField && x.Tok == token.DEFINE {
		return c.fail("assignment target")
	}
	if id.Name == "_" {
		return c.fail("assignment to _")
	}
	var val string
	switch x.Tok {
	case token.DEFINE, token.ASSIGN:
		val = c.rhs(x.Rhs[0], c.typeOf(x.Lhs[0]))
	case token.ADD_ASSIGN:
		if c.leanTypeOf(x.Lhs[0]) == strT {
			val = "(" + lv(id.Name) + " ++ " + c.expr(x.Rhs[0]) + ")"
		} else if c.isIntLike(x.Lhs[0]) {
			val = "(" + lv(id.Name) + " + " + c.expr(x.Rhs[0]) + ")"
		} else {
			return c.fail("+= on %s", c.leanTypeOf(x.Lhs[0]))
		}
	case token.SUB_ASSIGN:
		if !c.isIntLike(x.Lhs[0]) {
			return c.fail("-= on a non-integer")
		}
		val = "(" + lv(id.Name) + " - " + c.expr(x.Rhs[0]) + ")"
	default:
		return c.fail("assignment operator %s", x.Tok)
	}
	return emit("let " + lv(id.Name) + " := " + val + "\n")
}

// trIf: shapes  (a) then-branch always exits, no else:  if c then A else REST
//
//	(b) both branches always exit:            if c then A else B
//	(c) no exit inside:                        let vars := if c then (A; vars) else (B; vars); REST
//	plus the two length guards that give s[0] a name.
func (c *fragCtx) trIf(x *ast.IfStmt, after []ast.Stmt, k func() string) string {
	if x.Init != nil {
		// the names declared by the init statement must not occur elsewhere in the function
		as, ok := x.Init.(*ast.AssignStmt)
		if !ok || as.Tok != token.DEFINE {
			return c.fail("if with a non-declaring init")
		}
		for _, l := range as.Lhs {
			id, ok := l.(*ast.Ident)
			if !ok {
				return c.fail("if init")
			}
			// several `if` statements may declare the same name in their init statements (each is scoped to its own
			// `if`); what must not exist is a declaration of that name anywhere else, which the Lean `let` could capture
			if id.Name != "_" && c.countDefs(id.Name) != c.countIfInitDefs(id.Name) {
				return c.fail("if init re-declares %s", id.Name)
			}
		}
		noInit := *x
		noInit.Init = nil
		return c.assign(as, func() string { return c.trIf(&noInit, after, k) })
	}
	var els []ast.Stmt
	switch e := x.Else.(type) {
	case *ast.BlockStmt:
		els = e.List
	case *ast.IfStmt:
		els = []ast.Stmt{e}
	}
	rest := func() string { return c.stmts(after, k) }
	if s, kind := lenGuard(x.Cond); kind != 0 && x.Else == nil {
		h := lv(s) + "_head"
		withHead := func(f func() string) string {
			old, had := c.heads[s]
			c.heads[s] = h
			out := f()
			if had {
				c.heads[s] = old
			} else {
				delete(c.heads, s)
			}
			return out
		}
		if kind == 1 && !c.hasExit(x.Body.List) { // if len(s) > 0 { A }  (A without exit)
			vars, _ := c.assignedIn(x.Body.List)
			body := withHead(func() string { return c.stmts(x.Body.List, func() string { return c.ok(tuple(vars)) }) })
			return c.bindTerm("(match "+lv(s)+" with\n| [] => "+c.ok(tuple(vars))+"\n| "+h+" :: _ => ("+body+"))", tuple(vars), rest())
		}
		if kind == 2 && c.alwaysExits(x.Body.List) { // if len(s) == 0 { return … }; REST may use s[0]
			thenB := c.stmts(x.Body.List, nil)
			restH := withHead(rest)
			return "(match " + lv(s) + " with\n| [] => " + thenB + "\n| " + h + " :: _ => (" + restH + "))"
		}
	}
	cond := c.expr(x.Cond)
	pre := c.takePre()
	thenRet, elsRet := c.alwaysExits(x.Body.List), c.alwaysExits(els)
	thenHas := c.hasExit(x.Body.List)
	elsHas := c.hasExit(els)
	switch {
	case thenRet:
		// the else branch (possibly empty) falls through to what follows
		if len(els) > 0 && len(after) > 0 && !c.noShadow(els) {
			return c.fail("else branch declares a name used elsewhere")
		}
		return c.withPre(pre, "if "+cond+" then ("+c.stmts(x.Body.List, nil)+") else ("+
			c.stmts(append(append([]ast.Stmt{}, els...), after...), k)+")")
	case elsRet:
		if len(after) > 0 && !c.noShadow(x.Body.List) {
			return c.fail("then branch declares a name used elsewhere")
		}
		return c.withPre(pre, "if "+cond+" then ("+c.stmts(append(append([]ast.Stmt{}, x.Body.List...), after...), k)+
			") else ("+c.stmts(els, nil)+")")
	case !thenHas && !elsHas:
		vars, _ := c.assignedIn(append(append([]ast.Stmt{}, x.Body.List...), els...))
		k2 := func() string { return c.ok(tuple(vars)) }
		if c.res {
			// branches without partial operations stay pure
			var pureIf string
			if c.tryPure(func() {
				pureIf = "(if " + cond + " then (" + c.stmts(x.Body.List, k2) + ") else (" + c.stmts(els, k2) + "))"
			}) {
				return c.withPre(pre, "let "+tuple(vars)+" := "+pureIf+"\n"+rest())
			}
		}
		return c.withPre(pre, c.bindTerm("(if "+cond+" then ("+c.stmts(x.Body.List, k2)+") else ("+c.stmts(els, k2)+"))", tuple(vars), rest()))
	}
	// an exit on some paths only: what follows is translated once per branch (no join point)
	if !c.noShadow(x.Body.List) || !c.noShadow(els) {
		return c.fail("if with an exit on some paths only, declaring a name used elsewhere")
	}
	out := c.withPre(pre, "if "+cond+" then ("+c.stmts(append(append([]ast.Stmt{}, x.Body.List...), after...), k)+
		") else ("+c.stmts(append(append([]ast.Stmt{}, els...), after...), k)+")")
	if len(out) > 40000 {
		return c.fail("if with an exit on some paths only: the translation grows too large")
	}
	return out
}

// noShadow: every name declared inside stmts is declared only once in the whole function (so that moving the
// statements that follow into the scope of these declarations cannot capture anything).
func (c *fragCtx) noShadow(stmts []ast.Stmt) bool {
	ok := true
	for _, s := range stmts {
		ast.Inspect(s, func(m ast.Node) bool {
			if id, isId := m.(*ast.Ident); isId && id.Name != "_" {
				if obj := c.f.pkg.TypesInfo.Defs[id]; obj != nil && c.countDefs(id.Name) != 1 {
					ok = false
				}
			}
			return true
		})
	}
	return ok
}

// countIfInitDefs: how many of the declarations of `name` are made by the init statement of an `if`.
func (c *fragCtx) countIfInitDefs(name string) int {
	n := 0
	ast.Inspect(c.f.decl, func(m ast.Node) bool {
		if is, ok := m.(*ast.IfStmt); ok && is.Init != nil {
			if as, ok := is.Init.(*ast.AssignStmt); ok && as.Tok == token.DEFINE {
				for _, l := range as.Lhs {
					if id, ok := l.(*ast.Ident); ok && id.Name == name && c.f.pkg.TypesInfo.Defs[id] != nil {
						n++
					}
				}
			}
		}
		return true
	})
	return n
}

// countDefs: how many distinct objects named `name` the function declares.
func (c *fragCtx) countDefs(name string) int {
	n := 0
	ast.Inspect(c.f.decl, func(m ast.Node) bool {
		if id, ok := m.(*ast.Ident); ok && id.Name == name {
			if obj := c.f.pkg.TypesInfo.Defs[id]; obj != nil {
				n++
			}
		}
		return true
	})
	return n
}
