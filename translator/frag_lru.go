package main

// Go -> Lean translation of cache/lrucache.go at POINTER level (Gen/Lru.lean, namespace GoguVerif.Gen.Lru).
// `Theorems/GenTieLru.lean` proves each regenerated definition equal to the function of `Model/LruPtr.lean`.
//
// THE FRAGMENT AND ITS ASSUMED SEMANTICS (part of the trusted base).
//
// STORE.  The store representation is IMPORTED from `Model/LruPtr.lean` (types `PNode`, `Heap`, `PList`, `PSt`, `PRes`
// and the primitives `nextOf prevOf keyOf valOf` (field read), `wrNext wrPrev wrVal` (field write), `root`, `mapGet
// mapSet mapDelete`); nothing else of that file is used.
//   * a `*node` is an address (`Nat`) into the store of the ONE list in scope (the receiver `l`, `c.evictList`, or the
//     list a function has just built); reading / writing a field through an address that holds no node is the outcome
//     `none` (list level) / `.fault` (cache level) = Go's nil-dereference panic.  The store has no distinguished nil
//     address: the nil pointer (the literal `nil` and the zero value of an omitted pointer field) is the PARAMETER
//     `nilp : Nat` of every function that (transitively) mentions it, i.e. its value is universally quantified;
//   * a `lruList` (and a `*lruList`: the list pointer is never nil and never aliased — it is set by the constructor and
//     re-assigned only from a fresh list) is the value `PList` = (store, len); `&X.root` is the address `root`;
//     `x := node{…}` (a local whose address is taken) and is an ALLOCATION at the next free address `heap.length`;
//     `&x` is that address.  A node field of list-pointer type (`list`) is not stored (any read or write of it is
//     outside the fragment);
//   * a `*LRUCache` receiver is the value `PSt`; `map[K]*node` is the association list of `Model/LruPtr.lean`:
//     `v, ok := m[k]` is `mapGet` (`some v` = found), `m[k] = v` `mapSet`, `delete(m, k)` `mapDelete`, `make(map…)` `[]`
//     (the map is only looked up by key, never ranged over, so its order is never observed).
// TYPES.  Type parameters and Go integers -> `Int` (the zero value 0; wrap-around is NOT modelled), `bool` -> `Bool`.
// EVALUATION ORDER.  Statement by statement; inside a statement operands are evaluated left to right, in an assignment
// first the pointer operand of the left-hand side, then the right-hand side, then the store (Go spec "Assignments").
// Each pointer dereference is one store read, each field assignment one store write, in source order.
// RESULT SHAPES (computed, not listed per function): a function that can dereference returns `Option …` (list level)
// or `PRes` (methods of the cache type; the result tuple becomes `Ret.unit/.int/.vb/.kvb` by its type); a method
// that writes its receiver hands the new receiver back first: `(l, result)` / `l`.  A function that neither
// dereferences nor writes returns its plain result.  `return c.M(…)` of a `PRes` method with the same result types
// is a tail call.  Named results start at zero values; a bare `return` (and falling off the end) returns them.
// STATEMENTS: `:=`/`=` to locals, to node fields, to `l.len`, to the cache fields, `m[k] = v`, `x++`/`x--`, expression
// statements (calls; results dropped), `if` with optional init (the statements after an `if` are translated once per
// branch), the comma-ok map lookup as `if v, ok := m[k]; ok {…}`, `return`, blocks.  Conditions: one comparison.
// Anything else makes the function "outside the translated fragment": it is omitted with a comment and reported in
// facts.json; a tie theorem that mentions it then fails to build.  No per-function special case: every function
// declared in lrucache.go is attempted, callees first.

import (
	"fmt"
	"go/ast"
	"go/token"
	"go/types"
	"sort"
	"strings"
)

const (
	lruFile     = "lrucache.go"
	lruNodeT    = "node"
	lruListT    = "lruList"
	lruCacheT   = "LRUCache"
	lruRootFld  = "root"
	lruLenFld   = "len"
	lruItemsFld = "items"
	lruListFld  = "evictList"
	lruSizeFld  = "size"
)

// node field -> (read primitive, write primitive, PNode field); "" = no such primitive in Model/LruPtr.lean
var lruNodeFields = map[string][3]string{
	"next":  {"nextOf", "wrNext", "next"},
	"prev":  {"prevOf", "wrPrev", "prev"},
	"key":   {"keyOf", "", "key"},
	"value": {"valOf", "wrVal", "value"},
}

type lruShape struct {
	kind    int // 0 function, 1 method of the list type, 2 method of the cache type
	faults  bool
	mutates bool
	usesNil bool
	results []string // Lean types of the Go results
	name    string
}

func (s *lruShape) pres() bool { return s.kind == 2 && (s.faults || s.mutates) }

type lruCtx struct {
	f       *fn
	info    *types.Info
	err     string
	shape   *lruShape // the shape assumed while emitting
	recv    string
	cur     string // Lean name of the list in scope ("" = none yet)
	named   []string
	allocs  map[types.Object]bool
	lists   map[types.Object]bool
	shapes  map[*types.Func]*lruShape
	tmp     int
	faults  bool
	mutates bool
	usesNil bool
}

func (c *lruCtx) fail(format string, a ...any) string {
	if c.err == "" {
		c.err = fmt.Sprintf(format, a...)
	}
	return "sorryUnsupported"
}

func (c *lruCtx) fresh(p string) string { c.tmp++; return fmt.Sprintf("%s%d", p, c.tmp) }

var lruKeywords = map[string]bool{"at": true, "from": true, "end": true, "fun": true, "do": true, "then": true, "else": true,
	"if": true, "match": true, "with": true, "let": true, "have": true, "show": true, "open": true, "in": true, "root": true,
	"nilp": true, "def": true, "theorem": true, "where": true, "instance": true, "structure": true, "class": true, "Type": true}

func lruIdent(s string) string {
	if lruKeywords[s] {
		return s + "_"
	}
	return s
}

func lruNamed(t types.Type) string {
	if p, ok := t.(*types.Pointer); ok {
		t = p.Elem()
	}
	if n, ok := t.(*types.Named); ok && n.Obj().Pkg() != nil && n.Obj().Pkg().Name() == "cache" {
		return n.Obj().Name()
	}
	return ""
}

func (c *lruCtx) leanType(t types.Type) string {
	switch u := t.(type) {
	case *types.TypeParam:
		return "Int"
	case *types.Basic:
		if u.Info()&types.IsInteger != 0 {
			return "Int"
		}
		if u.Kind() == types.Bool {
			return "Bool"
		}
	case *types.Pointer:
		switch lruNamed(t) {
		case lruNodeT:
			return "Nat"
		case lruListT:
			return "PList"
		case lruCacheT:
			return "PSt"
		}
	}
	c.fail("type %s", t.String())
	return "Unit"
}

func (c *lruCtx) zero(t types.Type) string {
	switch c.leanType(t) {
	case "Int":
		return "0"
	case "Bool":
		return "false"
	case "Nat":
		c.usesNil = true
		return "nilp"
	}
	c.fail("zero value of %s", t.String())
	return "0"
}

func (c *lruCtx) failTerm() string {
	if c.shape.kind == 2 {
		return ".fault"
	}
	return "none"
}

// the list in scope as a Lean term, and the `let` that replaces it
func (c *lruCtx) listRead() string {
	if c.cur == "" {
		return c.fail("no list in scope")
	}
	return c.cur
}

func (c *lruCtx) listWrite(val, ind string) string {
	if c.shape.kind == 2 {
		c.mutates = true
		return ind + "let " + c.recv + " : PSt := { " + c.recv + " with " + lruListFld + " := " + val + " }\n"
	}
	if c.shape.kind == 1 {
		c.mutates = true
	}
	return ind + "let " + c.cur + " : PList := " + val + "\n"
}

func (c *lruCtx) heapWrite(h, ind string) string {
	l := c.listRead()
	return c.listWrite("{ heap := "+h+", len := "+l+".len }", ind)
}

// isListPlace: e denotes the list in scope (receiver, `c.evictList`, a list local or its address)
func (c *lruCtx) isListPlace(e ast.Expr) bool {
	switch x := e.(type) {
	case *ast.ParenExpr:
		return c.isListPlace(x.X)
	case *ast.Ident:
		if c.shape.kind == 1 && x.Name == c.recv && c.info.Uses[x] != nil {
			return true
		}
		return c.lists[c.info.Uses[x]]
	case *ast.UnaryExpr:
		if x.Op == token.AND {
			if id, ok := x.X.(*ast.Ident); ok {
				return c.lists[c.info.Uses[id]]
			}
		}
	case *ast.SelectorExpr:
		if id, ok := x.X.(*ast.Ident); ok && c.shape.kind == 2 && id.Name == c.recv && x.Sel.Name == lruListFld {
			return true
		}
	}
	return false
}

func (c *lruCtx) isCacheRecv(e ast.Expr) bool {
	id, ok := e.(*ast.Ident)
	return ok && c.shape.kind == 2 && id.Name == c.recv
}

// isRootNode: e is `<list>.root` (the embedded sentinel, a node VALUE whose address is `root`)
func (c *lruCtx) isRootNode(e ast.Expr) bool {
	s, ok := e.(*ast.SelectorExpr)
	return ok && s.Sel.Name == lruRootFld && c.isListPlace(s.X)
}

// nodeAddr evaluates the node that `e` denotes (a `*node` expression, `<list>.root`, or an allocated local) to its address.
func (c *lruCtx) nodeAddr(e ast.Expr, ind string, k func(a, ind string) string) string {
	if p, ok := e.(*ast.ParenExpr); ok {
		return c.nodeAddr(p.X, ind, k)
	}
	if c.isRootNode(e) {
		return k("root", ind)
	}
	if id, ok := e.(*ast.Ident); ok && c.allocs[c.info.Uses[id]] {
		return k(lruIdent(id.Name), ind)
	}
	if _, isPtr := c.info.TypeOf(e).(*types.Pointer); isPtr && lruNamed(c.info.TypeOf(e)) == lruNodeT {
		return c.expr(e, ind, k)
	}
	return c.fail("node expression")
}

func (c *lruCtx) bind(call, pat, ind string, k func(ind string) string) string {
	c.faults = true
	return ind + "match " + call + " with\n" + ind + "| none => " + c.failTerm() + "\n" + ind + "| some " + pat + " =>\n" + k(ind+"  ")
}

func (c *lruCtx) exprs(es []ast.Expr, ind string, k func(as []string, ind string) string) string {
	var as []string
	var rec func(i int, ind string) string
	rec = func(i int, ind string) string {
		if i == len(es) {
			return k(as, ind)
		}
		return c.expr(es[i], ind, func(a, ind string) string { as = append(as[:i:i], a); return rec(i+1, ind) })
	}
	return rec(0, ind)
}

func (c *lruCtx) expr(e ast.Expr, ind string, k func(a, ind string) string) string {
	switch x := e.(type) {
	case *ast.ParenExpr:
		return c.expr(x.X, ind, k)
	case *ast.BasicLit:
		if x.Kind == token.INT {
			return k(x.Value, ind)
		}
	case *ast.Ident:
		switch obj := c.info.Uses[x].(type) {
		case *types.Nil:
			c.usesNil = true
			return k("nilp", ind)
		case *types.Const:
			if x.Name == "true" || x.Name == "false" {
				return k(x.Name, ind)
			}
		case *types.Var:
			if c.allocs[obj] {
				return c.fail("node value %s used as a value", x.Name)
			}
			if c.isListPlace(x) {
				return k(c.listRead(), ind)
			}
			if c.isCacheRecv(x) {
				return c.fail("cache receiver used as a value")
			}
			return k(lruIdent(x.Name), ind)
		}
	case *ast.UnaryExpr:
		switch x.Op {
		case token.AND:
			if c.isRootNode(x.X) {
				return k("root", ind)
			}
			if id, ok := x.X.(*ast.Ident); ok && c.allocs[c.info.Uses[id]] {
				return k(lruIdent(id.Name), ind)
			}
			if c.isListPlace(x) {
				return k(c.listRead(), ind)
			}
		case token.SUB:
			return c.expr(x.X, ind, func(a, ind string) string { return k("(-"+a+")", ind) })
		}
	case *ast.BinaryExpr:
		if op := map[token.Token]string{token.ADD: "+", token.SUB: "-", token.MUL: "*"}[x.Op]; op != "" && c.leanType(c.info.TypeOf(x.X)) == "Int" {
			return c.expr(x.X, ind, func(a, ind string) string {
				return c.expr(x.Y, ind, func(b, ind string) string { return k("("+a+" "+op+" "+b+")", ind) })
			})
		}
	case *ast.SelectorExpr:
		if c.isListPlace(x) {
			return k(c.listRead(), ind)
		}
		if c.isListPlace(x.X) {
			if x.Sel.Name == lruLenFld {
				return k(c.listRead()+".len", ind)
			}
			return c.fail("list field %s as a value", x.Sel.Name)
		}
		if c.isCacheRecv(x.X) {
			if x.Sel.Name == lruSizeFld || x.Sel.Name == lruItemsFld {
				return k(c.recv+"."+x.Sel.Name, ind)
			}
			return c.fail("cache field %s", x.Sel.Name)
		}
		if lruNamed(c.info.TypeOf(x.X)) == lruNodeT {
			prim := lruNodeFields[x.Sel.Name][0]
			if prim == "" {
				return c.fail("read of node field %s", x.Sel.Name)
			}
			return c.nodeAddr(x.X, ind, func(a, ind string) string {
				t := c.fresh("t")
				return c.bind(prim+" "+c.listRead()+".heap "+a, t, ind, func(ind string) string { return k(t, ind) })
			})
		}
	case *ast.CallExpr:
		if id, ok := x.Fun.(*ast.Ident); ok && id.Name == "make" && c.info.Uses[id] == types.Universe.Lookup("make") {
			if _, isMap := c.info.TypeOf(e).Underlying().(*types.Map); isMap && len(x.Args) == 1 {
				return k("[]", ind)
			}
		}
		return c.call(x, ind, func(rs []string, ind string) string {
			if len(rs) != 1 {
				return c.fail("call with %d results as a value", len(rs))
			}
			return k(rs[0], ind)
		})
	}
	return c.fail("expression %T", e)
}

func lruCallee(info *types.Info, fun ast.Expr) (*types.Func, ast.Expr) {
	switch x := fun.(type) {
	case *ast.ParenExpr:
		return lruCallee(info, x.X)
	case *ast.IndexExpr:
		return lruCallee(info, x.X)
	case *ast.IndexListExpr:
		return lruCallee(info, x.X)
	case *ast.Ident:
		if f, ok := info.Uses[x].(*types.Func); ok {
			return f.Origin(), nil
		}
	case *ast.SelectorExpr:
		if f, ok := info.Uses[x.Sel].(*types.Func); ok {
			return f.Origin(), x.X
		}
	}
	return nil, nil
}

// call translates a call of a regenerated function; k receives the atoms of its results.
func (c *lruCtx) call(x *ast.CallExpr, ind string, k func(rs []string, ind string) string) string {
	if id, ok := x.Fun.(*ast.Ident); ok && id.Name == "delete" && c.info.Uses[id] == types.Universe.Lookup("delete") && len(x.Args) == 2 {
		m, isSel := x.Args[0].(*ast.SelectorExpr)
		if !isSel || !c.isCacheRecv(m.X) || m.Sel.Name != lruItemsFld {
			return c.fail("delete on something other than the items map")
		}
		return c.expr(x.Args[1], ind, func(a, ind string) string {
			c.mutates = true
			return ind + "let " + c.recv + " : PSt := { " + c.recv + " with " + lruItemsFld + " := mapDelete " + a + " " + c.recv + "." + lruItemsFld + " }\n" + k(nil, ind)
		})
	}
	callee, recvExpr := lruCallee(c.info, x.Fun)
	sh := c.shapes[callee]
	if callee == nil || sh == nil {
		return c.fail("call of a function that is not regenerated")
	}
	recvArg := ""
	switch sh.kind {
	case 1:
		if recvExpr == nil || !c.isListPlace(recvExpr) {
			return c.fail("list method on something other than the list in scope")
		}
		recvArg = " " + c.listRead()
	case 2:
		if recvExpr == nil || !c.isCacheRecv(recvExpr) {
			return c.fail("cache method on something other than the receiver")
		}
		if sh.pres() {
			return c.fail("call of the effectful cache method %s other than as `return c.M(…)`", sh.name)
		}
		recvArg = " " + c.recv
	}
	return c.exprs(x.Args, ind, func(as []string, ind string) string {
		app := sh.name + recvArg
		for _, a := range as {
			app += " " + a
		}
		if sh.usesNil {
			c.usesNil = true
			app += " nilp"
		}
		var rs []string
		for range sh.results {
			rs = append(rs, c.fresh("r"))
		}
		state := sh.kind == 1 && sh.mutates
		if !sh.faults && !state {
			if len(rs) == 1 {
				return k([]string{"(" + app + ")"}, ind)
			}
			if len(rs) == 0 {
				return k(nil, ind)
			}
			return ind + "let (" + strings.Join(rs, ", ") + ") := " + app + "\n" + k(rs, ind)
		}
		parts := rs
		nl := ""
		if state {
			nl = c.fresh("l")
			parts = append([]string{nl}, rs...)
		}
		pat := "_"
		if len(parts) == 1 {
			pat = parts[0]
		} else if len(parts) > 1 {
			pat = "(" + strings.Join(parts, ", ") + ")"
		}
		after := func(ind string) string {
			s := ""
			if state {
				s = c.listWrite(nl, ind)
			}
			return s + k(rs, ind)
		}
		if sh.faults {
			return c.bind(app, pat, ind, after)
		}
		return ind + "let " + pat + " := " + app + "\n" + after(ind)
	})
}

func (c *lruCtx) retTerm(as []string) string {
	sh := c.shape
	if sh.pres() {
		r := ""
		switch strings.Join(sh.results, ",") {
		case "":
			r = ".unit"
		case "Int":
			r = "(.int " + as[0] + ")"
		case "Int,Bool":
			r = "(.vb " + as[0] + " " + as[1] + ")"
		case "Int,Int,Bool":
			r = "(.kvb " + as[0] + " " + as[1] + " " + as[2] + ")"
		default:
			return c.fail("result tuple %v has no Ret constructor", sh.results)
		}
		return ".ok " + c.recv + " " + r
	}
	parts := as
	if sh.kind == 1 && sh.mutates {
		parts = append([]string{c.listRead()}, as...)
	}
	v := "()"
	if len(parts) == 1 {
		v = parts[0]
	} else if len(parts) > 1 {
		v = "(" + strings.Join(parts, ", ") + ")"
	}
	if sh.faults {
		if len(parts) == 1 && !strings.HasPrefix(v, "(") && strings.Contains(v, " ") {
			v = "(" + v + ")"
		}
		return "some " + v
	}
	return v
}

func (c *lruCtx) ret(results []ast.Expr, ind string) string {
	if len(results) == 0 {
		return ind + c.retTerm(c.named) + "\n"
	}
	if len(results) == 1 {
		if call, ok := results[0].(*ast.CallExpr); ok {
			callee, recvExpr := lruCallee(c.info, call.Fun)
			if sh := c.shapes[callee]; sh != nil && sh.pres() && recvExpr != nil && c.isCacheRecv(recvExpr) &&
				strings.Join(sh.results, ",") == strings.Join(c.shape.results, ",") {
				return c.exprs(call.Args, ind, func(as []string, ind string) string {
					c.faults = c.faults || sh.faults
					c.mutates = c.mutates || sh.mutates
					app := sh.name + " " + c.recv
					for _, a := range as {
						app += " " + a
					}
					if sh.usesNil {
						c.usesNil = true
						app += " nilp"
					}
					return ind + app + "\n"
				})
			}
		}
	}
	if len(results) != len(c.shape.results) {
		return c.fail("return of a multi-valued call")
	}
	return c.exprs(results, ind, func(as []string, ind string) string { return ind + c.retTerm(as) + "\n" })
}

func (c *lruCtx) cond(e ast.Expr, ind string, k func(p, ind string) string) string {
	if p, ok := e.(*ast.ParenExpr); ok {
		return c.cond(p.X, ind, k)
	}
	if b, ok := e.(*ast.BinaryExpr); ok {
		op := map[token.Token]string{token.EQL: "=", token.NEQ: "≠", token.LSS: "<", token.LEQ: "≤", token.GTR: ">", token.GEQ: "≥"}[b.Op]
		if op != "" {
			return c.expr(b.X, ind, func(a, ind string) string {
				return c.expr(b.Y, ind, func(b2, ind string) string { return k(a+" "+op+" "+b2, ind) })
			})
		}
	}
	if id, ok := e.(*ast.Ident); ok {
		if _, isVar := c.info.Uses[id].(*types.Var); isVar && c.leanType(c.info.TypeOf(e)) == "Bool" {
			return k(lruIdent(id.Name)+" = true", ind)
		}
	}
	return c.fail("condition %T", e)
}

func (c *lruCtx) nodeLit(lit *ast.CompositeLit, ind string, k func(term, ind string) string) string {
	st, ok := c.info.TypeOf(lit).Underlying().(*types.Struct)
	if !ok {
		return c.fail("node literal")
	}
	given := map[string]ast.Expr{}
	var order []string
	for _, el := range lit.Elts {
		kv, ok := el.(*ast.KeyValueExpr)
		if !ok {
			return c.fail("positional composite literal")
		}
		name := kv.Key.(*ast.Ident).Name
		given[name] = kv.Value
		order = append(order, name)
	}
	vals := map[string]string{}
	var rec func(i int, ind string) string
	rec = func(i int, ind string) string {
		if i < len(order) {
			name := order[i]
			if _, stored := lruNodeFields[name]; !stored {
				// a field that is not stored: must be the list back-pointer, whose value is the list in scope (pure)
				if !c.isListPlace(given[name]) {
					return c.fail("node field %s is not stored", name)
				}
				return rec(i+1, ind)
			}
			return c.expr(given[name], ind, func(a, ind string) string { vals[name] = a; return rec(i+1, ind) })
		}
		var parts []string
		for j := 0; j < st.NumFields(); j++ {
			fl := st.Field(j)
			nf, stored := lruNodeFields[fl.Name()]
			if !stored {
				if lruNamed(fl.Type()) != lruListT {
					return c.fail("node field %s is not stored", fl.Name())
				}
				continue
			}
			v, ok := vals[fl.Name()]
			if !ok {
				v = c.zero(fl.Type())
			}
			parts = append(parts, nf[2]+" := "+v)
		}
		return k("{ "+strings.Join(parts, ", ")+" }", ind)
	}
	return rec(0, ind)
}

func (c *lruCtx) stmts(list []ast.Stmt, ind string, k func(ind string) string) string {
	if len(list) == 0 {
		return k(ind)
	}
	return c.stmt(list[0], ind, func(ind string) string { return c.stmts(list[1:], ind, k) })
}

func (c *lruCtx) assignTo(lhs ast.Expr, rhs ast.Expr, define bool, ind string, k func(ind string) string) string {
	switch l := lhs.(type) {
	case *ast.Ident:
		obj := c.info.Defs[l]
		if obj == nil {
			obj = c.info.Uses[l]
		}
		if l.Name == "_" {
			return c.expr(rhs, ind, func(a, ind string) string { return k(ind) })
		}
		if lit, ok := rhs.(*ast.CompositeLit); ok && define {
			switch lruNamed(c.info.TypeOf(lit)) {
			case lruNodeT: // x := node{…}: allocation
				return c.nodeLit(lit, ind, func(term, ind string) string {
					c.allocs[obj] = true
					cur := c.listRead()
					s := ind + "let " + lruIdent(l.Name) + " := " + cur + ".heap.length\n"
					s += c.listWrite("{ heap := "+cur+".heap ++ [("+term+" : PNode)], len := "+cur+".len }", ind)
					return s + k(ind)
				})
			case lruListT: // lst := lruList{root: node{…}, len: n}: a fresh list
				if c.cur != "" {
					return c.fail("a second list")
				}
				var rootLit *ast.CompositeLit
				var lenE ast.Expr
				for _, el := range lit.Elts {
					kv, ok := el.(*ast.KeyValueExpr)
					if !ok {
						return c.fail("positional composite literal")
					}
					switch kv.Key.(*ast.Ident).Name {
					case lruRootFld:
						rootLit, _ = kv.Value.(*ast.CompositeLit)
					case lruLenFld:
						lenE = kv.Value
					}
				}
				if rootLit == nil || lenE == nil {
					return c.fail("list literal without explicit root and len")
				}
				return c.nodeLit(rootLit, ind, func(term, ind string) string {
					return c.expr(lenE, ind, func(n, ind string) string {
						c.lists[obj] = true
						c.cur = lruIdent(l.Name)
						return ind + "let " + c.cur + " : PList := { heap := [(" + term + " : PNode)], len := " + n + " }\n" + k(ind)
					})
				})
			}
		}
		if v, ok := obj.(*types.Var); !ok || c.allocs[v] || c.lists[v] || (c.recv != "" && l.Name == c.recv) {
			return c.fail("assignment to %s", l.Name)
		}
		return c.expr(rhs, ind, func(a, ind string) string {
			return ind + "let " + lruIdent(l.Name) + " : " + c.leanType(obj.Type()) + " := " + a + "\n" + k(ind)
		})
	case *ast.SelectorExpr:
		if c.isListPlace(l.X) && l.Sel.Name == lruLenFld {
			return c.expr(rhs, ind, func(a, ind string) string {
				return c.listWrite("{ heap := "+c.listRead()+".heap, len := "+a+" }", ind) + k(ind)
			})
		}
		if c.isCacheRecv(l.X) {
			switch l.Sel.Name {
			case lruItemsFld, lruSizeFld, lruListFld:
				return c.expr(rhs, ind, func(a, ind string) string {
					c.mutates = true
					return ind + "let " + c.recv + " : PSt := { " + c.recv + " with " + l.Sel.Name + " := " + a + " }\n" + k(ind)
				})
			}
			return c.fail("cache field %s", l.Sel.Name)
		}
		if lruNamed(c.info.TypeOf(l.X)) == lruNodeT {
			prim := lruNodeFields[l.Sel.Name][1]
			if prim == "" {
				return c.fail("write of node field %s", l.Sel.Name)
			}
			return c.nodeAddr(l.X, ind, func(a, ind string) string {
				return c.expr(rhs, ind, func(v, ind string) string {
					h := c.fresh("h")
					return c.bind(prim+" "+c.listRead()+".heap "+a+" "+v, h, ind, func(ind string) string {
						return c.heapWrite(h, ind) + k(ind)
					})
				})
			})
		}
	case *ast.IndexExpr:
		if m, ok := l.X.(*ast.SelectorExpr); ok && c.isCacheRecv(m.X) && m.Sel.Name == lruItemsFld {
			return c.expr(l.Index, ind, func(key, ind string) string {
				return c.expr(rhs, ind, func(v, ind string) string {
					c.mutates = true
					return ind + "let " + c.recv + " : PSt := { " + c.recv + " with " + lruItemsFld + " := mapSet " + key + " " + v + " " + c.recv + "." + lruItemsFld + " }\n" + k(ind)
				})
			})
		}
	}
	return c.fail("assignment target %T", lhs)
}

func (c *lruCtx) stmt(s ast.Stmt, ind string, k func(ind string) string) string {
	switch x := s.(type) {
	case *ast.EmptyStmt:
		return k(ind)
	case *ast.BlockStmt:
		return c.stmts(x.List, ind, k)
	case *ast.ReturnStmt:
		return c.ret(x.Results, ind)
	case *ast.ExprStmt:
		if call, ok := x.X.(*ast.CallExpr); ok {
			return c.call(call, ind, func(rs []string, ind string) string { return k(ind) })
		}
	case *ast.IncDecStmt:
		op := token.ADD
		if x.Tok == token.DEC {
			op = token.SUB
		}
		one := &ast.BasicLit{Kind: token.INT, Value: "1"}
		return c.incdec(x.X, op, one, ind, k)
	case *ast.AssignStmt:
		if len(x.Lhs) == 1 && len(x.Rhs) == 1 && (x.Tok == token.DEFINE || x.Tok == token.ASSIGN) {
			return c.assignTo(x.Lhs[0], x.Rhs[0], x.Tok == token.DEFINE, ind, k)
		}
		if len(x.Lhs) == 1 && len(x.Rhs) == 1 && (x.Tok == token.ADD_ASSIGN || x.Tok == token.SUB_ASSIGN) {
			op := token.ADD
			if x.Tok == token.SUB_ASSIGN {
				op = token.SUB
			}
			return c.incdec(x.Lhs[0], op, x.Rhs[0], ind, k)
		}
	case *ast.IfStmt:
		thenK := func(ind string) string { return c.stmts(x.Body.List, ind, k) }
		elseK := k
		if x.Else != nil {
			elseK = func(ind string) string { return c.stmt(x.Else, ind, k) }
		}
		// `if v, ok := m[key]; ok { … }`
		if as, ok := x.Init.(*ast.AssignStmt); ok && as.Tok == token.DEFINE && len(as.Lhs) == 2 && len(as.Rhs) == 1 {
			ix, isIx := as.Rhs[0].(*ast.IndexExpr)
			v, _ := as.Lhs[0].(*ast.Ident)
			okId, _ := as.Lhs[1].(*ast.Ident)
			cid, _ := x.Cond.(*ast.Ident)
			if isIx && v != nil && okId != nil && cid != nil && c.info.Uses[cid] == c.info.Defs[okId] && okId.Name != "_" && v.Name != "_" {
				if m, isSel := ix.X.(*ast.SelectorExpr); isSel && c.isCacheRecv(m.X) && m.Sel.Name == lruItemsFld {
					if lruUsed(c.info, x.Body, c.info.Defs[okId]) || (x.Else != nil && (lruUsed(c.info, x.Else, c.info.Defs[okId]) || lruUsed(c.info, x.Else, c.info.Defs[v]))) {
						return c.fail("comma-ok variables used beyond the test")
					}
					return c.expr(ix.Index, ind, func(key, ind string) string {
						return ind + "match mapGet " + key + " " + c.recv + "." + lruItemsFld + " with\n" +
							ind + "| some " + lruIdent(v.Name) + " =>\n" + thenK(ind+"  ") +
							ind + "| none =>\n" + elseK(ind+"  ")
					})
				}
			}
			return c.fail("two-valued assignment")
		}
		body := func(ind string) string {
			return c.cond(x.Cond, ind, func(p, ind string) string {
				return ind + "if " + p + " then (\n" + thenK(ind+"  ") + ind + ") else (\n" + elseK(ind+"  ") + ind + ")\n"
			})
		}
		if x.Init != nil {
			return c.stmt(x.Init, ind, body)
		}
		return body(ind)
	}
	return c.fail("statement %T", s)
}

func (c *lruCtx) incdec(target ast.Expr, op token.Token, by ast.Expr, ind string, k func(ind string) string) string {
	return c.assignTo(target, &ast.BinaryExpr{X: target, Op: op, Y: by}, false, ind, k)
}

func lruUsed(info *types.Info, n ast.Node, obj types.Object) bool {
	used := false
	ast.Inspect(n, func(m ast.Node) bool {
		if id, ok := m.(*ast.Ident); ok && info.Uses[id] == obj {
			used = true
		}
		return true
	})
	return used
}

// one emission of f under the assumed shape; returns the Lean definition
func lruEmit(f *fn, sh *lruShape, shapes map[*types.Func]*lruShape) (*lruCtx, string) {
	c := &lruCtx{f: f, info: f.pkg.TypesInfo, shape: sh, shapes: shapes, allocs: map[types.Object]bool{}, lists: map[types.Object]bool{}}
	sig := f.obj.Type().(*types.Signature)
	var binders []string
	if r := sig.Recv(); r != nil {
		if r.Name() == "" || r.Name() == "_" {
			c.fail("receiver form")
		}
		c.recv = lruIdent(r.Name())
		binders = append(binders, "("+c.recv+" : "+c.leanType(r.Type())+")")
		if sh.kind == 1 {
			c.cur = c.recv
		} else {
			c.cur = c.recv + "." + lruListFld
		}
	}
	for i := 0; i < sig.Params().Len(); i++ {
		p := sig.Params().At(i)
		if p.Name() == "" || p.Name() == "_" || sig.Variadic() {
			c.fail("parameter form")
		}
		binders = append(binders, "("+lruIdent(p.Name())+" : "+c.leanType(p.Type())+")")
	}
	pre := ""
	for i := 0; i < sig.Results().Len(); i++ {
		r := sig.Results().At(i)
		if r.Name() != "" && r.Name() != "_" {
			c.named = append(c.named, lruIdent(r.Name()))
			pre += "  let " + lruIdent(r.Name()) + " : " + c.leanType(r.Type()) + " := " + c.zero(r.Type()) + "\n"
		}
	}
	if len(c.named) != 0 && len(c.named) != sig.Results().Len() {
		c.fail("partly named results")
	}
	if sh.usesNil {
		binders = append(binders, "(nilp : Nat)")
	}
	body := pre + c.stmts(f.decl.Body.List, "  ", func(ind string) string {
		if sig.Results().Len() != 0 && len(c.named) == 0 {
			return ind + c.fail("control reaches the end of a function with results") + "\n"
		}
		return ind + c.retTerm(c.named) + "\n"
	})
	val := sh.results
	if sh.kind == 1 && sh.mutates {
		val = append([]string{"PList"}, val...)
	}
	rt := "Unit"
	if len(val) > 0 {
		rt = strings.Join(val, " × ")
	}
	if sh.pres() {
		rt = "PRes"
	} else if sh.faults {
		rt = "Option (" + rt + ")"
	}
	return c, fmt.Sprintf("def %s %s : %s :=\n%s", sh.name, strings.Join(binders, " "), rt, body)
}

func translateLru() (string, map[string]string) {
	status := map[string]string{}
	var sb strings.Builder
	sb.WriteString("import GoguVerif.Model.LruPtr\n")
	sb.WriteString("/-! GENERATED by /verif/translator (frag_lru.go) from /repo's current source — do not edit.\n\n")
	sb.WriteString("Mechanical Go → Lean translation of cache/lrucache.go at pointer level (see translator/frag_lru.go for the fragment),\n")
	sb.WriteString("over the store of `Model/LruPtr.lean` (only its types and its primitives `nextOf prevOf keyOf valOf wrNext wrPrev wrVal\n")
	sb.WriteString("root mapGet mapSet mapDelete` are used).  A `*node` is an address; every pointer dereference is one store read\n")
	sb.WriteString("(`none` / `.fault` = nil-dereference panic), every field assignment one store write, `x := node{…}` an allocation at\n")
	sb.WriteString("`heap.length`; the nil pointer is the universally quantified parameter `nilp`; a list / cache object is threaded by\n")
	sb.WriteString("value (`let l : PList := …` replaces it).  `Theorems/GenTieLru.lean` proves each definition equal to the hand-written\n")
	sb.WriteString("function of `Model/LruPtr.lean`. -/\n")
	sb.WriteString("set_option linter.unusedVariables false\nnamespace GoguVerif.Gen.Lru\nopen GoguVerif.Model.Lru (Ret)\nopen GoguVerif.Model.LruPtr (PNode Heap PList PSt PRes nextOf prevOf keyOf valOf wrNext wrPrev wrVal root mapGet mapSet mapDelete)\n\n")
	sb.WriteString("/-- placeholder that makes an unsupported function's tie theorem fail to build -/\nopaque sorryUnsupported {α : Type} [Inhabited α] : α\n\n")

	var fs []*fn
	byObj := map[*types.Func]*fn{}
	for _, f := range order {
		if f.pkg.Name == "cache" && lkBaseName(f.pkg.Fset.File(f.decl.Pos()).Name()) == lruFile {
			fs = append(fs, f)
			byObj[f.obj] = f
		}
	}
	sort.SliceStable(fs, func(i, j int) bool { return fs[i].decl.Pos() < fs[j].decl.Pos() })
	// callees first (depth-first over the calls, in source order); a cycle leaves the later function without its callee
	var topo []*fn
	state := map[*fn]int{}
	var visit func(f *fn)
	visit = func(f *fn) {
		if state[f] != 0 {
			return
		}
		state[f] = 1
		ast.Inspect(f.decl.Body, func(n ast.Node) bool {
			if call, ok := n.(*ast.CallExpr); ok {
				if callee, _ := lruCallee(f.pkg.TypesInfo, call.Fun); callee != nil && byObj[callee] != nil {
					visit(byObj[callee])
				}
			}
			return true
		})
		state[f] = 2
		topo = append(topo, f)
	}
	for _, f := range fs {
		visit(f)
	}
	shapes := map[*types.Func]*lruShape{}
	for _, f := range topo {
		key := "cache." + f.obj.Name()
		sh := &lruShape{name: f.obj.Name(), faults: true, mutates: true, usesNil: true}
		if rn := recvTypeName(f.obj); rn != "" {
			key = "cache." + rn + "_" + f.obj.Name()
			switch rn {
			case lruListT:
				sh.kind = 1
			case lruCacheT:
				sh.kind = 2
			default:
				sh.kind = -1
			}
		}
		probe := &lruCtx{f: f, info: f.pkg.TypesInfo, shape: sh}
		sig := f.obj.Type().(*types.Signature)
		for i := 0; i < sig.Results().Len(); i++ {
			sh.results = append(sh.results, probe.leanType(sig.Results().At(i).Type()))
		}
		if sh.kind == -1 {
			probe.fail("receiver type")
		}
		if sig.Recv() != nil {
			if _, p := sig.Recv().Type().(*types.Pointer); !p {
				probe.fail("value receiver")
			}
		}
		text := ""
		err := probe.err
		if err == "" {
			c1, _ := lruEmit(f, sh, shapes) // first emission: find out what the body does
			err = c1.err
			if err == "" {
				sh.faults, sh.mutates, sh.usesNil = c1.faults, c1.mutates && sh.kind != 0, c1.usesNil
				var c2 *lruCtx
				c2, text = lruEmit(f, sh, shapes)
				err = c2.err
			}
		}
		if err != "" {
			fmt.Fprintf(&sb, "-- %s: outside the translated fragment (%s)\n\n", key, err)
			status[key] = "unsupported: " + err
			continue
		}
		shapes[f.obj] = sh
		fmt.Fprintf(&sb, "/-- `%s` (lrucache.go) -/\n%s\n", strings.TrimPrefix(key, "cache."), text)
		status[key] = fmt.Sprintf("ok (pointer level; faults=%v mutates=%v nil=%v)", sh.faults, sh.mutates, sh.usesNil)
	}
	sb.WriteString("end GoguVerif.Gen.Lru\n")
	return sb.String(), status
}
