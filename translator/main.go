package main

import (
	"encoding/json"
	"fmt"
	"go/ast"
	"go/constant"
	"go/types"
	"os"
	"path/filepath"
	"sort"
	"strings"

	"golang.org/x/tools/go/packages"
)

type outAccess struct {
	Loc   string `json:"loc"`
	Write bool   `json:"write"`
}

type outSect struct {
	Mode string      `json:"mode"` // "", "r", "w"
	Accs []outAccess `json:"accs"`
	Send bool        `json:"send,omitempty"`
	Ext  bool        `json:"ext,omitempty"`
}

type outPath struct {
	Sects []outSect `json:"sects"`
	Flags []string  `json:"flags"`
}

type outMethod struct {
	Type   string    `json:"type"`
	Method string    `json:"method"`
	Inst   int       `json:"instance"` // which instance parameter this projection is for (0 = receiver)
	Paths  []outPath `json:"paths"`
}

type outEffect struct {
	Name           string `json:"name"`
	Writes         []int  `json:"writes"`
	Aliases        []int  `json:"aliases"`
	SelfAssignOnly bool   `json:"selfAssignOnly,omitempty"`
}

func load(dir string, pats ...string) []*packages.Package {
	cfg := &packages.Config{Mode: packages.NeedName | packages.NeedFiles | packages.NeedSyntax | packages.NeedTypes | packages.NeedTypesInfo | packages.NeedImports | packages.NeedDeps, Dir: dir}
	pkgs, err := packages.Load(cfg, pats...)
	if err != nil {
		fmt.Fprintln(os.Stderr, "translator: load:", err)
		os.Exit(1)
	}
	for _, p := range pkgs {
		for _, e := range p.Errors {
			fmt.Fprintln(os.Stderr, "translator: package error:", e)
			os.Exit(1)
		}
	}
	return pkgs
}

var order []*fn

func collect(pkgs []*packages.Package) {
	for _, p := range pkgs {
		for _, file := range p.Syntax {
			name := p.Fset.File(file.Pos()).Name()
			if strings.HasSuffix(name, "_test.go") || strings.HasPrefix(filepath.Base(name), "verif_") {
				continue
			}
			for _, d := range file.Decls {
				fd, ok := d.(*ast.FuncDecl)
				if !ok || fd.Body == nil {
					continue
				}
				obj := p.TypesInfo.Defs[fd.Name].(*types.Func)
				f := &fn{pkg: p, decl: fd, obj: obj, sum: &Summary{}}
				sig := obj.Type().(*types.Signature)
				if sig.Recv() != nil {
					f.params = append(f.params, sig.Recv())
				}
				for i := 0; i < sig.Params().Len(); i++ {
					f.params = append(f.params, sig.Params().At(i))
				}
				funcs[obj] = f
				order = append(order, f)
			}
		}
	}
	for _, p := range pkgs {
		for _, file := range p.Syntax {
			ast.Inspect(file, func(n ast.Node) bool {
				mark := func(e ast.Expr) {
					for {
						switch x := e.(type) {
						case *ast.IndexExpr:
							e = x.X
							continue
						case *ast.StarExpr:
							e = x.X
							continue
						case *ast.ParenExpr:
							e = x.X
							continue
						}
						break
					}
					if se, ok := e.(*ast.SelectorExpr); ok {
						if sel := p.TypesInfo.Selections[se]; sel != nil && sel.Kind() == types.FieldVal {
							mutableField[sel.Obj().Name()] = true
						}
					}
				}
				switch x := n.(type) {
				case *ast.AssignStmt:
					for _, l := range x.Lhs {
						mark(l)
					}
				case *ast.IncDecStmt:
					mark(x.X)
				}
				return true
			})
		}
	}
	for round := 0; round < 2; round++ {
		for _, f := range order {
			f.sum.done = false
		}
		for _, f := range order {
			summarize(f)
		}
	}
}

func hasMutex(rt types.Type) bool {
	if p, ok := rt.Underlying().(*types.Pointer); ok {
		rt = p.Elem()
	}
	st, ok := rt.Underlying().(*types.Struct)
	if !ok {
		return false
	}
	for i := 0; i < st.NumFields(); i++ {
		s := st.Field(i).Type().String()
		if strings.Contains(s, "sync.RWMutex") || strings.Contains(s, "sync.Mutex") {
			return true
		}
		if st.Field(i).Embedded() && hasMutex(st.Field(i).Type()) {
			return true
		}
	}
	return false
}

func typeName(t types.Type) string {
	if p, ok := t.Underlying().(*types.Pointer); ok {
		t = p.Elem()
	}
	if p, ok := t.(*types.Pointer); ok {
		t = p.Elem()
	}
	s := types.TypeString(t, func(*types.Package) string { return "" })
	if i := strings.Index(s, "["); i >= 0 {
		s = s[:i]
	}
	return s
}

// sameInstanceType: parameter q has the receiver's type (another instance of the same container).
func sameInstanceType(f *fn, q int) bool {
	if q == 0 {
		return true
	}
	return typeName(f.params[q].Type()) == typeName(f.params[0].Type()) && hasMutex(f.params[q].Type())
}

// goTargets: methods that some function of the package starts as a goroutine (`go c.cleanup()`): the library's own
// actors.  They are listed in the lock table as "go:<name>" so that the same obligations cover them: every access under
// the right lock (C01) and, per iteration of their loop, ONE critical section (C02: what the janitor does on a tick is one
// atomic step for every caller).
func goTargets() map[*types.Func]bool {
	out := map[*types.Func]bool{}
	for _, f := range order {
		if f.decl.Body == nil {
			continue
		}
		ast.Inspect(f.decl.Body, func(n ast.Node) bool {
			g, ok := n.(*ast.GoStmt)
			if !ok {
				return true
			}
			if se, ok := g.Call.Fun.(*ast.SelectorExpr); ok {
				if sel := f.pkg.TypesInfo.Selections[se]; sel != nil {
					if callee, ok := sel.Obj().(*types.Func); ok {
						out[callee.Origin()] = true
					}
				}
			}
			return true
		})
	}
	return out
}

// safely runs one of the definitional fragment translators.  They are ADVISORY (DESIGN.md §16): a source construct that
// makes one of them give up - or crash - must cost only that fragment's tie, never the tables the proof obligations of
// C01/C02/C16 rest on, nor the ties of other files.  A crash yields an (almost) empty generated file, so the tie module of
// that file no longer builds and its property switches to the thorough generators.
func safely(name string, f func() (string, map[string]string)) (lean string, status map[string]string) {
	defer func() {
		if r := recover(); r != nil {
			lean = fmt.Sprintf("-- %s: the translator gave up on the current source (%v)\n", name, r)
			status = map[string]string{name: fmt.Sprintf("translator gave up: %v", r)}
		}
	}()
	return f()
}

func lockTable() []outMethod {
	var out []outMethod
	gos := goTargets()
	for _, f := range order {
		if f.decl.Recv == nil || !hasMutex(f.params[0].Type()) || f.sum == nil {
			continue
		}
		isGo := gos[f.obj.Origin()]
		if !f.obj.Exported() && !isGo {
			continue
		}
		tn := f.pkg.Name + "." + typeName(f.params[0].Type())
		// public name of the embedded cache struct
		if tn == "cache.cache" {
			tn = "cache.Cache"
		}
		insts := []int{0}
		for q := 1; q < len(f.params); q++ {
			if sameInstanceType(f, q) {
				insts = append(insts, q)
			}
		}
		for _, inst := range insts {
			mname := f.obj.Name()
			if isGo && !f.obj.Exported() {
				mname = "go:" + mname
			}
			m := outMethod{Type: tn, Method: mname, Inst: inst}
			seen := map[string]bool{}
			for _, p := range f.sum.Paths {
				op := outPath{Flags: []string{}}
				for _, s := range p.Sects {
					os := outSect{Mode: s.Mode[inst], Send: s.Send, Ext: s.Ext, Accs: []outAccess{}}
					for acc := range s.Accs {
						if acc.O.P != inst {
							continue
						}
						if !acc.W && !mutableField[acc.O.F] && acc.O.F != "" {
							continue // read of a field that is never assigned after construction
						}
						os.Accs = append(os.Accs, outAccess{Loc: acc.O.F, Write: acc.W})
					}
					sort.Slice(os.Accs, func(i, j int) bool {
						if os.Accs[i].Loc != os.Accs[j].Loc {
							return os.Accs[i].Loc < os.Accs[j].Loc
						}
						return !os.Accs[i].Write && os.Accs[j].Write
					})
					// merge adjacent sections of this projection that have the same (empty) mode and nothing in them
					if os.Mode == "" && len(os.Accs) == 0 && !os.Send {
						continue
					}
					op.Sects = append(op.Sects, os)
				}
				for k := range p.Flags {
					op.Flags = append(op.Flags, k)
				}
				if isGo && !f.obj.Exported() {
					op.Flags = append(op.Flags, "goroutine") // a path of one of the library's own goroutines
				}
				for o := range p.Escape {
					if o.P == inst && escapeMatters(f, o) {
						op.Flags = append(op.Flags, "escapes:"+o.F)
					}
				}
				for _, s := range op.Sects {
					if s.Send && s.Mode != "" {
						if !(f.obj.Name() == "Traverse" && traverseShape(f)) {
							op.Flags = append(op.Flags, "blocksWhileHolding")
						} else {
							op.Flags = append(op.Flags, "traverseProducer")
						}
					}
				}
				sort.Strings(op.Flags)
				op.Flags = uniq(op.Flags)
				b, _ := json.Marshal(op)
				if seen[string(b)] {
					continue
				}
				seen[string(b)] = true
				m.Paths = append(m.Paths, op)
			}
			out = append(out, m)
		}
	}
	sort.SliceStable(out, func(i, j int) bool {
		if out[i].Type != out[j].Type {
			return out[i].Type < out[j].Type
		}
		if out[i].Method != out[j].Method {
			return out[i].Method < out[j].Method
		}
		return out[i].Inst < out[j].Inst
	})
	return out
}

func uniq(a []string) []string {
	var out []string
	for i, x := range a {
		if i == 0 || x != a[i-1] {
			out = append(out, x)
		}
	}
	if out == nil {
		out = []string{}
	}
	return out
}

// escapeMatters: the method returns a slice/map/pointer rooted at guarded field o.F whose target is
// written later by some method. Pointers to structs whose fields are never assigned after
// construction (e.g. *cache.Item) are exempt.
func escapeMatters(f *fn, o Origin) bool {
	sig := f.obj.Type().(*types.Signature)
	for i := 0; i < sig.Results().Len(); i++ {
		t := sig.Results().At(i).Type()
		switch u := t.Underlying().(type) {
		case *types.Slice, *types.Map:
			return true
		case *types.Pointer:
			if st, ok := u.Elem().Underlying().(*types.Struct); ok {
				for j := 0; j < st.NumFields(); j++ {
					if mutableField[st.Field(j).Name()] {
						return true
					}
				}
				continue
			}
			return true
		case *types.Interface:
			// e.g. the trie's Queuer: an object with its own synchronisation
			continue
		}
	}
	return false
}

// traverseShape recognises the one permitted "send while holding" shape: the method starts a producer
// goroutine that sends on a channel created in the method, and the method itself does nothing but
// receive from that channel and run the user callback.
func traverseShape(f *fn) bool {
	var hasGo, hasRange bool
	for _, st := range f.decl.Body.List {
		switch x := st.(type) {
		case *ast.GoStmt:
			hasGo = true
		case *ast.RangeStmt:
			if t := f.pkg.TypesInfo.TypeOf(x.X); t != nil {
				if _, ok := t.Underlying().(*types.Chan); ok {
					hasRange = true
				}
			}
		}
	}
	return hasGo && hasRange
}

func effects() []outEffect {
	var out []outEffect
	for _, f := range order {
		if !f.obj.Exported() {
			continue
		}
		pk := f.pkg.Name
		if f.decl.Recv != nil {
			continue
		}
		if pk != "gogu" && !(pk == "heap" && (f.obj.Name() == "FromSlice" || f.obj.Name() == "Sort")) {
			continue
		}
		w := map[int]bool{}
		esc := map[int]bool{}
		for _, p := range f.sum.Paths {
			for _, sec := range p.Sects {
				for acc := range sec.Accs {
					if acc.W {
						w[acc.O.P] = true
					}
				}
			}
			for o := range p.Escape {
				esc[o.P] = true
			}
		}
		name := f.obj.Name()
		if pk == "heap" {
			name = "heap." + name
		}
		e := outEffect{Name: name, Writes: keys(w), Aliases: keys(esc)}
		if e.Writes == nil {
			e.Writes = []int{}
		}
		if e.Aliases == nil {
			e.Aliases = []int{}
		}
		if len(e.Writes) > 0 && selfAssignOnly(f) {
			e.SelfAssignOnly = true
		}
		out = append(out, e)
	}
	sort.Slice(out, func(i, j int) bool { return out[i].Name < out[j].Name })
	return out
}

// selfAssignOnly: every write through a parameter in f is of the form `m[k] = v` inside
// `for k, v := range m` (writing back the value just read).
func selfAssignOnly(f *fn) bool {
	ok := true
	found := false
	var rng []*ast.RangeStmt
	var visit func(n ast.Node) bool
	visit = func(n ast.Node) bool {
		switch x := n.(type) {
		case *ast.RangeStmt:
			rng = append(rng, x)
			ast.Inspect(x.Body, visit)
			rng = rng[:len(rng)-1]
			return false
		case *ast.AssignStmt:
			for i, l := range x.Lhs {
				ie, isIdx := l.(*ast.IndexExpr)
				if !isIdx {
					if _, isId := l.(*ast.Ident); isId {
						continue
					}
					if se, isSel := l.(*ast.SelectorExpr); isSel {
						_ = se
					}
					continue
				}
				// index write: must be m[k] = v with the innermost range over m binding k, v
				match := false
				if len(rng) > 0 && len(x.Rhs) == len(x.Lhs) {
					r := rng[len(rng)-1]
					if k, ok1 := r.Key.(*ast.Ident); ok1 {
						if v, ok2 := r.Value.(*ast.Ident); ok2 {
							if ik, ok3 := ie.Index.(*ast.Ident); ok3 && ik.Name == k.Name {
								if rv, ok4 := x.Rhs[i].(*ast.Ident); ok4 && rv.Name == v.Name {
									if types.ExprString(ie.X) == types.ExprString(r.X) {
										match = true
									}
								}
							}
						}
					}
				}
				// only index writes rooted at parameters matter; local results are fine
				if id := rootIdent(ie.X); id != nil {
					if obj := f.pkg.TypesInfo.Uses[id]; obj != nil {
						isParamRooted := false
						for _, p := range f.params {
							if p == obj {
								isParamRooted = true
							}
						}
						if !isParamRooted {
							// range value variable over a parameter (m in `for _, m := range mapSlice`)
							for _, r := range rng {
								if v, okv := r.Value.(*ast.Ident); okv && f.pkg.TypesInfo.Defs[v] == obj {
									isParamRooted = true
								}
							}
						}
						if isParamRooted {
							found = true
							if !match {
								ok = false
							}
						}
					}
				}
			}
		case *ast.CallExpr:
			if id, isId := x.Fun.(*ast.Ident); isId {
				if _, isB := f.pkg.TypesInfo.Uses[id].(*types.Builtin); isB {
					switch id.Name {
					case "delete", "copy", "clear":
						ok = false
					}
				}
			}
		}
		return true
	}
	ast.Inspect(f.decl.Body, visit)
	return ok && found
}

func rootIdent(e ast.Expr) *ast.Ident {
	for {
		switch x := e.(type) {
		case *ast.Ident:
			return x
		case *ast.IndexExpr:
			e = x.X
		case *ast.SelectorExpr:
			e = x.X
		case *ast.StarExpr:
			e = x.X
		case *ast.ParenExpr:
			e = x.X
		case *ast.SliceExpr:
			e = x.X
		default:
			return nil
		}
	}
}

func consts(pkgs []*packages.Package) map[string]string {
	out := map[string]string{}
	want := map[string]bool{"btree.maxChildren": true, "cache.NoExpiration": true, "cache.DefaultExpiration": true}
	for _, p := range pkgs {
		sc := p.Types.Scope()
		for _, n := range sc.Names() {
			if c, ok := sc.Lookup(n).(*types.Const); ok && want[p.Name+"."+n] {
				if v, ok := constant.Int64Val(constant.ToInt(c.Val())); ok {
					out[p.Name+"."+n] = fmt.Sprint(v)
				}
			}
		}
	}
	return out
}

func leanStr(s string) string { return "\"" + strings.ReplaceAll(s, "\"", "\\\"") + "\"" }

func leanMode(m string) string {
	switch m {
	case "r":
		return "some .r"
	case "w":
		return "some .w"
	}
	return "none"
}

func writeLockTable(path string, tab []outMethod) {
	// location numbering per type: guarded field names in sorted order
	locs := map[string]map[string]int{}
	for _, m := range tab {
		if locs[m.Type] == nil {
			locs[m.Type] = map[string]int{}
		}
		for _, p := range m.Paths {
			for _, s := range p.Sects {
				for _, a := range s.Accs {
					locs[m.Type][a.Loc] = 0
				}
			}
		}
	}
	for _, lm := range locs {
		var ns []string
		for n := range lm {
			ns = append(ns, n)
		}
		sort.Strings(ns)
		for i, n := range ns {
			lm[n] = i
		}
	}
	var sb strings.Builder
	sb.WriteString("import GoguVerif.Model.Lock\n/-! GENERATED by /verif/translator from /repo's current source — do not edit. -/\nnamespace GoguVerif.Gen\nopen GoguVerif.Model.Lock\n\n")
	sb.WriteString("def lockTable : List MethodEntry := [\n")
	for mi, m := range tab {
		fmt.Fprintf(&sb, "  { type := %s, method := %s, inst := %d, paths := [\n", leanStr(m.Type), leanStr(m.Method), m.Inst)
		for pi, p := range m.Paths {
			sb.WriteString("      { sects := [")
			for si, s := range p.Sects {
				if si > 0 {
					sb.WriteString(", ")
				}
				fmt.Fprintf(&sb, "⟨%s, [", leanMode(s.Mode))
				for ai, a := range s.Accs {
					if ai > 0 {
						sb.WriteString(", ")
					}
					fmt.Fprintf(&sb, "⟨%d, %v⟩", locs[m.Type][a.Loc], a.Write)
				}
				sb.WriteString("]⟩")
			}
			sb.WriteString("], flags := [")
			for fi, f := range p.Flags {
				if fi > 0 {
					sb.WriteString(", ")
				}
				sb.WriteString(leanStr(f))
			}
			sb.WriteString("] }")
			if pi < len(m.Paths)-1 {
				sb.WriteString(",")
			}
			sb.WriteString("\n")
		}
		sb.WriteString("    ] }")
		if mi < len(tab)-1 {
			sb.WriteString(",")
		}
		sb.WriteString("\n")
	}
	sb.WriteString("]\n\n/-- names of the abstract locations, per type -/\ndef locNames : List (String × List String) := [\n")
	var tns []string
	for t := range locs {
		tns = append(tns, t)
	}
	sort.Strings(tns)
	for ti, t := range tns {
		ns := make([]string, len(locs[t]))
		for n, i := range locs[t] {
			ns[i] = n
		}
		var q []string
		for _, n := range ns {
			q = append(q, leanStr(n))
		}
		fmt.Fprintf(&sb, "  (%s, [%s])", leanStr(t), strings.Join(q, ", "))
		if ti < len(tns)-1 {
			sb.WriteString(",")
		}
		sb.WriteString("\n")
	}
	sb.WriteString("]\n\nend GoguVerif.Gen\n")
	writeIfChanged(path, sb.String())
}

func intList(a []int) string {
	var q []string
	for _, x := range a {
		q = append(q, fmt.Sprint(x))
	}
	return "[" + strings.Join(q, ", ") + "]"
}

func writeEffects(path string, effs []outEffect) {
	var sb strings.Builder
	sb.WriteString("import GoguVerif.Model.Store\n/-! GENERATED by /verif/translator from /repo's current source — do not edit. -/\nnamespace GoguVerif.Gen\nopen GoguVerif.Model.Store\n\n")
	sb.WriteString("def effects : List EffectEntry := [\n")
	for i, e := range effs {
		fmt.Fprintf(&sb, "  { name := %s, writes := %s, aliases := %s, selfAssignOnly := %v }", leanStr(e.Name), intList(e.Writes), intList(e.Aliases), e.SelfAssignOnly)
		if i < len(effs)-1 {
			sb.WriteString(",")
		}
		sb.WriteString("\n")
	}
	sb.WriteString("]\n\nend GoguVerif.Gen\n")
	writeIfChanged(path, sb.String())
}

func writeConsts(path string, c map[string]string) {
	var sb strings.Builder
	sb.WriteString("/-! GENERATED by /verif/translator from /repo's current source — do not edit. -/\nnamespace GoguVerif.Gen\n\n")
	get := func(k, def string) string {
		if v, ok := c[k]; ok {
			return v
		}
		return def
	}
	fmt.Fprintf(&sb, "def maxChildren : Nat := %s\n", get("btree.maxChildren", "0"))
	fmt.Fprintf(&sb, "def noExpiration : Int := %s\n", get("cache.NoExpiration", "0"))
	fmt.Fprintf(&sb, "def defaultExpiration : Int := %s\n", get("cache.DefaultExpiration", "0"))
	sb.WriteString("\nend GoguVerif.Gen\n")
	writeIfChanged(path, sb.String())
}

// writeIfChanged keeps the mtime (and lake's build cache) when nothing changed.
func writeIfChanged(path, content string) {
	old, err := os.ReadFile(path)
	if err == nil && string(old) == content {
		return
	}
	if err := os.WriteFile(path, []byte(content), 0o644); err != nil {
		fmt.Fprintln(os.Stderr, "translator:", err)
		os.Exit(1)
	}
}

func main() {
	if len(os.Args) < 3 {
		fmt.Fprintln(os.Stderr, "usage: translator <repo dir> <Gen output dir> [facts.json]")
		os.Exit(2)
	}
	dir, outDir := os.Args[1], os.Args[2]
	pkgs := load(dir, ".", "./heap", "./bstree", "./btree", "./trie", "./queue", "./stack", "./cache", "./list")
	collect(pkgs)
	tab := lockTable()
	effs := effects()
	cs := consts(pkgs)
	os.MkdirAll(outDir, 0o755)
	writeLockTable(filepath.Join(outDir, "LockTable.lean"), tab)
	writeEffects(filepath.Join(outDir, "Effects.lean"), effs)
	writeConsts(filepath.Join(outDir, "Consts.lean"), cs)
	funcsLean, fragStatus := translateFrag()
	writeIfChanged(filepath.Join(outDir, "Funcs.lean"), funcsLean)
	contLean, contStatus := safely("translateContainers", func() (string, map[string]string) { return translateContainers() })
	writeIfChanged(filepath.Join(outDir, "Containers.lean"), contLean)
	for k, v := range contStatus {
		fragStatus[k] = v
	}
	heapLean, heapStatus := safely("translateHeap", func() (string, map[string]string) { return translateHeap() }) // frag_heap.go
	writeIfChanged(filepath.Join(outDir, "Heap.lean"), heapLean)
	for k, v := range heapStatus {
		fragStatus[k] = v
	}
	// trans2: the helpers outside frag.go's fragment (frag_more.go) -> Gen/Funcs2.lean
	moreLean, moreStatus := safely("translateMore", func() (string, map[string]string) { return translateMore() })
	writeIfChanged(filepath.Join(outDir, "Funcs2.lean"), moreLean)
	for k, v := range moreStatus {
		fragStatus[k] = v
	}
	// end trans2
	// trans3: cache/cache.go (frag_cache.go)
	cacheLean, cacheStatus := safely("translateCache", func() (string, map[string]string) { return translateCache() })
	writeIfChanged(filepath.Join(outDir, "Cache.lean"), cacheLean)
	for k, v := range cacheStatus {
		fragStatus[k] = v
	}
	// trans3 end
	// trans5: queue/lqueue.go, stack/lstack.go over the DSeq contract (frag_linked.go)
	linkedLean, linkedStatus := safely("translateLinked", func() (string, map[string]string) { return translateLinked() })
	writeIfChanged(filepath.Join(outDir, "Linked.lean"), linkedLean)
	for k, v := range linkedStatus {
		fragStatus[k] = v
	}
	// end trans5
	// trans4: bstree/bstree.go -> Gen/Bst.lean (frag_bst.go)
	bstLean, bstStatus := safely("translateBst", func() (string, map[string]string) { return translateBst() })
	writeIfChanged(filepath.Join(outDir, "Bst.lean"), bstLean)
	for k, v := range bstStatus {
		fragStatus[k] = v
	}
	// end trans4
	// trans8: list/slist.go, list/dlist.go at the pointer level (frag_list.go) -> Gen/Lists.lean
	listsLean, listsStatus := safely("translateLists", func() (string, map[string]string) { return translateLists() })
	writeIfChanged(filepath.Join(outDir, "Lists.lean"), listsLean)
	for k, v := range listsStatus {
		fragStatus[k] = v
	}
	// end trans8
	// trans6: trie/trie.go -> Gen/Trie.lean (frag_trie.go)
	trieLean, trieStatus := safely("translateTrie", func() (string, map[string]string) { return translateTrie() })
	writeIfChanged(filepath.Join(outDir, "Trie.lean"), trieLean)
	for k, v := range trieStatus {
		fragStatus[k] = v
	}
	// end trans6
	// trans7: After, Before, Once, Retry, RetryWithDelay of func.go + cache.Item.Val (frag_func.go) -> Gen/FuncWrap.lean
	fwLean, fwStatus := safely("translateFuncWrap", func() (string, map[string]string) { return translateFuncWrap(dir) })
	writeIfChanged(filepath.Join(outDir, "FuncWrap.lean"), fwLean)
	for k, v := range fwStatus {
		fragStatus[k] = v
	}
	// end trans7
	// trans9: cache/lrucache.go at pointer level over the store of Model/LruPtr.lean (frag_lru.go) -> Gen/Lru.lean
	lruLean, lruStatus := safely("translateLru", func() (string, map[string]string) { return translateLru() })
	writeIfChanged(filepath.Join(outDir, "Lru.lean"), lruLean)
	for k, v := range lruStatus {
		fragStatus[k] = v
	}
	// end trans9
	if len(os.Args) > 3 {
		b, _ := json.MarshalIndent(map[string]any{"lockTable": tab, "effects": effs, "consts": cs, "regeneratedFunctions": fragStatus}, "", " ")
		writeIfChanged(os.Args[3], string(b)+"\n")
	}
}
