package main

// Go -> Lean translation of bstree/bstree.go (Gen/Bst.lean).  A self-contained fragment next to frag.go / frag_heap.go,
// for code that walks and updates a tree of heap nodes through pointers.
// `Theorems/GenTieBst.lean` proves each regenerated definition equal to the definition of `Model/Bst.lean`.
//
// THE FRAGMENT AND ITS ASSUMED SEMANTICS (part of the trusted base).
//
// MODELLING DECISION.  A struct type with a field of type pointer-to-itself (`Node[K,V]`) is a NODE type.  A value of
// type `*Node` whose nodes are never shared (no node is reachable along two paths, no cycles) is a value of the
// generated inductive type: `nil` ↦ `Node.nil`, `&Node{…}` ↦ `Node.node <fields in declaration order>`; an embedded or
// nested struct field (`Item`) is a field of structure type.  A function that assigns `n.Left = …`, `n.Val = …` through a
// node parameter or receiver hands back the updated node after its results (functional update) and the caller rebinds
// the variable or field it passed; a call `n.Left.m(…)` on a field is recursion on a sub-term, so self-recursion on
// `n.Left` / `n.Right` and the loop `for ; cond; n = n.F {}` are STRUCTURAL recursion on the inductive value: no fuel.
// (A self-call on a value that is not a field of the opened receiver is outside the fragment.)
// Reading `x.F` of a node variable x not known to be non-nil is `match x with | .nil => Out.panic | .node … => …`
// (placed in front of the statement or condition in which the read occurs; a read under the right operand of
// `&&`/`||` of a variable not yet opened is outside the fragment).  `if x == nil {A} else {B}` is the same match with
// A in the nil branch, and x is known non-nil afterwards where A leaves.
// Transient aliases: a node-typed local obtained from a call or a field (`min := n.Right.min()`) is a COPY of the value
// at that moment; it may be read until a pointer field of any node is assigned or a node-writing function is called
// (then it is stale and a later read is outside the fragment); scalar writes to the root variable it was derived
// from (`n.Key = min.Key`) keep it.  Nothing may be written through it.
// A pointer to any other struct of the package (`*BsTree`) is a HANDLE: assumed non-nil, its fields (other than
// `sync.*`) are variables `<var>_<field>`; a function takes the fields it (or a callee) uses as parameters and hands back
// the fields it (or a callee) assigns.  So the comparator `b.comp` is a parameter `b_comp`.
//
// Types.  Type parameters ↦ `κ`, `ν` (by position) with `[Inhabited _]` (`default` = the zero value); Go integers ↦ `Int`
// (unbounded); `bool` ↦ `Bool`; `error` ↦ `Err := Option String` (`nil` ↦ `none`, a package-level error variable ↦ `some
// "<its name>"`); `[]T` ↦ `List T` (`append(s, x)` ↦ `s ++ [x]`; a value: no aliasing, no capacity); a function type with
// results ↦ a pure total Lean function; a function type WITHOUT results (`visit func(Item)`) ↦ an effectful callback
// `T → σ → σ` on an abstract world `σ` that the function threads (`w_`) and hands back last (assumed: the callback
// neither panics nor touches the tree).  A function literal passed as such a callback may only assign ONE captured
// local, which then is the world of that call.  `sync.*` values are not modelled; `Lock/Unlock/RLock/RUnlock` calls
// (also deferred) are skipped: what is translated is the body as one goroutine executes it alone (METHOD mode).
// Outcome.  A function that contains a partial operation or calls such a function returns `Out ρ` (`ok v`, `panic`, `hang`;
// `hang` is never produced here, it is kept so that the type has the shape of Gen/Heap.lean); a call of such a function
// and a call that hands back writes may only be a whole statement, the right-hand side of an assignment, or the
// operand of `return`.  An `if` has the statements that follow it translated once per branch that does not leave.
// `for _, x := range s { … }` is `List.foldl` over the assigned locals and the world (pure body only).
// Results and writes form one tuple, taken apart by projections: results, then written node parameters (receiver
// first), then written handle fields (parameter order, field order), then the world.
// Anything else makes the function "outside the translated fragment": it is omitted with a comment (and reported in
// facts.json); a tie theorem that mentions it then fails to build.  No per-function special case.

import (
	"fmt"
	"go/ast"
	"go/token"
	"go/types"
	"sort"
	"strings"
)

const (
	bkPlain = iota
	bkNode
	bkHandle
	bkEff
)

const bstPrelude = `/-- outcome of a translated call: a value, a Go run-time panic (nil dereference), or fuel exhausted (unused here) -/
inductive Out (β : Type) where
  | ok (b : β)
  | panic
  | hang
deriving Repr

/-- sequencing: panic and hang propagate -/
def Out.bind {β γ : Type} (x : Out β) (f : β → Out γ) : Out γ :=
  match x with
  | .ok b => f b
  | .panic => .panic
  | .hang => .hang

/-- Go's ` + "`error`" + `: ` + "`nil`" + ` = none, a package-level error variable = its name -/
abbrev Err := Option String

`

type bparam struct {
	v       *types.Var
	kind    int
	used    map[string]bool
	written map[string]bool
	nodeW   bool
}

type bsum struct {
	f      *fn
	key    string
	params []*bparam
	world  bool
}

type binfo struct {
	key    string
	ok     bool
	out    bool
	status string
	nres   int
}

type bval struct {
	lean      string
	t         types.Type
	kind      int
	open      bool
	dirty     bool
	pristine  bool
	noWrite   bool
	fs        []*bval
	fname     []string
	parent    *bval
	idx       int
	obj       types.Object // the Go variable at the root of this value
	alias     bool
	aliasRoot types.Object
	stale     bool
	param     *bparam
}

type benv struct {
	vars map[types.Object]*bval
}

func (e *benv) clone() *benv {
	memo := map[*bval]*bval{}
	var cp func(v *bval) *bval
	cp = func(v *bval) *bval {
		if v == nil {
			return nil
		}
		if w, ok := memo[v]; ok {
			return w
		}
		w := &bval{}
		*w = *v
		memo[v] = w
		w.parent = cp(v.parent)
		w.fs = nil
		for _, f := range v.fs {
			w.fs = append(w.fs, cp(f))
		}
		return w
	}
	n := &benv{vars: map[types.Object]*bval{}}
	for k, v := range e.vars {
		n.vars[k] = cp(v)
	}
	return n
}

type bctx struct {
	f       *fn
	info    *types.Info
	sum     *bsum
	name    string
	out     bool
	needOut bool
	err     string
	env     *benv
	aux     []string
	ntmp    int
	nloop   int
	inLit   int
	inLoop  int
	selfRec bool
	results []types.Type
}

var bSums map[*types.Func]*bsum
var bDone map[string]*binfo
var bBusy map[string]bool
var bOut *strings.Builder
var bStatus map[string]string
var bNodeFields map[string]bool

func (c *bctx) fail(format string, a ...any) string {
	if c.err == "" {
		c.err = fmt.Sprintf(format, a...)
	}
	return "sorryUnsupported"
}

// partialFail: the construct needs the outcome type
func (c *bctx) needsOut(what string) bool {
	if c.inLit > 0 {
		c.fail("%s inside a function literal or range body", what)
		return false
	}
	if !c.out {
		c.needOut = true
		c.fail("%s in a function translated without outcomes", what)
		return false
	}
	return true
}

// ---------- types ----------

func bNamedStruct(t types.Type) (*types.Named, *types.Struct) {
	t = types.Unalias(t)
	if p, ok := t.(*types.Pointer); ok {
		t = types.Unalias(p.Elem())
	}
	n, ok := t.(*types.Named)
	if !ok {
		return nil, nil
	}
	st, ok := n.Underlying().(*types.Struct)
	if !ok {
		return nil, nil
	}
	return n, st
}

func bIsNodeStruct(n *types.Named, st *types.Struct) bool {
	for i := 0; i < st.NumFields(); i++ {
		if p, ok := types.Unalias(st.Field(i).Type()).(*types.Pointer); ok {
			if m, ok := types.Unalias(p.Elem()).(*types.Named); ok && m.Origin().Obj() == n.Origin().Obj() {
				return true
			}
		}
	}
	return false
}

func bKind(t types.Type) int {
	t = types.Unalias(t)
	if _, ok := t.(*types.Pointer); ok {
		if n, st := bNamedStruct(t); n != nil {
			if bIsNodeStruct(n, st) {
				return bkNode
			}
			return bkHandle
		}
	}
	if sig, ok := t.Underlying().(*types.Signature); ok && sig.Results().Len() == 0 {
		return bkEff
	}
	return bkPlain
}

// bFields: the modelled fields of a struct (all but sync.*), as struct field indices
func bFields(st *types.Struct) []int {
	var r []int
	for i := 0; i < st.NumFields(); i++ {
		if !isSyncType(st.Field(i).Type()) {
			r = append(r, i)
		}
	}
	return r
}

var bGreek = []string{"κ", "ν", "τ"}

func isErrorType(t types.Type) bool {
	n, ok := types.Unalias(t).(*types.Named)
	return ok && n.Obj().Pkg() == nil && n.Obj().Name() == "error"
}

func (c *bctx) leanType(t types.Type) string {
	t = types.Unalias(t)
	switch u := t.(type) {
	case *types.TypeParam:
		if u.Index() < len(bGreek) {
			return bGreek[u.Index()]
		}
		return c.fail("more than %d type parameters", len(bGreek))
	case *types.Basic:
		switch {
		case u.Info()&types.IsInteger != 0:
			return "Int"
		case u.Info()&types.IsBoolean != 0:
			return "Bool"
		case u.Info()&types.IsString != 0:
			return "String"
		}
		return c.fail("type %s", u.String())
	case *types.Pointer:
		if bKind(u) == bkNode {
			return c.leanType(u.Elem())
		}
		return c.fail("pointer type %s as a value", u.String())
	case *types.Named:
		if isErrorType(u) {
			return "Err"
		}
		if _, ok := u.Underlying().(*types.Struct); ok {
			if isSyncType(u) {
				return c.fail("sync type as a value")
			}
			s := u.Obj().Name()
			if ta := u.TypeArgs(); ta != nil {
				for i := 0; i < ta.Len(); i++ {
					s += " " + c.leanType(ta.At(i))
				}
				return "(" + s + ")"
			}
			return s
		}
		return c.leanType(u.Underlying())
	case *types.Slice:
		return "(List " + c.leanType(u.Elem()) + ")"
	case *types.Signature:
		var ps []string
		for i := 0; i < u.Params().Len(); i++ {
			ps = append(ps, c.leanType(u.Params().At(i).Type()))
		}
		if u.Variadic() {
			return c.fail("variadic function type")
		}
		switch u.Results().Len() {
		case 0:
			ps = append(ps, "σ", "σ")
		case 1:
			ps = append(ps, c.leanType(u.Results().At(0).Type()))
		default:
			return c.fail("function type with several results")
		}
		return "(" + strings.Join(ps, " → ") + ")"
	}
	return c.fail("type %s", t.String())
}

func (c *bctx) zero(t types.Type) string {
	t = types.Unalias(t)
	switch u := t.(type) {
	case *types.TypeParam:
		return "default"
	case *types.Basic:
		switch {
		case u.Info()&types.IsInteger != 0:
			return "0"
		case u.Info()&types.IsBoolean != 0:
			return "false"
		case u.Info()&types.IsString != 0:
			return "\"\""
		}
	case *types.Pointer:
		if bKind(u) == bkNode {
			n, _ := bNamedStruct(u)
			return n.Obj().Name() + ".nil"
		}
	case *types.Slice:
		return "[]"
	case *types.Named:
		if isErrorType(u) {
			return "none"
		}
		if st, ok := u.Underlying().(*types.Struct); ok && !isSyncType(u) {
			s := u.Obj().Name() + ".mk"
			for _, i := range bFields(st) {
				s += " " + c.zero(st.Field(i).Type())
			}
			return "(" + s + ")"
		}
		if _, ok := u.Underlying().(*types.Signature); !ok {
			return c.zero(u.Underlying())
		}
	}
	return c.fail("zero value of %s", t.String())
}

// ---------- static summaries ----------

func bKey(f *fn) string {
	k := f.obj.Name()
	if f.decl.Recv != nil {
		k = recvTypeName(f.obj) + "_" + k
	}
	if f.pkg.Name != "bstree" {
		k = f.pkg.Name + "_" + k
	}
	return k
}

func bRootIdent(e ast.Expr) (*ast.Ident, []string) {
	var path []string
	for {
		switch x := e.(type) {
		case *ast.ParenExpr:
			e = x.X
			continue
		case *ast.SelectorExpr:
			path = append([]string{x.Sel.Name}, path...)
			e = x.X
			continue
		case *ast.Ident:
			return x, path
		}
		return nil, nil
	}
}

func bCallee(info *types.Info, call *ast.CallExpr) *types.Func {
	fun := call.Fun
	for {
		switch x := fun.(type) {
		case *ast.ParenExpr:
			fun = x.X
			continue
		case *ast.IndexExpr:
			fun = x.X
			continue
		case *ast.IndexListExpr:
			fun = x.X
			continue
		case *ast.Ident:
			if m, ok := info.Uses[x].(*types.Func); ok {
				return m.Origin()
			}
		case *ast.SelectorExpr:
			if m, ok := info.Uses[x.Sel].(*types.Func); ok {
				return m.Origin()
			}
		}
		return nil
	}
}

// bCallArgs: the argument expressions of a call, receiver first for a method call
func bCallArgs(callee *types.Func, call *ast.CallExpr) []ast.Expr {
	var args []ast.Expr
	if callee.Type().(*types.Signature).Recv() != nil {
		if sel, ok := call.Fun.(*ast.SelectorExpr); ok {
			args = append(args, sel.X)
		} else {
			args = append(args, nil)
		}
	}
	return append(args, call.Args...)
}

func buildBstSummaries() {
	bSums = map[*types.Func]*bsum{}
	var list []*bsum
	for _, f := range order {
		s := &bsum{f: f, key: bKey(f)}
		for _, p := range f.params {
			bp := &bparam{v: p, kind: bKind(p.Type()), used: map[string]bool{}, written: map[string]bool{}}
			if bp.kind == bkEff {
				s.world = true
			}
			s.params = append(s.params, bp)
		}
		bSums[f.obj] = s
		list = append(list, s)
	}
	paramOf := func(s *bsum, info *types.Info, id *ast.Ident) *bparam {
		if id == nil {
			return nil
		}
		o := info.Uses[id]
		for _, p := range s.params {
			if types.Object(p.v) == o {
				return p
			}
		}
		return nil
	}
	for round := 0; round < 12; round++ {
		changed := false
		set := func(m map[string]bool, k string) {
			if !m[k] {
				m[k] = true
				changed = true
			}
		}
		for _, s := range list {
			info := s.f.pkg.TypesInfo
			noteWrite := func(e ast.Expr) {
				id, path := bRootIdent(e)
				p := paramOf(s, info, id)
				if p == nil || len(path) == 0 {
					return
				}
				switch p.kind {
				case bkNode:
					if !p.nodeW {
						p.nodeW = true
						changed = true
					}
				case bkHandle:
					set(p.written, path[0])
					set(p.used, path[0])
				}
			}
			ast.Inspect(s.f.decl.Body, func(n ast.Node) bool {
				switch x := n.(type) {
				case *ast.AssignStmt:
					if x.Tok != token.DEFINE {
						for _, l := range x.Lhs {
							noteWrite(l)
						}
					}
				case *ast.IncDecStmt:
					noteWrite(x.X)
				case *ast.SelectorExpr:
					if id, ok := x.X.(*ast.Ident); ok {
						if p := paramOf(s, info, id); p != nil && p.kind == bkHandle {
							if sel := info.Selections[x]; sel != nil && sel.Kind() == types.FieldVal && !isSyncType(sel.Obj().Type()) {
								set(p.used, x.Sel.Name)
							}
						}
					}
				case *ast.CallExpr:
					callee := bCallee(info, x)
					if callee == nil {
						return true
					}
					cs := bSums[callee]
					if cs == nil {
						return true
					}
					args := bCallArgs(callee, x)
					for j, cp := range cs.params {
						if j >= len(args) || args[j] == nil {
							continue
						}
						id, path := bRootIdent(args[j])
						p := paramOf(s, info, id)
						if p == nil {
							continue
						}
						switch cp.kind {
						case bkHandle:
							if p.kind == bkHandle && len(path) == 0 {
								for k := range cp.used {
									set(p.used, k)
								}
								for k := range cp.written {
									set(p.written, k)
								}
							}
						case bkNode:
							if cp.nodeW {
								if p.kind == bkNode && len(path) > 0 && !p.nodeW {
									p.nodeW = true
									changed = true
								}
								if p.kind == bkHandle && len(path) > 0 {
									set(p.written, path[0])
									set(p.used, path[0])
								}
							}
						}
					}
				}
				return true
			})
		}
		if !changed {
			break
		}
	}
}

// ---------- environment ----------

func (c *bctx) newVal(lean string, t types.Type, obj types.Object) *bval {
	return &bval{lean: lean, t: t, kind: bKind(t), obj: obj}
}

func nodeTypeName(t types.Type) string {
	n, _ := bNamedStruct(t)
	if n == nil {
		return "Node"
	}
	return n.Obj().Name()
}

// openVal: destructure a node value; returns the match pattern
func (c *bctx) openVal(v *bval) string {
	_, st := bNamedStruct(v.t)
	v.open = true
	v.dirty = false
	v.fs = nil
	v.fname = nil
	pat := "." + "node"
	for k, i := range bFields(st) {
		fl := st.Field(i)
		ch := c.newVal(v.lean+"_"+fl.Name(), fl.Type(), v.obj)
		ch.parent = v
		ch.idx = k
		ch.pristine = true
		ch.noWrite = v.noWrite
		ch.alias = v.alias
		ch.aliasRoot = v.aliasRoot
		v.fs = append(v.fs, ch)
		v.fname = append(v.fname, fl.Name())
		pat += " " + ch.lean
	}
	return pat
}

// handleVal: the variable of a handle parameter, with the used fields as variables
func (c *bctx) handleVal(name string, p *bparam) *bval {
	_, st := bNamedStruct(p.v.Type())
	v := &bval{lean: name, t: p.v.Type(), kind: bkHandle, obj: p.v, param: p, open: true}
	for k, i := range bFields(st) {
		fl := st.Field(i)
		ch := c.newVal(name+"_"+fl.Name(), fl.Type(), p.v)
		ch.parent = v
		ch.idx = k
		if !p.used[fl.Name()] {
			ch.lean = ""
		}
		v.fs = append(v.fs, ch)
		v.fname = append(v.fname, fl.Name())
	}
	return v
}

func (c *bctx) whole(v *bval) string {
	if v.stale {
		return c.fail("read of the node variable %s after the tree it points into was modified", v.lean)
	}
	if v.kind == bkNode && v.open && v.dirty {
		s := nodeTypeName(v.t) + ".node"
		for _, f := range v.fs {
			s += " " + c.whole(f)
		}
		return "(" + s + ")"
	}
	if v.kind == bkHandle {
		return c.fail("handle %s used as a value", v.lean)
	}
	if v.lean == "" {
		return c.fail("internal: field not in the summary")
	}
	return v.lean
}

// rebind: the value in slot v (a variable or a field of an open value) is now held by the Lean variable `name`
func (c *bctx) rebind(v *bval, name string) *bval {
	nv := c.newVal(name, v.t, v.obj)
	nv.parent = v.parent
	nv.idx = v.idx
	nv.noWrite = v.noWrite
	nv.param = v.param
	if v.parent != nil {
		v.parent.fs[v.idx] = nv
		for p := v.parent; p != nil; p = p.parent {
			p.dirty = true
		}
	} else if v.obj != nil {
		c.env.vars[v.obj] = nv
	}
	return nv
}

func (c *bctx) staleAliases(except func(v *bval) bool) {
	for _, v := range c.env.vars {
		if v.alias && v.kind == bkNode && !(except != nil && except(v)) {
			v.stale = true
		}
	}
}

func (c *bctx) fieldIndex(v *bval, name string) int {
	for i, n := range v.fname {
		if n == name {
			return i
		}
	}
	return -1
}

// resolve: the slot denoted by `x`, `x.F`, `x.F.G` (nodes opened already, handles); nil if the expression is not a slot
func (c *bctx) resolve(e ast.Expr) *bval {
	switch x := e.(type) {
	case *ast.ParenExpr:
		return c.resolve(x.X)
	case *ast.Ident:
		if o := c.info.Uses[x]; o != nil {
			return c.env.vars[o]
		}
		if o := c.info.Defs[x]; o != nil {
			return c.env.vars[o]
		}
	case *ast.SelectorExpr:
		sel := c.info.Selections[x]
		if sel == nil || sel.Kind() != types.FieldVal || len(sel.Index()) != 1 {
			return nil
		}
		b := c.resolve(x.X)
		if b == nil || !b.open || (b.kind != bkNode && b.kind != bkHandle) {
			return nil
		}
		if i := c.fieldIndex(b, x.Sel.Name); i >= 0 {
			return b.fs[i]
		}
	}
	return nil
}

type bopen struct{ scrut, pat string }

// collectOpens: open (in evaluation order) every node variable a field of which is read or written in e
func (c *bctx) collectOpens(e ast.Expr, opened *[]bopen, underSC bool) {
	if e == nil {
		return
	}
	switch x := e.(type) {
	case *ast.ParenExpr:
		c.collectOpens(x.X, opened, underSC)
	case *ast.SelectorExpr:
		sel := c.info.Selections[x]
		if sel == nil {
			return // qualified identifier
		}
		c.collectOpens(x.X, opened, underSC)
		if sel.Kind() == types.FieldVal && bKind(c.info.TypeOf(x.X)) == bkNode {
			v := c.resolve(x.X)
			if v == nil {
				c.fail("field of a node expression that is not a variable or a field path")
				return
			}
			if !v.open {
				if v.stale {
					c.fail("read of the node variable %s after the tree it points into was modified", v.lean)
					return
				}
				if underSC {
					c.fail("nil dereference possible under a short-circuit operand")
					return
				}
				if !c.needsOut("a possible nil dereference") {
					return
				}
				scrut := v.lean
				*opened = append(*opened, bopen{scrut, c.openVal(v)})
			}
		}
	case *ast.BinaryExpr:
		c.collectOpens(x.X, opened, underSC)
		c.collectOpens(x.Y, opened, underSC || x.Op == token.LAND || x.Op == token.LOR)
	case *ast.UnaryExpr:
		c.collectOpens(x.X, opened, underSC)
	case *ast.CallExpr:
		if sel, ok := x.Fun.(*ast.SelectorExpr); ok {
			if s := c.info.Selections[sel]; s != nil {
				if s.Kind() == types.MethodVal {
					c.collectOpens(sel.X, opened, underSC)
				} else {
					c.collectOpens(sel, opened, underSC)
				}
			}
		}
		for _, a := range x.Args {
			c.collectOpens(a, opened, underSC)
		}
	case *ast.CompositeLit:
		for _, el := range x.Elts {
			if kv, ok := el.(*ast.KeyValueExpr); ok {
				c.collectOpens(kv.Value, opened, underSC)
			} else {
				c.collectOpens(el, opened, underSC)
			}
		}
	case *ast.FuncLit:
		// translated in its own scope
	}
}

func (c *bctx) withOpens(es []ast.Expr, body func() string) string {
	var opened []bopen
	for _, e := range es {
		c.collectOpens(e, &opened, false)
	}
	inner := body()
	for i := len(opened) - 1; i >= 0; i-- {
		inner = "match " + opened[i].scrut + " with\n| .nil => Out.panic\n| " + opened[i].pat + " =>\n" + indent(inner, 2)
	}
	return inner
}

func (c *bctx) branch(body func() string) string {
	saved := c.env
	c.env = saved.clone()
	r := body()
	c.env = saved
	return r
}

func (c *bctx) tmp(base string) string {
	c.ntmp++
	return fmt.Sprintf("%s%d_", base, c.ntmp)
}

// ---------- expressions (pure; the node variables they read are open) ----------

func bTupleOf(vals []string) string {
	switch len(vals) {
	case 0:
		return "()"
	case 1:
		return vals[0]
	}
	return "(" + strings.Join(vals, ", ") + ")"
}

func bTypeTuple(ts []string) string {
	switch len(ts) {
	case 0:
		return "Unit"
	case 1:
		return ts[0]
	}
	return "(" + strings.Join(ts, " × ") + ")"
}

func bProj(r string, i, n int) string {
	if n == 1 {
		return r
	}
	s := r + strings.Repeat(".2", i)
	if i < n-1 {
		s += ".1"
	}
	return s
}

func (c *bctx) isMutexCall(e ast.Expr) bool {
	call, ok := e.(*ast.CallExpr)
	if !ok || len(call.Args) != 0 {
		return false
	}
	sel, ok := call.Fun.(*ast.SelectorExpr)
	if !ok {
		return false
	}
	switch sel.Sel.Name {
	case "Lock", "Unlock", "RLock", "RUnlock":
		return isSyncType(c.info.TypeOf(sel.X))
	}
	return false
}

func (c *bctx) isNil(e ast.Expr) bool {
	id, ok := e.(*ast.Ident)
	if !ok || id.Name != "nil" {
		return false
	}
	_, isNil := c.info.Uses[id].(*types.Nil)
	return isNil
}

func (c *bctx) expr(e ast.Expr) string {
	switch x := e.(type) {
	case *ast.ParenExpr:
		return c.expr(x.X)
	case *ast.BasicLit:
		if x.Kind == token.INT {
			return x.Value
		}
		if x.Kind == token.STRING {
			return x.Value
		}
		return c.fail("literal %s", x.Value)
	case *ast.Ident:
		if c.isNil(x) {
			return c.zero(c.info.TypeOf(x))
		}
		switch o := c.info.Uses[x].(type) {
		case *types.Const:
			if x.Name == "true" || x.Name == "false" {
				return x.Name
			}
			return c.fail("constant %s", x.Name)
		case *types.Var:
			if v := c.env.vars[o]; v != nil {
				return c.whole(v)
			}
			if o.Parent() == o.Pkg().Scope() && isErrorType(o.Type()) {
				return "(some \"" + o.Name() + "\")"
			}
			return c.fail("variable %s", x.Name)
		}
		return c.fail("identifier %s", x.Name)
	case *ast.UnaryExpr:
		switch x.Op {
		case token.SUB:
			return "(-" + c.expr(x.X) + ")"
		case token.NOT:
			return "(!" + c.expr(x.X) + ")"
		case token.AND:
			if cl, ok := x.X.(*ast.CompositeLit); ok && bKind(c.info.TypeOf(x)) == bkNode {
				return c.composite(cl, true)
			}
		}
		return c.fail("operator %s", x.Op)
	case *ast.BinaryExpr:
		return c.binary(x)
	case *ast.SelectorExpr:
		sel := c.info.Selections[x]
		if sel == nil {
			if o, ok := c.info.Uses[x.Sel].(*types.Var); ok && isErrorType(o.Type()) {
				return "(some \"" + o.Name() + "\")"
			}
			return c.fail("qualified identifier %s", x.Sel.Name)
		}
		if sel.Kind() != types.FieldVal {
			return c.fail("method value")
		}
		if v := c.resolve(x); v != nil {
			return c.whole(v)
		}
		// promoted / nested field: the first selection step is a slot, the rest are projections
		bk := bKind(c.info.TypeOf(x.X))
		if bk == bkNode || bk == bkHandle {
			b := c.resolve(x.X)
			if b == nil || !b.open {
				return c.fail("field of a node expression that is not an opened variable")
			}
			_, st := bNamedStruct(b.t)
			idx := sel.Index()
			fl := st.Field(idx[0])
			i := c.fieldIndex(b, fl.Name())
			if i < 0 {
				return c.fail("field %s", fl.Name())
			}
			s := c.whole(b.fs[i])
			t := fl.Type()
			for _, j := range idx[1:] {
				_, st2 := bNamedStruct(t)
				if st2 == nil {
					return c.fail("nested field path")
				}
				s += "." + st2.Field(j).Name()
				t = st2.Field(j).Type()
			}
			return s
		}
		if _, st := bNamedStruct(c.info.TypeOf(x.X)); st != nil && len(sel.Index()) == 1 {
			return c.expr(x.X) + "." + x.Sel.Name
		}
		return c.fail("selector %s", x.Sel.Name)
	case *ast.CompositeLit:
		return c.composite(x, false)
	case *ast.CallExpr:
		return c.callExpr(x)
	}
	return c.fail("expression %T", e)
}

// exprAs: e where a value of type t is expected (an untyped nil takes that type)
func (c *bctx) exprAs(e ast.Expr, t types.Type) string {
	if p, ok := e.(*ast.ParenExpr); ok {
		return c.exprAs(p.X, t)
	}
	if c.isNil(e) {
		return c.zero(t)
	}
	return c.expr(e)
}

func (c *bctx) composite(x *ast.CompositeLit, addr bool) string {
	t := c.info.TypeOf(x)
	n, st := bNamedStruct(t)
	if st == nil || isSyncType(t) {
		return c.fail("composite literal of type %s", t.String())
	}
	isNode := bIsNodeStruct(n, st)
	if isNode != addr {
		return c.fail("node literal without & / address of a plain struct")
	}
	vals := map[int]string{}
	for k, el := range x.Elts {
		if kv, ok := el.(*ast.KeyValueExpr); ok {
			id, ok := kv.Key.(*ast.Ident)
			if !ok {
				return c.fail("composite literal key")
			}
			found := false
			for i := 0; i < st.NumFields(); i++ {
				if st.Field(i).Name() == id.Name {
					vals[i] = c.exprAs(kv.Value, st.Field(i).Type())
					found = true
				}
			}
			if !found {
				return c.fail("composite literal key %s", id.Name)
			}
		} else {
			vals[k] = c.exprAs(el, st.Field(k).Type())
		}
	}
	s := n.Obj().Name() + ".mk"
	if isNode {
		s = n.Obj().Name() + ".node"
	}
	for _, i := range bFields(st) {
		if v, ok := vals[i]; ok {
			s += " " + v
		} else {
			s += " " + c.zero(st.Field(i).Type())
		}
	}
	return "(" + s + ")"
}

func (c *bctx) binary(x *ast.BinaryExpr) string {
	tx := c.info.TypeOf(x.X)
	switch x.Op {
	case token.LAND:
		return "(" + c.expr(x.X) + " && " + c.expr(x.Y) + ")"
	case token.LOR:
		return "(" + c.expr(x.X) + " || " + c.expr(x.Y) + ")"
	case token.EQL, token.NEQ:
		neg := func(s string) string {
			if x.Op == token.NEQ {
				return "(!" + s + ")"
			}
			return s
		}
		other := x.X
		isNilCmp := false
		if c.isNil(x.Y) {
			isNilCmp = true
		} else if c.isNil(x.X) {
			isNilCmp = true
			other = x.Y
		}
		if isNilCmp {
			to := c.info.TypeOf(other)
			switch {
			case bKind(to) == bkNode:
				return neg("(" + nodeTypeName(to) + ".isNil " + c.expr(other) + ")")
			case isErrorType(to):
				return neg("(Option.isNone " + c.expr(other) + ")")
			}
			return c.fail("comparison with nil of type %s", to.String())
		}
		if b, ok := types.Unalias(tx).Underlying().(*types.Basic); ok && b.Info()&(types.IsInteger|types.IsBoolean|types.IsString) != 0 {
			if x.Op == token.NEQ {
				return "(" + c.expr(x.X) + " != " + c.expr(x.Y) + ")"
			}
			return "(" + c.expr(x.X) + " == " + c.expr(x.Y) + ")"
		}
		return c.fail("== on type %s", tx.String())
	}
	b, ok := types.Unalias(tx).Underlying().(*types.Basic)
	if !ok || b.Info()&types.IsInteger == 0 {
		return c.fail("operator %s on type %s", x.Op, tx.String())
	}
	l, r := c.expr(x.X), c.expr(x.Y)
	switch x.Op {
	case token.ADD:
		return "(" + l + " + " + r + ")"
	case token.SUB:
		return "(" + l + " - " + r + ")"
	case token.MUL:
		return "(" + l + " * " + r + ")"
	case token.LSS:
		return "(decide (" + l + " < " + r + "))"
	case token.LEQ:
		return "(decide (" + l + " ≤ " + r + "))"
	case token.GTR:
		return "(decide (" + l + " > " + r + "))"
	case token.GEQ:
		return "(decide (" + l + " ≥ " + r + "))"
	case token.QUO, token.REM:
		if lit, ok := x.Y.(*ast.BasicLit); ok && lit.Kind == token.INT && strings.Trim(lit.Value, "0") != "" {
			if x.Op == token.QUO {
				return "(Int.tdiv " + l + " " + r + ")"
			}
			return "(Int.tmod " + l + " " + r + ")"
		}
		return c.fail("division by a non-literal")
	}
	return c.fail("operator %s", x.Op)
}

// callExpr: a call inside an expression: builtins, pure function values, pure translated functions
func (c *bctx) callExpr(x *ast.CallExpr) string {
	if id, ok := x.Fun.(*ast.Ident); ok {
		if _, isB := c.info.Uses[id].(*types.Builtin); isB {
			switch id.Name {
			case "append":
				if x.Ellipsis != token.NoPos || len(x.Args) < 2 {
					return c.fail("append form")
				}
				var els []string
				for _, a := range x.Args[1:] {
					els = append(els, c.expr(a))
				}
				return "(" + c.expr(x.Args[0]) + " ++ [" + strings.Join(els, ", ") + "])"
			case "len":
				if _, ok := types.Unalias(c.info.TypeOf(x.Args[0])).Underlying().(*types.Slice); ok {
					return "(Int.ofNat (List.length " + c.expr(x.Args[0]) + "))"
				}
			}
			return c.fail("builtin %s", id.Name)
		}
	}
	if callee := bCallee(c.info, x); callee != nil {
		term, info, wbs, world := c.buildCall(callee, x)
		if c.err != "" {
			return "sorryUnsupported"
		}
		if info.out {
			if !c.out && c.inLit == 0 {
				c.needOut = true
			}
			return c.fail("call of the partial function %s inside an expression", info.key)
		}
		if len(wbs) != 0 || world != nil {
			return c.fail("call of the writing function %s inside an expression", info.key)
		}
		return "(" + term + ")"
	}
	// a function value with one result: a pure total function
	if sig, ok := types.Unalias(c.info.TypeOf(x.Fun)).Underlying().(*types.Signature); ok && sig.Results().Len() == 1 {
		s := c.expr(x.Fun)
		for _, a := range x.Args {
			s += " " + c.expr(a)
		}
		return "(" + s + ")"
	}
	return c.fail("call form")
}

// bwb: a value handed back by a callee and the slot that receives it
type bwb struct {
	slot *bval
}

type bworld struct {
	arg  string
	slot *bval // nil: the function's own world w_
}

// buildCall: callee term with arguments; the slots written back (in the callee's hand-back order); the world, if any
func (c *bctx) buildCall(callee *types.Func, x *ast.CallExpr) (string, *binfo, []bwb, *bworld) {
	cs := bSums[callee]
	if cs == nil {
		c.fail("call of %s (no source)", callee.Name())
		return "", &binfo{}, nil, nil
	}
	info := c.infoFor(cs)
	if !info.ok {
		c.fail("callee %s is outside the fragment", cs.key)
		return "", info, nil, nil
	}
	args := bCallArgs(callee, x)
	if len(args) != len(cs.params) {
		c.fail("call of %s: argument count (variadic?)", cs.key)
		return "", info, nil, nil
	}
	term := cs.key
	var nodeWbs, fieldWbs []bwb
	var world *bworld
	for j, cp := range cs.params {
		a := args[j]
		if a == nil {
			c.fail("method expression")
			return "", info, nil, nil
		}
		switch cp.kind {
		case bkNode:
			v := c.resolve(a)
			if cp.nodeW {
				if v == nil || v.kind != bkNode {
					c.fail("%s writes through its node argument, which is not a variable or field here", cs.key)
					return "", info, nil, nil
				}
				if v.noWrite || v.alias {
					c.fail("%s writes through a node variable that is an alias or was reassigned", cs.key)
					return "", info, nil, nil
				}
				nodeWbs = append(nodeWbs, bwb{v})
			}
			if cs == c.sum {
				c.selfRec = true
				if v == nil || !v.pristine {
					c.fail("self-recursion on a value that is not a field of the opened receiver (not structural)")
				}
			}
			if v != nil {
				term += " " + c.whole(v)
			} else {
				term += " " + c.exprAs(a, cp.v.Type())
			}
		case bkHandle:
			v := c.resolve(a)
			if v == nil || v.kind != bkHandle || v.parent != nil {
				c.fail("handle argument of %s is not a handle variable", cs.key)
				return "", info, nil, nil
			}
			_, st := bNamedStruct(cp.v.Type())
			for _, i := range bFields(st) {
				fn := st.Field(i).Name()
				k := c.fieldIndex(v, fn)
				if cp.used[fn] {
					term += " " + c.whole(v.fs[k])
				}
				if cp.written[fn] {
					fieldWbs = append(fieldWbs, bwb{v.fs[k]})
				}
			}
		case bkEff:
			if world != nil {
				c.fail("several callbacks in one call")
				return "", info, nil, nil
			}
			switch ax := a.(type) {
			case *ast.Ident:
				v := c.resolve(ax)
				if v == nil || v.kind != bkEff {
					c.fail("callback argument %s", ax.Name)
					return "", info, nil, nil
				}
				term += " " + v.lean
				world = &bworld{arg: "w_"}
			case *ast.FuncLit:
				lit, slot := c.effLit(ax)
				if slot == nil {
					return "", info, nil, nil
				}
				term += " " + lit
				world = &bworld{arg: c.whole(slot), slot: slot}
			default:
				c.fail("callback argument form")
				return "", info, nil, nil
			}
		default:
			term += " " + c.exprAs(a, cp.v.Type())
		}
	}
	if cs.world {
		if world == nil {
			c.fail("internal: world")
			return "", info, nil, nil
		}
		term += " " + world.arg
	}
	return term, info, append(nodeWbs, fieldWbs...), world
}

// effLit: `func(x T) { v = e }` as a world transformer on the one captured local v it assigns
func (c *bctx) effLit(lit *ast.FuncLit) (string, *bval) {
	var captured types.Object
	bad := false
	ast.Inspect(lit.Body, func(n ast.Node) bool {
		if as, ok := n.(*ast.AssignStmt); ok {
			for _, l := range as.Lhs {
				id, ok := l.(*ast.Ident)
				if !ok {
					bad = true
					continue
				}
				if o := c.info.Uses[id]; o != nil && c.env.vars[o] != nil {
					if captured != nil && captured != o {
						bad = true
					}
					captured = o
				}
			}
		}
		return true
	})
	if bad || captured == nil {
		c.fail("function literal: it must assign exactly one captured local")
		return "", nil
	}
	slot := c.env.vars[captured]
	if slot.kind != bkPlain || slot.parent != nil {
		c.fail("function literal: captured variable kind")
		return "", nil
	}
	saved, savedOut := c.env, c.out
	c.env = saved.clone()
	c.out = false
	c.inLit++
	var ps []string
	for _, f := range lit.Type.Params.List {
		for _, nm := range f.Names {
			o := c.info.Defs[nm]
			c.env.vars[o] = c.newVal(lv(nm.Name), o.Type(), o)
			ps = append(ps, "("+lv(nm.Name)+" : "+c.leanType(o.Type())+")")
		}
	}
	if lit.Type.Results != nil && len(lit.Type.Results.List) > 0 {
		c.fail("function literal with results as a callback")
	}
	ps = append(ps, "("+slot.lean+" : "+c.leanType(slot.t)+")")
	body := c.stmts(lit.Body.List, func() string { return c.whole(c.env.vars[captured]) })
	c.inLit--
	c.env, c.out = saved, savedOut
	if c.err != "" {
		return "", nil
	}
	return "(fun " + strings.Join(ps, " ") + " =>\n" + indent(body, 2) + ")", slot
}

// ---------- statements ----------

func (c *bctx) let(name, typ, val, body string) string {
	return "let " + name + " : " + typ + " := " + val + "\n" + body
}

// assignTo: store the (already translated) value val in the slot denoted by lhs, then continue
func (c *bctx) assignTo(lhs ast.Expr, val string, aliasRoot types.Object, body func() string) string {
	switch x := lhs.(type) {
	case *ast.ParenExpr:
		return c.assignTo(x.X, val, aliasRoot, body)
	case *ast.Ident:
		if x.Name == "_" {
			return body()
		}
		if o := c.info.Defs[x]; o != nil {
			v := c.newVal(lv(x.Name), o.Type(), o)
			if v.kind == bkNode {
				v.alias = true
				v.aliasRoot = aliasRoot
				v.noWrite = true
			}
			if v.kind == bkHandle || v.kind == bkEff {
				return c.fail("local of handle or callback type")
			}
			typ := c.leanType(o.Type())
			c.env.vars[o] = v
			return c.let(v.lean, typ, val, body())
		}
		o := c.info.Uses[x]
		v := c.env.vars[o]
		if v == nil {
			return c.fail("assignment to %s", x.Name)
		}
		switch v.kind {
		case bkPlain:
			typ := c.leanType(v.t)
			nv := c.rebind(v, v.lean)
			_ = nv
			return c.let(v.lean, typ, val, body())
		case bkNode:
			if v.param != nil && v.param.nodeW {
				return c.fail("node parameter %s is reassigned and written through", x.Name)
			}
			typ := c.leanType(v.t)
			name := lv(x.Name)
			nv := c.newVal(name, v.t, o)
			nv.noWrite = true
			nv.param = v.param
			nv.alias = v.alias
			nv.aliasRoot = v.aliasRoot
			c.env.vars[o] = nv
			return c.let(name, typ, val, body())
		}
		return c.fail("assignment to %s", x.Name)
	case *ast.SelectorExpr:
		sel := c.info.Selections[x]
		if sel == nil || sel.Kind() != types.FieldVal {
			return c.fail("assignment target")
		}
		bk := bKind(c.info.TypeOf(x.X))
		if bk != bkNode && bk != bkHandle {
			// a field of a plain struct variable
			if id, ok := x.X.(*ast.Ident); ok && len(sel.Index()) == 1 {
				if v := c.resolve(id); v != nil && v.kind == bkPlain && v.parent == nil {
					typ := c.leanType(v.t)
					c.rebind(v, v.lean)
					return c.let(v.lean, typ, "{ "+v.lean+" with "+x.Sel.Name+" := "+val+" }", body())
				}
			}
			return c.fail("assignment target")
		}
		b := c.resolve(x.X)
		if b == nil || !b.open {
			return c.fail("assignment to a field of something that is not a variable or field path")
		}
		if b.noWrite {
			return c.fail("write through a node variable that is an alias or was reassigned")
		}
		_, st := bNamedStruct(b.t)
		idx := sel.Index()
		fl := st.Field(idx[0])
		i := c.fieldIndex(b, fl.Name())
		if i < 0 {
			return c.fail("field %s", fl.Name())
		}
		slot := b.fs[i]
		if slot.lean == "" {
			return c.fail("internal: field not in the summary")
		}
		if b.kind == bkNode {
			if slot.kind == bkNode {
				c.staleAliases(nil)
			} else {
				c.staleAliases(func(a *bval) bool { return b.parent == nil && a.aliasRoot != nil && a.aliasRoot == b.obj })
			}
		} else if slot.kind == bkNode {
			c.staleAliases(nil)
		}
		name := slot.lean
		typ := c.leanType(slot.t)
		if len(idx) > 1 {
			cur := c.whole(slot)
			t := fl.Type()
			var path []string
			for _, j := range idx[1:] {
				_, st2 := bNamedStruct(t)
				if st2 == nil {
					return c.fail("nested field path")
				}
				path = append(path, st2.Field(j).Name())
				t = st2.Field(j).Type()
			}
			if len(path) != 1 {
				return c.fail("nested field path of depth %d", len(path)+1)
			}
			val = "{ " + cur + " with " + path[0] + " := " + val + " }"
		}
		c.rebind(slot, name)
		return c.let(name, typ, val, body())
	}
	return c.fail("assignment target %T", lhs)
}

// callThen: a call as a statement; after receives the terms of the Go results (writes are already rebound)
func (c *bctx) callThen(x *ast.CallExpr, after func(res []string, aliasRoot types.Object) string) string {
	// a call of an effectful callback variable
	if id, ok := x.Fun.(*ast.Ident); ok {
		if v := c.resolve(id); v != nil && v.kind == bkEff {
			return c.withOpens(x.Args, func() string {
				s := v.lean
				for _, a := range x.Args {
					s += " " + c.expr(a)
				}
				return c.let("w_", "σ", s+" w_", after(nil, nil))
			})
		}
	}
	callee := bCallee(c.info, x)
	if callee == nil {
		return c.fail("call form")
	}
	var all []ast.Expr
	for _, a := range bCallArgs(callee, x) {
		if a != nil {
			all = append(all, a)
		}
	}
	return c.withOpens(all, func() string {
		term, info, wbs, world := c.buildCall(callee, x)
		if c.err != "" {
			return "sorryUnsupported"
		}
		if info.out && !c.needsOut("a call of the partial function "+info.key) {
			return "sorryUnsupported"
		}
		n := info.nres + len(wbs)
		if world != nil {
			n++
		}
		var aliasRoot types.Object
		if args := bCallArgs(callee, x); len(args) > 0 && args[0] != nil {
			if id, _ := bRootIdent(args[0]); id != nil {
				aliasRoot = c.info.Uses[id]
			}
		}
		r := c.tmp("r")
		var res []string
		for i := 0; i < info.nres; i++ {
			res = append(res, bProj(r, i, n))
		}
		var lets []string
		k := info.nres
		nodeWritten := false
		for _, w := range wbs {
			name := w.slot.lean
			if w.slot.kind == bkNode {
				nodeWritten = true
			}
			lets = append(lets, "let "+name+" : "+c.leanType(w.slot.t)+" := "+bProj(r, k, n))
			c.rebind(w.slot, name)
			k++
		}
		if world != nil {
			if world.slot == nil {
				lets = append(lets, "let w_ : σ := "+bProj(r, k, n))
			} else {
				lets = append(lets, "let "+world.slot.lean+" : "+c.leanType(world.slot.t)+" := "+bProj(r, k, n))
				c.rebind(world.slot, world.slot.lean)
			}
		}
		if nodeWritten {
			c.staleAliases(nil)
		}
		body := after(res, aliasRoot)
		if len(lets) > 0 {
			body = strings.Join(lets, "\n") + "\n" + body
		}
		if n == 0 {
			if info.out {
				return "Out.bind (" + term + ") fun _ =>\n" + indent(body, 2)
			}
			return body
		}
		if info.out {
			return "Out.bind (" + term + ") fun " + r + " =>\n" + indent(body, 2)
		}
		return "let " + r + " := " + term + "\n" + body
	})
}

// needsCallStmt: the expression is a call that must be a statement of its own (partial, writing, several results)
func (c *bctx) stmtCall(e ast.Expr) *ast.CallExpr {
	for {
		p, ok := e.(*ast.ParenExpr)
		if !ok {
			break
		}
		e = p.X
	}
	x, ok := e.(*ast.CallExpr)
	if !ok {
		return nil
	}
	if id, ok := x.Fun.(*ast.Ident); ok {
		if v := c.resolve(id); v != nil && v.kind == bkEff {
			return x
		}
	}
	callee := bCallee(c.info, x)
	if callee == nil {
		return nil
	}
	cs := bSums[callee]
	if cs == nil {
		return nil
	}
	if cs.world || callee.Type().(*types.Signature).Results().Len() != 1 {
		return x
	}
	for _, p := range cs.params {
		if p.nodeW || len(p.written) > 0 {
			return x
		}
	}
	if cs == c.sum {
		if c.out {
			return x
		}
		return nil
	}
	if info := c.infoFor(cs); info.out {
		return x
	}
	return nil
}

func (c *bctx) assignAll(lhs []ast.Expr, vals []string, aliasRoot types.Object, body func() string) string {
	if len(lhs) == 0 {
		return body()
	}
	return c.assignTo(lhs[0], vals[0], aliasRoot, func() string { return c.assignAll(lhs[1:], vals[1:], aliasRoot, body) })
}

func (c *bctx) stmts(list []ast.Stmt, k func() string) string {
	if c.err != "" {
		return "sorryUnsupported"
	}
	if len(list) == 0 {
		return k()
	}
	s, rest := list[0], list[1:]
	next := func() string { return c.stmts(rest, k) }
	switch x := s.(type) {
	case *ast.EmptyStmt:
		return next()
	case *ast.BlockStmt:
		return c.stmts(append(append([]ast.Stmt{}, x.List...), rest...), k)
	case *ast.ExprStmt:
		if c.isMutexCall(x.X) {
			return next()
		}
		call, ok := x.X.(*ast.CallExpr)
		if !ok {
			return c.fail("expression statement")
		}
		return c.callThen(call, func([]string, types.Object) string { return next() })
	case *ast.DeferStmt:
		if c.isMutexCall(x.Call) {
			return next()
		}
		return c.fail("defer")
	case *ast.DeclStmt:
		gd, ok := x.Decl.(*ast.GenDecl)
		if !ok || gd.Tok != token.VAR {
			return c.fail("declaration")
		}
		var lhs []ast.Expr
		var vals []string
		var opens []ast.Expr
		for _, sp := range gd.Specs {
			vs := sp.(*ast.ValueSpec)
			for i, nm := range vs.Names {
				lhs = append(lhs, nm)
				if i < len(vs.Values) {
					opens = append(opens, vs.Values[i])
				}
			}
		}
		return c.withOpens(opens, func() string {
			for _, sp := range gd.Specs {
				vs := sp.(*ast.ValueSpec)
				if len(vs.Values) != 0 && len(vs.Values) != len(vs.Names) {
					return c.fail("var with a multi-value initialiser")
				}
				for i, nm := range vs.Names {
					if len(vs.Values) != 0 {
						vals = append(vals, c.exprAs(vs.Values[i], c.info.Defs[nm].Type()))
					} else {
						vals = append(vals, c.zero(c.info.Defs[nm].Type()))
					}
				}
			}
			return c.assignAll(lhs, vals, nil, next)
		})
	case *ast.IncDecStmt:
		return c.withOpens([]ast.Expr{x.X}, func() string {
			op := " + 1"
			if x.Tok == token.DEC {
				op = " - 1"
			}
			return c.assignTo(x.X, "("+c.expr(x.X)+op+")", nil, next)
		})
	case *ast.AssignStmt:
		if x.Tok != token.ASSIGN && x.Tok != token.DEFINE {
			return c.fail("assignment operator %s", x.Tok)
		}
		if len(x.Rhs) == 1 {
			if call := c.stmtCall(x.Rhs[0]); call != nil {
				var lhsOpens []ast.Expr
				for _, l := range x.Lhs {
					if se, ok := l.(*ast.SelectorExpr); ok {
						lhsOpens = append(lhsOpens, se)
					}
				}
				return c.withOpens(lhsOpens, func() string {
					return c.callThen(call, func(res []string, root types.Object) string {
						if len(res) != len(x.Lhs) {
							return c.fail("assignment count")
						}
						return c.assignAll(x.Lhs, res, root, next)
					})
				})
			}
		}
		if len(x.Rhs) != len(x.Lhs) {
			return c.fail("assignment count")
		}
		return c.withOpens(append(append([]ast.Expr{}, x.Lhs...), x.Rhs...), func() string {
			var vals []string
			var root types.Object
			for i, r := range x.Rhs {
				vals = append(vals, c.exprAs(r, c.info.TypeOf(x.Lhs[i])))
				if id, _ := bRootIdent(r); id != nil {
					root = c.info.Uses[id]
				}
			}
			if len(vals) == 1 {
				return c.assignAll(x.Lhs, vals, root, next)
			}
			// parallel assignment: the right-hand sides first
			var tmps []string
			var lets string
			for i, v := range vals {
				t := c.tmp("t")
				tmps = append(tmps, t)
				lets += "let " + t + " : " + c.leanType(c.info.TypeOf(x.Rhs[i])) + " := " + v + "\n"
			}
			return lets + c.assignAll(x.Lhs, tmps, nil, next)
		})
	case *ast.IfStmt:
		return c.ifStmt(x, next)
	case *ast.ReturnStmt:
		return c.ret(x)
	case *ast.ForStmt:
		return c.forStmt(x, next)
	case *ast.RangeStmt:
		return c.rangeStmt(x, next)
	}
	return c.fail("statement %T", s)
}

func (c *bctx) elseBranch(x *ast.IfStmt, next func() string) string {
	switch e := x.Else.(type) {
	case nil:
		return next()
	case *ast.BlockStmt:
		return c.stmts(e.List, next)
	case *ast.IfStmt:
		return c.ifStmt(e, next)
	}
	return c.fail("else form")
}

func (c *bctx) ifStmt(x *ast.IfStmt, next func() string) string {
	if x.Init != nil {
		return c.fail("if with an init statement")
	}
	// `x == nil` / `x != nil` on a node slot not yet opened: a match
	if be, ok := x.Cond.(*ast.BinaryExpr); ok && (be.Op == token.EQL || be.Op == token.NEQ) {
		var side ast.Expr
		if c.isNil(be.Y) {
			side = be.X
		} else if c.isNil(be.X) {
			side = be.Y
		}
		if side != nil && bKind(c.info.TypeOf(side)) == bkNode {
			return c.withOpens([]ast.Expr{side}, func() string {
				v := c.resolve(side)
				if v == nil || v.open || v.stale {
					return c.plainIf(x, next)
				}
				scrut := v.lean
				nilT := c.branch(func() string {
					if be.Op == token.EQL {
						return c.stmts(x.Body.List, next)
					}
					return c.elseBranch(x, next)
				})
				pat := ""
				nodeT := c.branch(func() string {
					pat = c.openVal(c.resolve(side))
					if be.Op == token.EQL {
						return c.elseBranch(x, next)
					}
					return c.stmts(x.Body.List, next)
				})
				return "match " + scrut + " with\n| .nil =>\n" + indent(nilT, 2) + "\n| " + pat + " =>\n" + indent(nodeT, 2)
			})
		}
	}
	return c.withOpens([]ast.Expr{x.Cond}, func() string { return c.plainIf(x, next) })
}

func (c *bctx) plainIf(x *ast.IfStmt, next func() string) string {
	cond := c.expr(x.Cond)
	thenT := c.branch(func() string { return c.stmts(x.Body.List, next) })
	elseT := c.branch(func() string { return c.elseBranch(x, next) })
	return "if " + cond + " then\n" + indent(thenT, 2) + "\nelse\n" + indent(elseT, 2)
}

// writeTerms: the current values of what the function hands back
func (c *bctx) writeTerms() []string {
	var ws []string
	for _, p := range c.sum.params {
		if p.kind == bkNode && p.nodeW {
			ws = append(ws, c.whole(c.env.vars[p.v]))
		}
	}
	for _, p := range c.sum.params {
		if p.kind == bkHandle {
			v := c.env.vars[p.v]
			for i, fn := range v.fname {
				if p.written[fn] {
					ws = append(ws, c.whole(v.fs[i]))
				}
			}
		}
	}
	if c.sum.world {
		ws = append(ws, "w_")
	}
	return ws
}

func (c *bctx) writeTypes() []string {
	var ws []string
	for _, p := range c.sum.params {
		if p.kind == bkNode && p.nodeW {
			ws = append(ws, c.leanType(p.v.Type()))
		}
	}
	for _, p := range c.sum.params {
		if p.kind == bkHandle {
			_, st := bNamedStruct(p.v.Type())
			for _, i := range bFields(st) {
				if p.written[st.Field(i).Name()] {
					ws = append(ws, c.leanType(st.Field(i).Type()))
				}
			}
		}
	}
	if c.sum.world {
		ws = append(ws, "σ")
	}
	return ws
}

func (c *bctx) retTerm(vals []string) string {
	t := bTupleOf(append(append([]string{}, vals...), c.writeTerms()...))
	if c.out {
		return "Out.ok " + t
	}
	return t
}

func (c *bctx) ret(x *ast.ReturnStmt) string {
	if c.inLit > 0 || c.inLoop > 0 {
		return c.fail("return inside a loop or function literal")
	}
	if len(x.Results) == 1 {
		if call := c.stmtCall(x.Results[0]); call != nil {
			return c.callThen(call, func(res []string, _ types.Object) string {
				if len(res) != len(c.results) {
					return c.fail("result count")
				}
				return c.retTerm(res)
			})
		}
	}
	if len(x.Results) != len(c.results) {
		return c.fail("result count (named results?)")
	}
	return c.withOpens(x.Results, func() string {
		var vals []string
		for i, r := range x.Results {
			vals = append(vals, c.exprAs(r, c.results[i]))
		}
		return c.retTerm(vals)
	})
}

// forStmt: `for ; cond; x = x.F {}` / `for cond { x = x.F }` with x a node variable: structural recursion on x
func (c *bctx) forStmt(x *ast.ForStmt, next func() string) string {
	if x.Init != nil || x.Cond == nil {
		return c.fail("loop form (only the walk `for ; cond; x = x.F {}` over a node variable is translated)")
	}
	var step *ast.AssignStmt
	switch {
	case x.Post != nil && len(x.Body.List) == 0:
		step, _ = x.Post.(*ast.AssignStmt)
	case x.Post == nil && len(x.Body.List) == 1:
		step, _ = x.Body.List[0].(*ast.AssignStmt)
	}
	if step == nil || step.Tok != token.ASSIGN || len(step.Lhs) != 1 || len(step.Rhs) != 1 {
		return c.fail("loop form (only the walk `for ; cond; x = x.F {}` over a node variable is translated)")
	}
	id, ok := step.Lhs[0].(*ast.Ident)
	sel, ok2 := step.Rhs[0].(*ast.SelectorExpr)
	if !ok || !ok2 {
		return c.fail("loop step form")
	}
	base, ok := sel.X.(*ast.Ident)
	if !ok || c.info.Uses[base] != c.info.Uses[id] || bKind(c.info.TypeOf(id)) != bkNode || bKind(c.info.TypeOf(sel)) != bkNode {
		return c.fail("loop step form")
	}
	obj := c.info.Uses[id]
	xv := c.env.vars[obj]
	if xv == nil {
		return c.fail("loop variable")
	}
	if xv.param != nil && xv.param.nodeW {
		return c.fail("the loop variable is a node parameter that is written through")
	}
	if !c.needsOut("a walk over a node variable") {
		return "sorryUnsupported"
	}
	// the other variables of the condition are fixed parameters of the loop
	var fixed []*bval
	seen := map[*bval]bool{}
	ast.Inspect(x.Cond, func(n ast.Node) bool {
		if i, ok := n.(*ast.Ident); ok {
			if o := c.info.Uses[i]; o != nil && o != obj {
				if v := c.env.vars[o]; v != nil && !seen[v] {
					seen[v] = true
					if v.kind == bkHandle {
						for _, f := range v.fs {
							if f.lean != "" {
								fixed = append(fixed, f)
							}
						}
					} else {
						fixed = append(fixed, v)
					}
				}
			}
		}
		return true
	})
	c.nloop++
	name := fmt.Sprintf("%s_loop%d", c.name, c.nloop)
	xname := lv(id.Name)
	startArg := c.whole(xv)
	args := ""
	binders := "(" + xname + " : " + c.leanType(xv.t) + ")"
	for _, f := range fixed {
		args += " " + c.whole(f)
		binders += " (" + f.lean + " : " + c.leanType(f.t) + ")"
	}
	// one iteration, in a scope where x is a fresh unopened variable
	iter := c.branch(func() string {
		nv := c.newVal(xname, xv.t, obj)
		nv.noWrite = true
		nv.pristine = true
		c.env.vars[obj] = nv
		for _, f := range fixed {
			if f.kind == bkNode {
				f.open = false
			}
		}
		c.inLoop++
		defer func() { c.inLoop-- }()
		return c.withOpens([]ast.Expr{x.Cond}, func() string {
			cond := c.expr(x.Cond)
			again := c.branch(func() string {
				return c.withOpens([]ast.Expr{sel}, func() string {
					v := c.resolve(sel)
					if v == nil || !v.pristine {
						return c.fail("loop step is not a field of the loop variable")
					}
					return name + " " + c.whole(v) + args
				})
			})
			return "if " + cond + " then\n" + indent(again, 2) + "\nelse\n  Out.ok " + c.whole(c.env.vars[obj])
		})
	})
	if c.err != "" {
		return "sorryUnsupported"
	}
	c.aux = append(c.aux, fmt.Sprintf("def %s %s %s : Out %s :=\n%s\n", name, c.implicit(false), binders, c.leanType(xv.t), indent(iter, 2)))
	// after the loop x is some sub-tree of the old x: readable, not writable
	nv := c.newVal(xname, xv.t, obj)
	nv.noWrite = true
	nv.param = xv.param
	nv.alias = true
	nv.aliasRoot = obj
	c.env.vars[obj] = nv
	return "Out.bind (" + name + " " + startArg + args + ") fun " + xname + " =>\n" + indent(next(), 2)
}

// rangeStmt: `for _, v := range s { … }` with a pure body: List.foldl over the assigned locals and the world
func (c *bctx) rangeStmt(x *ast.RangeStmt, next func() string) string {
	if x.Tok != token.DEFINE || x.Value == nil {
		return c.fail("range form")
	}
	if k, ok := x.Key.(*ast.Ident); !ok || k.Name != "_" {
		return c.fail("range with an index variable")
	}
	vid, ok := x.Value.(*ast.Ident)
	sl, ok2 := types.Unalias(c.info.TypeOf(x.X)).Underlying().(*types.Slice)
	if !ok || !ok2 {
		return c.fail("range form")
	}
	// state: the locals assigned in the body, then the world if a callback is called
	var state []*bval
	usesWorld := false
	seen := map[types.Object]bool{}
	bad := false
	ast.Inspect(x.Body, func(n ast.Node) bool {
		switch y := n.(type) {
		case *ast.AssignStmt:
			for _, l := range y.Lhs {
				id, ok := l.(*ast.Ident)
				if !ok {
					bad = true
					continue
				}
				if o := c.info.Uses[id]; o != nil && c.env.vars[o] != nil && !seen[o] {
					seen[o] = true
					if c.env.vars[o].kind != bkPlain {
						bad = true
					}
					state = append(state, c.env.vars[o])
				}
			}
		case *ast.IncDecStmt:
			bad = true
		case *ast.CallExpr:
			if id, ok := y.Fun.(*ast.Ident); ok {
				if v := c.resolve(id); v != nil && v.kind == bkEff {
					usesWorld = true
				}
			}
		}
		return true
	})
	if bad {
		return c.fail("range body assigns something other than plain locals")
	}
	return c.withOpens([]ast.Expr{x.X}, func() string {
		seq := c.expr(x.X)
		var names, typs, objs = []string{}, []string{}, []types.Object{}
		for _, v := range state {
			names = append(names, c.whole(v))
			typs = append(typs, c.leanType(v.t))
			objs = append(objs, v.obj)
		}
		if usesWorld {
			names = append(names, "w_")
			typs = append(typs, "σ")
		}
		if len(names) == 0 {
			return next() // a loop without effect
		}
		n := len(names)
		st := c.tmp("st")
		saved, savedOut := c.env, c.out
		c.env = saved.clone()
		c.out = false
		c.inLit++
		o := c.info.Defs[vid]
		c.env.vars[o] = c.newVal(lv(vid.Name), o.Type(), o)
		pre := ""
		for i, nm := range names {
			pre += "let " + nm + " : " + typs[i] + " := " + bProj(st, i, n) + "\n"
		}
		body := c.stmts(x.Body.List, func() string {
			var cur []string
			for _, ob := range objs {
				cur = append(cur, c.whole(c.env.vars[ob]))
			}
			if usesWorld {
				cur = append(cur, "w_")
			}
			return bTupleOf(cur)
		})
		c.inLit--
		c.env, c.out = saved, savedOut
		fold := "List.foldl (fun (" + st + " : " + bTypeTuple(typs) + ") (" + lv(vid.Name) + " : " + c.leanType(sl.Elem()) + ") =>\n" +
			indent(pre+body, 2) + ")\n  " + bTupleOf(names) + " " + seq
		after := ""
		for i, nm := range names {
			after += "let " + nm + " : " + typs[i] + " := " + bProj(st, i, n) + "\n"
		}
		for _, v := range state {
			c.rebind(c.env.vars[v.obj], v.lean)
		}
		return "let " + st + " := " + fold + "\n" + after + next()
	})
}

// ---------- functions ----------

func (c *bctx) implicit(world bool) string {
	sig := c.f.obj.Type().(*types.Signature)
	tps := sig.TypeParams()
	if sig.Recv() != nil {
		tps = sig.RecvTypeParams()
	}
	n := 0
	if tps != nil {
		n = tps.Len()
	}
	if n > len(bGreek) {
		c.fail("more than %d type parameters", len(bGreek))
		n = len(bGreek)
	}
	s := ""
	if n > 0 {
		s = "{" + strings.Join(bGreek[:n], " ") + " : Type}"
		for _, g := range bGreek[:n] {
			s += " [Inhabited " + g + "]"
		}
	}
	if world {
		if s != "" {
			s += " "
		}
		s += "{σ : Type}"
	}
	return s
}

func (c *bctx) infoFor(cs *bsum) *binfo {
	if r, ok := bDone[cs.key]; ok {
		return r
	}
	if bBusy[cs.key] {
		if cs == c.sum {
			return &binfo{key: cs.key, ok: true, out: c.out, nres: len(c.results)}
		}
		return &binfo{key: cs.key, status: "unsupported: mutual recursion"}
	}
	return translateBstFunc(cs)
}

func translateBstFunc(s *bsum) *binfo {
	if r, ok := bDone[s.key]; ok {
		return r
	}
	bBusy[s.key] = true
	defer delete(bBusy, s.key)
	f := s.f
	sig := f.obj.Type().(*types.Signature)
	var c *bctx
	body := ""
	var binders []string
	for _, mode := range []bool{false, true} {
		c = &bctx{f: f, info: f.pkg.TypesInfo, sum: s, name: s.key, out: mode, env: &benv{vars: map[types.Object]*bval{}}}
		binders = nil
		for _, p := range s.params {
			if p.v.Name() == "" || p.v.Name() == "_" {
				if p.kind == bkPlain {
					c.fail("unnamed parameter")
				}
				continue
			}
			name := lv(p.v.Name())
			switch p.kind {
			case bkHandle:
				hv := c.handleVal(name, p)
				c.env.vars[p.v] = hv
				for _, fl := range hv.fs {
					if fl.lean != "" {
						if fl.kind == bkHandle || fl.kind == bkEff {
							c.fail("handle field of handle or callback type")
						}
						binders = append(binders, "("+fl.lean+" : "+c.leanType(fl.t)+")")
					}
				}
			default:
				v := c.newVal(name, p.v.Type(), p.v)
				v.param = p
				v.pristine = false
				c.env.vars[p.v] = v
				binders = append(binders, "("+name+" : "+c.leanType(p.v.Type())+")")
			}
		}
		if sig.Variadic() {
			c.fail("variadic function")
		}
		if s.world {
			binders = append(binders, "(w_ : σ)")
		}
		c.results = nil
		for i := 0; i < sig.Results().Len(); i++ {
			r := sig.Results().At(i)
			if r.Name() != "" {
				c.fail("named results")
			}
			if k := bKind(r.Type()); k == bkHandle || k == bkEff {
				c.fail("result of handle or function type")
			}
			c.results = append(c.results, r.Type())
		}
		ast.Inspect(f.decl, func(n ast.Node) bool {
			if id, ok := n.(*ast.Ident); ok && c.info.Defs[id] != nil && id.Name != "_" {
				if i := strings.LastIndex(id.Name, "_"); i >= 0 && (i == len(id.Name)-1 || bNodeFields[id.Name[i+1:]]) {
					c.fail("identifier %s has the form of a generated name", id.Name)
				}
			}
			return true
		})
		body = ""
		if c.err == "" {
			body = c.stmts(f.decl.Body.List, func() string {
				if len(c.results) != 0 {
					return c.fail("control reaches the end of a function with results")
				}
				return c.retTerm(nil)
			})
		}
		if c.err == "" || !c.needOut {
			break
		}
	}
	r := &binfo{key: s.key, out: c.out, nres: len(c.results)}
	if c.err != "" {
		r.status = "unsupported: " + c.err
		fmt.Fprintf(bOut, "-- %s: outside the translated fragment (%s)\n\n", s.key, c.err)
		bDone[s.key] = r
		bStatus[s.key] = r.status
		return r
	}
	r.ok = true
	r.status = "ok"
	if c.out {
		r.status = "ok (OUT mode)"
	}
	for _, a := range c.aux {
		bOut.WriteString(a + "\n")
	}
	var ts []string
	for _, t := range c.results {
		ts = append(ts, c.leanType(t))
	}
	ts = append(ts, c.writeTypes()...)
	rt := bTypeTuple(ts)
	if c.out {
		rt = "Out " + rt
	}
	fmt.Fprintf(bOut, "/-- `%s` (%s) -/\ndef %s %s %s : %s :=\n%s\n\n", f.obj.FullName(), bHandsBack(s), s.key, c.implicit(s.world), strings.Join(binders, " "), rt, indent(body, 2))
	bDone[s.key] = r
	bStatus[s.key] = r.status
	return r
}

// bHandsBack: a description of the result tuple for the generated docstring
func bHandsBack(s *bsum) string {
	var parts []string
	for _, p := range s.params {
		if p.kind == bkNode && p.nodeW {
			parts = append(parts, "the updated "+p.v.Name())
		}
	}
	for _, p := range s.params {
		if p.kind == bkHandle {
			var ws []string
			for k := range p.written {
				ws = append(ws, p.v.Name()+"."+k)
			}
			sort.Strings(ws)
			parts = append(parts, ws...)
		}
	}
	if s.world {
		parts = append(parts, "the callbacks' world")
	}
	if len(parts) == 0 {
		return "hands back: the Go results only"
	}
	return "hands back: the Go results, then " + strings.Join(parts, ", ")
}

// bstTypes: the struct types of bstree.go
func bstTypes(sb *strings.Builder, file *ast.File, info *types.Info) {
	c := &bctx{info: info}
	for _, d := range file.Decls {
		gd, ok := d.(*ast.GenDecl)
		if !ok || gd.Tok != token.TYPE {
			continue
		}
		for _, sp := range gd.Specs {
			ts := sp.(*ast.TypeSpec)
			obj, _ := info.Defs[ts.Name].(*types.TypeName)
			if obj == nil {
				continue
			}
			n, _ := types.Unalias(obj.Type()).(*types.Named)
			if n == nil {
				continue
			}
			st, ok := n.Underlying().(*types.Struct)
			if !ok {
				continue
			}
			tps := ""
			targs := ""
			if tp := n.TypeParams(); tp != nil {
				if tp.Len() > len(bGreek) {
					fmt.Fprintf(sb, "-- type %s: outside the translated fragment (too many type parameters)\n\n", obj.Name())
					continue
				}
				tps = " (" + strings.Join(bGreek[:tp.Len()], " ") + " : Type)"
				targs = " " + strings.Join(bGreek[:tp.Len()], " ")
			}
			hasSync := false
			for i := 0; i < st.NumFields(); i++ {
				if isSyncType(st.Field(i).Type()) {
					hasSync = true
				}
			}
			c.err = ""
			switch {
			case bIsNodeStruct(n, st):
				var fts, fns []string
				for _, i := range bFields(st) {
					fts = append(fts, c.leanType(st.Field(i).Type()))
					fns = append(fns, st.Field(i).Name())
					bNodeFields[st.Field(i).Name()] = true
				}
				if c.err != "" {
					fmt.Fprintf(sb, "-- type %s: outside the translated fragment (%s)\n\n", obj.Name(), c.err)
					continue
				}
				self := obj.Name() + targs
				fmt.Fprintf(sb, "/-- `*%s`: `nil`, or a node with the fields %s (in this order) -/\ninductive %s%s where\n  | nil\n  | node : %s → %s\n\n",
					obj.Name(), strings.Join(fns, ", "), obj.Name(), tps, strings.Join(fts, " → "), self)
				fmt.Fprintf(sb, "/-- `p == nil` -/\ndef %s.isNil {%s : Type} : %s → Bool\n  | .nil => true\n  | .node .. => false\n\n", obj.Name(), strings.TrimSpace(targs), self)
			case hasSync:
				var fns []string
				for _, i := range bFields(st) {
					fns = append(fns, st.Field(i).Name())
					bNodeFields[st.Field(i).Name()] = true
				}
				fmt.Fprintf(sb, "-- type %s: a handle; a `*%s` is assumed non-nil and its fields %s are variables of the functions below\n\n", obj.Name(), obj.Name(), strings.Join(fns, ", "))
			default:
				var fs []string
				for _, i := range bFields(st) {
					fs = append(fs, "  "+st.Field(i).Name()+" : "+c.leanType(st.Field(i).Type()))
					bNodeFields[st.Field(i).Name()] = true
				}
				if c.err != "" {
					fmt.Fprintf(sb, "-- type %s: outside the translated fragment (%s)\n\n", obj.Name(), c.err)
					continue
				}
				fmt.Fprintf(sb, "/-- `%s` -/\nstructure %s%s where\n%s\n\n", obj.Name(), obj.Name(), tps, strings.Join(fs, "\n"))
			}
		}
	}
}

func translateBst() (string, map[string]string) {
	status := map[string]string{}
	var sb strings.Builder
	sb.WriteString("/-! GENERATED by /verif/translator (frag_bst.go) from /repo's current source — do not edit.\n\n")
	sb.WriteString("Mechanical Go → Lean translation of bstree/bstree.go (+ the functions of other packages it calls); see\n")
	sb.WriteString("translator/frag_bst.go for the fragment.  MODELLING DECISION: a `*Node[K,V]` whose nodes are never shared is a\n")
	sb.WriteString("value of the inductive type `Node` (nil ↦ `.nil`, `&Node{…}` / `NewNode` ↦ `.node`); a method that assigns\n")
	sb.WriteString("`n.Left = …`, `n.Val = …` hands back the updated node after its results (functional update); recursion on\n")
	sb.WriteString("`n.Left` / `n.Right` and the walk of `min` are structural recursion on that value (no fuel); a field read of a\n")
	sb.WriteString("possibly-nil node is `Out.panic` on nil; the `*BsTree` handle is assumed non-nil and its fields are variables\n")
	sb.WriteString("(`b_comp` — the comparator — `b_root`, `b_size`), handed back when assigned; `error` is `Option String`; the mutex\n")
	sb.WriteString("calls are skipped (METHOD mode: the body as one goroutine executes it alone); a callback without results\n")
	sb.WriteString("(`visit`, `fn`) is a transformer `T → σ → σ` of an abstract world σ threaded through.  Goroutine / channel\n")
	sb.WriteString("plumbing would be outside the fragment (the current `Traverse` has none: it collects under the lock, then calls).\n")
	sb.WriteString("`Theorems/GenTieBst.lean` proves each definition equal to `Model/Bst.lean`. -/\n")
	sb.WriteString("set_option linter.unusedVariables false\nnamespace GoguVerif.Gen.Bst\n\n")
	sb.WriteString("/-- placeholder that makes an unsupported function's tie theorem fail to build -/\nopaque sorryUnsupported {α : Type} [Inhabited α] : α\n\n")
	sb.WriteString(bstPrelude)
	buildBstSummaries()
	bDone = map[string]*binfo{}
	bBusy = map[string]bool{}
	bStatus = map[string]string{}
	bNodeFields = map[string]bool{}
	bOut = &sb
	var file *ast.File
	var list []*bsum
	for _, f := range order {
		if f.pkg.Name != "bstree" {
			continue
		}
		fname := f.pkg.Fset.File(f.decl.Pos()).Name()
		if !strings.HasSuffix(fname, "bstree.go") {
			continue
		}
		if file == nil {
			for _, sf := range f.pkg.Syntax {
				if f.pkg.Fset.File(sf.Pos()).Name() == fname {
					file = sf
				}
			}
		}
		list = append(list, bSums[f.obj])
	}
	if file == nil || len(list) == 0 {
		sb.WriteString("-- bstree/bstree.go: missing from the source\n\nend GoguVerif.Gen.Bst\n")
		status["bstree"] = "missing from the source"
		return sb.String(), status
	}
	bstTypes(&sb, file, list[0].f.pkg.TypesInfo)
	for _, s := range list { // source order; callees are emitted first, on demand
		translateBstFunc(s)
	}
	for k, v := range bStatus {
		status["bstree."+k] = v
	}
	sb.WriteString("end GoguVerif.Gen.Bst\n")
	return sb.String(), status
}
