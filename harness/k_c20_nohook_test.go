//go:build !verif

package main

func setDebounceGap(f func()) bool { return false }
