package main

import (
	"os"
	"sort"
	"strings"
	"sync"
	"sync/atomic"
	"time"

	"github.com/esimov/gogu"
	"github.com/esimov/gogu/cache"
)

// ---- C17: Memoize (virtual clock, real goroutines) ---------------------------------------------------
//
// CASE memo <expirationMs> <cleanupMs>        (-1 = NoExpiration, 0 = DefaultExpiration = never; cleanup 0 = no janitor)
//
//   spawn <id> <key> <offsetMs> <latencyMs> <v|e|n>   register a caller (goroutine) for the next `run`
//   run                                               start all registered callers, wait until all returned, print the event log
//   seq <id> <key> <latencyMs> <v|e|n>                one call from the case's own goroutine
//   get <key>                                         Cache.Get
//   sleep <ms>                                        (handled by the framework) let virtual time pass
//
// The function handed to Memoize by caller <id>: increments the in-flight counter of its key (recording
// the maximum), logs (key, start stamp, caller id), sleeps <latency>, logs the end stamp, decrements,
// and returns outcome v: an item holding the value 1000+id;  e: (nil, error);  n: (nil item, nil error).
// Every stamp is (global atomic sequence number, virtual time in ms since the start of the case); the
// sequence numbers order events that happen at the same virtual instant.
//
// run => <endT> <callers> <execs> <maxinflight> <gets>
//   callers     [[id,key,invSeq,invT,retSeq,retT,out,val,src],…]  sorted by id; out 0 = value, 1 = error;
//               src = index (in <execs>) of the execution whose very item / error object the caller received, -1 otherwise
//   execs       [[key,startSeq,startT,endSeq,endT,leader,out,val],…] sorted by start; out 0 = value, 1 = error, 2 = nil item without error
//   maxinflight [m0,m1,m2]   maximum of the in-flight counter per key during this run
//   gets        [[out,val],…] Cache.Get of k0,k1,k2 after the run
// seq => <out> <val> <ran> <elapsedMs> <maxinflight-of-key>

const memoKeys = 3

type memoErr struct{ exec int }

func (e *memoErr) Error() string { return "scripted failure" }

type memoSpawn struct {
	id, key, offset, latency int
	outcome                  string
}

type memoExec struct {
	key, startSeq, startT, endSeq, endT, leader, out, val int
	item                                                  *cache.Item[int]
}

type memoCall struct {
	id, key, invSeq, invT, retSeq, retT, out, val, src int
}

type memoRunner struct {
	m      *gogu.Memoizer[string, int]
	aux    *cache.Cache[string, int] // only used to manufacture *cache.Item values (its fields are unexported)
	t0     time.Time
	seq    atomic.Int64
	spawns []memoSpawn
	mu     sync.Mutex
	execs  []memoExec
	infl   [memoKeys]atomic.Int64
	maxIn  [memoKeys]int
	auxN   int
	params []string
	hist   []string // the lines of the case so far, sleeps reconstructed (for the hang report)
	cur    string   // the op being executed
	lastT  int      // virtual time at the end of the previous op
}

// Watchdog.  Under testing/synctest a goroutine blocked on a sync.Mutex is not "durably" blocked, so if
// Memoize ever made one caller wait for another caller's function by way of a lock (e.g. a lock held
// across fn, which would also make different keys block each other), virtual time could not advance and
// the scenario would never finish.  A goroutine outside the bubble (real clock) notices that a scenario
// has been running for memoHangTicks*100ms, reports `run => hang` for it and ends the process (the
// stuck goroutines cannot be recovered).
var memoWatch struct {
	tick   atomic.Int64
	active atomic.Pointer[memoRunner]
	since  atomic.Int64
}

const memoHangTicks = 300 // 30 s of real time

func init() {
	go func() {
		for {
			time.Sleep(100 * time.Millisecond)
			t := memoWatch.tick.Add(1)
			r := memoWatch.active.Load()
			if r == nil || t-memoWatch.since.Load() < memoHangTicks || curOut == nil {
				continue
			}
			// runTimedCase has already written the CASE header; the lines of the case are still buffered there
			for _, h := range r.hist {
				curOut.WriteString(h + "\n")
			}
			curOut.WriteString(r.cur + " => hang\nEND\n")
			curOut.Flush()
			os.Exit(3)
		}
	}()
}

func (r *memoRunner) Close() { r.m.Cache.VerifStopCleanup() }

func (r *memoRunner) stamp() (int, int) {
	return int(r.seq.Add(1)), int(time.Since(r.t0) / time.Millisecond)
}

func mkey(k int) string { return "k" + itoa(k) }

// fn builds the instrumented function for one caller.
func (r *memoRunner) fn(id, key, latency int, outcome string) func() (*cache.Item[int], error) {
	return func() (*cache.Item[int], error) {
		n := int(r.infl[key].Add(1))
		r.mu.Lock()
		if n > r.maxIn[key] {
			r.maxIn[key] = n
		}
		s, t := r.stamp()
		idx := len(r.execs)
		r.execs = append(r.execs, memoExec{key: key, startSeq: s, startT: t, leader: id, endSeq: -1, endT: -1})
		r.auxN++
		name := "e" + itoa(r.auxN)
		r.mu.Unlock()
		if latency > 0 {
			time.Sleep(time.Duration(latency) * time.Millisecond)
		}
		var item *cache.Item[int]
		var err error
		out, val := 0, 0
		switch outcome {
		case "v":
			val = 1000 + id
			r.aux.Set(name, val, cache.NoExpiration)
			item, _ = r.aux.Get(name)
		case "e":
			out = 1
			err = &memoErr{exec: idx}
		case "n":
			out = 2 // nil item, no error: Memoize caches the zero value
		default:
			panic("harness: bad outcome " + outcome)
		}
		r.mu.Lock()
		e, te := r.stamp()
		x := &r.execs[idx]
		x.endSeq, x.endT, x.out, x.val, x.item = e, te, out, val, item
		r.mu.Unlock()
		r.infl[key].Add(-1)
		return item, err
	}
}

// call performs one Memoize call and classifies the result.
func (r *memoRunner) call(id, key, latency int, outcome string) memoCall {
	c := memoCall{id: id, key: key, src: -1}
	c.invSeq, c.invT = r.stamp()
	item, err := r.m.Memoize(mkey(key), r.fn(id, key, latency, outcome))
	c.retSeq, c.retT = r.stamp()
	r.mu.Lock()
	defer r.mu.Unlock()
	if err != nil {
		c.out = 1
		if me, ok := err.(*memoErr); ok {
			c.src = me.exec
		}
		if item != nil {
			c.out = 2 // an item together with an error: never produced by the scripted functions
		}
		return c
	}
	c.val = item.Val()
	if item != nil {
		for i := range r.execs {
			if r.execs[i].item == item {
				c.src = i
			}
		}
	}
	return c
}

func (r *memoRunner) getAll() string {
	var gs []string
	for k := 0; k < memoKeys; k++ {
		it, err := r.m.Cache.Get(mkey(k))
		if err != nil {
			gs = append(gs, "[1,0]")
		} else {
			gs = append(gs, "[0,"+itoa(it.Val())+"]")
		}
	}
	return plist(gs)
}

func (r *memoRunner) resetLog() {
	r.execs = r.execs[:0]
	for k := range r.maxIn {
		r.maxIn[k] = 0
	}
}

func (r *memoRunner) Do(op []string) string {
	now := int(time.Since(r.t0) / time.Millisecond)
	if now > r.lastT {
		r.hist = append(r.hist, "sleep "+itoa(now-r.lastT)+" => ok")
	}
	r.cur = strings.Join(op, " ")
	if op[0] == "run" || op[0] == "seq" {
		memoWatch.since.Store(memoWatch.tick.Load())
		memoWatch.active.Store(r)
		defer memoWatch.active.Store(nil)
	}
	res := r.do1(op)
	r.hist = append(r.hist, r.cur+" => "+res)
	r.lastT = int(time.Since(r.t0) / time.Millisecond)
	return res
}

func (r *memoRunner) do1(op []string) string {
	switch op[0] {
	case "spawn":
		k := atoi(op[2])
		if k < 0 || k >= memoKeys {
			panic("harness: bad key")
		}
		r.spawns = append(r.spawns, memoSpawn{atoi(op[1]), k, atoi(op[3]), atoi(op[4]), op[5]})
		return "ok"
	case "run":
		r.resetLog()
		calls := make([]memoCall, len(r.spawns))
		var wg sync.WaitGroup
		for i, sp := range r.spawns {
			wg.Add(1)
			go func(i int, sp memoSpawn) {
				defer wg.Done()
				if sp.offset > 0 {
					time.Sleep(time.Duration(sp.offset) * time.Millisecond)
				}
				calls[i] = r.call(sp.id, sp.key, sp.latency, sp.outcome)
			}(i, sp)
		}
		wg.Wait()
		r.spawns = r.spawns[:0]
		_, endT := r.stamp()
		// canonical order: callers by id; executions are already in start order (stamped under the mutex)
		sort.SliceStable(calls, func(i, j int) bool { return calls[i].id < calls[j].id })
		var cs, es []string
		for _, c := range calls {
			cs = append(cs, ints([]int{c.id, c.key, c.invSeq, c.invT, c.retSeq, c.retT, c.out, c.val, c.src}))
		}
		for _, e := range r.execs {
			es = append(es, ints([]int{e.key, e.startSeq, e.startT, e.endSeq, e.endT, e.leader, e.out, e.val}))
		}
		return itoa(endT) + " " + plist(cs) + " " + plist(es) + " " + ints(r.maxIn[:]) + " " + r.getAll()
	case "seq":
		r.resetLog()
		k := atoi(op[2])
		if k < 0 || k >= memoKeys {
			panic("harness: bad key")
		}
		c := r.call(atoi(op[1]), k, atoi(op[3]), op[4])
		return itoa(c.out) + " " + itoa(c.val) + " " + itoa(len(r.execs)) + " " + itoa(c.retT-c.invT) + " " + itoa(r.maxIn[k])
	case "get":
		it, err := r.m.Cache.Get(mkey(atoi(op[1])))
		if err != nil {
			return "0 err"
		}
		return itoa(it.Val()) + " ok"
	}
	panic("harness: bad op " + op[0])
}

// -- Memoize: a caller that missed the cache just before another caller's execution finished
//
//	CASE memogate
//	gate <v> => <number of invocations of fn> <value the outer caller received> <value cached>
//
// cache.Get formats the key into its "not found" error after releasing its lock, so a key type with a String()
// method runs code exactly between the outer caller's cache miss and its group.Do.  In that window a second, complete
// Memoize call for the same key is made (it runs fn and caches the value).  When the outer caller goes on the value IS
// cached and has not expired: by the property it must be returned without invoking fn again.  One goroutine, no timing.
type gateKey string

var gateHook func()

func (k gateKey) String() string {
	if h := gateHook; h != nil {
		gateHook = nil
		h()
	}
	return string(k)
}

type memoGateRunner struct{}

func (memoGateRunner) Do(op []string) string {
	if op[0] == "emptyresult" {
		// the string-valued instantiation with a callback that SUCCEEDS with the empty string (which the cache refuses
		// to store): the caller must get that value and no error -- "the value (or error) produced by an execution"
		m := gogu.NewMemoizer[string, string](time.Hour, 0)
		calls := 0
		fn := func() (*cache.Item[string], error) {
			calls++
			return nil, nil // a nil item is the zero value "" (Item.Val of nil)
		}
		it, err := m.Memoize("k", fn)
		it2, err2 := m.Memoize("k", fn)
		return errs(err) + " " + hx(it.Val()) + " " + errs(err2) + " " + hx(it2.Val()) + " " + itoa(calls)
	}
	if op[0] != "gate" {
		panic("harness: bad op " + op[0])
	}
	v := atoi(op[1])
	m := gogu.NewMemoizer[gateKey, int](time.Hour, 0)
	calls := 0
	fn := func() (*cache.Item[int], error) {
		calls++
		aux := cache.New[string, int](cache.NoExpiration, 0)
		aux.Set("v", v+calls-1, cache.NoExpiration) // the first execution yields v, a second one v+1
		it, _ := aux.Get("v")
		return it, nil
	}
	gateHook = func() { m.Memoize("k", fn) }
	got, _ := m.Memoize("k", fn)
	gateHook = nil
	cached, _ := m.Cache.Get("k")
	return itoa(calls) + " " + itoa(got.Val()) + " " + itoa(cached.Val())
}

func init() {
	kinds["memogate"] = func(p []string) Runner { return memoGateRunner{} }
	timedKinds["memo"] = true
	kinds["memo"] = func(p []string) Runner {
		r := &memoRunner{
			m:   gogu.NewMemoizer[string, int](dur(atoi(p[0])), dur(atoi(p[1]))),
			aux: cache.New[string, int](cache.NoExpiration, 0),
			t0:  time.Now(),
		}
		return r
	}
	gens["C17"] = genC17
}

var memoLat = []int{0, 5, 40}

func genC17(g *Gen) {
	// (0) a complete call for the same key inside the window between the outer caller's cache miss and its group.Do
	if g.Mine() {
		g.Emit("memogate", nil, []string{"gate 7", "gate 0", "gate -3", "emptyresult"})
	}
	// (1) every sequential call pattern: letters = key {0,1} x outcome {v,e} x {sleep past expiry afterwards or not},
	//     latency cycling through {5,0,40}; Cache.Get of both keys after every call; expiration none / 30 ms.
	maxLen := 4
	if g.Thorough() {
		maxLen = 5
	}
	var letters []string
	for _, k := range []string{"0", "1"} {
		for _, o := range []string{"v", "e"} {
			for _, s := range []string{"-", "S"} {
				letters = append(letters, k+o+s)
			}
		}
	}
	for _, exp := range []string{"-1", "30"} {
		seqsUpTo(letters, maxLen, func(s []string) {
			if !g.Mine() {
				return
			}
			var ops []string
			for i, l := range s {
				ops = append(ops, "seq "+itoa(i+1)+" "+l[0:1]+" "+itoa([]int{5, 0, 40}[i%3])+" "+l[1:2], "get 0", "get 1")
				if l[2] == 'S' {
					ops = append(ops, "sleep 31", "get 0", "get 1")
				} else if i%2 == 1 {
					ops = append(ops, "sleep 30", "get 0", "get 1") // exactly at the deadline: still live
				}
			}
			g.Emit("memo", []string{exp, "0"}, ops)
		})
	}
	// (2) exhaustive small concurrent scope: 2 (thorough: also 3) callers, each over key {0,1} x start {0,3,45}
	//     x latency {0,5,40} x outcome {v,e}; followed by a second wave of two probing callers.
	type cfg struct {
		key, off, lat int
		out           string
	}
	var cfgs []cfg
	for _, k := range []int{0, 1} {
		for _, off := range []int{0, 3, 45} {
			for _, lat := range memoLat {
				for _, o := range []string{"v", "e"} {
					cfgs = append(cfgs, cfg{k, off, lat, o})
				}
			}
		}
	}
	emitSmall := func(cs []cfg, exp string) {
		var ops []string
		for i, c := range cs {
			ops = append(ops, "spawn "+itoa(i+1)+" "+itoa(c.key)+" "+itoa(c.off)+" "+itoa(c.lat)+" "+c.out)
		}
		ops = append(ops, "run", "spawn 8 0 0 5 v", "spawn 9 1 0 0 e", "run", "sleep 31", "get 0", "get 1")
		g.Emit("memo", []string{exp, "0"}, ops)
	}
	for _, exp := range []string{"-1", "30"} {
		for _, a := range cfgs {
			for _, b := range cfgs {
				if !g.Mine() {
					continue
				}
				emitSmall([]cfg{a, b}, exp)
			}
		}
	}
	if g.Thorough() {
		for _, a := range cfgs {
			for _, b := range cfgs {
				for _, c := range cfgs {
					if c.off == 3 { // third caller: start 0 or 45 only (keeps the scope at ~31k cases per expiration)
						continue
					}
					if !g.Mine() {
						continue
					}
					emitSmall([]cfg{a, b, c}, []string{"-1", "30"}[(a.off+b.lat+c.key)%2])
				}
			}
		}
	}
	// (3) seeded random scenarios: 1..16 callers x 1..3 keys x latencies {0,5,40} x outcomes x jittered starts,
	//     2-3 waves per case separated by sleeps (so that later waves meet live / expired values).
	n := 400
	if g.Thorough() {
		n = 12000
	}
	r := g.Rng("C17")
	for i := 0; i < n; i++ {
		exp := []string{"-1", "30", "30", "0"}[r.Intn(4)]
		cl := []string{"0", "0", "10"}[r.Intn(3)]
		nkeys := r.Range(1, 3)
		var ops []string
		id := 0
		waves := r.Range(1, 3)
		for w := 0; w < waves; w++ {
			nc := r.Range(1, 16)
			if r.Intn(4) == 0 {
				nc = r.Range(1, 5)
			}
			// start instants: a few cluster points so that many callers collide, plus free jitter
			clusters := []int{0, r.Range(1, 8), r.Range(20, 50), r.Range(38, 47)}
			errRate := []int{0, 20, 50, 100}[r.Intn(4)]
			for c := 0; c < nc; c++ {
				id++
				off := clusters[r.Intn(len(clusters))]
				if r.Intn(3) == 0 {
					off = r.Range(0, 90)
				}
				out := "v"
				if r.Intn(100) < errRate {
					out = "e"
				}
				ops = append(ops, "spawn "+itoa(id)+" "+itoa(r.Intn(nkeys))+" "+itoa(off)+" "+itoa(memoLat[r.Intn(3)])+" "+out)
			}
			ops = append(ops, "run")
			switch r.Intn(4) {
			case 0:
				ops = append(ops, "sleep "+itoa(r.Range(1, 29)))
			case 1:
				ops = append(ops, "sleep 31")
			case 2:
				id++
				ops = append(ops, "seq "+itoa(id)+" "+itoa(r.Intn(nkeys))+" "+itoa(memoLat[r.Intn(3)])+" v", "get 0", "get 1", "get 2")
			}
		}
		g.Emit("memo", []string{exp, cl}, ops)
	}
	// (4) edge stream: nil item without error (the zero value is cached), expiration 0 (= never), janitor running,
	//     empty run, many callers at one instant with zero latency, the same caller id pattern on three keys.
	if g.Mine() {
		g.Emit("memo", []string{"30", "10"}, []string{"run", "seq 1 0 5 n", "get 0", "seq 2 0 5 v", "sleep 31", "get 0", "seq 3 0 0 e", "get 0", "seq 4 0 0 n", "get 0"})
		g.Emit("memo", []string{"0", "0"}, []string{"seq 1 0 5 v", "sleep 100000", "seq 2 0 5 v", "get 0"})
		g.Emit("memo", []string{"-1", "10"}, []string{"spawn 1 0 0 40 n", "spawn 2 0 5 0 v", "spawn 3 1 5 0 e", "run", "spawn 4 0 0 0 v", "run"})
	}
	for rep := 0; rep < 20; rep++ {
		if !g.Mine() {
			continue
		}
		var ops []string
		for c := 1; c <= 16; c++ {
			ops = append(ops, "spawn "+itoa(c)+" "+itoa(c%(1+rep%3))+" 0 0 "+[]string{"v", "e"}[(c/(1+rep%4))%2])
		}
		ops = append(ops, "run")
		for c := 17; c <= 32; c++ {
			ops = append(ops, "spawn "+itoa(c)+" "+itoa(c%3)+" 0 "+itoa(memoLat[c%3])+" v")
		}
		ops = append(ops, "run")
		g.Emit("memo", []string{"30", "0"}, ops)
	}
}
