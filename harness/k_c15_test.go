package main

import (
	"sort"
	"strings"
	"unicode"

	"github.com/esimov/gogu"
)

// ---- C15: string helpers ---------------------------------------------------------------------------
//
// CASE c15 <table>      table = [[rune,lower,upper],...] (sorted by rune) for every rune that occurs in
//                       an input string of the case (Go decoding: invalid byte = U+FFFD) plus U+FFFD and
//                       ' ', computed with package unicode (trusted).
// Strings travel as hex atoms.  Every line calls the real functions of /repo/string.go:
//
//	substr s off len        => Substr(s,off,len)
//	split s idx             => [a,b,...]  all parts SplitAtIndex returned
//	pad|padl|padr s size t  => Pad|PadLeft|PadRight(s,size,t)
//	wrap s t                => Wrap(s,t)
//	unwrap s t              => Unwrap(s,t)
//	unwrapwrap s t          => Unwrap(Wrap(s,t),t)
//	wrapall s t             => WrapAllRune(s,t)
//	reverse s               => ReverseStr(s)
//	lower|upper|cap s       => ToLower|ToUpper|Capitalize(s)
//	camel s                 => CamelCase(s)
//	snake s                 => r=SnakeCase(s)  SnakeCase(r)  KebabCase(s)
//	kebab s                 => r=KebabCase(s)  KebabCase(r)
//
// A Go panic is caught by the harness (result `panic`).

// namedStr: a named string type with a String method that does NOT return the text itself
type namedStr string

func (n namedStr) String() string { return "namedStr(" + string(n) + ")" }

type c15Runner struct{}

func (r *c15Runner) Do(op []string) string {
	s := func(i int) string { return unhx(op[i]) }
	switch op[0] {
	case "substr":
		return hx(gogu.Substr(s(1), atoi(op[2]), atoi(op[3])))
	case "split":
		parts := gogu.SplitAtIndex(s(1), atoi(op[2]))
		items := make([]string, len(parts))
		for i, p := range parts {
			items[i] = hx(p)
		}
		return plist(items)
	case "pad":
		return hx(gogu.Pad(s(1), atoi(op[2]), s(3)))
	case "padl":
		return hx(gogu.PadLeft(s(1), atoi(op[2]), s(3)))
	case "padr":
		return hx(gogu.PadRight(s(1), atoi(op[2]), s(3)))
	case "wrap":
		return hx(gogu.Wrap(s(1), s(2)))
	case "wrap@named": // a NAMED string type that has a String method (fmt verbs would call it)
		return hx(string(gogu.Wrap(namedStr(s(1)), s(2))))
	case "unwrap@named":
		return hx(string(gogu.Unwrap(namedStr(s(1)), s(2))))
	case "unwrapwrap@named":
		return hx(string(gogu.Unwrap(gogu.Wrap(namedStr(s(1)), s(2)), s(2))))
	case "unwrap":
		return hx(gogu.Unwrap(s(1), s(2)))
	case "unwrapwrap":
		return hx(gogu.Unwrap(gogu.Wrap(s(1), s(2)), s(2)))
	case "wrapall":
		return hx(gogu.WrapAllRune(s(1), s(2)))
	case "reverse":
		return hx(gogu.ReverseStr(s(1)))
	case "lower":
		return hx(gogu.ToLower(s(1)))
	case "upper":
		return hx(gogu.ToUpper(s(1)))
	case "cap":
		return hx(gogu.Capitalize(s(1)))
	case "camel":
		return hx(gogu.CamelCase(s(1)))
	case "snake":
		r := gogu.SnakeCase(s(1))
		return hx(r) + " " + hx(gogu.SnakeCase(r)) + " " + hx(gogu.KebabCase(s(1)))
	case "kebab":
		r := gogu.KebabCase(s(1))
		return hx(r) + " " + hx(gogu.KebabCase(r))
	}
	panic("harness: bad op " + op[0])
}

func init() {
	kinds["c15"] = func(p []string) Runner { return &c15Runner{} }
	gens["C15"] = genC15
}

// c15Table renders the case table for the runes of the given strings.
func c15Table(strs []string) string {
	set := map[rune]bool{unicode.ReplacementChar: true, ' ': true}
	for _, s := range strs {
		for _, r := range s {
			set[r] = true
		}
	}
	rs := make([]int, 0, len(set))
	for r := range set {
		rs = append(rs, int(r))
	}
	sort.Ints(rs)
	items := make([]string, len(rs))
	for i, r := range rs {
		items[i] = "[" + itoa(r) + "," + itoa(int(unicode.ToLower(rune(r)))) + "," + itoa(int(unicode.ToUpper(rune(r)))) + "]"
	}
	return plist(items)
}

// c15Emit emits one case; the table covers every hex-string argument of the ops.
func c15Emit(g *Gen, ops []string) {
	var strs []string
	for _, op := range ops {
		for _, tok := range strings.Fields(op)[1:] {
			if strings.HasPrefix(tok, "x") {
				strs = append(strs, unhx(tok))
			}
		}
	}
	g.Emit("c15", []string{c15Table(strs)}, ops)
}

var c15Alphabet = []string{"a", "B", "ö", "'", "-", " "}

func c15Tokens(maxLen int) []string {
	var toks []string
	seqsUpTo(c15Alphabet, maxLen, func(t []string) { toks = append(toks, strings.Join(t, "")) })
	return toks
}

// c15OpsFor returns the op groups (one case each) for one input string of the exhaustive scope.
func c15OpsFor(str string, toks []string, extended bool) [][]string {
	n := len(str)
	h := hx(str)
	var substr, split, pads, wraps, cases []string
	for off := -(n + 3); off <= n+3; off++ {
		for l := -(n + 3); l <= n+3; l++ {
			substr = append(substr, "substr "+h+" "+itoa(off)+" "+itoa(l))
		}
	}
	for idx := -3; idx <= n+3; idx++ {
		split = append(split, "split "+h+" "+itoa(idx))
	}
	hi := n + 3
	if extended {
		hi = n + 10
	}
	for _, t := range toks {
		ht := hx(t)
		for size := n - 3; size <= hi; size++ {
			if t == "" && size > n {
				continue // deliberate panics: separate cases (a panic ends its case)
			}
			for _, f := range []string{"pad", "padl", "padr"} {
				pads = append(pads, f+" "+h+" "+itoa(size)+" "+ht)
			}
		}
		for _, f := range []string{"wrap", "unwrap", "unwrapwrap", "wrapall", "wrap@named", "unwrap@named", "unwrapwrap@named"} {
			wraps = append(wraps, f+" "+h+" "+ht)
		}
	}
	for _, f := range []string{"reverse", "lower", "upper", "cap", "camel", "snake", "kebab"} {
		cases = append(cases, f+" "+h)
	}
	out := [][]string{substr, append(split, cases...), pads, wraps}
	// empty token with an unreachable size: the code panics (modelled; the property does not apply)
	for _, f := range []string{"pad", "padl", "padr"} {
		out = append(out, []string{f + " " + h + " " + itoa(n+1) + " x"}, []string{f + " " + h + " " + itoa(n+3) + " x"})
	}
	return out
}

func c15RandStr(rng *SplitMix, alpha []string, maxLen int) string {
	n := rng.Intn(maxLen + 1)
	var sb strings.Builder
	for i := 0; i < n; i++ {
		sb.WriteString(alpha[rng.Intn(len(alpha))])
	}
	return sb.String()
}

func genC15(g *Gen) {
	// case mapping of EVERY rune of a code-point range (blocks of 64 runes per string; surrogates skipped):
	// Latin-1, Latin Extended, Greek, Cyrillic, … (thorough: the whole BMP and samples beyond)
	hi := rune(0x0700)
	if g.Thorough() {
		hi = 0x10000
	}
	for lo := rune(0x20); lo < hi; lo += 64 {
		if !g.Mine() {
			continue
		}
		var sb strings.Builder
		sb.WriteString("a")
		for r := lo; r < lo+64; r++ {
			if r >= 0xD800 && r <= 0xDFFF {
				continue
			}
			sb.WriteRune(r)
		}
		h := hx(sb.String())
		c15Emit(g, []string{"lower " + h, "upper " + h, "cap " + h})
	}
	if g.Thorough() && g.Mine() {
		for _, lo := range []rune{0x10400, 0x10C80, 0x118A0, 0x16E40, 0x1E900, 0x1F600} {
			var sb strings.Builder
			for r := lo; r < lo+64; r++ {
				sb.WriteRune(r)
			}
			h := hx(sb.String())
			c15Emit(g, []string{"lower " + h, "upper " + h, "cap " + h})
		}
	}
	maxLen := 4
	if g.Thorough() {
		maxLen = 5
	}
	toks := c15Tokens(2)

	// 1. exhaustive scope: all strings up to maxLen symbols over {a,B,ö,',-,space}
	seqsUpTo(c15Alphabet, maxLen, func(sy []string) {
		if !g.Mine() {
			return
		}
		str := strings.Join(sy, "")
		for _, ops := range c15OpsFor(str, toks, len(sy) <= 2) {
			c15Emit(g, ops)
		}
	})

	// 2. case styles on the stated domain: words of ASCII letters/digits separated by ' ', '-', '_', '&'
	//    exhaustive: up to 3 words from a small word list, every separator between them
	words := []string{"a", "B", "ab", "aB", "Ab", "AB", "a1", "1", "fooBar", "fooBARbaz", "XMLHttp2x"}
	seps := []string{" ", "-", "_", "&", "--", "_ ", " &-"}
	var domain []string
	for _, w1 := range words {
		domain = append(domain, w1)
		for _, s1 := range seps {
			for _, w2 := range words {
				domain = append(domain, w1+s1+w2)
				if len(s1) == 1 {
					for _, s2 := range seps[:4] {
						for _, w3 := range words[:6] {
							domain = append(domain, w1+s1+w2+s2+w3)
						}
					}
				}
			}
		}
	}
	for lo := 0; lo < len(domain); lo += 40 {
		if !g.Mine() {
			continue
		}
		var ops []string
		for _, d := range domain[lo:min(lo+40, len(domain))] {
			h := hx(d)
			ops = append(ops, "camel "+h, "snake "+h, "kebab "+h, "lower "+h, "upper "+h, "cap "+h)
		}
		c15Emit(g, ops)
	}

	// 3. seeded random longer inputs
	rng := g.Rng("c15-random")
	rich := []string{"a", "b", "z", "A", "B", "Z", "0", "9", "ö", "Ö", "ß", "ǅ", "ǆ", "İ", "ı", "€", "世", "😀", "'", "\"", "-", "_", "&", " ", " ",
		"\t", "\n", "\u00a0", "\u2003", "\u0085", "\xff", "\xc3", "\xb6", "\x96", "\xe2\x82", "\xed\xa0\x80", "\xc0\x80", "\xf4\x90\x80\x80", "\xf0\x9f", "."}
	ascii := []string{"a", "b", "c", "x", "A", "B", "C", "X", "0", "7", "a", "b", "A", " ", "-", "_", "&"}
	rounds := 60
	if g.Thorough() {
		rounds = 2000
	}
	for round := 0; round < rounds; round++ {
		var ops []string
		for k := 0; k < 12; k++ {
			alpha := rich
			if rng.Intn(3) == 0 {
				alpha = c15Alphabet
			}
			str := c15RandStr(rng, alpha, 24)
			h := hx(str)
			n := len(str)
			for j := 0; j < 4; j++ {
				ops = append(ops, "substr "+h+" "+itoa(rng.Range(-n-4, n+4))+" "+itoa(rng.Range(-n-4, n+4)))
			}
			ops = append(ops, "split "+h+" "+itoa(rng.Range(-2, n+2)), "split "+h+" "+itoa(rng.Range(0, n)))
			for j := 0; j < 3; j++ {
				t := c15RandStr(rng, alpha, 4)
				if t == "" {
					t = alpha[rng.Intn(len(alpha))]
				}
				ht := hx(t)
				size := rng.Range(n-4, n+30)
				ops = append(ops, "pad "+h+" "+itoa(size)+" "+ht, "padl "+h+" "+itoa(size)+" "+ht, "padr "+h+" "+itoa(size)+" "+ht)
				ops = append(ops, "wrap "+h+" "+ht, "unwrapwrap "+h+" "+ht, "wrapall "+h+" "+ht, "unwrap "+h+" "+ht)
				// strings that are (or only half are) wrapped by the token, tokens occurring inside
				inner := c15RandStr(rng, alpha, 6)
				switch rng.Intn(4) {
				case 0:
					ops = append(ops, "unwrap "+hx(t+inner+t)+" "+ht)
				case 1:
					ops = append(ops, "unwrap "+hx(t+inner)+" "+ht)
				case 2:
					ops = append(ops, "unwrap "+hx(inner+t)+" "+ht)
				case 3:
					ops = append(ops, "unwrap "+hx(t+inner+t+inner)+" "+ht, "unwrap "+hx(t)+" "+ht)
				}
			}
			ops = append(ops, "wrap "+h+" x", "unwrap "+h+" x", "unwrapwrap "+h+" x", "wrapall "+h+" x")
			for _, f := range []string{"reverse", "lower", "upper", "cap", "camel", "snake", "kebab"} {
				ops = append(ops, f+" "+h)
			}
			// case styles: ASCII words (stated domain, possibly with leading/trailing separators)
			d := c15RandStr(rng, ascii, 20)
			hd := hx(d)
			ops = append(ops, "camel "+hd, "snake "+hd, "kebab "+hd, "cap "+hd)
		}
		c15Emit(g, ops)
	}

	// 4. malformed / edge stream (every shard emits its share)
	edge := [][]string{
		{"pad x 1 x"}, {"padl x 1 x"}, {"padr x 1 x"}, {"pad x61 2 x"}, {"pad x61 3 x"}, {"padl x61 9 x"}, {"padr x61 9 x"},
		{"pad x 0 x", "padl x 0 x", "padr x 0 x", "pad x61 -5 x", "padl x61 1 x", "padr x61 0 x", "pad x 7 x2d", "pad x 1000 xc3b6", "padl x 1000 x2d20", "padr x 999 xc3b661"},
		{"substr x 0 0", "substr x -1 -1", "substr x 1 1", "substr x 0 -1", "substr x61 1 0", "substr x61 1 5", "substr x61 2 0", "substr x61 -1 -1", "substr x61 -2 1",
			"substr x6162 0 1000000", "substr x6162 -1000000 1", "substr x6162 1000000 -1000000", "substr x6162 -1 1000000", "substr x6162 0 -1000000"},
		// offsets, lengths and indexes at the ends of the int range (sums and negations of them overflow)
		{"substr x616263 0 9223372036854775807", "substr x616263 0 9223372036854775806", "substr x616263 0 9223372036854775805", "substr x616263 0 4611686018427387904", "substr x616263 0 4611686018427387903", "substr x616263 0 -9223372036854775807", "substr x616263 0 -9223372036854775808", "substr x616263 0 -4611686018427387904", "substr x616263 1 9223372036854775807", "substr x616263 1 9223372036854775806", "substr x616263 1 9223372036854775805", "substr x616263 1 4611686018427387904", "substr x616263 1 4611686018427387903", "substr x616263 1 -9223372036854775807", "substr x616263 1 -9223372036854775808", "substr x616263 1 -4611686018427387904", "substr x616263 2 9223372036854775807", "substr x616263 2 9223372036854775806", "substr x616263 2 9223372036854775805", "substr x616263 2 4611686018427387904", "substr x616263 2 4611686018427387903", "substr x616263 2 -9223372036854775807", "substr x616263 2 -9223372036854775808", "substr x616263 2 -4611686018427387904", "substr x616263 -1 9223372036854775807", "substr x616263 -1 9223372036854775806", "substr x616263 -1 9223372036854775805", "substr x616263 -1 4611686018427387904", "substr x616263 -1 4611686018427387903", "substr x616263 -1 -9223372036854775807", "substr x616263 -1 -9223372036854775808", "substr x616263 -1 -4611686018427387904", "substr x616263 -3 9223372036854775807", "substr x616263 -3 9223372036854775806", "substr x616263 -3 9223372036854775805", "substr x616263 -3 4611686018427387904", "substr x616263 -3 4611686018427387903", "substr x616263 -3 -9223372036854775807", "substr x616263 -3 -9223372036854775808", "substr x616263 -3 -4611686018427387904", "substr x616263 9223372036854775807 9223372036854775807", "substr x616263 9223372036854775807 9223372036854775806", "substr x616263 9223372036854775807 9223372036854775805", "substr x616263 9223372036854775807 4611686018427387904", "substr x616263 9223372036854775807 4611686018427387903", "substr x616263 9223372036854775807 -9223372036854775807", "substr x616263 9223372036854775807 -9223372036854775808", "substr x616263 9223372036854775807 -4611686018427387904", "substr x616263 9223372036854775806 9223372036854775807", "substr x616263 9223372036854775806 9223372036854775806", "substr x616263 9223372036854775806 9223372036854775805", "substr x616263 9223372036854775806 4611686018427387904", "substr x616263 9223372036854775806 4611686018427387903", "substr x616263 9223372036854775806 -9223372036854775807", "substr x616263 9223372036854775806 -9223372036854775808", "substr x616263 9223372036854775806 -4611686018427387904", "substr x616263 -9223372036854775807 9223372036854775807", "substr x616263 -9223372036854775807 9223372036854775806", "substr x616263 -9223372036854775807 9223372036854775805", "substr x616263 -9223372036854775807 4611686018427387904", "substr x616263 -9223372036854775807 4611686018427387903", "substr x616263 -9223372036854775807 -9223372036854775807", "substr x616263 -9223372036854775807 -9223372036854775808", "substr x616263 -9223372036854775807 -4611686018427387904", "substr x616263 -9223372036854775808 9223372036854775807", "substr x616263 -9223372036854775808 9223372036854775806", "substr x616263 -9223372036854775808 9223372036854775805", "substr x616263 -9223372036854775808 4611686018427387904", "substr x616263 -9223372036854775808 4611686018427387903", "substr x616263 -9223372036854775808 -9223372036854775807", "substr x616263 -9223372036854775808 -9223372036854775808", "substr x616263 -9223372036854775808 -4611686018427387904", "substr x616263 9223372036854775807 0", "substr x616263 9223372036854775806 0", "substr x616263 9223372036854775805 0", "substr x616263 4611686018427387904 0", "substr x616263 4611686018427387903 0", "substr x616263 -9223372036854775807 0", "substr x616263 -9223372036854775808 0", "substr x616263 -4611686018427387904 0", "substr x616263 9223372036854775807 1", "substr x616263 9223372036854775806 1", "substr x616263 9223372036854775805 1", "substr x616263 4611686018427387904 1", "substr x616263 4611686018427387903 1", "substr x616263 -9223372036854775807 1", "substr x616263 -9223372036854775808 1", "substr x616263 -4611686018427387904 1", "substr x616263 9223372036854775807 -1", "substr x616263 9223372036854775806 -1", "substr x616263 9223372036854775805 -1", "substr x616263 4611686018427387904 -1", "substr x616263 4611686018427387903 -1", "substr x616263 -9223372036854775807 -1", "substr x616263 -9223372036854775808 -1", "substr x616263 -4611686018427387904 -1", "substr x616263 9223372036854775807 3", "substr x616263 9223372036854775806 3", "substr x616263 9223372036854775805 3", "substr x616263 4611686018427387904 3", "substr x616263 4611686018427387903 3", "substr x616263 -9223372036854775807 3", "substr x616263 -9223372036854775808 3", "substr x616263 -4611686018427387904 3", "substr x616263 9223372036854775807 -3", "substr x616263 9223372036854775806 -3", "substr x616263 9223372036854775805 -3", "substr x616263 4611686018427387904 -3", "substr x616263 4611686018427387903 -3", "substr x616263 -9223372036854775807 -3", "substr x616263 -9223372036854775808 -3", "substr x616263 -4611686018427387904 -3", "substr x 0 9223372036854775807", "substr x 0 9223372036854775806", "substr x 0 9223372036854775805", "substr x 0 4611686018427387904", "substr x 0 4611686018427387903", "substr x 0 -9223372036854775807", "substr x 0 -9223372036854775808", "substr x 0 -4611686018427387904", "substr x 1 9223372036854775807", "substr x 1 9223372036854775806", "substr x 1 9223372036854775805", "substr x 1 4611686018427387904", "substr x 1 4611686018427387903", "substr x 1 -9223372036854775807", "substr x 1 -9223372036854775808", "substr x 1 -4611686018427387904", "substr x 2 9223372036854775807", "substr x 2 9223372036854775806", "substr x 2 9223372036854775805", "substr x 2 4611686018427387904", "substr x 2 4611686018427387903", "substr x 2 -9223372036854775807", "substr x 2 -9223372036854775808", "substr x 2 -4611686018427387904", "substr x -1 9223372036854775807", "substr x -1 9223372036854775806", "substr x -1 9223372036854775805", "substr x -1 4611686018427387904", "substr x -1 4611686018427387903", "substr x -1 -9223372036854775807", "substr x -1 -9223372036854775808", "substr x -1 -4611686018427387904", "substr x -3 9223372036854775807", "substr x -3 9223372036854775806", "substr x -3 9223372036854775805", "substr x -3 4611686018427387904", "substr x -3 4611686018427387903", "substr x -3 -9223372036854775807", "substr x -3 -9223372036854775808", "substr x -3 -4611686018427387904", "substr x 9223372036854775807 9223372036854775807", "substr x 9223372036854775807 9223372036854775806", "substr x 9223372036854775807 9223372036854775805", "substr x 9223372036854775807 4611686018427387904", "substr x 9223372036854775807 4611686018427387903", "substr x 9223372036854775807 -9223372036854775807", "substr x 9223372036854775807 -9223372036854775808", "substr x 9223372036854775807 -4611686018427387904", "substr x 9223372036854775806 9223372036854775807", "substr x 9223372036854775806 9223372036854775806", "substr x 9223372036854775806 9223372036854775805", "substr x 9223372036854775806 4611686018427387904", "substr x 9223372036854775806 4611686018427387903", "substr x 9223372036854775806 -9223372036854775807", "substr x 9223372036854775806 -9223372036854775808", "substr x 9223372036854775806 -4611686018427387904"},
		{"substr x -9223372036854775807 9223372036854775807", "substr x -9223372036854775807 9223372036854775806", "substr x -9223372036854775807 9223372036854775805", "substr x -9223372036854775807 4611686018427387904", "substr x -9223372036854775807 4611686018427387903", "substr x -9223372036854775807 -9223372036854775807", "substr x -9223372036854775807 -9223372036854775808", "substr x -9223372036854775807 -4611686018427387904", "substr x -9223372036854775808 9223372036854775807", "substr x -9223372036854775808 9223372036854775806", "substr x -9223372036854775808 9223372036854775805", "substr x -9223372036854775808 4611686018427387904", "substr x -9223372036854775808 4611686018427387903", "substr x -9223372036854775808 -9223372036854775807", "substr x -9223372036854775808 -9223372036854775808", "substr x -9223372036854775808 -4611686018427387904", "substr x 9223372036854775807 0", "substr x 9223372036854775806 0", "substr x 9223372036854775805 0", "substr x 4611686018427387904 0", "substr x 4611686018427387903 0", "substr x -9223372036854775807 0", "substr x -9223372036854775808 0", "substr x -4611686018427387904 0", "substr x 9223372036854775807 1", "substr x 9223372036854775806 1", "substr x 9223372036854775805 1", "substr x 4611686018427387904 1", "substr x 4611686018427387903 1", "substr x -9223372036854775807 1", "substr x -9223372036854775808 1", "substr x -4611686018427387904 1", "substr x 9223372036854775807 -1", "substr x 9223372036854775806 -1", "substr x 9223372036854775805 -1", "substr x 4611686018427387904 -1", "substr x 4611686018427387903 -1", "substr x -9223372036854775807 -1", "substr x -9223372036854775808 -1", "substr x -4611686018427387904 -1", "substr x 9223372036854775807 3", "substr x 9223372036854775806 3", "substr x 9223372036854775805 3", "substr x 4611686018427387904 3", "substr x 4611686018427387903 3", "substr x -9223372036854775807 3", "substr x -9223372036854775808 3", "substr x -4611686018427387904 3", "substr x 9223372036854775807 -3", "substr x 9223372036854775806 -3", "substr x 9223372036854775805 -3", "substr x 4611686018427387904 -3", "substr x 4611686018427387903 -3", "substr x -9223372036854775807 -3", "substr x -9223372036854775808 -3", "substr x -4611686018427387904 -3", "substr x61 0 9223372036854775807", "substr x61 0 9223372036854775806", "substr x61 0 9223372036854775805", "substr x61 0 4611686018427387904", "substr x61 0 4611686018427387903", "substr x61 0 -9223372036854775807", "substr x61 0 -9223372036854775808", "substr x61 0 -4611686018427387904", "substr x61 1 9223372036854775807", "substr x61 1 9223372036854775806", "substr x61 1 9223372036854775805", "substr x61 1 4611686018427387904", "substr x61 1 4611686018427387903", "substr x61 1 -9223372036854775807", "substr x61 1 -9223372036854775808", "substr x61 1 -4611686018427387904", "substr x61 2 9223372036854775807", "substr x61 2 9223372036854775806", "substr x61 2 9223372036854775805", "substr x61 2 4611686018427387904", "substr x61 2 4611686018427387903", "substr x61 2 -9223372036854775807", "substr x61 2 -9223372036854775808", "substr x61 2 -4611686018427387904", "substr x61 -1 9223372036854775807", "substr x61 -1 9223372036854775806", "substr x61 -1 9223372036854775805", "substr x61 -1 4611686018427387904", "substr x61 -1 4611686018427387903", "substr x61 -1 -9223372036854775807", "substr x61 -1 -9223372036854775808", "substr x61 -1 -4611686018427387904", "substr x61 -3 9223372036854775807", "substr x61 -3 9223372036854775806", "substr x61 -3 9223372036854775805", "substr x61 -3 4611686018427387904", "substr x61 -3 4611686018427387903", "substr x61 -3 -9223372036854775807", "substr x61 -3 -9223372036854775808", "substr x61 -3 -4611686018427387904", "substr x61 9223372036854775807 9223372036854775807", "substr x61 9223372036854775807 9223372036854775806", "substr x61 9223372036854775807 9223372036854775805", "substr x61 9223372036854775807 4611686018427387904", "substr x61 9223372036854775807 4611686018427387903", "substr x61 9223372036854775807 -9223372036854775807", "substr x61 9223372036854775807 -9223372036854775808", "substr x61 9223372036854775807 -4611686018427387904", "substr x61 9223372036854775806 9223372036854775807", "substr x61 9223372036854775806 9223372036854775806", "substr x61 9223372036854775806 9223372036854775805", "substr x61 9223372036854775806 4611686018427387904", "substr x61 9223372036854775806 4611686018427387903", "substr x61 9223372036854775806 -9223372036854775807", "substr x61 9223372036854775806 -9223372036854775808", "substr x61 9223372036854775806 -4611686018427387904", "substr x61 -9223372036854775807 9223372036854775807", "substr x61 -9223372036854775807 9223372036854775806", "substr x61 -9223372036854775807 9223372036854775805", "substr x61 -9223372036854775807 4611686018427387904", "substr x61 -9223372036854775807 4611686018427387903", "substr x61 -9223372036854775807 -9223372036854775807", "substr x61 -9223372036854775807 -9223372036854775808", "substr x61 -9223372036854775807 -4611686018427387904", "substr x61 -9223372036854775808 9223372036854775807", "substr x61 -9223372036854775808 9223372036854775806", "substr x61 -9223372036854775808 9223372036854775805", "substr x61 -9223372036854775808 4611686018427387904", "substr x61 -9223372036854775808 4611686018427387903", "substr x61 -9223372036854775808 -9223372036854775807", "substr x61 -9223372036854775808 -9223372036854775808", "substr x61 -9223372036854775808 -4611686018427387904", "substr x61 9223372036854775807 0", "substr x61 9223372036854775806 0", "substr x61 9223372036854775805 0", "substr x61 4611686018427387904 0", "substr x61 4611686018427387903 0", "substr x61 -9223372036854775807 0", "substr x61 -9223372036854775808 0", "substr x61 -4611686018427387904 0", "substr x61 9223372036854775807 1", "substr x61 9223372036854775806 1", "substr x61 9223372036854775805 1", "substr x61 4611686018427387904 1", "substr x61 4611686018427387903 1", "substr x61 -9223372036854775807 1", "substr x61 -9223372036854775808 1", "substr x61 -4611686018427387904 1", "substr x61 9223372036854775807 -1", "substr x61 9223372036854775806 -1", "substr x61 9223372036854775805 -1", "substr x61 4611686018427387904 -1", "substr x61 4611686018427387903 -1", "substr x61 -9223372036854775807 -1", "substr x61 -9223372036854775808 -1", "substr x61 -4611686018427387904 -1", "substr x61 9223372036854775807 3", "substr x61 9223372036854775806 3", "substr x61 9223372036854775805 3", "substr x61 4611686018427387904 3", "substr x61 4611686018427387903 3", "substr x61 -9223372036854775807 3", "substr x61 -9223372036854775808 3", "substr x61 -4611686018427387904 3", "substr x61 9223372036854775807 -3", "substr x61 9223372036854775806 -3", "substr x61 9223372036854775805 -3", "substr x61 4611686018427387904 -3", "substr x61 4611686018427387903 -3", "substr x61 -9223372036854775807 -3", "substr x61 -9223372036854775808 -3", "substr x61 -4611686018427387904 -3", "split x616263 9223372036854775807", "split x616263 9223372036854775806", "split x616263 9223372036854775805", "split x616263 4611686018427387904", "split x616263 4611686018427387903", "split x616263 -9223372036854775807", "split x616263 -9223372036854775808", "split x616263 -4611686018427387904", "split x 9223372036854775807", "split x 9223372036854775806", "split x 9223372036854775805", "split x 4611686018427387904", "split x 4611686018427387903", "split x -9223372036854775807", "split x -9223372036854775808", "split x -4611686018427387904"},
		{"split x 0", "split x -1", "split x 1", "split xc3b6 0", "split xc3b6 1", "split xe282ac 0", "split xe282ac 1", "split xe282ac 2", "split xf09f9880 1", "split xf09f9880 2", "split xff 0", "split x61c3 1"},
		{"unwrap x x", "unwrap x x27", "unwrap x27 x27", "unwrap x2727 x27", "unwrap x272727 x27", "unwrap x276162 x27", "unwrap x27612762 x27", "unwrap x612761 x27", "unwrap x6127 x27",
			"unwrap x61 x6161", "unwrap x6161 x6161", "unwrap x616161 x6161", "unwrap x61616161 x6161", "unwrap xc3b661c3b6 xc3", "unwrap xc3b661c3b6 xb6", "unwrap xc3b661c3b6 xc3b6",
			"unwrapwrap x27 x27", "unwrapwrap x x27", "unwrapwrap x2761 x27", "unwrapwrap x6127 x27", "unwrapwrap x61 x"},
		{"wrapall x x27", "wrapall xff x27", "wrapall xc3 xc3", "wrapall xc3b6ff61 x2d", "wrapall xeda080 x2d", "wrapall xf4908080 x2d", "wrapall xc080 x2d",
			"reverse x", "reverse xff", "reverse xc3b6", "reverse xb6c3", "reverse x61c3b6", "reverse xe282ac61f09f9880", "reverse xeda080", "reverse xe282", "reverse xf09f98", "reverse x61ff62",
			"lower xff", "upper xff", "cap xff", "cap xffc3b6", "lower xc396", "upper xc3b6", "cap xc3b6c396", "cap x61c396", "upper xc39f", "lower xc785", "upper xc785", "upper xc4b1", "lower xc4b0", "cap x20c3b6"},
		{"camel x", "snake x", "kebab x", "camel x20", "snake x2d", "kebab x5f5f", "camel x2d61", "snake x2d61", "snake x612d", "kebab x612d", "camel x612d", "snake x20612062", "snake x09610a",
			"snake xc2a061", "snake x61c2a0", "snake x61e28083", "snake xe2808361", "camel xc28561", "snake x61a0", "snake x6185", "snake x61c2", "snake xffc2a0",
			"snake xc3b642", "snake x61c396", "snake xc3b6c396", "snake xc3b6c39661c396", "snake x6142c3b643", "kebab x614243", "kebab x61424364", "kebab x41426344", "snake x614263446546",
			"camel x666f6f426172", "camel x666f6f20626172", "camel x2d2d666f6f2d2d6261722d2d", "snake x2d2d666f6f2d2d6261722d2d", "camel x5f5f464f4f5f4241525f5f", "camel x612020622d2d63", "camel xc396c396", "camel x6120c3b6c396",
			"snake x6109", "snake x0961", "snake x610962", "camel x610962", "snake x61e2808362"},
	}
	for _, ops := range edge {
		if !g.Mine() {
			continue
		}
		c15Emit(g, ops)
	}
}
