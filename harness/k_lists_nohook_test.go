//go:build !verif

package main

import "github.com/esimov/gogu/list"

func dlistDump(l *list.DList[int]) string { return "nohook" }
