package main

import (
	"context"
	"errors"
	"fmt"
	"io"
	"os"
	"time"

	"github.com/esimov/gogu"
	"github.com/esimov/gogu/cache"
)

// ---- C18: Before / After / Once / Retry (virtual clock) ---------------------------------------------

type afterRunner struct{ n int }

func (r *afterRunner) Do(op []string) string {
	switch op[0] {
	case "call":
		ran := 0
		gogu.After(&r.n, func() { ran++ })
		return itoa(ran)
	}
	panic("harness: bad op " + op[0])
}

// the callback returns base + (number of runs so far), so every run has a distinct result; base -1 makes
// the FIRST result the zero value of the result type
type beforeRunner struct {
	n    int
	c    *cache.Cache[string, int]
	runs int
	base int
}

func (r *beforeRunner) Close() { r.c.VerifStopCleanup() }

func (r *beforeRunner) Do(op []string) string {
	switch op[0] {
	case "call":
		before := r.runs
		ret := gogu.Before(&r.n, r.c, func() int { r.runs++; return r.base + r.runs })
		return itoa(r.runs-before) + " " + itoa(ret)
	case "purge": // what the cache's janitor does on every tick
		r.c.DeleteExpired()
		return "ok"
	}
	panic("harness: bad op " + op[0])
}

type onceRunner struct {
	c    *cache.Cache[string, int]
	runs int
	base int
}

func (r *onceRunner) Close() { r.c.VerifStopCleanup() }

func (r *onceRunner) Do(op []string) string {
	switch op[0] {
	case "call":
		before := r.runs
		ret := gogu.Once[string, int, int](r.c, func() int { r.runs++; return r.base + r.runs })
		return itoa(r.runs-before) + " " + itoa(ret)
	case "purge": // what the cache's janitor does on every tick
		r.c.DeleteExpired()
		return "ok"
	}
	panic("harness: bad op " + op[0])
}

type retryRunner struct{}

var errScript = errors.New("scripted failure")

// scriptedErr: the failures of a script are different error VALUES (a plain error, the context package's sentinels -
// bare and wrapped -, io.EOF, a typed error): the property counts failed calls, whatever they failed with.
type typedErr struct{ code int }

func (e typedErr) Error() string { return "typed failure " + itoa(e.code) }

func scriptedErr(i int) error {
	switch i % 6 {
	case 1:
		return context.Canceled
	case 2:
		return fmt.Errorf("attempt %d: %w", i, context.DeadlineExceeded)
	case 3:
		return io.EOF
	case 4:
		return typedErr{i}
	case 5:
		return fmt.Errorf("attempt %d: %w", i, os.ErrDeadlineExceeded)
	}
	return errScript
}

func (r *retryRunner) Do(op []string) string {
	switch op[0] {
	case "retry":
		n := atoi(op[1])
		script := parseInts(op[2])
		calls := 0
		attempts, err := gogu.RType[int]{Input: 7}.Retry(n, func(in int) error {
			i := calls
			calls++
			if calls > 1000 {
				panic(hangSignal{})
			}
			if i < len(script) && script[i] == 0 {
				return nil
			}
			return scriptedErr(i + n)
		})
		return itoa(attempts) + " " + errs(err) + " " + itoa(calls)
	case "retrydelay", "retrydelayus":
		// retrydelay <n> <delay ms> <script> [<attempt durations ms>]: attempt i takes durs[i] ms of (virtual) time;
		// retrydelayus: the same with all durations and stamps in MICROseconds (sub-millisecond delays)
		unit := time.Millisecond
		if op[0] == "retrydelayus" {
			unit = time.Microsecond
		}
		n := atoi(op[1])
		d := time.Duration(atoi(op[2])) * unit
		script := parseInts(op[3])
		var durs []int
		if len(op) > 4 {
			durs = parseInts(op[4])
		}
		calls := 0
		start := time.Now()
		var stamps, ends []int
		_, attempts, err := gogu.RType[int]{Input: 7}.RetryWithDelay(n, d, func(el time.Duration, in int) error {
			i := calls
			calls++
			if calls > 1000 {
				panic(hangSignal{})
			}
			stamps = append(stamps, int(time.Since(start)/unit))
			if i < len(durs) && durs[i] > 0 {
				time.Sleep(time.Duration(durs[i]) * unit)
			}
			ends = append(ends, int(time.Since(start)/unit))
			if i < len(script) && script[i] == 0 {
				return nil
			}
			return scriptedErr(i + n)
		})
		return itoa(attempts) + " " + errs(err) + " " + itoa(calls) + " " + ints(stamps) + " " + ints(ends)
	}
	panic("harness: bad op " + op[0])
}

// -- Once on the real clock with an entry that expires during the calls
//
//	CASE oncelive <lifetimeMicroseconds>
//	spin <n> => ok | zero <call number>
//
// Every result of the callback is non-zero, so a call of Once that returns the zero value returned neither "that first
// result" nor the result of a new run: the entry expired between two lookups of the same call.  (On the virtual clock a
// call happens at one instant; here time really passes inside a call.)  A verdict only from a wrong VALUE.
type onceLiveRunner struct{ life int }

func (r *onceLiveRunner) Do(op []string) string {
	if op[0] != "spin" {
		panic("harness: bad op " + op[0])
	}
	n := atoi(op[1])
	c := cache.New[string, int](time.Duration(r.life)*time.Microsecond, 0)
	next := 0
	begin := time.Now()
	for i := 0; i < n; i++ {
		if i%64 == 0 && time.Since(begin) > hangLimit/4 {
			break
		}
		v := gogu.Once[string, int, int](c, func() int { next++; return next })
		if v == 0 {
			return "zero " + itoa(i)
		}
	}
	return "ok"
}

func init() {
	kinds["oncelive"] = func(p []string) Runner { return &onceLiveRunner{life: atoi(p[0])} }
	for _, k := range []string{"after", "before", "once", "retry"} {
		timedKinds[k] = true
	}
	kinds["after"] = func(p []string) Runner { return &afterRunner{n: atoi(p[0])} }
	kinds["before"] = func(p []string) Runner {
		return &beforeRunner{n: atoi(p[0]), c: cache.New[string, int](dur(atoi(p[1])), 0), base: atoi(p[2])}
	}
	kinds["once"] = func(p []string) Runner {
		return &onceRunner{c: cache.New[string, int](dur(atoi(p[0])), 0), base: atoi(p[1])}
	}
	kinds["retry"] = func(p []string) Runner { return &retryRunner{} }
	gens["C18"] = genC18
}

func genC18(g *Gen) {
	// Once on the real clock: entries that expire while calls are under way
	for _, life := range []int{50, 20, 200} {
		if g.Mine() {
			n := "20000"
			if g.Thorough() {
				n = "400000"
			}
			g.Emit("oncelive", []string{itoa(life)}, []string{"spin " + n})
		}
	}
	// Before on a cache whose entries expire: calls before and after the entry of the last run has expired
	for _, n := range []int{1, 2, 3} {
		if g.Mine() {
			ops := []string{}
			for i := 0; i < n+1; i++ {
				ops = append(ops, "call")
			}
			ops = append(ops, "sleep 10", "call", "sleep 15", "call", "call", "sleep 40", "call")
			g.Emit("before", []string{itoa(n), "20", "100"}, ops)
		}
	}
	maxN, maxCalls, maxScript := 8, 12, 6
	if g.Thorough() {
		maxScript = 8
	}
	for n := -2; n <= maxN; n++ {
		for calls := 0; calls <= maxCalls; calls++ {
			if !g.Mine() {
				continue
			}
			ops := make([]string, calls)
			for i := range ops {
				ops[i] = "call"
			}
			g.Emit("after", []string{itoa(n)}, ops)
			g.Emit("before", []string{itoa(n), "-1", "100"}, ops)
			g.Emit("before", []string{itoa(n), "-1", "-1"}, ops) // first result = zero value
			// the cleanup of the cache (DeleteExpired, run by its janitor) between the calls must not matter: the
			// entry does not expire -- neither with NoExpiration nor with a zero default duration
			if calls >= 1 && calls <= 6 {
				withPurge := interleave(ops, []string{"purge"})
				g.Emit("before", []string{itoa(n), "-1", "100"}, withPurge)
				g.Emit("before", []string{itoa(n), "0", "100"}, withPurge)
				g.Emit("before", []string{itoa(n), "0", "-1"}, ops)
			}
		}
	}
	// Once: all call/sleep scripts (expiry 10ms; sleeps 4 / 7 / 11 ms) up to length 6/7
	sl := 6
	if g.Thorough() {
		sl = 8
	}
	// ... and with the cache's cleanup (DeleteExpired) between the steps, incl. a zero default duration (never expires)
	for _, exp := range []string{"-1", "0", "10"} {
		seqsUpTo([]string{"call", "sleep 4", "sleep 11", "purge"}, sl-1, func(s []string) {
			if !g.Mine() {
				return
			}
			g.Emit("once", []string{exp, "100"}, append([]string{}, s...))
		})
	}
	for _, exp := range []string{"-1", "10"} {
		seqsUpTo([]string{"call", "sleep 4", "sleep 7", "sleep 11"}, sl, func(s []string) {
			if !g.Mine() {
				return
			}
			g.Emit("once", []string{exp, "100"}, append([]string{}, s...))
			if len(s) <= 5 {
				g.Emit("once", []string{exp, "-1"}, append([]string{}, s...)) // first result = zero value
			}
		})
	}
	// Retry: every n, every success/failure script up to maxScript
	var scripts [][]int
	allSlices([]int{0, 1}, maxScript, func(s []int) { scripts = append(scripts, append([]int{}, s...)) })
	for n := -2; n <= maxN; n++ {
		if !g.Mine() {
			continue
		}
		var ops []string
		for _, sc := range scripts {
			ops = append(ops, "retry "+itoa(n)+" "+ints(sc))
		}
		g.Emit("retry", nil, ops)
		var ops2 []string
		for i, sc := range scripts {
			if len(sc) <= 4 || i%7 == 0 {
				ops2 = append(ops2, "retrydelay "+itoa(n)+" "+itoa(3+i%5)+" "+ints(sc))
			}
		}
		g.Emit("retry", nil, ops2)
		// attempts that take (virtual) time themselves: shorter than, equal to and longer than the delay
		var ops3 []string
		for i, sc := range scripts {
			if len(sc) <= 4 {
				for _, du := range [][]int{{7, 0, 0, 0}, {0, 12, 0, 0}, {3, 5, 9, 0}, {5, 5, 5, 5}} {
					ops3 = append(ops3, "retrydelay "+itoa(n)+" "+itoa(3+i%5)+" "+ints(sc)+" "+ints(du))
				}
			}
		}
		g.Emit("retry", nil, ops3)
		// sub-millisecond delays (microsecond unit)
		var ops4 []string
		for i, sc := range scripts {
			if len(sc) <= 4 {
				ops4 = append(ops4, "retrydelayus "+itoa(n)+" "+itoa([]int{1, 250, 500, 999, 1000, 1500}[i%6])+" "+ints(sc)+" "+ints([]int{0, 300, 0, 0}))
			}
		}
		g.Emit("retry", nil, ops4)
	}
}
