//go:build verif

package main

import "github.com/esimov/gogu"

// setDebounceGap installs f as the hook VerifDebounceGap of /repo's func.go (build tag verif).
func setDebounceGap(f func()) bool { gogu.VerifDebounceGap = f; return true }
