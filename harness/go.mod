module verifharness

go 1.26

godebug randseednop=0

require github.com/esimov/gogu v0.0.0

require (
	golang.org/x/exp v0.0.0-20230303215020-44a13b063f3e // indirect
	golang.org/x/sync v0.1.0 // indirect
)

replace github.com/esimov/gogu => /repo
