package main

import (
	"sort"
	"strconv"

	"github.com/esimov/gogu"
)

// ---- C13: search, selection, aggregates, numbers, Range -------------------------------------------
//
// Kind `c13` is stateless: every line is one call of a real gogu function.
//
//	indexof S v | lastindexof S v | contains S v                 => int / T F
//	findindex S pK | findlastindex S pK | some S pK | every S pK  => int / T F
//	findall S pK                                                  => [[i,v],...]  (map sorted by index)
//	findmin S | findmax S | min S | max S                         => int          (min/max: variadic call)
//	findminby S fK | findmaxby S fK                               => int
//	findminbykey M k | findmaxbykey M k                           => ok v | err v (M = list of maps, a map = sorted [[k,v],...])
//	nth S i                                                       => ok v | err
//	sum S | sumby S fK | mean S                                   => int  (mean [] => panic: integer division by zero)
//	abs x | clamp x lo hi | inrange x lo hi                       => int / T F      (T = int)
//	abs8 x | clamp8 x lo hi | inrange8 x lo hi                    => int / T F      (T = int8)
//	abs8all                                                       => [Abs(int8(x)) for x = -128..127]
//	clamp8row x lo | inrange8row x lo                             => [f(x, lo, hi) for hi = -128..127]  (T = int8; inrange as 0/1)
//	compare a b cK | less a b | equal a b                         => int / T F
//	range A | rangeright A                                        => ok [..] | err  (A = the argument list, any length)
//
//	str <op> …                                                    the same call on the STRING instantiation: ints 0..10
//	                                                              stand for the byte-wise increasing strings of c13Strs (0 = "",
//	                                                              the zero value), results are translated back (order isomorphism)
//
// Callback families (identical in Lean, Spec/C13.lean): predicates p0..p5, keys f0..f5, comparators
// c0 a<b, c1 a>b, c2 a==b, c3 a<=b, c4 true, c5 false.

// namedInt: a named type whose underlying type is int (type switches and type assertions do not see through it,
// reflect.Kind does)
type namedInt int

func c13Pred(name string) func(int) bool { return ft1(c13Pred0(name)) }

func c13Pred0(name string) func(int) bool {
	switch name {
	case "p0":
		return func(x int) bool { return x%2 == 0 }
	case "p1":
		return func(x int) bool { return x > 1 }
	case "p2":
		return func(x int) bool { return true }
	case "p3":
		return func(x int) bool { return false }
	case "p4":
		return func(x int) bool { return x == 2 }
	case "p5":
		return func(x int) bool { return x < 0 }
	}
	panic("harness: bad predicate " + name)
}

func c13Key(name string) func(int) int { return ft1(c13Key0(name)) }

func c13Key0(name string) func(int) int {
	switch name {
	case "f0":
		return func(x int) int { return x }
	case "f1":
		return func(x int) int { return x % 2 }
	case "f2":
		return func(x int) int { return x / 2 }
	case "f3":
		return func(x int) int { return 0 }
	case "f4":
		return func(x int) int { return -x }
	case "f5":
		return func(x int) int { return x * x }
	}
	panic("harness: bad key function " + name)
}

func c13Comp(name string) gogu.CompFn[int] {
	switch name {
	case "c0":
		return func(a, b int) bool { return a < b }
	case "c1":
		return func(a, b int) bool { return a > b }
	case "c2":
		return func(a, b int) bool { return a == b }
	case "c3":
		return func(a, b int) bool { return a <= b }
	case "c4":
		return func(a, b int) bool { return true }
	case "c5":
		return func(a, b int) bool { return false }
	}
	panic("harness: bad comparator " + name)
}

// c13Maps parses a list of maps, each a list of [k,v] pairs.
func c13Maps(s string) []map[int]int {
	out := []map[int]int{}
	for _, ms := range parseList(s) {
		m := map[int]int{}
		for _, e := range parseList(ms) {
			kv := parseInts(e)
			m[kv[0]] = kv[1]
		}
		out = append(out, m)
	}
	return out
}

func c13Int8s(a []int) []int8 {
	out := make([]int8, len(a))
	for i, x := range a {
		out[i] = int8(x)
	}
	return out
}

func c13ValErr(v int, err error) string {
	if err != nil {
		return "err " + itoa(v)
	}
	return "ok " + itoa(v)
}

// c13Strs: strictly increasing under Go's (byte-wise) string order; index 0 is the zero value.
var c13Strs = []string{"", "A", "AB", "B", "a", "ab", "abc", "b", "\u00e9", "\u65e5\u672c", "\xff"}

var c13StrRank = func() map[string]int {
	m := map[string]int{}
	for i, s := range c13Strs {
		m[s] = i
	}
	return m
}()

func c13ToStrs(a []int) []string {
	out := make([]string, len(a))
	for i, x := range a {
		out[i] = c13Strs[x]
	}
	return out
}

func c13RankOf(s string) int {
	r, ok := c13StrRank[s]
	if !ok {
		panic("harness: string result outside the table")
	}
	return r
}

// c13DoStr runs op on the string instantiation of the generic function.
func c13DoStr(op []string) string {
	sp := func(name string) func(string) bool {
		p := c13Pred(name)
		return func(s string) bool { return p(c13RankOf(s)) }
	}
	sk := func(name string) func(string) string {
		f := c13Key(name)
		return func(s string) string { return c13Strs[f(c13RankOf(s))] }
	}
	sc := func(name string) gogu.CompFn[string] {
		c := c13Comp(name)
		return func(a, b string) bool { return c(c13RankOf(a), c13RankOf(b)) }
	}
	switch op[0] {
	case "indexof":
		return itoa(gogu.IndexOf(c13ToStrs(parseInts(op[1])), c13Strs[atoi(op[2])]))
	case "lastindexof":
		return itoa(gogu.LastIndexOf(c13ToStrs(parseInts(op[1])), c13Strs[atoi(op[2])]))
	case "contains":
		return b2s(gogu.Contains(c13ToStrs(parseInts(op[1])), c13Strs[atoi(op[2])]))
	case "findindex":
		return itoa(gogu.FindIndex(c13ToStrs(parseInts(op[1])), sp(op[2])))
	case "findlastindex":
		return itoa(gogu.FindLastIndex(c13ToStrs(parseInts(op[1])), sp(op[2])))
	case "some":
		return b2s(gogu.Some(c13ToStrs(parseInts(op[1])), sp(op[2])))
	case "every":
		return b2s(gogu.Every(c13ToStrs(parseInts(op[1])), sp(op[2])))
	case "findall":
		m := gogu.FindAll(c13ToStrs(parseInts(op[1])), sp(op[2]))
		keys := make([]int, 0, len(m))
		for k := range m {
			keys = append(keys, k)
		}
		sort.Ints(keys)
		items := make([]string, len(keys))
		for i, k := range keys {
			items[i] = "[" + itoa(k) + "," + itoa(c13RankOf(m[k])) + "]"
		}
		return plist(items)
	case "findmin":
		return itoa(c13RankOf(gogu.FindMin(c13ToStrs(parseInts(op[1])))))
	case "findmax":
		return itoa(c13RankOf(gogu.FindMax(c13ToStrs(parseInts(op[1])))))
	case "min":
		return itoa(c13RankOf(gogu.Min(c13ToStrs(parseInts(op[1]))...)))
	case "max":
		return itoa(c13RankOf(gogu.Max(c13ToStrs(parseInts(op[1]))...)))
	case "findminby":
		return itoa(c13RankOf(gogu.FindMinBy(c13ToStrs(parseInts(op[1])), sk(op[2]))))
	case "findmaxby":
		return itoa(c13RankOf(gogu.FindMaxBy(c13ToStrs(parseInts(op[1])), sk(op[2]))))
	case "nth":
		v, err := gogu.Nth(c13ToStrs(parseInts(op[1])), atoi(op[2]))
		if err != nil {
			return "err"
		}
		return "ok " + itoa(c13RankOf(v))
	case "compare":
		return itoa(gogu.Compare(c13Strs[atoi(op[1])], c13Strs[atoi(op[2])], sc(op[3])))
	case "less":
		return b2s(gogu.Less(c13Strs[atoi(op[1])], c13Strs[atoi(op[2])]))
	case "equal":
		return b2s(gogu.Equal(c13Strs[atoi(op[1])], c13Strs[atoi(op[2])]))
	}
	panic("harness: bad str op " + op[0])
}

type c13Runner struct{}

func (r *c13Runner) Do(op []string) string {
	switch op[0] {
	case "str":
		return c13DoStr(op[1:])
	case "indexof":
		return itoa(gogu.IndexOf(parseInts(op[1]), atoi(op[2])))
	case "lastindexof":
		return itoa(gogu.LastIndexOf(parseInts(op[1]), atoi(op[2])))
	case "contains":
		return b2s(gogu.Contains(parseInts(op[1]), atoi(op[2])))
	case "findindex":
		return itoa(gogu.FindIndex(parseInts(op[1]), c13Pred(op[2])))
	case "findlastindex":
		return itoa(gogu.FindLastIndex(parseInts(op[1]), c13Pred(op[2])))
	case "some":
		return b2s(gogu.Some(parseInts(op[1]), c13Pred(op[2])))
	case "every":
		return b2s(gogu.Every(parseInts(op[1]), c13Pred(op[2])))
	case "findall":
		m := gogu.FindAll(parseInts(op[1]), c13Pred(op[2]))
		keys := make([]int, 0, len(m))
		for k := range m {
			keys = append(keys, k)
		}
		sort.Ints(keys)
		items := make([]string, len(keys))
		for i, k := range keys {
			items[i] = "[" + itoa(k) + "," + itoa(m[k]) + "]"
		}
		return plist(items)
	case "findmin":
		return itoa(gogu.FindMin(parseInts(op[1])))
	case "findmax":
		return itoa(gogu.FindMax(parseInts(op[1])))
	case "min":
		return itoa(gogu.Min(parseInts(op[1])...))
	case "max":
		return itoa(gogu.Max(parseInts(op[1])...))
	case "findminby":
		return itoa(gogu.FindMinBy(parseInts(op[1]), c13Key(op[2])))
	case "findmaxby":
		return itoa(gogu.FindMaxBy(parseInts(op[1]), c13Key(op[2])))
	case "findminbykey":
		return c13ValErr(gogu.FindMinByKey(c13Maps(op[1]), atoi(op[2])))
	case "findmaxbykey":
		return c13ValErr(gogu.FindMaxByKey(c13Maps(op[1]), atoi(op[2])))
	case "nth":
		v, err := gogu.Nth(parseInts(op[1]), atoi(op[2]))
		if err != nil {
			return "err"
		}
		return "ok " + itoa(v)
	case "sum":
		return itoa(gogu.Sum(parseInts(op[1])))
	case "sumby":
		return itoa(gogu.SumBy(parseInts(op[1]), c13Key(op[2])))
	case "mean":
		return itoa(gogu.Mean(parseInts(op[1])))
	case "abs":
		return itoa(gogu.Abs(atoi(op[1])))
	case "clamp":
		return itoa(gogu.Clamp(atoi(op[1]), atoi(op[2]), atoi(op[3])))
	case "inrange":
		return b2s(gogu.InRange(atoi(op[1]), atoi(op[2]), atoi(op[3])))
	case "abs8":
		return itoa(int(gogu.Abs(int8(atoi(op[1])))))
	case "clamp8":
		return itoa(int(gogu.Clamp(int8(atoi(op[1])), int8(atoi(op[2])), int8(atoi(op[3])))))
	case "inrange8":
		return b2s(gogu.InRange(int8(atoi(op[1])), int8(atoi(op[2])), int8(atoi(op[3]))))
	case "abs8all":
		out := make([]int, 0, 256)
		for x := -128; x <= 127; x++ {
			out = append(out, int(gogu.Abs(int8(x))))
		}
		return ints(out)
	case "clamp8row":
		x, lo := int8(atoi(op[1])), int8(atoi(op[2]))
		out := make([]int, 0, 256)
		for hi := -128; hi <= 127; hi++ {
			out = append(out, int(gogu.Clamp(x, lo, int8(hi))))
		}
		return ints(out)
	case "inrange8row":
		x, lo := int8(atoi(op[1])), int8(atoi(op[2]))
		out := make([]int, 0, 256)
		for hi := -128; hi <= 127; hi++ {
			if gogu.InRange(x, lo, int8(hi)) {
				out = append(out, 1)
			} else {
				out = append(out, 0)
			}
		}
		return ints(out)
	case "compare":
		return itoa(gogu.Compare(atoi(op[1]), atoi(op[2]), c13Comp(op[3])))
	case "less":
		return b2s(gogu.Less(atoi(op[1]), atoi(op[2])))
	case "equal":
		return b2s(gogu.Equal(atoi(op[1]), atoi(op[2])))
	case "range":
		res, err := gogu.Range(parseInts(op[1])...)
		if err != nil {
			return "err"
		}
		return "ok " + ints(res)
	case "rangeright":
		res, err := gogu.RangeRight(parseInts(op[1])...)
		if err != nil {
			return "err"
		}
		return "ok " + ints(res)
	case "range@named", "rangeright@named": // a NAMED int type (inside the Number type set)
		var args []namedInt
		for _, x := range parseInts(op[1]) {
			args = append(args, namedInt(x))
		}
		var res []namedInt
		var err error
		if op[0] == "range@named" {
			res, err = gogu.Range(args...)
		} else {
			res, err = gogu.RangeRight(args...)
		}
		if err != nil {
			return "err"
		}
		out := make([]int, len(res))
		for i, x := range res {
			out[i] = int(x)
		}
		return "ok " + ints(out)
	case "rangeu", "rangerightu": // the uint64 instantiation (values above 2^63 included)
		var args []uint64
		for _, t := range parseList(op[1]) {
			u, err := strconv.ParseUint(t, 10, 64)
			if err != nil {
				panic("harness: bad unsigned argument " + t)
			}
			args = append(args, u)
		}
		var res []uint64
		var err error
		if op[0] == "rangeu" {
			res, err = gogu.Range(args...)
		} else {
			res, err = gogu.RangeRight(args...)
		}
		if err != nil {
			return "err"
		}
		items := make([]string, len(res))
		for i, u := range res {
			items[i] = strconv.FormatUint(u, 10)
		}
		return "ok " + plist(items)
	}
	panic("harness: bad op " + op[0])
}

func init() {
	kinds["c13"] = func(p []string) Runner { return &c13Runner{} }
	gens["C13"] = genC13
}

var c13Preds = []string{"p0", "p1", "p2", "p3", "p4", "p5"}
var c13Keys = []string{"f0", "f1", "f2", "f3", "f4", "f5"}
var c13Comps = []string{"c0", "c1", "c2", "c3", "c4", "c5"}

// c13SliceOps: every slice function on one slice; probes = candidate values for IndexOf etc.;
// Nth over the window -len-3 .. len+2.  `mean` comes last (it panics on the empty slice, which ends the case).
func c13SliceOps(s []int, probes []int) []string {
	S := ints(s)
	var ops []string
	for _, v := range probes {
		vs := itoa(v)
		ops = append(ops, "indexof "+S+" "+vs, "lastindexof "+S+" "+vs, "contains "+S+" "+vs)
	}
	for _, p := range c13Preds {
		ops = append(ops, "findindex "+S+" "+p, "findlastindex "+S+" "+p, "findall "+S+" "+p,
			"some "+S+" "+p, "every "+S+" "+p)
	}
	ops = append(ops, "findmin "+S, "findmax "+S, "min "+S, "max "+S)
	for _, f := range c13Keys {
		ops = append(ops, "findminby "+S+" "+f, "findmaxby "+S+" "+f, "sumby "+S+" "+f)
	}
	for i := -len(s) - 3; i <= len(s)+2; i++ {
		ops = append(ops, "nth "+S+" "+itoa(i))
	}
	ops = append(ops, "sum "+S, "mean "+S)
	return ops
}

// c13StrOps: the calls that exist for strings, on one slice of ranks (key functions f0..f3 keep
// their values inside the table).
func c13StrOps(s []int, probes []int) []string {
	S := ints(s)
	var ops []string
	for _, v := range probes {
		vs := itoa(v)
		ops = append(ops, "str indexof "+S+" "+vs, "str lastindexof "+S+" "+vs, "str contains "+S+" "+vs)
	}
	for _, p := range []string{"p0", "p1", "p4"} {
		ops = append(ops, "str findindex "+S+" "+p, "str findlastindex "+S+" "+p, "str findall "+S+" "+p,
			"str some "+S+" "+p, "str every "+S+" "+p)
	}
	ops = append(ops, "str findmin "+S, "str findmax "+S, "str min "+S, "str max "+S)
	for _, f := range []string{"f0", "f1", "f2", "f3"} {
		ops = append(ops, "str findminby "+S+" "+f, "str findmaxby "+S+" "+f)
	}
	for i := -len(s) - 2; i <= len(s)+1; i++ {
		ops = append(ops, "str nth "+S+" "+itoa(i))
	}
	return ops
}

func c13MapStr(m [][2]int) string {
	items := make([]string, len(m))
	for i, e := range m {
		items[i] = "[" + itoa(e[0]) + "," + itoa(e[1]) + "]"
	}
	return plist(items)
}

func genC13(g *Gen) {
	// Range far from zero (beyond float64's 53 bits of integer precision): short progressions
	if g.Mine() {
		var ops []string
		for _, base := range []int{1<<53 + 1, 1<<60 + 3, 1<<48 + 1, 1<<62 - 5} {
			for _, st := range []int{1, 3} {
				ops = append(ops, "range "+ints([]int{base, st, base + 7}), "rangeright "+ints([]int{base, st, base + 7}),
					"range "+ints([]int{-base, st, -base - 7}), "range "+ints([]int{base, base + 3}))
			}
		}
		g.Emit("c13", nil, ops)
	}
	// Range / RangeRight on uint64, also above 2^63 (ascending, no wrap-around)
	if g.Mine() {
		var ops []string
		for _, a := range []string{"[3,9]", "[7]", "[0,2,9]", "[9223372036854775805,9223372036854775811]",
			"[9223372036854775808,3,9223372036854775820]", "[18446744073709550000,18446744073709550006]",
			"[18446744073709550000,4,18446744073709550013]", "[9223372036854775807,9223372036854775809]", "[5,5]", "[9,3]"} {
			ops = append(ops, "rangeu "+a, "rangerightu "+a)
		}
		g.Emit("c13", nil, ops)
	}
	// indexes at the ends of the int range
	if g.Mine() {
		g.Emit("c13", nil, []string{"nth [1,2,3] 9223372036854775807", "nth [1,2,3] 9223372036854775806", "nth [1,2,3] 9223372036854775805", "nth [1,2,3] 4611686018427387904", "nth [1,2,3] 4611686018427387903", "nth [1,2,3] -9223372036854775807", "nth [1,2,3] -9223372036854775808", "nth [1,2,3] -4611686018427387904", "nth [] 9223372036854775807", "nth [] 9223372036854775806", "nth [] 9223372036854775805", "nth [] 4611686018427387904", "nth [] 4611686018427387903", "nth [] -9223372036854775807", "nth [] -9223372036854775808", "nth [] -4611686018427387904", "nth [7] 9223372036854775807", "nth [7] 9223372036854775806", "nth [7] 9223372036854775805", "nth [7] 4611686018427387904", "nth [7] 4611686018427387903", "nth [7] -9223372036854775807", "nth [7] -9223372036854775808", "nth [7] -4611686018427387904"})
	}
	// skewed long inputs: one value occurs 255 .. 2s+1 times (narrow counters)
	for li, c := range skewLens(g.Thorough()) {
		if !g.Mine() {
			continue
		}
		g.Emit("c13", nil, c13SliceOps(skewSlice(c, li), []int{-5, 0, 3, 99}))
	}
	// long inputs (lengths incl. thresholds a change introduced into the source)
	for li, n := range longLens(g.Thorough()) {
		if !g.Mine() {
			continue
		}
		s := longSlice(n, li)
		ops := c13SliceOps(s, []int{-5, 0, 17, 99})
		for _, i := range []int{n / 2, -n / 2, n - 1, -n, n, -n - 1} {
			ops = append(ops, "nth "+ints(s)+" "+itoa(i))
		}
		g.Emit("c13", nil, ops)
		g.Emit("c13", nil, []string{"range " + ints([]int{0, 1, n}), "range " + ints([]int{n, -1, 0}), "rangeright " + ints([]int{0, 1, n}),
			"range " + ints([]int{-n, 7, n}), "range " + ints([]int{n})})
	}
	// (1) every slice up to length 6 (quick) / 7 (thorough) over {-3,-1,2,3}: ties under every key
	// function, negative-only slices (zero value would be a wrong extremum), duplicates; plus every
	// slice up to length 5 / 7 over {0,1,2}.
	maxLen, maxLen3 := 6, 5
	if g.Thorough() {
		maxLen, maxLen3 = 7, 7
	}
	c13AllSlices([]int{-3, -1, 2, 3}, maxLen, func(s []int) {
		if !g.Mine() {
			return
		}
		g.Emit("c13", nil, c13SliceOps(s, []int{-3, -1, 2, 3, 0}))
	})
	c13AllSlices([]int{0, 1, 2}, maxLen3, func(s []int) {
		if !g.Mine() {
			return
		}
		g.Emit("c13", nil, c13SliceOps(s, []int{0, 1, 2, -1}))
	})

	// (2) ByKey: every list of maps up to length 4/5 over a 7-map alphabet, probe keys 0,1,2
	mapAlpha := []string{
		"[]", "[[0,-2]]", "[[0,1]]", "[[0,3]]", "[[1,5]]", "[[0,1],[1,-4]]", "[[0,-2],[1,7]]",
	}
	mapLen := 4
	if g.Thorough() {
		mapLen = 5
	}
	var batch []string
	flush := func() {
		if len(batch) > 0 {
			if g.Mine() {
				g.Emit("c13", nil, batch)
			}
			batch = nil
		}
	}
	seqsUpTo(mapAlpha, mapLen, func(ms []string) {
		M := plist(ms)
		for k := 0; k <= 2; k++ {
			batch = append(batch, "findminbykey "+M+" "+itoa(k), "findmaxbykey "+M+" "+itoa(k))
		}
		if len(batch) >= 120 {
			flush()
		}
	})
	flush()

	// (3) numbers on int: all triples in [-6,6]^3, comparators on [-3,3]^2
	for x := -6; x <= 6; x++ {
		if !g.Mine() {
			continue
		}
		ops := []string{"abs " + itoa(x)}
		for lo := -6; lo <= 6; lo++ {
			for hi := -6; hi <= 6; hi++ {
				a := itoa(x) + " " + itoa(lo) + " " + itoa(hi)
				ops = append(ops, "clamp "+a, "inrange "+a)
			}
		}
		g.Emit("c13", nil, ops)
	}
	for a := -3; a <= 3; a++ {
		if !g.Mine() {
			continue
		}
		var ops []string
		for b := -3; b <= 3; b++ {
			ab := itoa(a) + " " + itoa(b)
			ops = append(ops, "less "+ab, "equal "+ab)
			for _, c := range c13Comps {
				ops = append(ops, "compare "+ab+" "+c)
			}
		}
		g.Emit("c13", nil, ops)
	}

	// (4) int8 instantiation: Abs on all 256 values; Clamp/InRange on ALL int8 triples (both tiers):
	// one line carries the 256 results of one (x, lo) row.
	if g.Mine() {
		ops := []string{"abs8all"}
		for x := -128; x <= 127; x++ {
			ops = append(ops, "abs8 "+itoa(x))
		}
		g.Emit("c13", nil, ops)
	}
	for x := -128; x <= 127; x++ {
		for half := 0; half < 2; half++ {
			if !g.Mine() {
				continue
			}
			var ops []string
			for lo := -128 + 128*half; lo < 128*half; lo++ {
				ops = append(ops, "clamp8row "+itoa(x)+" "+itoa(lo), "inrange8row "+itoa(x)+" "+itoa(lo))
			}
			g.Emit("c13", nil, ops)
		}
	}

	// (4b) string instantiation through the order-isomorphic encoding: every slice up to length 4/5
	// over the ranks {0,1,3,8} ("" included: the zero value is an element), comparators on all pairs.
	strLen := 4
	if g.Thorough() {
		strLen = 5
	}
	c13AllSlices([]int{0, 1, 3, 8}, strLen, func(s []int) {
		if !g.Mine() {
			return
		}
		g.Emit("c13", nil, c13StrOps(s, []int{0, 1, 3, 8, 10}))
	})
	if g.Mine() {
		var ops []string
		for a := 0; a < len(c13Strs); a++ {
			for b := 0; b < len(c13Strs); b++ {
				ab := itoa(a) + " " + itoa(b)
				ops = append(ops, "str less "+ab, "str equal "+ab, "str compare "+ab+" "+c13Comps[(a+b)%6])
			}
		}
		g.Emit("c13", nil, ops)
	}

	// (5) Range / RangeRight: all (start, step, end) in [-10,10]^3, all 1- and 2-argument forms in
	// [-12,12], the 0-argument call and over-long argument lists.
	for st := -10; st <= 10; st++ {
		for step := -10; step <= 10; step++ {
			if !g.Mine() {
				continue
			}
			var ops []string
			for end := -10; end <= 10; end++ {
				a := ints([]int{st, step, end})
				ops = append(ops, "range "+a, "rangeright "+a, "range@named "+a, "rangeright@named "+a)
			}
			g.Emit("c13", nil, ops)
		}
	}
	for a := -12; a <= 12; a++ {
		if !g.Mine() {
			continue
		}
		ops := []string{"range " + ints([]int{a}), "rangeright " + ints([]int{a})}
		for b := -12; b <= 12; b++ {
			ops = append(ops, "range "+ints([]int{a, b}), "rangeright "+ints([]int{a, b}))
		}
		g.Emit("c13", nil, ops)
	}
	if g.Mine() {
		g.Emit("c13", nil, []string{
			"range []", "rangeright []",
			"range [1,1,5,1]", "rangeright [1,1,5,1]", "range [0,0,0,0]", "range [1,2,3,4,5]", "rangeright [5,4,3,2,1,0]",
			"range [0,0,5]", "range [5,0,0]", "range [0,0,0]", "rangeright [3,0,-3]",
		})
	}

	// (6) seeded random: slices of length 0..12 over value ranges of different width (narrow = many
	// ties and duplicates, wide = big sums), random probes, Nth far outside, random Range arguments
	// (long progressions), random int triples.
	n := 500
	if g.Thorough() {
		n = 12000
	}
	r := g.Rng("C13")
	for i := 0; i < n; i++ {
		width := []int{2, 5, 50, 1000000}[r.Intn(4)]
		l := r.Intn(13)
		s := make([]int, l)
		for j := range s {
			s[j] = r.Range(-width, width)
		}
		probes := []int{r.Range(-width, width), r.Range(-width, width)}
		if l > 0 {
			probes = append(probes, s[r.Intn(l)])
		}
		ops := c13SliceOps(s, probes)
		mean := ops[len(ops)-1]
		ops = ops[:len(ops)-1]
		S := ints(s)
		for _, far := range []int{r.Range(l+3, l+1000), -r.Range(l+4, l+1000), 1 << 40, -(1 << 40)} {
			ops = append(ops, "nth "+S+" "+itoa(far))
		}
		for j := 0; j < 6; j++ {
			w := []int{12, 40, 300}[r.Intn(3)]
			a := []int{r.Range(-w, w), r.Range(-7, 7), r.Range(-w, w)}
			switch r.Intn(6) {
			case 0:
				a = a[2:]
			case 1:
				a = []int{a[0], a[2]}
			}
			ops = append(ops, "range "+ints(a), "rangeright "+ints(a))
		}
		for j := 0; j < 6; j++ {
			w := []int{3, 100, 1 << 50}[r.Intn(3)]
			x, lo, hi := r.Range(-w, w), r.Range(-w, w), r.Range(-w, w)
			if r.Intn(4) != 0 && lo > hi {
				lo, hi = hi, lo
			}
			a := itoa(x) + " " + itoa(lo) + " " + itoa(hi)
			ops = append(ops, "abs "+itoa(x), "clamp "+a, "inrange "+a, "less "+itoa(x)+" "+itoa(lo), "equal "+itoa(x)+" "+itoa(lo),
				"compare "+itoa(x)+" "+itoa(lo)+" "+c13Comps[r.Intn(6)],
				"clamp8 "+itoa(int(int8(x)))+" "+itoa(int(int8(lo)))+" "+itoa(int(int8(hi))),
				"inrange8 "+itoa(int(int8(x)))+" "+itoa(int(int8(lo)))+" "+itoa(int(int8(hi))))
		}
		// random list of maps for ByKey
		nm := r.Intn(7)
		ms := make([]string, nm)
		for j := range ms {
			var m [][2]int
			for k := 0; k < 4; k++ {
				if r.Intn(3) != 0 {
					m = append(m, [2]int{k, r.Range(-width, width)})
				}
			}
			ms[j] = c13MapStr(m)
		}
		k := itoa(r.Intn(4))
		ops = append(ops, "findminbykey "+plist(ms)+" "+k, "findmaxbykey "+plist(ms)+" "+k)
		if i%4 == 0 {
			ss := make([]int, r.Intn(9))
			for j := range ss {
				ss[j] = r.Intn(len(c13Strs))
			}
			ops = append(ops, c13StrOps(ss, []int{r.Intn(len(c13Strs)), r.Intn(len(c13Strs))})...)
		}
		ops = append(ops, mean)
		g.Emit("c13", nil, ops)
	}

	// (7) malformed / edge stream: out-of-domain calls whose outcome the model must predict too
	if g.Mine() {
		g.Emit("c13", nil, []string{
			"nth [] 0", "nth [] -1", "nth [] 1", "nth [7] -1", "nth [7] 1", "nth [7] -2",
			"nth [1,2,3] 9223372036854775807", "nth [1,2,3] -9223372036854775807",
			"findminbykey [] 0", "findmaxbykey [] 0", "findminbykey [[]] 0", "findmaxbykey [[],[[0,1]]] 0",
			"min []", "max []", "findmin []", "findmax []", "findminby [] f5", "findmaxby [] f4",
			"clamp 0 5 -5", "clamp 9 5 -5", "clamp -9 5 -5", "inrange 0 5 -5", "clamp8 0 127 -128", "inrange8 -128 -128 -128",
			"abs8 -128", "abs8 -127", "abs8 127",
			"str findmin []", "str findmax []", "str min []", "str max []", "str nth [] 0", "str nth [10] -1",
			"str findmax [0,0]", "str findminby [10,9,8] f3",
			"sum []", "sumby [] f5", "mean []",
		})
	}
}

// c13AllSlices enumerates every slice over alphabet of length 0..n.
func c13AllSlices(alphabet []int, n int, f func([]int)) {
	for l := 0; l <= n; l++ {
		cur := make([]int, l)
		var rec func(i int)
		rec = func(i int) {
			if i == l {
				f(cur)
				return
			}
			for _, a := range alphabet {
				cur[i] = a
				rec(i + 1)
			}
		}
		rec(0)
	}
}
