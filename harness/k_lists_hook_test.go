//go:build verif

package main

import "github.com/esimov/gogu/list"

// dlistDump uses the verif hook list.(*DList).VerifDump (raw next/prev structure).
func dlistDump(l *list.DList[int]) string {
	vals, prevs, cyc := l.VerifDump(5000)
	return ints(vals) + " " + ints(prevs) + " " + b2s(cyc)
}
