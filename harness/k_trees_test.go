package main

import (
	"math"
	"sort"
	"strings"

	"github.com/esimov/gogu/bstree"
	"github.com/esimov/gogu/btree"
	"github.com/esimov/gogu/cache"
	"github.com/esimov/gogu/queue"
	"github.com/esimov/gogu/trie"
)

// ---- C04: binary search tree ---------------------------------------------------------------------

type bstRunner struct {
	t *bstree.BsTree[int, int]
	decoyHolder
}

func (r *bstRunner) Do(op []string) string {
	switch op[0] {
	case "upsert":
		r.t.Upsert(atoi(op[1]), atoi(op[2]))
		return "ok"
	case "get":
		it, err := r.t.Get(atoi(op[1]))
		return itoa(it.Val) + " " + errs(err)
	case "delete":
		return errs(r.t.Delete(atoi(op[1])))
	case "size":
		return itoa(r.t.Size())
	case "traverse", "traversenested":
		// traversenested: the callback starts a second, complete Traverse while the first one is in progress
		// (both read-only); each walk must still visit every present key exactly once, in order
		var items []string
		n, inner := 0, 0
		r.t.Traverse(func(it bstree.Item[int, int]) {
			faultTick()
			n++
			if n > 100000 {
				panic(hangSignal{})
			}
			if op[0] == "traversenested" && n == 2 {
				r.t.Traverse(func(bstree.Item[int, int]) { inner++ })
			}
			if op[0] == "traversenested" && (n == 1 || n == 3) {
				// ... and a complete Traverse of ANOTHER tree of the same type (trees share nothing)
				other := bstree.New[int, int](func(a, b int) bool { return a < b })
				for k := 0; k < 6; k++ {
					other.Upsert(-500-k, -k)
				}
				other.Traverse(func(bstree.Item[int, int]) {})
			}
			items = append(items, "["+itoa(it.Key)+","+itoa(it.Val)+"]")
		})
		if op[0] == "traversenested" {
			return plist(items) + " " + itoa(inner)
		}
		return plist(items)
	}
	panic("harness: bad op " + op[0])
}

// ---- C10: B-tree -----------------------------------------------------------------------------------

type btreeRunner struct {
	t *btree.BTree[int, int]
	decoyHolder
}

func (r *btreeRunner) Do(op []string) string {
	switch op[0] {
	case "put":
		r.t.Put(atoi(op[1]), atoi(op[2]))
		return "ok"
	case "remove":
		r.t.Remove(atoi(op[1]))
		return "ok"
	case "fillasc": // long runs: n Puts of ascending keys (value = key) in one line
		for a, i := atoi(op[1]), 0; i < atoi(op[2]); i++ {
			r.t.Put(a+i, a+i)
		}
		return "ok"
	case "removeasc":
		for a, i := atoi(op[1]), 0; i < atoi(op[2]); i++ {
			r.t.Remove(a + i)
		}
		return "ok"
	case "get":
		v, ok := r.t.Get(atoi(op[1]))
		return itoa(v) + " " + b2s(ok)
	case "size":
		return itoa(r.t.Size())
	case "isempty":
		return b2s(r.t.IsEmpty())
	case "height":
		return itoa(r.t.Height())
	case "shape":
		return btreeShape(r.t)
	case "traverse":
		var items []string
		r.t.Traverse(func(k, v int) {
			faultTick()
			items = append(items, "["+itoa(k)+","+itoa(v)+"]")
		})
		return plist(items)
	}
	panic("harness: bad op " + op[0])
}

// btreeFRunner: the same B-tree instantiated with float64 keys.  The int keys of the protocol are mapped to
// 1 + k*2^-40 (exact, order preserving, injective): neighbouring keys differ by a relative 1e-12, so any notion of
// key equality looser than == (a tolerance, a rounding) merges them.  The answers must be those of the int tree.
// The VALUES of this instantiation are one-element slices (an uncomparable type: comparing two of them through an
// interface panics), so nothing in the tree may depend on comparing values.
type btreeFRunner struct{ t *btree.BTree[float64, []int] }

func fval(v []int) int {
	if len(v) == 0 {
		return 0
	}
	return v[0]
}

func fkey(k int) float64    { return 1 + float64(k)/(1<<40) }
func fkeyInv(x float64) int { return int(math.Round((x - 1) * (1 << 40))) }

func (r *btreeFRunner) Do(op []string) string {
	switch op[0] {
	case "put":
		r.t.Put(fkey(atoi(op[1])), []int{atoi(op[2])})
		return "ok"
	case "remove":
		r.t.Remove(fkey(atoi(op[1])))
		return "ok"
	case "fillasc":
		for a, i := atoi(op[1]), 0; i < atoi(op[2]); i++ {
			r.t.Put(fkey(a+i), []int{a + i})
		}
		return "ok"
	case "removeasc":
		for a, i := atoi(op[1]), 0; i < atoi(op[2]); i++ {
			r.t.Remove(fkey(a + i))
		}
		return "ok"
	case "get":
		v, ok := r.t.Get(fkey(atoi(op[1])))
		return itoa(fval(v)) + " " + b2s(ok)
	case "size":
		return itoa(r.t.Size())
	case "isempty":
		return b2s(r.t.IsEmpty())
	case "height":
		return itoa(r.t.Height())
	case "shape":
		return "nohook"
	case "traverse":
		var items []string
		r.t.Traverse(func(k float64, v []int) {
			faultTick()
			items = append(items, "["+itoa(fkeyInv(k))+","+itoa(fval(v))+"]")
		})
		return plist(items)
	}
	panic("harness: bad op " + op[0])
}

// ---- C09: trie -------------------------------------------------------------------------------------

type trieRunner struct {
	t *trie.Trie[string, int]
	decoyHolder
}

func drain(q trie.Queuer[string]) string {
	var items []string
	for q.Size() > 0 {
		k, err := q.Dequeue()
		if err != nil {
			break
		}
		items = append(items, hx(k))
		if len(items) > 100000 {
			panic(hangSignal{})
		}
	}
	return plist(items)
}

// drainN reads at most n keys.
func drainN(q trie.Queuer[string], n int) string {
	var items []string
	for len(items) < n && q.Size() > 0 {
		k, err := q.Dequeue()
		if err != nil {
			break
		}
		items = append(items, hx(k))
	}
	return plist(items)
}

func (r *trieRunner) Do(op []string) string {
	switch op[0] {
	case "put":
		r.t.Put(unhx(op[1]), atoi(op[2]))
		return "ok"
	case "get":
		v, ok := r.t.Get(unhx(op[1]))
		return itoa(v) + " " + b2s(ok)
	case "contains":
		return b2s(r.t.Contains(unhx(op[1])))
	case "size":
		return itoa(r.t.Size())
	case "keys":
		q, err := r.t.Keys()
		return drain(q) + " " + errs(err)
	case "startswith":
		q, err := r.t.StartsWith(unhx(op[1]))
		return drain(q) + " " + errs(err)
	case "keyspart":
		// the caller reads only the first k keys and leaves the rest in the result queue
		q, err := r.t.Keys()
		return drainN(q, atoi(op[1])) + " " + errs(err)
	case "keysrot":
		// the caller reads the first k keys and enqueues them again: the result queue keeps its length
		q, err := r.t.Keys()
		var items []string
		n0 := q.Size() // at most the keys that were there: a rotated key is not read twice
		for len(items) < atoi(op[1]) && len(items) < n0 {
			k, e := q.Dequeue()
			if e != nil {
				break
			}
			items = append(items, hx(k))
			q.Enqueue(k)
		}
		return plist(items) + " " + errs(err)
	case "startswithpart":
		q, err := r.t.StartsWith(unhx(op[2]))
		return drainN(q, atoi(op[1])) + " " + errs(err)
	case "longestprefix":
		k, err := r.t.LongestPrefix(unhx(op[1]))
		return hx(k) + " " + errs(err)
	}
	panic("harness: bad op " + op[0])
}

// ---- C07: LRU cache --------------------------------------------------------------------------------

type lruRunner[V any] struct {
	c   *cache.LRUCache[int, V]
	cap int
	enc func(int) V
	dec func(V) int
	decoyHolder
}

func kvb(k, v int, ok bool) string { return itoa(k) + " " + itoa(v) + " " + b2s(ok) }

func (r *lruRunner[V]) kv(k int, v V, ok bool) string { return kvb(k, r.dec(v), ok) }

func (r *lruRunner[V]) Do(op []string) string {
	switch op[0] {
	case "create":
		c, err := cache.NewLRU[int, V](r.cap)
		r.c = c
		return errs(err)
	case "add":
		k, v, ok := r.c.Add(atoi(op[1]), r.enc(atoi(op[2])))
		return r.kv(k, v, ok)
	case "get":
		v, ok := r.c.Get(atoi(op[1]))
		return itoa(r.dec(v)) + " " + b2s(ok)
	case "getoldest":
		return r.kv(r.c.GetOldest())
	case "getyoungest":
		return r.kv(r.c.GetYoungest())
	case "remove":
		v, ok := r.c.Remove(atoi(op[1]))
		return itoa(r.dec(v)) + " " + b2s(ok)
	case "removeoldest":
		return r.kv(r.c.RemoveOldest())
	case "removeyoungest":
		return r.kv(r.c.RemoveYoungest())
	case "flush":
		r.c.Flush()
		return "ok"
	case "count":
		return itoa(r.c.Count())
	}
	panic("harness: bad op " + op[0])
}

func init() {
	kinds["bst"] = func(p []string) Runner {
		r := &bstRunner{t: bstree.New[int, int](heapComp(p[0]))}
		r.d.mk = func() decoy {
			t := bstree.New[int, int](heapComp(p[0]))
			return decoy{put: func(v int) { t.Upsert(v, v) }, take: func() { t.Delete(-900); t.Delete(-901); t.Delete(-902) }}
		}
		return r
	}
	kinds["btree"] = func(p []string) Runner {
		if len(p) > 0 && p[0] == "f" {
			return &btreeFRunner{btree.New[float64, []int]()}
		}
		r := &btreeRunner{t: btree.New[int, int]()}
		r.d.mk = func() decoy {
			t := btree.New[int, int]()
			return decoy{put: func(v int) { t.Put(v, v) }, take: func() { t.Remove(-900); t.Remove(-901); t.Get(-902) }}
		}
		return r
	}
	kinds["trie"] = func(p []string) Runner {
		var q trie.Queuer[string] = queue.New[string]()
		if len(p) > 0 && p[0] == "linked" {
			q = &lqueueAdapter{queue.NewLinked[string]("")}
		}
		r := &trieRunner{t: trie.New[string, int](q)}
		r.d.mk = func() decoy {
			t := trie.New[string, int](queue.New[string]())
			return decoy{put: func(v int) { t.Put("zz"+itoa(v), v) }, take: func() {
				if ks, err := t.Keys(); err == nil && ks.Size() > 0 {
					ks.Dequeue()
				}
			}}
		}
		return r
	}
	kinds["lru"] = func(p []string) Runner {
		if len(p) > 1 && p[1] == "str" {
			// values: 0 <-> "" (the zero value of the type), v <-> "s<v>"
			return &lruRunner[string]{cap: atoi(p[0]),
				enc: func(v int) string {
					if v == 0 {
						return ""
					}
					return "s" + itoa(v)
				},
				dec: func(s string) int {
					if s == "" {
						return 0
					}
					return atoi(s[1:])
				}}
		}
		r := &lruRunner[int]{cap: atoi(p[0]), enc: func(v int) int { return v }, dec: func(v int) int { return v }}
		r.d.mk = func() decoy {
			c, err := cache.NewLRU[int, int](2 + atoi(p[0])%3)
			if err != nil {
				c, _ = cache.NewLRU[int, int](2)
			}
			return decoy{put: func(v int) { c.Add(v, v) }, take: func() { c.RemoveOldest() }}
		}
		return r
	}
	gens["C04"] = genC04
	gens["C10"] = genC10
	gens["C09"] = genC09
	gens["C07"] = genC07
}

// lqueueAdapter: LQueue.Dequeue has no error result; the trie's Queuer interface wants one.
type lqueueAdapter struct{ q *queue.LQueue[string] }

func (a *lqueueAdapter) Enqueue(k string) { a.q.Enqueue(k) }
func (a *lqueueAdapter) Dequeue() (string, error) {
	return a.q.Dequeue(), nil
}
func (a *lqueueAdapter) Size() int { return a.q.Size() }
func (a *lqueueAdapter) Clear()    { a.q.Clear() }

func genC04(g *Gen) {
	var muts []string
	for k := 0; k <= 4; k++ {
		muts = append(muts, "upsert "+itoa(k)+" V", "delete "+itoa(k))
	}
	obs := []string{"size", "traverse", "get 0", "get 1", "get 2", "get 3", "get 4"}
	maxLen := 5
	if g.Thorough() {
		maxLen = 6
	}
	for _, comp := range []string{"lt", "gt"} {
		seqsUpTo(muts, maxLen, func(s []string) {
			if !g.Mine() {
				return
			}
			// values: the step number, so that "latest value" is observable
			ms := make([]string, len(s))
			for i, m := range s {
				ms[i] = strings.Replace(m, "V", itoa(10+i), 1)
			}
			g.Emit("bst", []string{comp}, interleave(ms, obs))
		})
	}
	n := 300
	if g.Thorough() {
		n = 5000
	}
	r := g.Rng("C04")
	for i := 0; i < n; i++ {
		// every third run uses a strict comparator WITH TIES (keys in one class of ten are one key)
		comp := []string{"lt", "gt", "klt", "gt", "lt", "kgt"}[r.Intn(6)]
		keyRange := []int{8, 30, 200}[r.Intn(3)]
		if comp == "klt" || comp == "kgt" {
			keyRange = []int{25, 60, 200}[r.Intn(3)]
		}
		var ops []string
		// insertion order: sorted, reversed or random
		m := r.Range(3, 60)
		order := r.Intn(3)
		for j := 0; j < m; j++ {
			k := r.Intn(keyRange)
			if order == 0 {
				k = j * keyRange / m
			} else if order == 1 {
				k = keyRange - j*keyRange/m
			}
			ops = append(ops, "upsert "+itoa(k)+" "+itoa(r.Intn(1000)))
		}
		ops = append(ops, "size", "traverse")
		length := r.Range(5, 150)
		for j := 0; j < length; j++ {
			p := r.Intn(100)
			k := itoa(r.Intn(keyRange))
			switch {
			case p < 35:
				ops = append(ops, "upsert "+k+" "+itoa(r.Intn(1000)))
			case p < 70:
				ops = append(ops, "delete "+k)
			case p < 90:
				ops = append(ops, "get "+k)
			case p < 95:
				ops = append(ops, "size")
			default:
				ops = append(ops, "traverse")
			}
		}
		ops = append(ops, "size", "traverse", "traversenested")
		if len(ops)%3 == 0 { // other live instances of the same type are operated in between
			ops = withDecoys(ops, r, nil)
		}
		g.Emit("bst", []string{comp}, ops)
	}
}

func genC10(g *Gen) {
	var muts []string
	for k := 0; k <= 5; k++ {
		muts = append(muts, "put "+itoa(k)+" V", "remove "+itoa(k))
	}
	obs := []string{"size", "isempty", "height", "shape", "traverse", "get 0", "get 1", "get 2", "get 3", "get 4", "get 5"}
	maxLen := 4
	if g.Thorough() {
		maxLen = 6
	}
	seqsUpTo(muts, maxLen, func(s []string) {
		if !g.Mine() {
			return
		}
		ms := make([]string, len(s))
		for i, m := range s {
			ms[i] = strings.Replace(m, "V", itoa(10+i), 1)
		}
		g.Emit("btree", nil, interleave(ms, obs))
	})
	n := 200
	if g.Thorough() {
		n = 3000
	}
	r := g.Rng("C10")
	for i := 0; i < n; i++ {
		keyRange := []int{12, 60, 400, 1000}[r.Intn(4)]
		var ops []string
		m := r.Range(5, 300)
		order := r.Intn(3)
		for j := 0; j < m; j++ {
			k := r.Intn(keyRange)
			if order == 0 {
				k = j
			} else if order == 1 {
				k = m - j
			}
			ops = append(ops, "put "+itoa(k)+" "+itoa(r.Intn(1000)))
			if r.Intn(10) == 0 {
				ops = append(ops, "height", "size", "shape")
			}
		}
		ops = append(ops, "size", "height", "shape", "traverse")
		length := r.Range(5, 150)
		for j := 0; j < length; j++ {
			p := r.Intn(100)
			k := itoa(r.Intn(keyRange))
			switch {
			case p < 30:
				ops = append(ops, "put "+k+" "+itoa(r.Intn(1000)))
			case p < 60:
				ops = append(ops, "remove "+k)
			case p < 85:
				ops = append(ops, "get "+k)
			case p < 92:
				ops = append(ops, "size", "isempty", "height")
			default:
				ops = append(ops, "traverse")
			}
		}
		ops = append(ops, "size", "height", "shape", "traverse")
		g.Emit("btree", nil, ops)
		if len(ops)%3 == 0 {
			g.Emit("btree", nil, withDecoys(ops, r, nil))
		}
		if i%2 == 0 || g.Thorough() { // the same history on the float64-keyed instantiation
			g.Emit("btree", []string{"f"}, ops)
		}
	}
	// long runs through the bulk lines: standard sizes and sizes around thresholds a change introduced
	longs := []int{3000}
	if g.Thorough() {
		longs = append(longs, 40000)
	}
	for _, s := range extraSizes() {
		if s >= 1000 && s <= 300000 {
			longs = append(longs, s+2, 2*s+3)
		}
	}
	for _, n := range longs {
		if !g.Mine() {
			continue
		}
		probe := func(ks ...int) []string {
			out := []string{"size", "isempty", "height"}
			for _, k := range ks {
				out = append(out, "get "+itoa(k))
			}
			return out
		}
		ops := []string{"put -5 1", "put -3 2", "fillasc 0 " + itoa(n)}
		ops = append(ops, probe(-5, 0, n/2, n-1, n)...)
		// remove everything below n-1 in three blocks (observed between them), then the rest one by one
		ops = append(ops, "remove -5", "remove -3", "removeasc 0 "+itoa(n/2))
		ops = append(ops, probe(0, n/2-1, n/2, n-1)...)
		ops = append(ops, "removeasc "+itoa(n/2)+" "+itoa(n-3-n/2))
		ops = append(ops, probe(n-4, n-3, n-1)...)
		ops = append(ops, "traverse", "removeasc "+itoa(n-3)+" 2")
		ops = append(ops, probe(n-3, n-2, n-1)...)
		ops = append(ops, "traverse", "remove "+itoa(n-1), "size", "isempty", "traverse", "get "+itoa(n-1),
			"put 7 70", "put "+itoa(n+9)+" 1", "size", "get 7", "traverse", "height")
		g.Emit("btree", nil, ops)
	}
	// adversarial insertion orders found by a greedy search on the real code (shape hook): sparse trees
	sizes := []int{24}
	if g.Thorough() {
		sizes = []int{16, 24, 40, 64}
	}
	for _, sz := range sizes {
		for variant := 0; variant < 3; variant++ {
			if !g.Mine() {
				continue
			}
			var ops []string
			for _, k := range btreeAdversary(sz, variant) {
				ops = append(ops, "put "+itoa(k)+" "+itoa(k), "height", "size")
			}
			if len(ops) > 0 {
				ops = append(ops, "shape", "traverse")
				g.Emit("btree", nil, ops)
			}
		}
	}
}

// all strings of length 1..maxLen over the alphabet
func allStrings(alpha []byte, minLen, maxLen int) []string {
	var out []string
	var rec func(cur []byte)
	rec = func(cur []byte) {
		if len(cur) >= minLen {
			out = append(out, string(cur))
		}
		if len(cur) == maxLen {
			return
		}
		for _, c := range alpha {
			rec(append(cur, c))
		}
	}
	rec(nil)
	return out
}

func genC09(g *Gen) {
	alpha := []byte{'a', 'b', 0xC3}
	keyLen := 2
	setSize := 4
	if g.Thorough() {
		keyLen = 3
		setSize = 3
	}
	keys := allStrings(alpha, 1, keyLen) // 12 (quick) / 39 (thorough)
	queries := allStrings(alpha, 0, keyLen+1)
	var qops []string
	for _, q := range queries {
		qops = append(qops, "get "+hx(q), "contains "+hx(q), "startswith "+hx(q), "longestprefix "+hx(q))
	}
	qops = append(qops, "size", "keys", "keyspart 1", "keys", "startswithpart 1 "+hx("a"), "keys")
	// all key sequences (with repetition, so re-puts and all insertion orders) up to setSize
	seqsUpTo(keys, setSize, func(s []string) {
		if !g.Mine() {
			return
		}
		var ops []string
		for i, k := range s {
			ops = append(ops, "put "+hx(k)+" "+itoa(10+i), "size")
		}
		ops = append(ops, qops...)
		kind := []string{}
		g.Emit("trie", kind, ops)
	})
	// long keys (and keys around thresholds a change introduced into the source): nested long prefixes
	lens := []int{31, 32, 33, 63, 64, 65, 127, 128, 129, 255, 256, 257}
	if g.Thorough() {
		lens = append(lens, 511, 512, 513, 1023, 1024, 1025, 4097)
	}
	for _, s := range extraSizes() {
		if s <= 70000 {
			lens = append(lens, s-1, s, s+1, 2*s+1)
		}
	}
	if g.Mine() {
		var ops []string
		var stored []string
		for i, l := range lens {
			k := strings.Repeat("ab", l/2+1)[:l]
			if i%3 == 1 {
				k = strings.Repeat("b", l)
			}
			stored = append(stored, k)
			ops = append(ops, "put "+hx(k)+" "+itoa(100+i), "size", "get "+hx(k), "contains "+hx(k), "get "+hx(k[:l-1]),
				"longestprefix "+hx(k+"zz"))
		}
		ops = append(ops, "keys", "startswith "+hx("ab"), "startswith "+hx("b"), "keys", "size")
		// results read only in part, then queried again
		ops = append(ops, "keys", "keysrot 1", "keys", "keysrot 2", "keysrot 2", "keys", "keyspart 1", "startswith "+hx("a"), "keyspart 2", "keys", "startswithpart 1 "+hx("a"), "startswith "+hx("b"), "keyspart 3", "startswithpart 2 "+hx("a"), "keys")
		for i, k := range stored {
			ops = append(ops, "put "+hx(k)+" "+itoa(500+i), "size", "get "+hx(k))
		}
		g.Emit("trie", []string{}, ops)
	}
	// seeded random key sets: shared prefixes, nested keys, non-ASCII bytes
	n := 300
	if g.Thorough() {
		n = 5000
	}
	r := g.Rng("C09")
	alpha2 := []byte{'a', 'b', 'c', 0x00, 0x7f, 0x80, 0xC3, 0xA9, 0xff}
	for i := 0; i < n; i++ {
		var ops []string
		var pool []string
		m := r.Range(1, 25)
		rk := func() string {
			if len(pool) > 0 && r.Intn(3) == 0 { // extend or truncate an existing key
				k := pool[r.Intn(len(pool))]
				if r.Intn(2) == 0 && len(k) > 1 {
					return k[:r.Range(1, len(k)-1)]
				}
				return k + string([]byte{alpha2[r.Intn(len(alpha2))]})
			}
			l := r.Range(1, 5)
			b := make([]byte, l)
			for j := range b {
				b[j] = alpha2[r.Intn(len(alpha2))]
			}
			return string(b)
		}
		for j := 0; j < m; j++ {
			k := rk()
			pool = append(pool, k)
			ops = append(ops, "put "+hx(k)+" "+itoa(r.Intn(1000)))
			if r.Intn(3) == 0 {
				ops = append(ops, "size")
			}
			if r.Intn(4) == 0 {
				q := rk()
				ops = append(ops, "get "+hx(q), "contains "+hx(q), "startswith "+hx(q), "longestprefix "+hx(q))
			if j%3 == 0 {
				ops = append(ops, "keysrot "+itoa(1+r.Intn(3)), "keys", "keyspart "+itoa(r.Intn(4)), "startswithpart "+itoa(r.Intn(3))+" "+hx(q), "keys")
			}
			}
		}
		ops = append(ops, "size", "keys")
		for j := 0; j < 12; j++ {
			q := rk()
			if r.Intn(10) == 0 {
				q = ""
			}
			ops = append(ops, "get "+hx(q), "contains "+hx(q), "startswith "+hx(q), "longestprefix "+hx(q))
		}
		kind := []string{}
		if r.Intn(4) == 0 {
			kind = []string{"linked"}
		}
		if len(ops)%3 == 0 { // other live instances of the same type are operated in between
			ops = withDecoys(ops, r, nil)
		}
		g.Emit("trie", kind, ops)
	}
}

func genC07(g *Gen) {
	var muts []string
	for k := 0; k <= 3; k++ {
		muts = append(muts, "add "+itoa(k)+" V", "get "+itoa(k), "remove "+itoa(k))
	}
	muts = append(muts, "getoldest", "removeoldest", "removeyoungest")
	obs := []string{"count", "getyoungest"}
	maxLen := 4
	if g.Thorough() {
		maxLen = 5
	}
	for capacity := 1; capacity <= 4; capacity++ {
		seqsUpTo(muts, maxLen, func(s []string) {
			if !g.Mine() {
				return
			}
			ms := make([]string, len(s))
			for i, m := range s {
				ms[i] = strings.Replace(m, "V", itoa(10+i), 1)
			}
			ops := append([]string{"create"}, interleave(ms, obs)...)
			for i := 0; i < 5; i++ { // final drain reveals the whole recency order
				ops = append(ops, "removeoldest")
			}
			ops = append(ops, "count")
			g.Emit("lru", []string{itoa(capacity)}, ops)
			// every third sequence also on an LRUCache[int, string] in which the second Add stores the zero value ""
			if g.idx%3 == 0 {
				zs := make([]string, len(ops))
				for i, o := range ops {
					zs[i] = strings.Replace(o, " 11", " 0", 1)
				}
				g.Emit("lru", []string{itoa(capacity), "str"}, zs)
			}
		})
	}
	for _, c := range []int{0, -1, -7} {
		if g.Mine() {
			g.Emit("lru", []string{itoa(c)}, []string{"create"})
		}
	}
	// bulk runs: large capacities, fill beyond capacity (evictions), drain from the old end, refill
	for _, pl := range bulkPlans(g.Thorough()) {
		if !g.Mine() {
			continue
		}
		n := pl[0]
		// capacity n (filled beyond it: evictions) and capacity above everything that is added
		for _, capacity := range []int{n, 2*n + 100} {
			ops := append([]string{"create"}, bulkPlan(func(i int) string { return "add " + itoa(i%(n+9)) + " " + itoa(i) },
				"removeoldest", []string{"count", "getyoungest", "get 0", "get " + itoa(n/2)}, n+20, pl[1], pl[2])...)
			g.Emit("lru", []string{itoa(capacity)}, ops)
			if n <= 3000 {
				break
			}
		}
		// the same fill drained from the YOUNG end and by key (removals that are not from the old end), with the
		// oldest keys looked up afterwards
		for _, pop := range []string{"removeyoungest", "remove"} {
			k := 0
			popf := func() string {
				if pop == "remove" {
					k++
					return "remove " + itoa(n+20-k)
				}
				return pop
			}
			var ops []string
			ops = append(ops, "create")
			for i := 0; i < n+20; i++ {
				ops = append(ops, "add "+itoa(i)+" "+itoa(i))
			}
			for i := 0; i < n+20-n/8; i++ { // down to an eighth of the peak population
				ops = append(ops, popf())
				if sparse(i, n+20-i, n) {
					ops = append(ops, "count", "getyoungest")
				}
				if left := n + 20 - i - 1; left == n/2 || left == n/4+6 || left == n/4-1 || left == n/5 {
					ops = append(ops, "count", "get 0", "get 1", "getyoungest")
				}
			}
			ops = append(ops, "count", "get 0", "get 1", "get 2", "getoldest", "add 0 7", "count", "removeoldest", "removeoldest", "count")
			g.Emit("lru", []string{itoa(2*n + 100)}, ops)
		}
	}
	// very large populations (a threshold >= 2^15 a change introduced into the source): the monitor alone judges
	// these cases (Kinds/Lru.lean: bigRun), so only capacities above 50000 are used
	for _, s := range extraSizes() {
		n := s + 2
		if n <= 40000 || n > 70000 {
			continue
		}
		for v := 0; v < 3; v++ {
			if !g.Mine() {
				continue
			}
			ops := []string{"create"}
			for i := 0; i < n+20; i++ {
				ops = append(ops, "add "+itoa(i)+" "+itoa(i))
				if i == s-2 || i == s-1 || i == s || i == s+1 {
					ops = append(ops, "count", "getyoungest")
				}
			}
			ops = append(ops, "count", "get 0", "get "+itoa(n/2), "getoldest", "getyoungest")
			capacity := 2*n + 100
			switch v {
			case 1: // evictions at the threshold: capacity = s+2, 40 more keys
				capacity = n
				for i := n + 20; i < n+60; i++ {
					ops = append(ops, "add "+itoa(i)+" "+itoa(i))
				}
				ops = append(ops, "count", "get 3", "get 60", "getoldest")
			case 2: // drain from the young end down to an eighth, then look at the old end
				for i := 0; i < n+20-n/8; i++ {
					ops = append(ops, "removeyoungest")
					if i%(n/16) == 0 {
						ops = append(ops, "count")
					}
				}
				ops = append(ops, "count", "get 1", "get 2", "getoldest", "add 5 7", "count")
			}
			for i := 0; i < 4; i++ {
				ops = append(ops, "removeoldest")
			}
			ops = append(ops, "count")
			g.Emit("lru", []string{itoa(capacity)}, ops)
		}
	}
	n := 300
	if g.Thorough() {
		n = 6000
	}
	r := g.Rng("C07")
	for i := 0; i < n; i++ {
		capacity := r.Range(1, 12)
		keyRange := capacity + r.Range(1, 8)
		ops := []string{"create"}
		length := r.Range(10, 200)
		for j := 0; j < length; j++ {
			p := r.Intn(100)
			k := itoa(r.Intn(keyRange))
			switch {
			case p < 40:
				ops = append(ops, "add "+k+" "+itoa(r.Intn(1000)*r.Intn(4))) // every fourth value is 0 (the zero value)
			case p < 60:
				ops = append(ops, "get "+k)
			case p < 70:
				ops = append(ops, "remove "+k)
			case p < 76:
				ops = append(ops, "getoldest")
			case p < 82:
				ops = append(ops, "getyoungest")
			case p < 88:
				ops = append(ops, "removeoldest")
			case p < 94:
				ops = append(ops, "removeyoungest")
			case p < 96:
				ops = append(ops, "flush")
			default:
				ops = append(ops, "count")
			}
			if r.Intn(4) == 0 {
				ops = append(ops, "count")
			}
		}
		for j := 0; j < capacity+1; j++ {
			ops = append(ops, "removeoldest")
		}
		ops = append(ops, "count")
		if len(ops)%3 == 0 { // other live instances of the same type are operated in between
			ops = withDecoys(ops, r, nil)
		}
		if len(ops)%2 == 0 {
			g.Emit("lru", []string{itoa(capacity), "str"}, ops)
		} else {
			g.Emit("lru", []string{itoa(capacity)}, ops)
		}
	}
}

var _ = sort.Ints
