package main

import (
	"sync/atomic"
)

// ---- fault lines -------------------------------------------------------------------------------
//
//	fault <k> <op> <args…> => panic | nofault | <hang>
//
// executes <op> with every callback of the harness's families armed to panic at its k-th invocation
// (counted over all callbacks of the call).  The panic is recovered and THE CASE CONTINUES: the
// library call that was cut short must leave nothing behind that changes the answers of later
// calls (a pooled buffer handed back half-used, an argument left rearranged, a lock left held).
// The Lean runner skips the line itself (a pure helper's model has no state a failed call could
// change; for containers the generators only fault read-only operations); the following lines are
// judged as always.

var faultLeft atomic.Int64 // > 0: callback invocations until the panic; <= 0: disarmed

type faultPanic struct{}

func faultTick() {
	if faultLeft.Load() > 0 {
		if faultLeft.Add(-1) == 0 {
			panic(faultPanic{})
		}
	}
}

// ft1 / ft2 wrap a callback so that it takes part in fault lines.
func ft1[A, B any](f func(A) B) func(A) B { return func(a A) B { faultTick(); return f(a) } }
func ft2[A, B, C any](f func(A, B) C) func(A, B) C {
	return func(a A, b B) C { faultTick(); return f(a, b) }
}

// doLine executes one protocol line on the runner: ordinary operations, `fault` and `decoy` lines.
func doLine(r Runner, toks []string) string {
	switch toks[0] {
	case "fault":
		k := atoi(toks[1])
		faultLeft.Store(int64(k))
		res := guard(func() string { return r.Do(toks[2:]) })
		faultLeft.Store(0)
		if res == "panic" || res == "hang" {
			return res
		}
		return "nofault"
	case "decoy":
		if d, ok := r.(interface{ Decoys() *decoySet }); ok {
			return guard(func() string { d.Decoys().run(atoi(toks[1])); return "ok" })
		}
		return "ok"
	}
	return guard(func() string { return r.Do(toks) })
}

// ---- decoy lines -------------------------------------------------------------------------------
//
//	decoy <seed> => ok
//
// operates OTHER live instances of the same container type between two lines of the case: fresh
// instances are created, filled, drained and dropped.  Instances of a container share nothing, so
// this must not change any answer of the instance under test (the Lean runner skips the line); it
// does when a change makes instances share hidden state (a package-level pool of backing arrays or
// nodes, a cache keyed by something that is not unique to the instance).

type decoy struct {
	put  func(v int)
	take func()
}

// decoyHolder is embedded by the container runners.
type decoyHolder struct{ d decoySet }

func (h *decoyHolder) Decoys() *decoySet { return &h.d }

type decoySet struct {
	mk   func() decoy
	live []decoy
}

func (d *decoySet) run(seed int) {
	r := NewSplitMix(uint64(seed)*0x9E3779B97F4A7C15 + 77)
	steps := 3 + r.Intn(8)
	for i := 0; i < steps; i++ {
		if len(d.live) == 0 || r.Intn(4) == 0 {
			d.live = append(d.live, d.mk())
			if len(d.live) > 3 {
				d.live = d.live[1:]
			}
		}
		x := d.live[r.Intn(len(d.live))]
		if r.Intn(3) == 0 {
			x.take()
		} else {
			x.put(-900 - r.Intn(40))
		}
	}
}

// withDecoys inserts a decoy line after every k-th line (k drawn from 2..9) and after every line for
// which after(op) holds (e.g. the operation that may have emptied the container).
func withDecoys(ops []string, r *SplitMix, after func(op string) bool) []string {
	out := make([]string, 0, len(ops)+len(ops)/3)
	next := 2 + r.Intn(8)
	for _, op := range ops {
		out = append(out, op)
		next--
		if next <= 0 || (after != nil && after(op) && r.Intn(3) == 0) {
			out = append(out, "decoy "+itoa(r.Intn(1<<20)))
			next = 2 + r.Intn(8)
		}
	}
	return out
}
