package main

import (
	"math"
	"math/rand"
	"sort"
	"strings"

	"github.com/esimov/gogu"
)

// ---- C12: reshaping helpers conserve elements and order -----------------------------------------------
//
// kind `c12` (stateless).  One line per call of a real gogu function:
//
//	chunk <s> <n>            => <[[..],..]> | panic
//	partition <p> <s>        => <yes> <no>
//	filter|reject|dropwhile|droprightwhile <p> <s> => <r>
//	groupby <f> <s>          => <[[key,[..]],..]>         (sorted by key: it came out of a Go map)
//	zip <m>                  => <Zip(m...)> <Unzip(Zip(m...)...)> | panic
//	unzip <m>                => <Unzip(m...)> <Zip(Unzip(m...)...)> | panic
//	flatten <nest>           => ok <[..]> | err
//	merge <[s0,s1,..]>       => <r>                        (Merge(s0, s1, ..))
//	drop <s> <n>             => <r>
//	reverse <s>              => <Reverse(s)> <Reverse(Reverse(s))>
//	reversestr <xHEX>        => <ReverseStr(s)> <ReverseStr(ReverseStr(s))>
//	shuffle <s> <seed>       => <r> <js> <s after the call>   (js: the indices rand delivered, replayed)
//	map <f> <s>              => <r> <visit log>
//	foreach|foreachright <s> => <visit log>
//	reduce <r> <s> <init>    => <value> <visit log>
//
// Nestings: int = leaf; `[s,1,2]` = []int{1,2}; `[..]` = []any{..}; `b` = a leaf of a foreign type
// (string); `n` = nil.

func c12Pred(name string) func(int) bool { return ft1(c12Pred0(name)) }

func c12Pred0(name string) func(int) bool {
	switch name {
	case "p0":
		return func(x int) bool { return x%2 == 0 }
	case "p1":
		return func(x int) bool { return x > 1 }
	case "p2":
		return func(int) bool { return true }
	case "p3":
		return func(int) bool { return false }
	case "p4":
		return func(x int) bool { return x == 2 }
	case "p5":
		return func(x int) bool { return x < 0 }
	}
	panic("harness: bad predicate " + name)
}

func c12Key(name string) func(int) int { return ft1(c12Key0(name)) }

func c12Key0(name string) func(int) int {
	switch name {
	case "f0":
		return func(x int) int { return x }
	case "f1":
		return func(x int) int { return x % 2 }
	case "f2":
		return func(x int) int { return x / 2 }
	case "f3":
		return func(int) int { return 0 }
	case "f4":
		return func(x int) int { return -x }
	case "f5":
		return func(x int) int { return x * x }
	}
	panic("harness: bad key function " + name)
}

// reducers fn(v, acc): r0 acc+v · r1 2*acc+v (order sensitive) · r2 v-acc · r3 acc
func c12Red(name string) func(v, acc int) int { return ft2(c12Red0(name)) }

func c12Red0(name string) func(v, acc int) int {
	switch name {
	case "r0":
		return func(v, acc int) int { return acc + v }
	case "r1":
		return func(v, acc int) int { return 2*acc + v }
	case "r2":
		return func(v, acc int) int { return v - acc }
	case "r3":
		return func(v, acc int) int { return acc }
	}
	panic("harness: bad reducer " + name)
}

func c12Matrix(s string) [][]int {
	rows := parseList(s)
	m := make([][]int, len(rows))
	for i, r := range rows {
		m[i] = parseInts(r)
	}
	return m
}

// c12SharedWindows copies the rows into ONE backing array and returns them as windows of it.
// layout 0: argument order; 1: the first operand first, the others in reverse order; 2: reverse
// order; 3: rotated by one.  Two spare cells follow the last window.
func c12SharedWindows(m [][]int, layout int) [][]int {
	n := len(m)
	order := make([]int, n)
	for i := range order {
		switch layout % 4 {
		case 0:
			order[i] = i
		case 1:
			if i == 0 {
				order[i] = 0
			} else {
				order[i] = n - i
			}
		case 2:
			order[i] = n - 1 - i
		default:
			order[i] = (i + 1) % n
		}
	}
	total := 2
	for _, r := range m {
		total += len(r)
	}
	buf := make([]int, 0, total)
	out := make([][]int, n)
	for _, idx := range order {
		start := len(buf)
		buf = append(buf, m[idx]...)
		out[idx] = buf[start:len(buf)]
	}
	buf = buf[:total]
	buf[total-1], buf[total-2] = -424242, -424243
	for i := range out { // full remaining capacity of the backing array
		out[i] = out[i][:len(out[i]):cap(out[i])]
	}
	return out
}

func c12ShowMatrix(m [][]int) string {
	items := make([]string, len(m))
	for i, r := range m {
		items[i] = ints(r)
	}
	return plist(items)
}

func c12CopyMatrix(m [][]int) [][]int {
	c := make([][]int, len(m))
	for i, r := range m {
		c[i] = append([]int{}, r...)
	}
	return c
}

func c12Nest(s string) any {
	switch {
	case s == "b":
		return "bad"
	case s == "n":
		return nil
	case strings.HasPrefix(s, "["):
		items := parseList(s)
		if len(items) > 0 && items[0] == "s" {
			out := make([]int, 0, len(items)-1)
			for _, it := range items[1:] {
				out = append(out, atoi(it))
			}
			return out
		}
		out := make([]any, 0, len(items))
		for _, it := range items {
			out = append(out, c12Nest(it))
		}
		return out
	}
	return atoi(s)
}

// c12NestShared builds the same nesting as c12Nest with all typed []int leaves being views of ONE backing array
// laid out second leaf, first leaf, third leaf, …: the spare capacity behind a leaf is another leaf (Flatten only
// reads its input, so the memory layout must not matter).
func c12NestShared(s string) any {
	var leaves [][]int
	var collect func(s string)
	collect = func(s string) {
		if !strings.HasPrefix(s, "[") {
			return
		}
		items := parseList(s)
		if len(items) > 0 && items[0] == "s" {
			l := []int{}
			for _, it := range items[1:] {
				l = append(l, atoi(it))
			}
			leaves = append(leaves, l)
			return
		}
		for _, it := range items {
			collect(it)
		}
	}
	collect(s)
	order := make([]int, len(leaves))
	for i := range order {
		order[i] = i
	}
	if len(order) >= 2 {
		order[0], order[1] = 1, 0
	}
	var flat []int
	off := make([]int, len(leaves))
	for _, li := range order {
		off[li] = len(flat)
		flat = append(flat, leaves[li]...)
	}
	flat = append(flat, 0, 0, 0, 0)
	next := 0
	var build func(s string) any
	build = func(s string) any {
		switch {
		case s == "b":
			return "bad"
		case s == "n":
			return nil
		case strings.HasPrefix(s, "["):
			items := parseList(s)
			if len(items) > 0 && items[0] == "s" {
				li := next
				next++
				return flat[off[li] : off[li]+len(leaves[li])]
			}
			out := make([]any, 0, len(items))
			for _, it := range items {
				out = append(out, build(it))
			}
			return out
		}
		return atoi(s)
	}
	return build(s)
}

type c12Runner struct{}

func (r *c12Runner) Do(op []string) string {
	switch op[0] {
	case "chunk":
		s := parseInts(op[1])
		return c12ShowMatrix(gogu.Chunk(s, atoi(op[2])))
	case "partition":
		res := gogu.Partition(parseInts(op[2]), c12Pred(op[1]))
		return ints(res[0]) + " " + ints(res[1])
	case "filter":
		return ints(gogu.Filter(parseInts(op[2]), c12Pred(op[1])))
	case "reject":
		return ints(gogu.Reject(parseInts(op[2]), c12Pred(op[1])))
	case "dropwhile":
		return ints(gogu.DropWhile(parseInts(op[2]), c12Pred(op[1])))
	case "droprightwhile":
		return ints(gogu.DropRightWhile(parseInts(op[2]), c12Pred(op[1])))
	case "groupby":
		m := gogu.GroupBy(parseInts(op[2]), c12Key(op[1]))
		keys := make([]int, 0, len(m))
		for k := range m {
			keys = append(keys, k)
		}
		sort.Ints(keys)
		items := make([]string, len(keys))
		for i, k := range keys {
			items[i] = "[" + itoa(k) + "," + ints(m[k]) + "]"
		}
		return plist(items)
	case "groupbynan":
		// GroupBy with a float64 key function that yields NaN for the multiples of 3 (a key that is not equal to
		// itself: every such element opens a group of its own) and x%2 otherwise: <total number of elements in all
		// groups> <the elements under key 0> <the elements under key 1>
		in := parseInts(op[1])
		m := gogu.GroupBy(in, func(x int) float64 {
			if x%3 == 0 {
				return math.NaN()
			}
			return float64(((x % 2) + 2) % 2)
		})
		total := 0
		for _, g := range m {
			total += len(g)
		}
		return itoa(total) + " " + ints(m[0]) + " " + ints(m[1])
	case "groupbyzero":
		// GroupBy over float64 ELEMENTS among which +0.0 and -0.0 occur (equal under ==, yet different values) with
		// a key function that tells them apart (the sign bit): <elements under key false> <elements under key true>;
		// a multiple of 3 stands for +0.0 when even and for -0.0 when odd; -0.0 is shown as -1000000
		in := parseInts(op[1])
		fl := make([]float64, len(in))
		for i, x := range in {
			switch {
			case x%3 == 0 && x%2 == 0:
				fl[i] = 0
			case x%3 == 0:
				fl[i] = math.Copysign(0, -1)
			default:
				fl[i] = float64(x)
			}
		}
		m := gogu.GroupBy(fl, func(v float64) bool { return math.Signbit(v) })
		show := func(g []float64) string {
			out := make([]int, len(g))
			for i, v := range g {
				if v == 0 && math.Signbit(v) {
					out[i] = -1000000
				} else {
					out[i] = int(v)
				}
			}
			return ints(out)
		}
		return show(m[false]) + " " + show(m[true])
	case "zip":
		m := c12Matrix(op[1])
		z := gogu.Zip(m...)
		back := gogu.Unzip(c12CopyMatrix(z)...)
		return c12ShowMatrix(z) + " " + c12ShowMatrix(back)
	case "unzip":
		m := c12Matrix(op[1])
		z := gogu.Unzip(m...)
		back := gogu.Zip(c12CopyMatrix(z)...)
		return c12ShowMatrix(z) + " " + c12ShowMatrix(back)
	case "flatten", "flattenshared":
		in := c12Nest(op[1])
		if op[0] == "flattenshared" {
			in = c12NestShared(op[1])
		}
		res, err := gogu.Flatten[int](in)
		if err != nil {
			return "err"
		}
		return "ok " + ints(res)
	case "merge":
		m := c12Matrix(op[1])
		return ints(gogu.Merge(m[0], m[1:]...))
	case "mergeshared":
		// the operands are windows of one backing array, laid out in another order than the
		// argument order, so that every operand has spare capacity in which later operands live
		m := c12SharedWindows(c12Matrix(op[1]), atoi(op[2]))
		return ints(gogu.Merge(m[0], m[1:]...))
	case "drop":
		return ints(gogu.Drop(parseInts(op[1]), atoi(op[2])))
	case "reverse":
		s := parseInts(op[1])
		r1 := append([]int{}, gogu.Reverse(s)...)
		r2 := gogu.Reverse(append([]int{}, r1...))
		return ints(r1) + " " + ints(r2)
	case "reversestr":
		s := unhx(op[1])
		r1 := gogu.ReverseStr(s)
		r2 := gogu.ReverseStr(r1)
		return hx(r1) + " " + hx(r2)
	case "shuffle":
		src := parseInts(op[1])
		seed := int64(atoi(op[2]))
		rand.Seed(seed)
		res := gogu.Shuffle(src)
		// replay the same rand calls to recover the indices the implementation drew
		rand.Seed(seed)
		js := make([]int, 0, len(src))
		for i := len(src) - 1; i >= 0; i-- {
			js = append(js, rand.Int()%(i+1))
		}
		return ints(res) + " " + ints(js) + " " + ints(src)
	case "map":
		f := c12Key(op[1])
		var log []int
		res := gogu.Map(parseInts(op[2]), func(x int) int { log = append(log, x); return f(x) })
		return ints(res) + " " + ints(log)
	case "foreach":
		var log []int
		gogu.ForEach(parseInts(op[1]), func(x int) { log = append(log, x) })
		return ints(log)
	case "foreachright":
		var log []int
		gogu.ForEachRight(parseInts(op[1]), func(x int) { log = append(log, x) })
		return ints(log)
	case "reduce":
		f := c12Red(op[1])
		var log []int
		res := gogu.Reduce(parseInts(op[2]), func(v, acc int) int { log = append(log, v); return f(v, acc) }, atoi(op[3]))
		return itoa(res) + " " + ints(log)
	}
	panic("harness: bad op " + op[0])
}

func init() {
	kinds["c12"] = func(p []string) Runner { return &c12Runner{} }
	gens["C12"] = genC12
}

var c12Preds = []string{"p0", "p1", "p2", "p3", "p4", "p5"}
var c12Keys = []string{"f0", "f1", "f2", "f3", "f4", "f5"}
var c12Reds = []string{"r0", "r1", "r2", "r3"}

// c12SliceOps: every non-panicking one-slice operation of the property on s.
func c12SliceOps(s []int, maxChunk, maxDrop int, seeds []int) []string {
	ss := ints(s)
	var ops []string
	for n := 1; n <= maxChunk; n++ {
		ops = append(ops, "chunk "+ss+" "+itoa(n))
	}
	for n := -maxDrop; n <= maxDrop; n++ {
		ops = append(ops, "drop "+ss+" "+itoa(n))
	}
	for _, p := range c12Preds {
		for _, f := range []string{"partition", "filter", "reject", "dropwhile", "droprightwhile"} {
			ops = append(ops, f+" "+p+" "+ss)
		}
	}
	for _, f := range c12Keys {
		ops = append(ops, "groupby "+f+" "+ss, "map "+f+" "+ss)
	}
	ops = append(ops, "groupbynan "+ss, "groupbyzero "+ss)
	ops = append(ops, "foreach "+ss, "foreachright "+ss, "reverse "+ss)
	for i, r := range c12Reds {
		ops = append(ops, "reduce "+r+" "+ss+" "+itoa(i-1))
	}
	for _, sd := range seeds {
		ops = append(ops, "shuffle "+ss+" "+itoa(sd))
	}
	return ops
}

// c12Shapes enumerates all row-length vectors with 0..maxRows rows of length 0..maxLen.
func c12Shapes(maxRows, maxLen int, f func([]int)) {
	lens := make([]int, 0, maxLen+1)
	for l := 0; l <= maxLen; l++ {
		lens = append(lens, l)
	}
	allSlices(lens, maxRows, f)
}

func c12IsSquare(shape []int) bool {
	for _, l := range shape {
		if l != len(shape) {
			return false
		}
	}
	return true
}

// c12Fill enumerates all matrices of the given shape over vals.
func c12Fill(shape []int, vals []int, f func([][]int)) {
	m := make([][]int, len(shape))
	for i, l := range shape {
		m[i] = make([]int, l)
	}
	var rec func(i, j int)
	rec = func(i, j int) {
		if i == len(shape) {
			f(m)
			return
		}
		if j == shape[i] {
			rec(i+1, 0)
			return
		}
		for _, v := range vals {
			m[i][j] = v
			rec(i, j+1)
		}
	}
	rec(0, 0)
}

// c12Nestings returns all nestings of depth <= d: atoms, or []any of 0..maxKids nestings of depth <= d-1.
func c12Nestings(atoms []string, d, maxKids int) []string {
	if d == 0 {
		return atoms
	}
	sub := c12Nestings(atoms, d-1, maxKids)
	out := append([]string{}, atoms...)
	idx := make([]string, len(sub))
	copy(idx, sub)
	seqsUpTo(idx, maxKids, func(kids []string) { out = append(out, plist(kids)) })
	return out
}

func c12RandNest(r *SplitMix, depth int) string {
	if depth == 0 || r.Intn(4) == 0 {
		switch r.Intn(12) {
		case 0:
			return "b"
		case 1:
			return "n"
		case 2, 3, 4:
			n := r.Intn(4)
			items := []string{"s"}
			for i := 0; i < n; i++ {
				items = append(items, itoa(r.Range(-9, 9)))
			}
			return plist(items)
		}
		return itoa(r.Range(-9, 9))
	}
	n := r.Intn(4)
	items := make([]string, n)
	for i := range items {
		items[i] = c12RandNest(r, depth-1)
	}
	return plist(items)
}

var c12Runes = []rune{'a', 'z', 0, 0x7f, 0x80, 0xe9, 0x7ff, 0x800, 0x20ac, 0xd7ff, 0xe000, 0xfffd, 0xffff, 0x10000, 0x1f600, 0x10ffff}

func genC12(g *Gen) {
	// Flatten on typed leaves that share one backing array (memory layout must not matter)
	if g.Mine() {
		var ops []string
		for _, t := range []string{"[[s,4,5,6],[s,1,2,3],[s,7,8,9]]", "[[s,1,2],9,[s,3,4,5,6]]", "[[s,1],[[s,2,3],[s,4]],5,[s,6,7,8]]",
			"[[s],[s,1,1],[s,2]]", "[[s,3,3],[[s,3]],[s,0,1]]", "[[s,1,2,3,4,5],[s,6],[s,7],[s,8,9]]", "[7,[s,1,2],[8,[s,3,4]],[s,5,6]]"} {
			ops = append(ops, "flattenshared "+t, "flatten "+t)
		}
		g.Emit("c12", nil, ops)
	}
	// sizes and counts at the ends of the int range (sums and negations of them overflow)
	if g.Mine() {
		g.Emit("c12", nil, []string{"drop [1,2,3] 9223372036854775807", "chunk [1,2,3] 9223372036854775807", "drop [1,2,3] 9223372036854775806", "chunk [1,2,3] 9223372036854775806", "drop [1,2,3] 9223372036854775805", "chunk [1,2,3] 9223372036854775805", "drop [1,2,3] 4611686018427387904", "chunk [1,2,3] 4611686018427387904", "drop [1,2,3] 4611686018427387903", "chunk [1,2,3] 4611686018427387903", "drop [1,2,3] -9223372036854775807", "drop [1,2,3] -9223372036854775808", "drop [1,2,3] -4611686018427387904", "drop [] 9223372036854775807", "chunk [] 9223372036854775807", "drop [] 9223372036854775806", "chunk [] 9223372036854775806", "drop [] 9223372036854775805", "chunk [] 9223372036854775805", "drop [] 4611686018427387904", "chunk [] 4611686018427387904", "drop [] 4611686018427387903", "chunk [] 4611686018427387903", "drop [] -9223372036854775807", "drop [] -9223372036854775808", "drop [] -4611686018427387904", "drop [7] 9223372036854775807", "chunk [7] 9223372036854775807", "drop [7] 9223372036854775806", "chunk [7] 9223372036854775806", "drop [7] 9223372036854775805", "chunk [7] 9223372036854775805", "drop [7] 4611686018427387904", "chunk [7] 4611686018427387904", "drop [7] 4611686018427387903", "chunk [7] 4611686018427387903", "drop [7] -9223372036854775807", "drop [7] -9223372036854775808", "drop [7] -4611686018427387904", "drop [1,2,3,4,5,6,7,8] 9223372036854775807", "chunk [1,2,3,4,5,6,7,8] 9223372036854775807", "drop [1,2,3,4,5,6,7,8] 9223372036854775806", "chunk [1,2,3,4,5,6,7,8] 9223372036854775806", "drop [1,2,3,4,5,6,7,8] 9223372036854775805", "chunk [1,2,3,4,5,6,7,8] 9223372036854775805", "drop [1,2,3,4,5,6,7,8] 4611686018427387904", "chunk [1,2,3,4,5,6,7,8] 4611686018427387904", "drop [1,2,3,4,5,6,7,8] 4611686018427387903", "chunk [1,2,3,4,5,6,7,8] 4611686018427387903", "drop [1,2,3,4,5,6,7,8] -9223372036854775807", "drop [1,2,3,4,5,6,7,8] -9223372036854775808", "drop [1,2,3,4,5,6,7,8] -4611686018427387904"})
	}
	// skewed long inputs: one value occurs 255 .. 2s+1 times (narrow counters, group sizes)
	for li, c := range skewLens(g.Thorough()) {
		if !g.Mine() {
			continue
		}
		s := skewSlice(c, li)
		var ops []string
		for _, o := range c12SliceOps(s, 3, 2, []int{5}) {
			if !strings.HasPrefix(o, "reduce r1 ") {
				ops = append(ops, o)
			}
		}
		g.Emit("c12", nil, ops)
	}
	// long inputs (lengths incl. thresholds a change introduced into the source)
	for li, n := range longLens(g.Thorough()) {
		if !g.Mine() {
			continue
		}
		s := longSlice(n, li)
		var ops []string
		for _, o := range c12SliceOps(s, 3, 2, []int{5}) {
			if !strings.HasPrefix(o, "reduce r1 ") { // 2*acc+v leaves the no-overflow domain on long inputs
				ops = append(ops, o)
			}
		}
		ops = append(ops, "chunk "+ints(s)+" "+itoa(n-1), "chunk "+ints(s)+" "+itoa(n), "chunk "+ints(s)+" "+itoa(n/2+1),
			"chunk "+ints(s)+" 64", "drop "+ints(s)+" "+itoa(n-1), "drop "+ints(s)+" "+itoa(-n+1), "drop "+ints(s)+" "+itoa(n/2),
			"merge "+plist([]string{ints(s), ints(longSlice(n/3, li+2)), ints(s[:n/2])}))
		g.Emit("c12", nil, ops)
	}
	maxLen, maxChunk, maxDrop := 6, 8, 9
	alphabet := []int{-3, -1, 0, 2, 3}
	if g.Thorough() {
		maxLen = 7
	}
	emit := func(ops []string) {
		for len(ops) > 0 {
			n := len(ops)
			if n > 150 {
				n = 150
			}
			g.Emit("c12", nil, ops[:n])
			ops = ops[n:]
		}
	}

	// (1) every slice up to maxLen over the alphabet x every chunk size 1..8, drop count -9..9,
	//     predicate, key function, reducer, visit logs, two shuffles
	allSlices(alphabet, maxLen, func(s []int) {
		if !g.Mine() {
			return
		}
		emit(c12SliceOps(s, maxChunk, maxDrop, []int{len(s) + 1, 7 * len(s)}))
	})

	// (2) deliberate panics: Chunk with size <= 0 (each ends its case)
	allSlices([]int{0, 1}, 3, func(s []int) {
		for _, n := range []int{0, -1, -8} {
			if !g.Mine() {
				continue
			}
			g.Emit("c12", nil, []string{"chunk " + ints(s) + " 1", "chunk " + ints(s) + " " + itoa(n)})
		}
	})

	// (3) Zip / Unzip: all square matrices up to 3x3 over two values; all ragged / non-square shapes
	//     up to 3 rows x length 3 (quick: one filling, thorough: all fillings over two values)
	var sq []string
	for n := 0; n <= 3; n++ {
		shape := make([]int, n)
		for i := range shape {
			shape[i] = n
		}
		c12Fill(shape, []int{0, 1}, func(m [][]int) {
			sq = append(sq, "zip "+c12ShowMatrix(m), "unzip "+c12ShowMatrix(m))
		})
	}
	for i := 0; i < len(sq); i += 100 {
		if !g.Mine() {
			continue
		}
		j := i + 100
		if j > len(sq) {
			j = len(sq)
		}
		emit(sq[i:j])
	}
	c12Shapes(3, 3, func(shape []int) {
		if c12IsSquare(shape) {
			return
		}
		vals := []int{5}
		if g.Thorough() {
			vals = []int{0, 1}
		}
		sh := append([]int{}, shape...)
		c12Fill(sh, vals, func(m [][]int) {
			if !g.Mine() {
				return
			}
			ms := c12ShowMatrix(m)
			g.Emit("c12", nil, []string{"zip " + ms})
			g.Emit("c12", nil, []string{"unzip " + ms})
		})
	})

	// (4) Flatten: all nestings up to depth 2 over a rich atom set (<= 2 children), thorough: depth 3
	//     over three atoms
	var nests []string
	nests = append(nests, c12Nestings([]string{"0", "1", "b", "n", "[s]", "[s,0]", "[s,0,1]"}, 2, 2)...)
	if g.Thorough() {
		nests = append(nests, c12Nestings([]string{"7", "[s,1,2]", "b"}, 3, 2)...)
	} else {
		nests = append(nests, c12Nestings([]string{"7", "b"}, 3, 2)...)
	}
	for i := 0; i < len(nests); i += 150 {
		if !g.Mine() {
			continue
		}
		j := i + 150
		if j > len(nests) {
			j = len(nests)
		}
		ops := make([]string, 0, j-i)
		for _, n := range nests[i:j] {
			ops = append(ops, "flatten "+n)
		}
		emit(ops)
	}

	// (5) Merge: all tuples of 1..3 slices of length <= 2 over {0,1}
	var small []string
	allSlices([]int{0, 1}, 2, func(s []int) { small = append(small, ints(s)) })
	var merges []string
	for l := 1; l <= 3; l++ {
		seqs(small, l, func(t []string) {
			merges = append(merges, "merge "+plist(t))
			if l >= 2 {
				for k := 0; k < 4; k++ {
					merges = append(merges, "mergeshared "+plist(t)+" "+itoa(k))
				}
			}
		})
	}
	if g.Mine() {
		emit(merges)
	}

	// (6) ReverseStr: all byte strings up to length 3/4 over a 14-byte alphabet (ASCII, lead bytes of
	//     every width, continuation bytes, surrogate and overlong prefixes, 0xFF); boundary bytes of
	//     Go's decoder tables; valid strings from a rune set covering all widths
	balpha := []byte{0x61, 0xc3, 0xa9, 0xe2, 0x82, 0xac, 0xf0, 0x9f, 0x98, 0x80, 0xff, 0xed, 0xa0, 0xc0}
	bl := 3
	if g.Thorough() {
		bl = 4
	}
	var strs []string
	for _, s := range allStrings(balpha, 0, bl) {
		strs = append(strs, "reversestr "+hx(s))
	}
	leads := []byte{0x00, 0x7f, 0x80, 0xbf, 0xc0, 0xc1, 0xc2, 0xdf, 0xe0, 0xe1, 0xec, 0xed, 0xee, 0xef, 0xf0, 0xf1, 0xf3, 0xf4, 0xf5, 0xff}
	conts := []byte{0x7f, 0x80, 0x8f, 0x90, 0x9f, 0xa0, 0xbf, 0xc0}
	for _, b0 := range leads {
		for b1 := 0; b1 < 256; b1++ {
			strs = append(strs, "reversestr "+hx(string([]byte{b0, byte(b1)})))
		}
		for _, b1 := range conts {
			for _, b2 := range conts {
				strs = append(strs, "reversestr "+hx(string([]byte{b0, b1, b2})))
				for _, b3 := range conts {
					strs = append(strs, "reversestr "+hx(string([]byte{b0, b1, b2, b3})), "reversestr "+hx(string([]byte{0x61, b0, b1, b2, b3, 0x62})))
				}
			}
		}
	}
	if g.Thorough() {
		for b0 := 0; b0 < 256; b0++ {
			for b1 := 0; b1 < 256; b1++ {
				strs = append(strs, "reversestr "+hx(string([]byte{byte(b0), byte(b1)})))
			}
		}
	}
	rl := 3
	if g.Thorough() {
		rl = 4
	}
	var rec func(cur []rune)
	rec = func(cur []rune) {
		strs = append(strs, "reversestr "+hx(string(cur)))
		if len(cur) == rl {
			return
		}
		for _, r := range c12Runes {
			rec(append(cur, r))
		}
	}
	rec(nil)
	for i := 0; i < len(strs); i += 150 {
		if !g.Mine() {
			continue
		}
		j := i + 150
		if j > len(strs) {
			j = len(strs)
		}
		emit(strs[i:j])
	}

	// (7) seeded random larger inputs
	r := g.Rng("c12")
	rounds := 150
	if g.Thorough() {
		rounds = 4000
	}
	for k := 0; k < rounds; k++ {
		var ops []string
		n := r.Intn(41)
		lim := []int{3, 10, 1000}[r.Intn(3)]
		s := make([]int, n)
		for i := range s {
			s[i] = r.Range(-lim, lim)
		}
		ops = append(ops, c12SliceOps(s, 8, 9, []int{r.Intn(1 << 30), r.Intn(1 << 30)})...)
		ss := ints(s)
		for i := 0; i < 6; i++ {
			ops = append(ops, "chunk "+ss+" "+itoa(r.Range(1, n+3)), "drop "+ss+" "+itoa(r.Range(-n-3, n+3)))
		}
		// square matrices 4..6
		d := r.Range(2, 6)
		m := make([][]int, d)
		for i := range m {
			m[i] = make([]int, d)
			for j := range m[i] {
				m[i][j] = r.Range(-9, 9)
			}
		}
		ops = append(ops, "zip "+c12ShowMatrix(m), "unzip "+c12ShowMatrix(m))
		// merges of several random slices
		cnt := r.Range(1, 5)
		parts := make([]string, cnt)
		for i := range parts {
			p := make([]int, r.Intn(6))
			for j := range p {
				p[j] = r.Range(-9, 9)
			}
			parts[i] = ints(p)
		}
		ops = append(ops, "merge "+plist(parts))
		ops = append(ops, "mergeshared "+plist(parts)+" "+itoa(r.Intn(4)))
		for i := 0; i < 8; i++ {
			ops = append(ops, "flatten "+c12RandNest(r, r.Range(1, 4)))
		}
		// random valid and random raw strings
		for i := 0; i < 8; i++ {
			var rs []rune
			for j := r.Intn(10); j > 0; j-- {
				rs = append(rs, c12Runes[r.Intn(len(c12Runes))])
			}
			ops = append(ops, "reversestr "+hx(string(rs)))
			b := make([]byte, r.Intn(8))
			for j := range b {
				if r.Intn(3) == 0 {
					b[j] = byte(r.Intn(256))
				} else {
					b[j] = balpha[r.Intn(len(balpha))]
				}
			}
			ops = append(ops, "reversestr "+hx(string(b)))
		}
		emit(ops)
		// random non-square matrix (ends its case with the deliberate panic)
		rows := r.Range(1, 4)
		bad := make([][]int, rows)
		for i := range bad {
			bad[i] = make([]int, r.Intn(5))
		}
		if !c12IsSquare(func() []int {
			sh := make([]int, rows)
			for i := range bad {
				sh[i] = len(bad[i])
			}
			return sh
		}()) {
			fn := []string{"zip", "unzip"}[r.Intn(2)]
			g.Emit("c12", nil, []string{"chunk " + ss + " 2", fn + " " + c12ShowMatrix(bad)})
		}
	}
}
