package main

import (
	"fmt"
	"os"
	"runtime"
	"sort"
	"strings"
	"sync"
	"sync/atomic"
	"time"

	"github.com/esimov/gogu/bstree"
	"github.com/esimov/gogu/cache"
	"github.com/esimov/gogu/heap"
	"github.com/esimov/gogu/queue"
	"github.com/esimov/gogu/stack"
	"github.com/esimov/gogu/trie"
)

// ---- C01: free-running stress of method pairs / triples (meant to be built with -race) -------------
//
//	harness stress [-tier quick|thorough] [-seed N] [-only type]
//
// For every scenario a line "SCEN <n> <type> <methods…> init=<k> rep=<r>" is printed and flushed
// BEFORE it runs, so that a race report (GORACE=halt_on_error=1), a fatal error or a stall is
// attributed to the last scenario printed.  A recovered panic prints "PANIC …", a stall "STALL …",
// a broken instance afterwards "UNUSABLE …"; the orchestrator turns each into a replay.

type method struct {
	name string
	call func(inst any, r *SplitMix)
}

type ctype struct {
	name    string
	mk      func(initial int) any
	methods []method
	sanity  func(inst any) // sequential use after the concurrent part (must not panic / hang)
	close   func(inst any)
}

func lt(a, b int) bool { return a < b }
func gt(a, b int) bool { return a > b }

var sink64 atomic.Int64

// use keeps results alive without introducing a race of the harness's own.
func use(v int) { sink64.Add(int64(v)) }

func stressTypes() []ctype {
	heapT := ctype{
		name: "heap.Heap",
		mk: func(k int) any {
			h := heap.NewHeap(lt)
			for i := 0; i < k; i++ {
				h.Push((i * 7) % 5)
			}
			return h
		},
		methods: []method{
			{"Size", func(i any, r *SplitMix) { use(i.(*heap.Heap[int]).Size()) }},
			{"IsEmpty", func(i any, r *SplitMix) { _ = i.(*heap.Heap[int]).IsEmpty() }},
			{"Clear", func(i any, r *SplitMix) { i.(*heap.Heap[int]).Clear() }},
			{"Peek", func(i any, r *SplitMix) { use(i.(*heap.Heap[int]).Peek()) }},
			{"GetValues", func(i any, r *SplitMix) {
				// data handed back to the caller: reading it must not race with later writers
				for _, v := range i.(*heap.Heap[int]).GetValues() {
					use(v)
				}
			}},
			{"Push", func(i any, r *SplitMix) { i.(*heap.Heap[int]).Push(r.Intn(5)) }},
			{"Pop", func(i any, r *SplitMix) { use(i.(*heap.Heap[int]).Pop()) }},
			{"Delete", func(i any, r *SplitMix) { i.(*heap.Heap[int]).Delete(r.Intn(5)) }},
			{"Convert", func(i any, r *SplitMix) { i.(*heap.Heap[int]).Convert(gt) }},
			{"Merge", func(i any, r *SplitMix) {
				o := heap.NewHeap(lt)
				o.Push(1, 2)
				use(i.(*heap.Heap[int]).Merge(o).Size())
			}},
			{"Meld", func(i any, r *SplitMix) {
				o := heap.NewHeap(lt)
				o.Push(1, 2)
				use(i.(*heap.Heap[int]).Meld(o).Size())
			}},
			{"MergeInto", func(i any, r *SplitMix) { // the shared heap as the ARGUMENT of Merge
				o := heap.NewHeap(lt)
				o.Push(3)
				use(o.Merge(i.(*heap.Heap[int])).Size())
			}},
			{"MeldInto", func(i any, r *SplitMix) {
				o := heap.NewHeap(lt)
				o.Push(3)
				use(o.Meld(i.(*heap.Heap[int])).Size())
			}},
		},
		sanity: func(i any) {
			h := i.(*heap.Heap[int])
			h.Push(1)
			h.Peek()
			h.Pop()
			h.Size()
			h.Clear()
		},
	}
	// two SHARED heaps: cross merges with writers on both (lock-order problems need both instances shared)
	heapT.methods = append(heapT.methods,
		method{"MergeSibling", func(i any, r *SplitMix) { use(i.(*heap.Heap[int]).Merge(heapSibling(i)).Size()) }},
		method{"SiblingMerge", func(i any, r *SplitMix) { use(heapSibling(i).Merge(i.(*heap.Heap[int])).Size()) }},
		method{"PushSibling", func(i any, r *SplitMix) { heapSibling(i).Push(r.Intn(5)) }},
		// Meld locks (and empties) both heaps: two melds in opposite directions are the lock-order scenario; each is
		// followed by a refill so that the next round again has something to hold the locks for
		method{"MeldSibling", func(i any, r *SplitMix) {
			h := i.(*heap.Heap[int])
			n := h.Size()
			use(h.Meld(heapSibling(i)).Size())
			heapRefill(h, n)
		}},
		method{"SiblingMeld", func(i any, r *SplitMix) {
			sb := heapSibling(i)
			n := sb.Size()
			use(sb.Meld(i.(*heap.Heap[int])).Size())
			heapRefill(sb, n)
		}},
	)
	bstT := ctype{
		name: "bstree.BsTree",
		mk: func(k int) any {
			t := bstree.New[int, int](lt)
			for i := 0; i < k; i++ {
				t.Upsert((i*3)%5, i)
			}
			return t
		},
		methods: []method{
			{"Size", func(i any, r *SplitMix) { use(i.(*bstree.BsTree[int, int]).Size()) }},
			{"Get", func(i any, r *SplitMix) { it, _ := i.(*bstree.BsTree[int, int]).Get(r.Intn(5)); use(it.Val) }},
			{"Upsert", func(i any, r *SplitMix) { i.(*bstree.BsTree[int, int]).Upsert(r.Intn(5), r.Intn(9)) }},
			{"Delete", func(i any, r *SplitMix) { i.(*bstree.BsTree[int, int]).Delete(r.Intn(5)) }},
			// a callback that reads the tree it is traversing (a nested read lock behind a waiting writer deadlocks)
			{"TraverseGet", func(i any, r *SplitMix) {
				t := i.(*bstree.BsTree[int, int])
				t.Traverse(func(it bstree.Item[int, int]) {
					v, _ := t.Get(it.Key)
					use(v.Val + t.Size())
				})
			}},
			{"Traverse", func(i any, r *SplitMix) {
				i.(*bstree.BsTree[int, int]).Traverse(func(it bstree.Item[int, int]) { use(it.Val) })
			}},
		},
		sanity: func(i any) {
			t := i.(*bstree.BsTree[int, int])
			t.Upsert(1, 1)
			t.Get(1)
			t.Traverse(func(bstree.Item[int, int]) {})
			t.Delete(1)
			t.Size()
		},
	}
	keys := []string{"a", "ab", "abc", "b", "ba"}
	trieT := ctype{
		name: "trie.Trie",
		mk: func(k int) any {
			// the result queue is an object WITHOUT a lock of its own: the trie documents `q` as guarded by its own
			// mutex, so every access to it has to happen under that mutex (with queue.Queue, which locks itself, the
			// race detector cannot see a writer of `q` that only holds the read lock)
			t := trie.New[string, int](&rawQueue{})
			for i := 0; i < k; i++ {
				t.Put(keys[i%len(keys)], i)
			}
			return t
		},
		methods: []method{
			{"Size", func(i any, r *SplitMix) { use(i.(*trie.Trie[string, int]).Size()) }},
			{"Contains", func(i any, r *SplitMix) { _ = i.(*trie.Trie[string, int]).Contains(keys[r.Intn(5)]) }},
			{"Put", func(i any, r *SplitMix) { i.(*trie.Trie[string, int]).Put(keys[r.Intn(5)], r.Intn(9)) }},
			{"Get", func(i any, r *SplitMix) { v, _ := i.(*trie.Trie[string, int]).Get(keys[r.Intn(5)]); use(v) }},
			{"LongestPrefix", func(i any, r *SplitMix) { i.(*trie.Trie[string, int]).LongestPrefix("abcd") }},
			// the queue handed back is the trie's one shared result queue (by design of the API): the callers here do
			// not look into it while other calls may be refilling it
			{"StartsWith", func(i any, r *SplitMix) { i.(*trie.Trie[string, int]).StartsWith("a") }},
			{"Keys", func(i any, r *SplitMix) { i.(*trie.Trie[string, int]).Keys() }},
		},
		sanity: func(i any) {
			t := i.(*trie.Trie[string, int])
			t.Put("zz", 1)
			t.Get("zz")
			t.Keys()
			t.Size()
		},
	}
	queueT := ctype{
		name: "queue.Queue",
		mk: func(k int) any {
			q := queue.New[int]()
			for i := 0; i < k; i++ {
				q.Enqueue(i)
			}
			return q
		},
		methods: []method{
			{"Enqueue", func(i any, r *SplitMix) { i.(*queue.Queue[int]).Enqueue(r.Intn(5)) }},
			{"Dequeue", func(i any, r *SplitMix) { v, _ := i.(*queue.Queue[int]).Dequeue(); use(v) }},
			{"Peek", func(i any, r *SplitMix) { use(i.(*queue.Queue[int]).Peek()) }},
			{"Search", func(i any, r *SplitMix) { _ = i.(*queue.Queue[int]).Search(r.Intn(5)) }},
			{"Size", func(i any, r *SplitMix) { use(i.(*queue.Queue[int]).Size()) }},
			{"Clear", func(i any, r *SplitMix) { i.(*queue.Queue[int]).Clear() }},
		},
		sanity: func(i any) {
			q := i.(*queue.Queue[int])
			q.Enqueue(1)
			q.Peek()
			q.Dequeue()
			q.Size()
		},
	}
	lqueueT := ctype{
		name: "queue.LQueue",
		mk: func(k int) any {
			q := queue.NewLinked(0)
			for i := 0; i < k; i++ {
				q.Enqueue(i + 1)
			}
			return q
		},
		methods: []method{
			{"Enqueue", func(i any, r *SplitMix) { i.(*queue.LQueue[int]).Enqueue(r.Intn(5)) }},
			{"Dequeue", func(i any, r *SplitMix) { use(i.(*queue.LQueue[int]).Dequeue()) }},
			{"Peek", func(i any, r *SplitMix) { use(i.(*queue.LQueue[int]).Peek()) }},
			{"Search", func(i any, r *SplitMix) { _ = i.(*queue.LQueue[int]).Search(r.Intn(5)) }},
			{"Size", func(i any, r *SplitMix) { use(i.(*queue.LQueue[int]).Size()) }},
			{"Clear", func(i any, r *SplitMix) { i.(*queue.LQueue[int]).Clear() }},
		},
		sanity: func(i any) {
			q := i.(*queue.LQueue[int])
			q.Enqueue(1)
			q.Peek()
			q.Dequeue()
			q.Size()
		},
	}
	stackT := ctype{
		name: "stack.Stack",
		mk: func(k int) any {
			s := stack.New[int]()
			for i := 0; i < k; i++ {
				s.Push(i)
			}
			return s
		},
		methods: []method{
			{"Push", func(i any, r *SplitMix) { i.(*stack.Stack[int]).Push(r.Intn(5)) }},
			{"Pop", func(i any, r *SplitMix) { use(i.(*stack.Stack[int]).Pop()) }},
			{"Peek", func(i any, r *SplitMix) { use(i.(*stack.Stack[int]).Peek()) }},
			{"Search", func(i any, r *SplitMix) { _ = i.(*stack.Stack[int]).Search(r.Intn(5)) }},
			{"Size", func(i any, r *SplitMix) { use(i.(*stack.Stack[int]).Size()) }},
		},
		sanity: func(i any) {
			s := i.(*stack.Stack[int])
			s.Push(1)
			s.Peek()
			s.Pop()
			s.Size()
		},
	}
	lstackT := ctype{
		name: "stack.LStack",
		mk: func(k int) any {
			s := stack.NewLinked(0)
			for i := 0; i < k; i++ {
				s.Push(i + 1)
			}
			return s
		},
		methods: []method{
			{"Push", func(i any, r *SplitMix) { i.(*stack.LStack[int]).Push(r.Intn(5)) }},
			{"Pop", func(i any, r *SplitMix) { use(i.(*stack.LStack[int]).Pop()) }},
			{"Peek", func(i any, r *SplitMix) { use(i.(*stack.LStack[int]).Peek()) }},
			{"Search", func(i any, r *SplitMix) { _ = i.(*stack.LStack[int]).Search(r.Intn(5)) }},
			{"Size", func(i any, r *SplitMix) { use(i.(*stack.LStack[int]).Size()) }},
		},
		sanity: func(i any) {
			s := i.(*stack.LStack[int])
			s.Push(1)
			s.Peek()
			s.Pop()
			s.Size()
		},
	}
	ck := []string{"k0", "k1", "k2"}
	cacheT := ctype{
		name: "cache.Cache",
		mk: func(k int) any {
			// cleanup goroutine running (1ms) when k is odd
			cl := time.Duration(0)
			if k%2 == 1 {
				cl = time.Millisecond
			}
			c := cache.New[string, int](time.Millisecond, cl)
			for i := 0; i < k; i++ {
				c.Set(ck[i%3], i, cache.DefaultExpiration)
			}
			return c
		},
		methods: []method{
			{"Set", func(i any, r *SplitMix) {
				i.(*cache.Cache[string, int]).Set(ck[r.Intn(3)], r.Intn(9), time.Duration(r.Intn(3)-1))
			}},
			{"SetDefault", func(i any, r *SplitMix) { i.(*cache.Cache[string, int]).SetDefault(ck[r.Intn(3)], r.Intn(9)) }},
			{"Get", func(i any, r *SplitMix) {
				it, _ := i.(*cache.Cache[string, int]).Get(ck[r.Intn(3)])
				use(it.Val())
			}},
			{"Update", func(i any, r *SplitMix) {
				i.(*cache.Cache[string, int]).Update(ck[r.Intn(3)], r.Intn(9), cache.NoExpiration)
			}},
			{"Delete", func(i any, r *SplitMix) { i.(*cache.Cache[string, int]).Delete(ck[r.Intn(3)]) }},
			{"DeleteExpired", func(i any, r *SplitMix) { i.(*cache.Cache[string, int]).DeleteExpired() }},
			{"Flush", func(i any, r *SplitMix) { i.(*cache.Cache[string, int]).Flush() }},
			{"List", func(i any, r *SplitMix) {
				// the listing handed back to the caller: reading it must not race with later writers
				for _, it := range i.(*cache.Cache[string, int]).List() {
					use(it.Val())
				}
			}},
			{"Count", func(i any, r *SplitMix) { use(i.(*cache.Cache[string, int]).Count()) }},
			{"MapToCache", func(i any, r *SplitMix) {
				i.(*cache.Cache[string, int]).MapToCache(map[string]int{"k1": 1, "k9": 2}, cache.NoExpiration)
			}},
			{"IsExpired", func(i any, r *SplitMix) { _ = i.(*cache.Cache[string, int]).IsExpired(ck[r.Intn(3)]) }},
		},
		sanity: func(i any) {
			c := i.(*cache.Cache[string, int])
			c.Update("zz", 1, cache.NoExpiration)
			c.Get("zz")
			c.Count()
			c.Delete("zz")
		},
		close: func(i any) { i.(*cache.Cache[string, int]).VerifStopCleanup() },
	}
	return []ctype{heapT, bstT, trieT, queueT, lqueueT, stackT, lstackT, cacheT}
}

// runScenario runs the given methods concurrently (one goroutine each, `calls` calls per goroutine)
// on a fresh instance; returns "" or a failure description.
var (
	siblingMu sync.Mutex
	siblings  = map[any]*heap.Heap[int]{}
)

// heapSibling returns the second shared heap that belongs to instance i (created on first use).
func heapSibling(i any) *heap.Heap[int] {
	siblingMu.Lock()
	defer siblingMu.Unlock()
	s, ok := siblings[i]
	if !ok {
		s = heap.NewHeap(func(a, b int) bool { return a < b })
		s.Push(2, 4)
		// as large as the instance it belongs to (a long critical section on both sides)
		if n := i.(*heap.Heap[int]).Size(); n > 2 {
			heapRefill(s, n)
		}
		siblings[i] = s
	}
	return s
}

// heapRefill pushes values until the heap holds about n elements again.
func heapRefill(h *heap.Heap[int], n int) {
	if n > 200000 {
		n = 200000
	}
	if k := n - h.Size(); k > 0 {
		vals := make([]int, k)
		for j := range vals {
			vals[j] = (j * 7) % 11
		}
		h.Push(vals...)
	}
}

// rawQueue is a trie.Queuer without any synchronisation (a ring of fixed size, so that a race cannot crash the run).
type rawQueue struct {
	items [256]string
	head  int
	n     int
}

func (q *rawQueue) Enqueue(k string) { q.items[(q.head+q.n)%len(q.items)] = k; q.n++ }
func (q *rawQueue) Dequeue() (string, error) {
	if q.n <= 0 {
		return "", fmt.Errorf("empty")
	}
	k := q.items[q.head%len(q.items)]
	q.head++
	q.n--
	return k, nil
}
func (q *rawQueue) Size() int { return q.n }
func (q *rawQueue) Clear()    { q.head, q.n = 0, 0 }

// scenarioParked: every goroutine running a scenario method (runScenario.func1 on its stack) is blocked on a lock, a
// channel, a condition variable or a wait group -- and there is at least one such goroutine.
func scenarioParked() bool {
	buf := make([]byte, 4<<20)
	n := runtime.Stack(buf, true)
	seen := false
	for _, g := range strings.Split(string(buf[:n]), "\n\n") {
		if !strings.Contains(g, "runScenario.func1") {
			continue
		}
		head, _, _ := strings.Cut(g, "\n")
		blocked := false
		for _, st := range []string{"semacquire", "sync.Mutex.Lock", "sync.RWMutex.RLock", "sync.RWMutex.Lock", "chan send", "chan receive", "select", "sync.Cond.Wait", "sync.WaitGroup.Wait"} {
			if strings.Contains(head, "["+st) {
				blocked = true
			}
		}
		if !blocked {
			return false
		}
		seen = true
	}
	return seen
}

func runScenario(t ctype, ms []method, initial int, calls int, r *SplitMix) string {
	var progress atomic.Int64
	inst := t.mk(initial)
	var wg sync.WaitGroup
	start := make(chan struct{})
	var mu sync.Mutex
	failure := ""
	order := r.Intn(2)
	for gi := range ms {
		idx := gi
		if order == 1 {
			idx = len(ms) - 1 - gi
		}
		m := ms[idx]
		gr := NewSplitMix(r.Next())
		yield := r.Intn(3)
		wg.Add(1)
		go func() {
			defer wg.Done()
			defer func() {
				if p := recover(); p != nil {
					mu.Lock()
					failure = fmt.Sprintf("PANIC in %s: %v", m.name, p)
					mu.Unlock()
				}
			}()
			<-start
			for c := 0; c < calls; c++ {
				if yield == 1 || (yield == 2 && c%2 == 0) {
					runtime.Gosched()
				}
				m.call(inst, gr)
				progress.Add(1)
			}
		}()
	}
	close(start)
	done := make(chan struct{})
	go func() { wg.Wait(); close(done) }()
	// A stall is a STATE, not a time-out (a starved process looks slow, not stuck): it is reported only when, over
	// sixteen consecutive samples a quarter of a second apart, no call has completed AND every scenario goroutine that
	// is still alive is parked on a lock, a channel or a condition (none is running, runnable or sleeping).  A scenario
	// that merely takes long gets no verdict (`slow`, after ten minutes).
	stuck, last := 0, int64(-1)
	deadline := time.Now().Add(10 * time.Minute)
wait:
	for {
		select {
		case <-done:
			break wait
		case <-time.After(250 * time.Millisecond):
			if time.Now().After(deadline) {
				return "" // slow: no verdict
			}
			p := progress.Load()
			if p == last && scenarioParked() {
				stuck++
			} else {
				stuck = 0
			}
			last = p
			if stuck >= 16 {
				return "STALL: no call completes and every goroutine of the scenario is parked on a lock or channel"
			}
		}
	}
	if failure != "" {
		return failure
	}
	// the instance must stay usable
	sdone := make(chan string, 1)
	go func() {
		defer func() {
			if p := recover(); p != nil {
				sdone <- fmt.Sprintf("UNUSABLE: sequential use afterwards panicked: %v", p)
			}
		}()
		t.sanity(inst)
		sdone <- ""
	}()
	select {
	case f := <-sdone:
		if f != "" {
			return f
		}
	case <-time.After(10 * time.Second):
		return "UNUSABLE: sequential use afterwards blocked"
	}
	if t.close != nil {
		t.close(inst)
	}
	return ""
}

func stressMain(args []string) int {
	tier, seed, only := "quick", uint64(1), ""
	onlyMethods, onlyInit, onlyReps := "", 0, 0
	for i := 0; i < len(args); i++ {
		switch args[i] {
		case "-methods":
			i++
			onlyMethods = args[i]
		case "-init":
			i++
			fmt.Sscan(args[i], &onlyInit)
		case "-reps":
			i++
			fmt.Sscan(args[i], &onlyReps)
		case "-tier":
			i++
			tier = args[i]
		case "-seed":
			i++
			fmt.Sscan(args[i], &seed)
		case "-only":
			i++
			only = args[i]
		}
	}
	r := NewSplitMix(seed*0x9E3779B97F4A7C15 + 12345)
	reps, calls := 6, 30
	if tier == "thorough" {
		reps, calls = 25, 60
	}
	n := 0
	fails := 0
	emit := func(t ctype, ms []method, initial, rep int) {
		var names []string
		for _, m := range ms {
			names = append(names, m.name)
		}
		n++
		fmt.Printf("SCEN %d %s %s init=%d rep=%d\n", n, t.name, strings.Join(names, ","), initial, rep)
		os.Stdout.Sync()
		runtime.GOMAXPROCS(1 + r.Intn(8))
		if f := runScenario(t, ms, initial, calls, r); f != "" {
			fmt.Printf("FAIL %d %s\n", n, f)
			os.Stdout.Sync()
			fails++
		}
	}
	for _, t := range stressTypes() {
		if only != "" && t.name != only {
			continue
		}
		// every exported method is registered? (checked by the orchestrator against the translator's table)
		if onlyMethods != "" { // replay of one scenario
			var ms []method
			for _, nm := range strings.Split(onlyMethods, ",") {
				for _, m := range t.methods {
					if m.name == nm {
						ms = append(ms, m)
					}
				}
			}
			for rep := 0; rep < onlyReps; rep++ {
				emit(t, ms, onlyInit, rep)
			}
			continue
		}
		var reg []string
		for _, m := range t.methods {
			reg = append(reg, m.name)
		}
		sort.Strings(reg)
		fmt.Printf("METHODS %s %s\n", t.name, strings.Join(reg, ","))
		for i := 0; i < len(t.methods); i++ {
			for j := i; j < len(t.methods); j++ {
				inits := []int{0, 1, 3, 6}
				for _, s := range extraSizes() { // thresholds a change introduced into the source
					if s <= 20000 {
						inits = append(inits, s+1)
					}
				}
				for _, initial := range inits {
					for rep := 0; rep < reps; rep++ {
						emit(t, []method{t.methods[i], t.methods[j]}, initial, rep)
					}
				}
			}
		}
		if t.name == "heap.Heap" {
			// four parties on two shared heaps: cross merges and a writer on each
			var four []method
			for _, nm := range []string{"MergeSibling", "SiblingMerge", "Push", "PushSibling"} {
				for _, m := range t.methods {
					if m.name == nm {
						four = append(four, m)
					}
				}
			}
			for _, initial := range []int{1, 6} {
				for rep := 0; rep < 3*reps; rep++ {
					emit(t, four, initial, rep)
				}
			}
			// melds in opposite directions on two large shared heaps (each side holds its first lock for a long
			// time), alone and next to the cross merges
			var melds, six []method
			for _, nm := range []string{"MeldSibling", "SiblingMeld"} {
				for _, m := range t.methods {
					if m.name == nm {
						melds = append(melds, m)
					}
				}
			}
			six = append(append(six, melds...), four...)
			for _, initial := range []int{6, 20000} {
				n := reps
				if initial > 100 {
					n = (reps + 2) / 3
				}
				for rep := 0; rep < n; rep++ {
					emit(t, melds, initial, rep)
					emit(t, six, initial, rep)
				}
			}
		}
		if tier == "thorough" {
			// triples and long random mixes
			for k := 0; k < 300; k++ {
				ms := []method{t.methods[r.Intn(len(t.methods))], t.methods[r.Intn(len(t.methods))], t.methods[r.Intn(len(t.methods))]}
				emit(t, ms, r.Intn(7), k)
			}
			for k := 0; k < 60; k++ {
				var ms []method
				for g := 0; g < 4+r.Intn(5); g++ {
					ms = append(ms, t.methods[r.Intn(len(t.methods))])
				}
				emit(t, ms, r.Intn(7), k)
			}
		}
	}
	fmt.Printf("STRESSDONE scenarios=%d failures=%d\n", n, fails)
	if fails > 0 {
		return 1
	}
	return 0
}
