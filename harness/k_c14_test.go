package main

import (
	"sort"
	"strings"

	"github.com/esimov/gogu"
)

// ---- C14: map helpers (map.go, filter.go) -----------------------------------------------------------
//
// Protocol of kind `c14` (one stateless call per line; CASE parameter = seed of the insertion orders):
//
//	keys M => [k..] (sorted)                 values M => [v..] (sorted)
//	pick M KS => MAP ok|err                  omit M KS => MAP          pickomit M KS => MAP MAP
//	pickby M qI => MAP                       omitby M qI => MAP        pickomitby M qI => MAP MAP
//	filtermap M pI => MAP                    filteromit M pI => MAP MAP   (FilterMap p / OmitBy (_,v)->p v)
//	mapvalues M fI => MAP                    mapkeys M gI => MAP       invert M => MAP
//	find M pI => MAP                         findkey M pI => k         findbykey M pI => MAP
//	mapunique M => MAP                       mapevery|mapsome M pI => T|F    mapcontains M v => T|F
//	pluck [M..] k => [v..]                   slicetomap KS VS => MAP | panic
//	filtermapcoll [M..] pI => [M..]          filter2d [MM..] mI => [MM..]
//	partitionmap [M..] mI => [M..] [M..]
//
// MAP = `[[k,v],..]` sorted by key (`nil` is accepted as an argument: the nil map / nil slice);
// MM = `[[k,MAP],..]` sorted by key.  Every call gets a FRESH map built by inserting the entries in
// an order drawn from the case's PRNG (Go then adds its own random iteration start), so that the
// helpers see many iteration orders.  Everything that came out of a map is sorted before printing.

// callback families (identical in Lean: Kinds/C14.lean)
// namedKey: a named type whose underlying type is int
type namedKey int

func c14P(i string) func(int) bool { return ft1(c14P0(i)) }

func c14P0(i string) func(int) bool {
	switch i {
	case "p0":
		return func(x int) bool { return x%2 == 0 }
	case "p1":
		return func(x int) bool { return x > 1 }
	case "p2":
		return func(x int) bool { return true }
	case "p3":
		return func(x int) bool { return false }
	case "p4":
		return func(x int) bool { return x == 2 }
	case "p5":
		return func(x int) bool { return x < 0 }
	}
	panic("harness: bad predicate " + i)
}

func c14F(i string) func(int) int { return ft1(c14F0(i)) }

func c14F0(i string) func(int) int {
	switch i {
	case "f0":
		return func(x int) int { return x }
	case "f1":
		return func(x int) int { return x % 2 }
	case "f2":
		return func(x int) int { return x / 2 }
	case "f3":
		return func(x int) int { return 0 }
	case "f4":
		return func(x int) int { return -x }
	case "f5":
		return func(x int) int { return x * x }
	}
	panic("harness: bad key function " + i)
}

// predicates on (key, value)
func c14Q(i string) func(int, int) bool { return ft2(c14Q0(i)) }

func c14Q0(i string) func(int, int) bool {
	switch i {
	case "q0":
		return func(k, v int) bool { return k%2 == 0 }
	case "q1":
		return func(k, v int) bool { return v > 1 }
	case "q2":
		return func(k, v int) bool { return true }
	case "q3":
		return func(k, v int) bool { return false }
	case "q4":
		return func(k, v int) bool { return k == v }
	case "q5":
		return func(k, v int) bool { return k < v }
	}
	panic("harness: bad kv predicate " + i)
}

// key transformations (key, value) -> new key
func c14G(i string) func(int, int) int { return ft2(c14G0(i)) }

func c14G0(i string) func(int, int) int {
	switch i {
	case "g0":
		return func(k, v int) int { return k }
	case "g1":
		return func(k, v int) int { return k % 2 }
	case "g2":
		return func(k, v int) int { return k / 2 }
	case "g3":
		return func(k, v int) int { return 0 }
	case "g4":
		return func(k, v int) int { return k + v }
	case "g5":
		return func(k, v int) int { return v }
	}
	panic("harness: bad kv function " + i)
}

// predicates on a whole map (all independent of the iteration order)
func c14M(i string) func(map[int]int) bool { return ft1(c14M0(i)) }

func c14M0(i string) func(map[int]int) bool {
	switch i {
	case "m0":
		return func(m map[int]int) bool { return len(m) >= 2 }
	case "m1":
		return func(m map[int]int) bool { _, ok := m[1]; return ok }
	case "m2":
		return func(m map[int]int) bool { return true }
	case "m3":
		return func(m map[int]int) bool { return false }
	case "m4":
		return func(m map[int]int) bool {
			for _, v := range m {
				if v == 2 {
					return true
				}
			}
			return false
		}
	case "m5":
		return func(m map[int]int) bool {
			s := 0
			for _, v := range m {
				s += v
			}
			return s > 2
		}
	}
	panic("harness: bad map predicate " + i)
}

type c14Runner struct{ rng *SplitMix }

// c14Pairs parses `[[k,v],..]`; ok=false for `nil`.
func c14Pairs(tok string) (pairs [][2]int, notNil bool) {
	if tok == "nil" {
		return nil, false
	}
	for _, e := range parseList(tok) {
		kv := parseInts(e)
		if len(kv) != 2 {
			panic("harness: bad map entry " + e)
		}
		pairs = append(pairs, [2]int{kv[0], kv[1]})
	}
	return pairs, true
}

// mkMap builds a fresh map, inserting in a PRNG-chosen order.
func (r *c14Runner) mkMap(tok string) map[int]int {
	pairs, notNil := c14Pairs(tok)
	if !notNil {
		return nil
	}
	r.shuffle(len(pairs), func(i, j int) { pairs[i], pairs[j] = pairs[j], pairs[i] })
	m := make(map[int]int)
	for _, p := range pairs {
		m[p[0]] = p[1]
	}
	return m
}

func (r *c14Runner) shuffle(n int, swap func(i, j int)) {
	for i := n - 1; i > 0; i-- {
		swap(i, r.rng.Intn(i+1))
	}
}

func (r *c14Runner) mkColl(tok string) []map[int]int {
	if tok == "nil" {
		return nil
	}
	out := []map[int]int{}
	for _, e := range parseList(tok) {
		out = append(out, r.mkMap(e))
	}
	return out
}

func (r *c14Runner) mkMap2(tok string) map[int]map[int]int {
	if tok == "nil" {
		return nil
	}
	type ent struct {
		k int
		m string
	}
	var es []ent
	for _, e := range parseList(tok) {
		parts := parseList(e)
		if len(parts) != 2 {
			panic("harness: bad 2d entry " + e)
		}
		es = append(es, ent{atoi(parts[0]), parts[1]})
	}
	r.shuffle(len(es), func(i, j int) { es[i], es[j] = es[j], es[i] })
	m := make(map[int]map[int]int)
	for _, e := range es {
		m[e.k] = r.mkMap(e.m)
	}
	return m
}

func c14Ints(tok string) []int {
	if tok == "nil" {
		return nil
	}
	return parseInts(tok)
}

func showMap(m map[int]int) string {
	ks := make([]int, 0, len(m))
	for k := range m {
		ks = append(ks, k)
	}
	sort.Ints(ks)
	var sb strings.Builder
	sb.WriteByte('[')
	for i, k := range ks {
		if i > 0 {
			sb.WriteByte(',')
		}
		sb.WriteByte('[')
		sb.WriteString(itoa(k))
		sb.WriteByte(',')
		sb.WriteString(itoa(m[k]))
		sb.WriteByte(']')
	}
	sb.WriteByte(']')
	return sb.String()
}

func showColl(c []map[int]int) string {
	items := make([]string, len(c))
	for i, m := range c {
		items[i] = showMap(m)
	}
	return plist(items)
}

func showMap2(m map[int]map[int]int) string {
	ks := make([]int, 0, len(m))
	for k := range m {
		ks = append(ks, k)
	}
	sort.Ints(ks)
	items := make([]string, len(ks))
	for i, k := range ks {
		items[i] = "[" + itoa(k) + "," + showMap(m[k]) + "]"
	}
	return plist(items)
}

func (r *c14Runner) Do(op []string) string {
	switch op[0] {
	case "keys":
		return ints(sortedInts(gogu.Keys(r.mkMap(op[1]))))
	case "values":
		return ints(sortedInts(gogu.Values(r.mkMap(op[1]))))
	case "pick":
		res, err := gogu.Pick(r.mkMap(op[1]), c14Ints(op[2])...)
		return showMap(res) + " " + errs(err)
	case "omit":
		return showMap(gogu.Omit(r.mkMap(op[1]), c14Ints(op[2])...))
	case "pickomit":
		p, _ := gogu.Pick(r.mkMap(op[1]), c14Ints(op[2])...)
		o := gogu.Omit(r.mkMap(op[1]), c14Ints(op[2])...)
		return showMap(p) + " " + showMap(o)
	case "pickby":
		return showMap(gogu.PickBy(r.mkMap(op[1]), c14Q(op[2])))
	case "omitby":
		return showMap(gogu.OmitBy(r.mkMap(op[1]), c14Q(op[2])))
	case "pickomitby":
		p := gogu.PickBy(r.mkMap(op[1]), c14Q(op[2]))
		o := gogu.OmitBy(r.mkMap(op[1]), c14Q(op[2]))
		return showMap(p) + " " + showMap(o)
	case "filtermap":
		return showMap(gogu.FilterMap(r.mkMap(op[1]), c14P(op[2])))
	case "filteromit":
		p := c14P(op[2])
		f := gogu.FilterMap(r.mkMap(op[1]), p)
		o := gogu.OmitBy(r.mkMap(op[1]), func(_ int, v int) bool { return p(v) })
		return showMap(f) + " " + showMap(o)
	case "mapvalues":
		return showMap(gogu.MapValues(r.mkMap(op[1]), c14F(op[2])))
	case "mapkeys":
		return showMap(gogu.MapKeys(r.mkMap(op[1]), c14G(op[2])))
	case "invert":
		return showMap(gogu.Invert(r.mkMap(op[1])))
	case "invertany", "mapuniqueany":
		// the same helpers instantiated with V = any: value 2k becomes the string "2k+1", value 2k+1 stays an int,
		// so distinct values can print alike (fmt) while they differ under ==; the answer is decoded back
		m := r.mkMap(op[1])
		var ma map[int]any
		if m != nil {
			ma = make(map[int]any, len(m))
			for k, v := range m {
				ma[k] = encAny(v)
			}
		}
		out := map[int]int{}
		if op[0] == "invertany" {
			for v, k := range gogu.Invert(ma) {
				out[decAny(v)] = k
			}
		} else {
			for k, v := range gogu.MapUnique(ma) {
				out[k] = decAny(v)
			}
		}
		return showMap(out)
	case "find":
		return showMap(gogu.Find(r.mkMap(op[1]), c14P(op[2])))
	case "find@named", "findbykey@named": // maps keyed by a NAMED int type
		src := r.mkMap(op[1])
		var nm map[namedKey]int
		if src != nil {
			nm = make(map[namedKey]int, len(src))
			for k, v := range src {
				nm[namedKey(k)] = v
			}
		}
		var res map[namedKey]int
		if op[0] == "find@named" {
			res = gogu.Find(nm, c14P(op[2]))
		} else {
			p := c14P(op[2])
			res = gogu.FindByKey(nm, func(k namedKey) bool { return p(int(k)) })
		}
		var out map[int]int
		if res != nil {
			out = make(map[int]int, len(res))
			for k, v := range res {
				out[int(k)] = v
			}
		}
		return showMap(out)
	case "findkey":
		return itoa(gogu.FindKey(r.mkMap(op[1]), c14P(op[2])))
	case "findbykey":
		return showMap(gogu.FindByKey(r.mkMap(op[1]), c14P(op[2])))
	case "mapunique":
		return showMap(gogu.MapUnique(r.mkMap(op[1])))
	case "mapevery":
		return b2s(gogu.MapEvery(r.mkMap(op[1]), c14P(op[2])))
	case "mapsome":
		return b2s(gogu.MapSome(r.mkMap(op[1]), c14P(op[2])))
	case "mapcontains":
		return b2s(gogu.MapContains(r.mkMap(op[1]), atoi(op[2])))
	case "mapcontainsptr":
		// MapContains on a map whose VALUES ARE POINTERS (each to its own int): equality of values is pointer identity.
		// <a pointer to a fresh int equal to v is contained (never)> <the pointer stored for some entry of value v is>
		src := r.mkMap(op[1])
		v := atoi(op[2])
		pm := make(map[int]*int, len(src))
		var stored *int
		for k, x := range src {
			x := x
			pm[k] = &x
			if x == v {
				stored = pm[k]
			}
		}
		fresh := v
		b1 := gogu.MapContains(pm, &fresh)
		b2 := stored != nil && gogu.MapContains(pm, stored)
		return b2s(b1) + " " + b2s(b2)
	case "pluck":
		return ints(gogu.Pluck(r.mkColl(op[1]), atoi(op[2])))
	case "slicetomap":
		return showMap(gogu.SliceToMap(c14Ints(op[1]), c14Ints(op[2])))
	case "filtermapcoll":
		return showColl(gogu.FilterMapCollection(r.mkColl(op[1]), c14P(op[2])))
	case "filter2d":
		var coll []map[int]map[int]int
		if op[1] != "nil" {
			coll = []map[int]map[int]int{}
			for _, e := range parseList(op[1]) {
				coll = append(coll, r.mkMap2(e))
			}
		}
		res := gogu.Filter2DMapCollection(coll, c14M(op[2]))
		items := make([]string, len(res))
		for i, m := range res {
			items[i] = showMap2(m)
		}
		return plist(items)
	case "partitionmap":
		res := gogu.PartitionMap(r.mkColl(op[1]), c14M(op[2]))
		return showColl(res[0]) + " " + showColl(res[1])
	}
	panic("harness: bad op " + op[0])
}

func init() {
	kinds["c14"] = func(p []string) Runner {
		seed := uint64(0)
		if len(p) > 0 {
			seed = uint64(atoi(p[0]))
		}
		return &c14Runner{rng: NewSplitMix(seed*0x9E3779B97F4A7C15 + 14)}
	}
	gens["C14"] = genC14
}

// ---- generators ------------------------------------------------------------------------------------

func pairsTok(p [][2]int) string {
	items := make([]string, len(p))
	for i, e := range p {
		items[i] = "[" + itoa(e[0]) + "," + itoa(e[1]) + "]"
	}
	return plist(items)
}

// allMaps enumerates every map with at most maxEntries entries over keys x vals (entries sorted by key).
func allMaps(keys, vals []int, maxEntries int, f func([][2]int)) {
	cur := [][2]int{}
	var rec func(i int)
	rec = func(i int) {
		if i == len(keys) {
			f(cur)
			return
		}
		rec(i + 1) // key absent
		if len(cur) < maxEntries {
			for _, v := range vals {
				cur = append(cur, [2]int{keys[i], v})
				rec(i + 1)
				cur = cur[:len(cur)-1]
			}
		}
	}
	rec(0)
}

var c14Preds = []string{"p0", "p1", "p2", "p3", "p4", "p5"}
var c14Fs = []string{"f0", "f1", "f2", "f3", "f4", "f5"}
var c14Qs = []string{"q0", "q1", "q2", "q3", "q4", "q5"}
var c14Gs = []string{"g0", "g1", "g2", "g3", "g4", "g5"}
var c14Ms = []string{"m0", "m1", "m2", "m3", "m4", "m5"}

// c14MapOps: every single-map helper applied to one map; `reps` repetitions (fresh insertion order
// each) for the helpers whose answer may depend on the iteration order.
func c14MapOps(m string, keyLists []string, probeVals []int, reps int) []string {
	ops := []string{"keys " + m, "values " + m}
	for _, ks := range keyLists {
		ops = append(ops, "pick "+m+" "+ks, "omit "+m+" "+ks, "pickomit "+m+" "+ks)
	}
	for _, q := range c14Qs {
		ops = append(ops, "pickby "+m+" "+q, "omitby "+m+" "+q, "pickomitby "+m+" "+q)
	}
	for _, p := range c14Preds {
		ops = append(ops, "filtermap "+m+" "+p, "filteromit "+m+" "+p, "find "+m+" "+p, "find@named "+m+" "+p, "findbykey@named "+m+" "+p,
			"mapevery "+m+" "+p, "mapsome "+m+" "+p)
	}
	for _, f := range c14Fs {
		ops = append(ops, "mapvalues "+m+" "+f)
	}
	for _, v := range probeVals {
		ops = append(ops, "mapcontains "+m+" "+itoa(v), "mapcontainsptr "+m+" "+itoa(v))
	}
	for rep := 0; rep < reps; rep++ {
		for _, g := range c14Gs {
			ops = append(ops, "mapkeys "+m+" "+g)
		}
		for _, p := range c14Preds {
			ops = append(ops, "findkey "+m+" "+p, "findbykey "+m+" "+p)
		}
		ops = append(ops, "invert "+m, "mapunique "+m)
		if m != "nil" && rep == 0 {
			ops = append(ops, "invertany "+m, "mapuniqueany "+m)
		}
	}
	return ops
}

func genC14(g *Gen) {
	caseNo := 0
	emit := func(ops []string) {
		caseNo++
		g.Emit("c14", []string{itoa(int(g.Seed%1000)*100000 + caseNo)}, ops)
	}

	// 1. exhaustive: every map of the scope x every key list x every callback
	type scope struct {
		keys, vals []int
		maxEntries int
		klLen      int
	}
	scopes := []scope{
		{[]int{0, 1, 2, 3}, []int{0, 1, 2}, 4, 3},
		{[]int{0, 1, 2, 3}, []int{-2, 1, 3}, 4, 2},
	}
	if g.Thorough() {
		scopes = []scope{
			{[]int{0, 1, 2, 3, 4}, []int{-2, 0, 1, 2}, 5, 4},
			{[]int{-1, 0, 2, 3}, []int{1, 2, 3}, 4, 3},
		}
	}
	for _, sc := range scopes {
		var keyLists []string
		allSlices(sc.keys, sc.klLen, func(s []int) { keyLists = append(keyLists, ints(s)) })
		probe := append([]int{}, sc.vals...)
		probe = append(probe, 7)
		allMaps(sc.keys, sc.vals, sc.maxEntries, func(p [][2]int) {
			if !g.Mine() {
				return
			}
			emit(c14MapOps(pairsTok(p), keyLists, probe, 3))
		})
	}

	// 2. exhaustive: collections of small maps (Pluck, FilterMapCollection, PartitionMap)
	{
		ckeys, cvals, clen := []int{0, 1}, []int{0, 1, 2}, 3
		if g.Thorough() {
			ckeys = []int{0, 1, 2}
		}
		var small []string
		allMaps(ckeys, cvals, len(ckeys), func(p [][2]int) { small = append(small, pairsTok(p)) })
		var ops []string
		seqsUpTo(small, clen, func(s []string) {
			c := plist(s)
			for _, k := range append(append([]int{}, ckeys...), 5) {
				ops = append(ops, "pluck "+c+" "+itoa(k))
			}
			for _, p := range c14Preds {
				ops = append(ops, "filtermapcoll "+c+" "+p)
			}
			for _, m := range c14Ms {
				ops = append(ops, "partitionmap "+c+" "+m)
			}
			if len(ops) >= 300 {
				if g.Mine() {
					emit(ops)
				}
				ops = nil
			}
		})
		if len(ops) > 0 && g.Mine() {
			emit(ops)
		}
	}

	// 3. exhaustive: two-dimensional collections (Filter2DMapCollection)
	{
		ivals := []int{1, 2}
		if g.Thorough() {
			ivals = []int{0, 1, 2}
		}
		var inner []string
		allMaps([]int{0, 1}, ivals, 2, func(p [][2]int) { inner = append(inner, pairsTok(p)) })
		var outer []string
		for _, a := range append([]string{""}, inner...) {
			for _, b := range append([]string{""}, inner...) {
				var es []string
				if a != "" {
					es = append(es, "[0,"+a+"]")
				}
				if b != "" {
					es = append(es, "[1,"+b+"]")
				}
				outer = append(outer, plist(es))
			}
		}
		var ops []string
		seqsUpTo(outer, 2, func(s []string) {
			c := plist(s)
			for _, m := range c14Ms {
				ops = append(ops, "filter2d "+c+" "+m)
			}
			if len(ops) >= 300 {
				if g.Mine() {
					emit(ops)
				}
				ops = nil
			}
		})
		if len(ops) > 0 && g.Mine() {
			emit(ops)
		}
	}

	// 4. exhaustive: SliceToMap on equal lengths (keys repeat: last wins)
	{
		maxLen := 4
		if g.Thorough() {
			maxLen = 5
		}
		var ops []string
		allSlices([]int{0, 1, 2}, maxLen, func(ks []int) {
			kt := ints(ks)
			n := len(ks)
			cur := make([]int, n)
			var rec func(i int)
			rec = func(i int) {
				if i == n {
					ops = append(ops, "slicetomap "+kt+" "+ints(cur))
					return
				}
				for _, v := range []int{0, 1, 2} {
					cur[i] = v
					rec(i + 1)
				}
			}
			rec(0)
			if len(ops) >= 300 {
				if g.Mine() {
					emit(ops)
				}
				ops = nil
			}
		})
		if len(ops) > 0 && g.Mine() {
			emit(ops)
		}
	}

	// 5. malformed / edge stream: nil maps and slices, no keys, unequal lengths (a deliberate panic
	// ends its case, so each unequal-length call is a case of its own)
	if g.Mine() {
		ops := c14MapOps("nil", []string{"[]", "nil", "[0]", "[0,0]"}, []int{0, 1}, 1)
		ops = append(ops, c14MapOps("[]", []string{"[]", "nil", "[0]"}, []int{0}, 1)...)
		ops = append(ops, c14MapOps("[[0,0]]", []string{"[]", "nil", "[0]", "[1]", "[0,0,0]"}, []int{0, 1}, 2)...)
		for _, c := range []string{"nil", "[]", "[nil]", "[[]]", "[nil,[],[[0,0]],nil]", "[[[0,0]],[[0,0],[1,0]],[[1,2]]]"} {
			ops = append(ops, "pluck "+c+" 0", "pluck "+c+" 1")
			for _, p := range c14Preds {
				ops = append(ops, "filtermapcoll "+c+" "+p)
			}
			for _, m := range c14Ms {
				ops = append(ops, "partitionmap "+c+" "+m)
			}
		}
		for _, c := range []string{"nil", "[]", "[nil]", "[[]]", "[[[0,nil]]]", "[[[0,[]]],[[0,[[0,2]]],[1,[[0,2],[1,2]]]],nil]"} {
			for _, m := range c14Ms {
				ops = append(ops, "filter2d "+c+" "+m)
			}
		}
		ops = append(ops, "slicetomap nil nil", "slicetomap [] nil", "slicetomap nil []", "slicetomap [] []",
			"slicetomap [0,0,0] [1,2,3]")
		emit(ops)
	}
	for a := 0; a <= 4; a++ {
		for b := 0; b <= 4; b++ {
			if a == b || !g.Mine() {
				continue
			}
			ks, vs := make([]int, a), make([]int, b)
			for i := range ks {
				ks[i] = i % 2
			}
			for i := range vs {
				vs[i] = i + 1
			}
			kt, vt := ints(ks), ints(vs)
			if a == 0 && b%2 == 0 {
				kt = "nil"
			}
			if b == 0 && a%2 == 0 {
				vt = "nil"
			}
			emit([]string{"slicetomap [1,2] [3,4]", "slicetomap " + kt + " " + vt})
		}
	}

	// 6. seeded random: larger maps, wider keys and values, longer key lists and collections
	rng := g.Rng("c14-random")
	nCases := 300
	if g.Thorough() {
		nCases = 1500
	}
	randMap := func(maxN, keyLo, keyHi int) string {
		n := rng.Intn(maxN + 1)
		seen := map[int]bool{}
		var p [][2]int
		for i := 0; i < n; i++ {
			k := rng.Range(keyLo, keyHi)
			if seen[k] {
				continue
			}
			seen[k] = true
			v := rng.Range(-5, 9)
			if rng.Intn(3) == 0 { // repeated values: collisions for Invert / MapUnique
				v = rng.Range(0, 2)
			}
			p = append(p, [2]int{k, v})
		}
		sort.Slice(p, func(i, j int) bool { return p[i][0] < p[j][0] })
		return pairsTok(p)
	}
	// big maps (sizes incl. thresholds a change introduced into the source)
	for li, n := range longLens(g.Thorough()) {
		if n > 5000 || !g.Mine() {
			continue
		}
		var p [][2]int
		for i := 0; i < n; i++ {
			p = append(p, [2]int{i*3 - 40, (i*i+li)%11 - 2})
		}
		emit(c14MapOps(pairsTok(p), []string{ints([]int{-40, -37, 5, 1000000}), ints(nil), ints([]int{2, 8, 11})}, []int{3, -9}, 1))
	}
	for c := 0; c < nCases; c++ {
		var ops []string
		for i := 0; i < 4; i++ {
			maxN := 12
			if i == 0 {
				maxN = 5 // small enough for the existential comparison over iteration orders
			}
			keyHi := 20
			if i == 3 { // larger maps (beyond the small-size fast paths of the sort package, map growth steps)
				maxN, keyHi = []int{30, 70, 140}[c%3], 200
			}
			m := randMap(maxN, -8, keyHi)
			var keyLists []string
			for j := 0; j < 4; j++ {
				kl := make([]int, rng.Intn(7))
				for x := range kl {
					kl[x] = rng.Range(-8, 20)
				}
				keyLists = append(keyLists, ints(kl))
			}
			ops = append(ops, c14MapOps(m, keyLists, []int{rng.Range(-5, 9), rng.Range(0, 2)}, 2)...)
		}
		for i := 0; i < 6; i++ {
			n := rng.Intn(7)
			ms := make([]string, n)
			for j := range ms {
				ms[j] = randMap(5, 0, 5)
			}
			c := plist(ms)
			ops = append(ops, "pluck "+c+" "+itoa(rng.Range(0, 5)))
			ops = append(ops, "filtermapcoll "+c+" "+c14Preds[rng.Intn(6)])
			ops = append(ops, "partitionmap "+c+" "+c14Ms[rng.Intn(6)])
			// 2-d collection
			n2 := rng.Intn(5)
			mm := make([]string, n2)
			for j := range mm {
				var es []string
				for k := 0; k < 4; k++ {
					if rng.Intn(2) == 0 {
						es = append(es, "["+itoa(k)+","+randMap(4, 0, 4)+"]")
					}
				}
				mm[j] = plist(es)
			}
			ops = append(ops, "filter2d "+plist(mm)+" "+c14Ms[rng.Intn(6)])
			// SliceToMap, equal lengths
			l := rng.Intn(9)
			ks, vs := make([]int, l), make([]int, l)
			for x := 0; x < l; x++ {
				ks[x], vs[x] = rng.Range(-3, 6), rng.Range(-5, 9)
			}
			ops = append(ops, "slicetomap "+ints(ks)+" "+ints(vs))
		}
		if rng.Intn(4) == 0 { // a deliberate panic closes the case
			a, b := rng.Intn(6), rng.Intn(6)
			if a == b {
				b++
			}
			ks, vs := make([]int, a), make([]int, b)
			for x := range ks {
				ks[x] = rng.Range(-3, 6)
			}
			for x := range vs {
				vs[x] = rng.Range(-5, 9)
			}
			ops = append(ops, "slicetomap "+ints(ks)+" "+ints(vs))
		}
		emit(ops)
	}
}
